//! A user-defined region that meets the crate's `Region` contract and hands out dense pair indices
//! of arbitrary WIDTH without storing anything: pushing `w` returns `(end, end + w)`, reading
//! `(a, b)` gives back `b - a`.  `ConsecutiveIndexPairs<SpanRegion, O>` and a `FlatStack` over it
//! therefore see offsets beyond `u32::MAX` after two or three pushes (C12 / C03 with offsets that
//! would otherwise need gigabytes of payload).  Implementation-side oracle only: the Coq model keeps
//! offsets as unary naturals and cannot run such histories; `consec_ok` covers them abstractly
//! (`Dense` holds for this region by construction).
use crate::wire::U;
use flatcontainer::impls::deduplicate::ConsecutiveIndexPairs;
use flatcontainer::impls::index::{IndexList, IndexOptimized};
use flatcontainer::{FlatStack, Push, Region};
use std::panic::{catch_unwind, AssertUnwindSafe};

#[derive(Default, Clone, Debug)]
pub struct SpanRegion {
    end: usize,
}
impl Region for SpanRegion {
    type Owned = usize;
    type ReadItem<'a> = usize;
    type Index = (usize, usize);
    fn merge_regions<'a>(_regions: impl Iterator<Item = &'a Self> + Clone) -> Self
    where
        Self: 'a,
    {
        Self::default()
    }
    fn index(&self, (a, b): (usize, usize)) -> usize {
        assert!(a <= b && b <= self.end, "span index out of range");
        b - a
    }
    fn reserve_regions<'a, I>(&mut self, _regions: I)
    where
        Self: 'a,
        I: Iterator<Item = &'a Self> + Clone,
    {
    }
    fn clear(&mut self) {
        self.end = 0;
    }
    fn heap_size<F: FnMut(usize, usize)>(&self, _callback: F) {}
    fn reborrow<'b, 'a: 'b>(item: usize) -> usize
    where
        Self: 'a,
    {
        item
    }
}
impl Push<usize> for SpanRegion {
    fn push(&mut self, w: usize) -> (usize, usize) {
        let s = self.end;
        self.end = s.checked_add(w).expect("span overflow");
        (s, self.end)
    }
}
impl<'a> Push<&'a usize> for SpanRegion {
    fn push(&mut self, w: &'a usize) -> (usize, usize) {
        <Self as Push<usize>>::push(self, *w)
    }
}

fn caught<T>(f: impl FnOnce() -> T) -> Option<T> {
    catch_unwind(AssertUnwindSafe(f)).ok()
}

/// ops: hex width = push, "c" = clear, "m" = replace by merge_regions([self]); output per op: the
/// returned index (push) or N; at the end L[reads of all indices issued since the last reset]
fn run_consec<O>(ops: &[&str]) -> Vec<U>
where
    O: flatcontainer::impls::index::IndexContainer<usize>,
    ConsecutiveIndexPairs<SpanRegion, O>: Region<Index = usize> + Push<usize>,
    for<'a> <ConsecutiveIndexPairs<SpanRegion, O> as Region>::ReadItem<'a>: Into<usize>,
{
    let mut r = ConsecutiveIndexPairs::<SpanRegion, O>::default();
    let mut issued: Vec<usize> = vec![];
    let mut out = vec![];
    for op in ops {
        match *op {
            "c" => {
                r.clear();
                issued.clear();
                out.push(U::None)
            }
            "m" => {
                let n = <ConsecutiveIndexPairs<SpanRegion, O> as Region>::merge_regions(std::iter::once(&r));
                r = n;
                issued.clear();
                out.push(U::None)
            }
            w => {
                let w = usize::from_str_radix(w, 16).expect("width");
                match caught(|| r.push(w)) {
                    Some(i) => {
                        issued.push(i);
                        out.push(U::nat(i))
                    }
                    None => {
                        out.push(U::L(vec![U::N(98)]));
                        return out;
                    }
                }
            }
        }
    }
    let reads: Vec<U> = issued
        .iter()
        .map(|i| match caught(|| r.index(*i).into()) {
            Some(v) => U::Some(Box::new(U::nat(v))),
            None => U::None,
        })
        .collect();
    out.push(U::L(reads));
    out
}

/// the same widths copied into FlatStack<ConsecutiveIndexPairs<SpanRegion>, S>: len and get(i)
fn run_stack<S>(ops: &[&str]) -> Vec<U>
where
    S: flatcontainer::impls::index::IndexContainer<usize>,
{
    let mut fs = FlatStack::<ConsecutiveIndexPairs<SpanRegion, IndexOptimized>, S>::default();
    let mut n = 0usize;
    let mut out = vec![];
    for op in ops {
        match *op {
            "c" | "m" => {
                fs.clear();
                n = 0;
                out.push(U::None)
            }
            w => {
                let w = usize::from_str_radix(w, 16).expect("width");
                match caught(|| fs.copy(w)) {
                    Some(()) => {
                        n += 1;
                        out.push(U::nat(n - 1))
                    }
                    None => {
                        out.push(U::L(vec![U::N(98)]));
                        return out;
                    }
                }
            }
        }
    }
    let reads: Vec<U> = (0..n)
        .map(|i| match caught(|| fs.get(i)) {
            Some(v) => U::Some(Box::new(U::nat(v))),
            None => U::None,
        })
        .collect();
    out.push(U::L(reads));
    out
}

/// The same unchecked precondition as D8 through another composition that type-checks: a tuple region of two
/// `usize`-indexed regions has `Index = (usize, usize)` too, but its pairs are two unrelated indices, not a dense
/// `(start, end)` range.  ops: hex w = push (w, w + 1); output as for `run_consec`, reads are the first field.
fn run_consec_tuple(ops: &[&str]) -> Vec<U> {
    use flatcontainer::impls::tuple::TupleABRegion;
    use flatcontainer::MirrorRegion;
    let mut r = ConsecutiveIndexPairs::<TupleABRegion<MirrorRegion<usize>, MirrorRegion<usize>>, Vec<usize>>::default();
    let mut issued: Vec<usize> = vec![];
    let mut out = vec![];
    for op in ops {
        match *op {
            "c" | "m" => {
                r.clear();
                issued.clear();
                out.push(U::None)
            }
            w => {
                let w = usize::from_str_radix(w, 16).expect("width");
                match caught(|| r.push((w, w.wrapping_add(1)))) {
                    Some(i) => {
                        issued.push(i);
                        out.push(U::nat(i))
                    }
                    None => {
                        out.push(U::L(vec![U::N(98)]));
                        return out;
                    }
                }
            }
        }
    }
    let reads: Vec<U> = issued
        .iter()
        .map(|i| match caught(|| r.index(*i)) {
            Some((a, b)) if b == a.wrapping_add(1) => U::Some(Box::new(U::nat(a))),
            Some((a, _)) => U::Some(Box::new(U::L(vec![U::nat(a)]))),
            None => U::None,
        })
        .collect();
    out.push(U::L(reads));
    out
}

/// Deterministic probes of three limits of the crate that the property texts, read literally, do not allow for
/// (known findings D15, D16, D17).  Each returns a list of observations the Python side interprets.
fn run_probe(kind: &str) -> Vec<U> {
    use flatcontainer::impls::codec::{CodecRegion, DictionaryCodec};
    use flatcontainer::OwnedRegion;
    match kind {
        // D15: every byte value occurs as a first byte in the source, so no tag is free for the dominating string
        "no_free_tag" => {
            let mut a = <CodecRegion<DictionaryCodec>>::default();
            for b in 0..=255u8 {
                a.push(&[b, 1][..]);
            }
            for _ in 0..10_000 {
                a.push(&b"hello"[..]);
            }
            let mut m = <CodecRegion<DictionaryCodec>>::merge_regions(std::iter::once(&a));
            let i = m.push(&b"hello"[..]);
            let ok = m.index(i) == b"hello";
            vec![U::nat(i.1 - i.0), U::bool(ok)]
        }
        // D16: a dictionary codec over a dictionary-coded backing region
        "nested_codec" => {
            type N = CodecRegion<DictionaryCodec, CodecRegion<DictionaryCodec>>;
            let mut a = N::default();
            for _ in 0..1000 {
                a.push(&b"abc"[..]);
            }
            let mut m = N::merge_regions(std::iter::once(&a));
            match caught(|| m.push(&b"abc"[..])) {
                Some(i) => vec![U::nat(i.1 - i.0), U::bool(m.index(i) == b"abc")],
                None => vec![U::L(vec![U::N(98)])],
            }
        }
        // D17: pre-sizing sums lengths unchecked; two sources of usize::MAX/2+1 zero-sized elements
        "zst_sum" => {
            let n = usize::MAX / 2 + 1;
            let mut a = <OwnedRegion<()>>::default();
            let big: Vec<()> = vec![(); n];
            let i = a.push(&big[..]);
            let len_ok = a.index(i).len() == n;
            let merged = caught(|| <OwnedRegion<()>>::merge_regions([&a, &a].into_iter()));
            let reserved = caught(|| {
                let mut t = <OwnedRegion<()>>::default();
                t.reserve_regions([&a, &a].into_iter());
                t.push(&[(), ()][..])
            });
            vec![
                U::bool(len_ok),
                match merged {
                    Some(mut m) => {
                        let j = m.push(&[(), (), ()][..]);
                        U::nat(m.index(j).len())
                    }
                    None => U::L(vec![U::N(98)]),
                },
                match reserved {
                    Some(j) => U::nat(j.1 - j.0),
                    None => U::L(vec![U::N(98)]),
                },
            ]
        }
        _ => vec![],
    }
}

pub fn run_span(kind: &str, ops: &[&str]) -> Option<Vec<U>> {
    Some(match kind {
        "iopt" => run_consec::<IndexOptimized>(ops),
        "ilist" => run_consec::<IndexList<Vec<u32>, Vec<u64>>>(ops),
        "vec" => run_consec::<Vec<usize>>(ops),
        "fs_iopt" => run_stack::<IndexOptimized>(ops),
        "fs_ilist" => run_stack::<IndexList<Vec<u32>, Vec<u64>>>(ops),
        "con_tup" => run_consec_tuple(ops),
        "no_free_tag" | "nested_codec" | "zst_sum" => run_probe(kind),
        _ => return None,
    })
}
