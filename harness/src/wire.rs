//! Universal wire values: the untyped boundary shared with the extracted Coq model
//! (coq/Model/Wire.v).  Numbers travel in lowercase hex.
//! Syntax: hex | [a,b,..] | N | S(x) | O(x) | E(x)

#[derive(Clone, Debug, PartialEq, Eq)]
pub enum U {
    N(u128),
    L(Vec<U>),
    None,
    Some(Box<U>),
    Ok(Box<U>),
    Err(Box<U>),
}

impl U {
    pub fn show(&self, out: &mut String) {
        use std::fmt::Write;
        match self {
            U::N(n) => {
                let _ = write!(out, "{:x}", n);
            }
            U::L(l) => {
                out.push('[');
                for (i, x) in l.iter().enumerate() {
                    if i > 0 {
                        out.push(',');
                    }
                    x.show(out);
                }
                out.push(']');
            }
            U::None => out.push('N'),
            U::Some(x) => {
                out.push_str("S(");
                x.show(out);
                out.push(')');
            }
            U::Ok(x) => {
                out.push_str("O(");
                x.show(out);
                out.push(')');
            }
            U::Err(x) => {
                out.push_str("E(");
                x.show(out);
                out.push(')');
            }
        }
    }
    pub fn to_string(&self) -> String {
        let mut s = String::new();
        self.show(&mut s);
        s
    }
    pub fn parse(s: &str) -> Result<U, String> {
        let b = s.as_bytes();
        let mut pos = 0;
        let v = parse_at(b, &mut pos)?;
        if pos != b.len() {
            return Err(format!("trailing input in {s}"));
        }
        Ok(v)
    }
    pub fn bool(b: bool) -> U {
        U::N(b as u128)
    }
    pub fn nat(n: usize) -> U {
        U::N(n as u128)
    }
    pub fn pair(a: usize, b: usize) -> U {
        U::L(vec![U::nat(a), U::nat(b)])
    }
    /// observation of a possibly panicking accessor inside a probe (Wire.v: ures)
    pub fn res(r: Option<U>) -> U {
        match r {
            Some(v) => U::Some(Box::new(v)),
            None => U::None,
        }
    }
}

fn parse_at(b: &[u8], pos: &mut usize) -> Result<U, String> {
    let peek = |p: usize| if p < b.len() { b[p] } else { 0 };
    match peek(*pos) {
        b'[' => {
            *pos += 1;
            let mut items = vec![];
            if peek(*pos) == b']' {
                *pos += 1;
                return Ok(U::L(items));
            }
            loop {
                items.push(parse_at(b, pos)?);
                match peek(*pos) {
                    b',' => *pos += 1,
                    b']' => {
                        *pos += 1;
                        return Ok(U::L(items));
                    }
                    _ => return Err("expected , or ]".into()),
                }
            }
        }
        b'N' => {
            *pos += 1;
            Ok(U::None)
        }
        c @ (b'S' | b'O' | b'E') => {
            *pos += 1;
            if peek(*pos) != b'(' {
                return Err("expected (".into());
            }
            *pos += 1;
            let x = Box::new(parse_at(b, pos)?);
            if peek(*pos) != b')' {
                return Err("expected )".into());
            }
            *pos += 1;
            Ok(match c {
                b'S' => U::Some(x),
                b'O' => U::Ok(x),
                _ => U::Err(x),
            })
        }
        _ => {
            let st = *pos;
            while matches!(peek(*pos), b'0'..=b'9' | b'a'..=b'f') {
                *pos += 1;
            }
            if *pos == st {
                return Err(format!("bad uval at {st}"));
            }
            let s = std::str::from_utf8(&b[st..*pos]).unwrap();
            u128::from_str_radix(s, 16).map(U::N).map_err(|e| e.to_string())
        }
    }
}

/// Primitive element types (Wire.v: Elem).
pub trait Elem: Copy + PartialEq + std::fmt::Debug + 'static {
    fn of_u(u: &U) -> Option<Self>;
    fn to_u(&self) -> U;
}
macro_rules! elem_word {
    ($($t:ty),*) => {$(
        impl Elem for $t {
            fn of_u(u: &U) -> Option<Self> {
                match u { U::N(n) => <$t>::try_from(*n).ok(), _ => None }
            }
            fn to_u(&self) -> U { U::N(*self as u128) }
        }
    )*};
}
elem_word!(u8, u16, u32, u64, usize, u128);
/// two's-complement integers travel as their bit pattern (Wire.v: e_bits)
macro_rules! elem_signed {
    ($($t:ty => $u:ty),*) => {$(
        impl Elem for $t {
            fn of_u(u: &U) -> Option<Self> {
                match u { U::N(n) => <$u>::try_from(*n).ok().map(|x| x as $t), _ => None }
            }
            fn to_u(&self) -> U { U::N(*self as $u as u128) }
        }
    )*};
}
elem_signed!(i8 => u8, i16 => u16, i32 => u32, i64 => u64, i128 => u128, isize => usize);
impl Elem for std::num::Wrapping<i32> {
    fn of_u(u: &U) -> Option<Self> {
        i32::of_u(u).map(std::num::Wrapping)
    }
    fn to_u(&self) -> U {
        self.0.to_u()
    }
}
impl Elem for bool {
    fn of_u(u: &U) -> Option<Self> {
        match u { U::N(0) => Some(false), U::N(1) => Some(true), _ => None }
    }
    fn to_u(&self) -> U { U::N(*self as u128) }
}
impl Elem for char {
    fn of_u(u: &U) -> Option<Self> {
        match u { U::N(n) => u32::try_from(*n).ok().and_then(char::from_u32), _ => None }
    }
    fn to_u(&self) -> U { U::N(*self as u128) }
}
impl Elem for f32 {
    fn of_u(u: &U) -> Option<Self> {
        match u { U::N(n) => u32::try_from(*n).ok().map(f32::from_bits), _ => None }
    }
    fn to_u(&self) -> U { U::N(self.to_bits() as u128) }
}
impl Elem for () {
    fn of_u(u: &U) -> Option<Self> {
        match u {
            U::L(l) if l.is_empty() => Some(()),
            _ => None,
        }
    }
    fn to_u(&self) -> U {
        U::L(vec![])
    }
}
impl Elem for f64 {
    fn of_u(u: &U) -> Option<Self> {
        match u {
            U::N(n) => u64::try_from(*n).ok().map(f64::from_bits),
            _ => None,
        }
    }
    fn to_u(&self) -> U {
        U::N(self.to_bits() as u128)
    }
}

pub fn bytes_of_u(u: &U) -> Option<Vec<u8>> {
    match u {
        U::L(l) => l.iter().map(u8::of_u).collect(),
        _ => None,
    }
}
pub fn u_of_bytes(b: &[u8]) -> U {
    U::L(b.iter().map(|x| x.to_u()).collect())
}
