//! String regions whose byte offsets lie around and beyond `u32::MAX` (C04 / C02 with string boundaries at
//! exactly 2^32), reached without gigabytes of payload: the crate's own `OwnedRegion<u8, S>` is generic in
//! its storage, and `Sparse` is a user-defined `Storage<u8>` whose FIRST item may be a virtual prefix of N
//! bytes that are counted but never materialised (and never read).  Everything pushed afterwards is stored
//! for real and read back at its true offset, through the crate's own `StringRegion`,
//! `ConsecutiveIndexPairs`, `IndexOptimized` / `IndexList` and `FlatStack`.  Implementation-side oracle only:
//! the Coq model keeps offsets as unary naturals and cannot run such histories.
use crate::wire::U;
use flatcontainer::impls::deduplicate::ConsecutiveIndexPairs;
use flatcontainer::impls::index::{IndexList, IndexOptimized};
use flatcontainer::impls::storage::{PushStorage, Storage};
use flatcontainer::{FlatStack, OwnedRegion, Push, Region, StringRegion};
use std::cell::Cell;
use std::panic::{catch_unwind, AssertUnwindSafe};

thread_local! {
    /// when non-zero, the next `push_storage` counts as this many virtual bytes instead of storing its argument
    static GAP: Cell<usize> = Cell::new(0);
}

#[derive(Default, Clone, Debug)]
pub struct Sparse {
    base: usize,
    data: Vec<u8>,
}

impl Storage<u8> for Sparse {
    fn with_capacity(_capacity: usize) -> Self {
        Self::default()
    }
    fn reserve(&mut self, _additional: usize) {}
    fn clear(&mut self) {
        self.base = 0;
        self.data.clear();
    }
    fn heap_size<F: FnMut(usize, usize)>(&self, mut callback: F) {
        callback(self.data.len(), self.data.capacity());
    }
    fn len(&self) -> usize {
        self.base + self.data.len()
    }
    fn is_empty(&self) -> bool {
        self.base == 0 && self.data.is_empty()
    }
}

impl PushStorage<&[u8]> for Sparse {
    fn push_storage(&mut self, item: &[u8]) {
        let g = GAP.with(|c| c.replace(0));
        if g > 0 {
            assert!(self.data.is_empty(), "the virtual prefix comes first");
            self.base += g;
        } else {
            self.data.extend_from_slice(item);
        }
    }
}

impl std::ops::Index<std::ops::Range<usize>> for Sparse {
    type Output = [u8];
    fn index(&self, r: std::ops::Range<usize>) -> &[u8] {
        assert!(r.start >= self.base && r.start <= r.end, "range {r:?} reaches into the virtual prefix of {} bytes", self.base);
        &self.data[r.start - self.base..r.end - self.base]
    }
}

fn caught<T>(f: impl FnOnce() -> T) -> Option<T> {
    catch_unwind(AssertUnwindSafe(f)).ok()
}

fn unhex(s: &str) -> String {
    let b: Vec<u8> = (0..s.len() / 2).map(|i| u8::from_str_radix(&s[2 * i..2 * i + 2], 16).expect("hex")).collect();
    String::from_utf8(b).expect("the generator sends valid UTF-8")
}

/// ops: "g<hex N>" = push a virtual item of N bytes (only as first item since the last reset), "s<hex bytes>" =
/// push that string, "c" = clear.  Output per op: the returned index, or N for clear; at the end the list of
/// reads of every REAL item issued since the last reset (S(bytes) / N for a panic).
fn run<R>(ops: &[&str], idx_u: fn(R::Index) -> U) -> Vec<U>
where
    R: Region + Default + for<'a> Push<&'a str>,
    for<'a> R::ReadItem<'a>: AsRef<str>,
{
    let mut r = R::default();
    let mut issued: Vec<R::Index> = vec![];
    let mut out = vec![];
    for op in ops {
        if *op == "c" {
            r.clear();
            issued.clear();
            out.push(U::None);
            continue;
        }
        let (virt, s) = if let Some(n) = op.strip_prefix('g') {
            (usize::from_str_radix(n, 16).expect("gap"), String::from("g"))
        } else {
            (0, unhex(op.strip_prefix('s').expect("op")))
        };
        GAP.with(|c| c.set(virt));
        let res = caught(|| r.push(s.as_str()));
        GAP.with(|c| c.set(0));
        match res {
            Some(i) => {
                out.push(idx_u(i));
                if virt == 0 {
                    issued.push(i);
                }
            }
            None => {
                out.push(U::L(vec![U::N(98)]));
                return out;
            }
        }
    }
    let reads: Vec<U> = issued
        .iter()
        .map(|i| match caught(|| r.index(*i).as_ref().as_bytes().to_vec()) {
            Some(v) => U::Some(Box::new(U::L(v.into_iter().map(|b| U::N(b as u128)).collect()))),
            None => U::None,
        })
        .collect();
    out.push(U::L(reads));
    out
}

/// the same through FlatStack<ConsecutiveIndexPairs<StringRegion<..Sparse..>>, S>: get(i) of every real item
fn run_stack<S>(ops: &[&str]) -> Vec<U>
where
    S: flatcontainer::impls::index::IndexContainer<usize>,
{
    type R = ConsecutiveIndexPairs<StringRegion<OwnedRegion<u8, Sparse>>, IndexOptimized>;
    let mut fs = FlatStack::<R, S>::default();
    let mut real: Vec<usize> = vec![];
    let mut out = vec![];
    for op in ops {
        if *op == "c" {
            fs.clear();
            real.clear();
            out.push(U::None);
            continue;
        }
        let (virt, s) = if let Some(n) = op.strip_prefix('g') {
            (usize::from_str_radix(n, 16).expect("gap"), String::from("g"))
        } else {
            (0, unhex(op.strip_prefix('s').expect("op")))
        };
        GAP.with(|c| c.set(virt));
        let res = caught(|| fs.copy(s.as_str()));
        GAP.with(|c| c.set(0));
        match res {
            Some(()) => {
                out.push(U::nat(fs.len() - 1));
                if virt == 0 {
                    real.push(fs.len() - 1);
                }
            }
            None => {
                out.push(U::L(vec![U::N(98)]));
                return out;
            }
        }
    }
    let reads: Vec<U> = real
        .iter()
        .map(|i| match caught(|| fs.get(*i).as_bytes().to_vec()) {
            Some(v) => U::Some(Box::new(U::L(v.into_iter().map(|b| U::N(b as u128)).collect()))),
            None => U::None,
        })
        .collect();
    out.push(U::L(reads));
    out
}

type Bytes = OwnedRegion<u8, Sparse>;

pub fn run_strspan(kind: &str, ops: &[&str]) -> Option<Vec<U>> {
    Some(match kind {
        // StringRegion over the sparse bytes: plain pair indices
        "str" => run::<StringRegion<Bytes>>(ops, |i| U::pair(i.0, i.1)),
        // ConsecutiveIndexPairs over a string region: the offsets live in an index container
        "con_str_iopt" => run::<ConsecutiveIndexPairs<StringRegion<Bytes>, IndexOptimized>>(ops, U::nat),
        "con_str_ilist" => run::<ConsecutiveIndexPairs<StringRegion<Bytes>, IndexList<Vec<u32>, Vec<u64>>>>(ops, U::nat),
        "con_str_vec" => run::<ConsecutiveIndexPairs<StringRegion<Bytes>, Vec<usize>>>(ops, U::nat),
        // a string region over consecutive-pair-indexed bytes
        "str_con_iopt" => run::<StringRegion<ConsecutiveIndexPairs<Bytes, IndexOptimized>>>(ops, U::nat),
        "str_con_ilist" => run::<StringRegion<ConsecutiveIndexPairs<Bytes, IndexList<Vec<u32>, Vec<u64>>>>>(ops, U::nat),
        "fs_iopt" => run_stack::<IndexOptimized>(ops),
        "fs_ilist" => run_stack::<IndexList<Vec<u32>, Vec<u64>>>(ops),
        _ => return None,
    })
}
