//! The serialised form of a value as a universal wire value: a `serde::Serializer` that keeps the
//! STRUCTURE of what the value's `Serialize` impl emits and drops every name.
//!
//! numbers / bool / char / f64 (bit pattern) -> N;  seq, tuple, struct (fields in declaration order),
//! map (keys and values alternating) -> L;  unit, unit struct (PhantomData) -> L[];  newtype struct -> inner;
//! Option: None -> N(one), Some(v) -> S(v);  enum variant k (index, not name) -> O([k, payload..]);
//! str / bytes -> L of bytes.
//! The model (coq/Serde/Ser.v) produces the same tree from its own state, so comparing the two is a
//! comparison of the implementation's complete internal state with the model's (C16).
use crate::wire::U;
use serde::ser::{self, Serialize};

#[derive(Debug)]
pub struct Error(String);
impl std::fmt::Display for Error {
    fn fmt(&self, f: &mut std::fmt::Formatter<'_>) -> std::fmt::Result {
        f.write_str(&self.0)
    }
}
impl std::error::Error for Error {}
impl ser::Error for Error {
    fn custom<T: std::fmt::Display>(msg: T) -> Self {
        Error(msg.to_string())
    }
}

pub fn state_u<T: Serialize + ?Sized>(t: &T) -> U {
    t.serialize(S).expect("state serializer")
}

pub struct S;
pub struct Seq {
    items: Vec<U>,
    variant: Option<u32>,
    /// present the fields as right-nested pairs (tuple regions and tuple indices of arity >= 3)
    nest: bool,
}

fn variant(idx: u32, mut payload: Vec<U>) -> U {
    let mut v = vec![U::N(idx as u128)];
    v.append(&mut payload);
    U::Ok(Box::new(U::L(v)))
}

impl ser::Serializer for S {
    type Ok = U;
    type Error = Error;
    type SerializeSeq = Seq;
    type SerializeTuple = Seq;
    type SerializeTupleStruct = Seq;
    type SerializeTupleVariant = Seq;
    type SerializeMap = Seq;
    type SerializeStruct = Seq;
    type SerializeStructVariant = Seq;

    fn serialize_bool(self, v: bool) -> Result<U, Error> { Ok(U::N(v as u128)) }
    fn serialize_i8(self, v: i8) -> Result<U, Error> { Ok(U::N(v as u8 as u128)) }
    fn serialize_i16(self, v: i16) -> Result<U, Error> { Ok(U::N(v as u16 as u128)) }
    fn serialize_i32(self, v: i32) -> Result<U, Error> { Ok(U::N(v as u32 as u128)) }
    fn serialize_i64(self, v: i64) -> Result<U, Error> { Ok(U::N(v as u64 as u128)) }
    fn serialize_u8(self, v: u8) -> Result<U, Error> { Ok(U::N(v as u128)) }
    fn serialize_u16(self, v: u16) -> Result<U, Error> { Ok(U::N(v as u128)) }
    fn serialize_u32(self, v: u32) -> Result<U, Error> { Ok(U::N(v as u128)) }
    fn serialize_u64(self, v: u64) -> Result<U, Error> { Ok(U::N(v as u128)) }
    fn serialize_f32(self, v: f32) -> Result<U, Error> { Ok(U::N(v.to_bits() as u128)) }
    fn serialize_f64(self, v: f64) -> Result<U, Error> { Ok(U::N(v.to_bits() as u128)) }
    fn serialize_char(self, v: char) -> Result<U, Error> { Ok(U::N(v as u128)) }
    fn serialize_str(self, v: &str) -> Result<U, Error> { Ok(U::L(v.bytes().map(|b| U::N(b as u128)).collect())) }
    fn serialize_bytes(self, v: &[u8]) -> Result<U, Error> { Ok(U::L(v.iter().map(|b| U::N(*b as u128)).collect())) }
    fn serialize_none(self) -> Result<U, Error> { Ok(U::None) }
    fn serialize_some<T: Serialize + ?Sized>(self, value: &T) -> Result<U, Error> { Ok(U::Some(Box::new(value.serialize(S)?))) }
    fn serialize_unit(self) -> Result<U, Error> { Ok(U::L(vec![])) }
    fn serialize_unit_struct(self, _name: &'static str) -> Result<U, Error> { Ok(U::L(vec![])) }
    fn serialize_unit_variant(self, _name: &'static str, idx: u32, _variant: &'static str) -> Result<U, Error> { Ok(variant(idx, vec![])) }
    fn serialize_newtype_struct<T: Serialize + ?Sized>(self, _name: &'static str, value: &T) -> Result<U, Error> { value.serialize(S) }
    fn serialize_newtype_variant<T: Serialize + ?Sized>(self, _name: &'static str, idx: u32, _variant: &'static str, value: &T) -> Result<U, Error> {
        Ok(variant(idx, vec![value.serialize(S)?]))
    }
    fn serialize_seq(self, len: Option<usize>) -> Result<Seq, Error> { Ok(Seq { items: Vec::with_capacity(len.unwrap_or(0)), variant: None, nest: false }) }
    fn serialize_tuple(self, len: usize) -> Result<Seq, Error> { Ok(Seq { items: Vec::with_capacity(len), variant: None, nest: len > 2 }) }
    fn serialize_tuple_struct(self, _name: &'static str, len: usize) -> Result<Seq, Error> { Ok(Seq { items: Vec::with_capacity(len), variant: None, nest: false }) }
    fn serialize_tuple_variant(self, _name: &'static str, idx: u32, _variant: &'static str, len: usize) -> Result<Seq, Error> {
        Ok(Seq { items: Vec::with_capacity(len), variant: Some(idx), nest: false })
    }
    fn serialize_map(self, len: Option<usize>) -> Result<Seq, Error> { Ok(Seq { items: Vec::with_capacity(2 * len.unwrap_or(0)), variant: None, nest: false }) }
    fn serialize_struct(self, name: &'static str, len: usize) -> Result<Seq, Error> {
        // tuple regions of arity >= 3 are modelled as right-nested pairs (run.rs: flat_tuple_h)
        let nest = len > 2 && name.starts_with("Tuple") && name.ends_with("Region");
        Ok(Seq { items: Vec::with_capacity(len), variant: None, nest })
    }
    fn serialize_struct_variant(self, _name: &'static str, idx: u32, _variant: &'static str, len: usize) -> Result<Seq, Error> {
        Ok(Seq { items: Vec::with_capacity(len), variant: Some(idx), nest: false })
    }
}

impl Seq {
    fn finish(self) -> U {
        match self.variant {
            Some(idx) => variant(idx, self.items),
            None if self.nest => {
                let mut it = self.items.into_iter().rev();
                let mut acc = it.next().unwrap();
                for x in it { acc = U::L(vec![x, acc]); }
                acc
            }
            None => U::L(self.items),
        }
    }
}
impl ser::SerializeSeq for Seq {
    type Ok = U;
    type Error = Error;
    fn serialize_element<T: Serialize + ?Sized>(&mut self, value: &T) -> Result<(), Error> { self.items.push(value.serialize(S)?); Ok(()) }
    fn end(self) -> Result<U, Error> { Ok(self.finish()) }
}
impl ser::SerializeTuple for Seq {
    type Ok = U;
    type Error = Error;
    fn serialize_element<T: Serialize + ?Sized>(&mut self, value: &T) -> Result<(), Error> { self.items.push(value.serialize(S)?); Ok(()) }
    fn end(self) -> Result<U, Error> { Ok(self.finish()) }
}
impl ser::SerializeTupleStruct for Seq {
    type Ok = U;
    type Error = Error;
    fn serialize_field<T: Serialize + ?Sized>(&mut self, value: &T) -> Result<(), Error> { self.items.push(value.serialize(S)?); Ok(()) }
    fn end(self) -> Result<U, Error> { Ok(self.finish()) }
}
impl ser::SerializeTupleVariant for Seq {
    type Ok = U;
    type Error = Error;
    fn serialize_field<T: Serialize + ?Sized>(&mut self, value: &T) -> Result<(), Error> { self.items.push(value.serialize(S)?); Ok(()) }
    fn end(self) -> Result<U, Error> { Ok(self.finish()) }
}
impl ser::SerializeMap for Seq {
    type Ok = U;
    type Error = Error;
    fn serialize_key<T: Serialize + ?Sized>(&mut self, key: &T) -> Result<(), Error> { self.items.push(key.serialize(S)?); Ok(()) }
    fn serialize_value<T: Serialize + ?Sized>(&mut self, value: &T) -> Result<(), Error> { self.items.push(value.serialize(S)?); Ok(()) }
    fn end(self) -> Result<U, Error> { Ok(self.finish()) }
}
impl ser::SerializeStruct for Seq {
    type Ok = U;
    type Error = Error;
    fn serialize_field<T: Serialize + ?Sized>(&mut self, _key: &'static str, value: &T) -> Result<(), Error> { self.items.push(value.serialize(S)?); Ok(()) }
    fn end(self) -> Result<U, Error> { Ok(self.finish()) }
}
impl ser::SerializeStructVariant for Seq {
    type Ok = U;
    type Error = Error;
    fn serialize_field<T: Serialize + ?Sized>(&mut self, _key: &'static str, value: &T) -> Result<(), Error> { self.items.push(value.serialize(S)?); Ok(()) }
    fn end(self) -> Result<U, Error> { Ok(self.finish()) }
}
