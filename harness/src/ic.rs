//! Index-container machine on the real crate (coq/Model/ICMachine.v).
use crate::wire::U;
use flatcontainer::impls::index::{IndexList, IndexOptimized, Stride};
use flatcontainer::impls::storage::Storage;
use std::panic::{catch_unwind, AssertUnwindSafe};

pub enum IcOp {
    Push(usize),
    Extend(Vec<usize>),
    Clear,
    Observe,
    /// serialise (serde_json), deserialise, continue with the deserialised container; observe both serialised states
    Serde,
}

pub fn parse_ic_op(s: &str) -> Result<IcOp, String> {
    let p: Vec<&str> = s.split(' ').collect();
    let num = |x: &str| usize::from_str_radix(x, 16).map_err(|e| format!("{e} in {s}"));
    Ok(match p.as_slice() {
        ["p", x] => IcOp::Push(num(x)?),
        ["e", l] => match U::parse(l)? {
            U::L(v) => IcOp::Extend(
                v.iter().map(|u| match u { U::N(n) => Ok(*n as usize), _ => Err("extend".to_string()) }).collect::<Result<_, _>>()?,
            ),
            _ => return Err("extend".into()),
        },
        ["c"] => IcOp::Clear,
        ["o"] => IcOp::Observe,
        ["s"] => IcOp::Serde,
        _ => return Err(format!("bad ic op {s}")),
    })
}

fn caught<T>(f: impl FnOnce() -> T) -> Option<T> {
    catch_unwind(AssertUnwindSafe(f)).ok()
}
fn res_n(r: Option<usize>) -> U {
    match r {
        Some(v) => U::Some(Box::new(U::N(v as u128))),
        None => U::None,
    }
}

fn serde_step<C: serde::Serialize + for<'a> serde::Deserialize<'a>>(c: &mut C) -> Option<U> {
    caught(|| {
        let before = crate::state::state_u(&*c);
        let text = serde_json::to_string(&*c).expect("serialize");
        let back: C = serde_json::from_str(&text).expect("deserialize");
        let after = crate::state::state_u(&back);
        (back, U::L(vec![before, after]))
    })
    .map(|(back, u)| {
        *c = back;
        u
    })
}

fn run_container<C>(ops: &[IcOp]) -> Vec<Option<U>>
where
    C: flatcontainer::impls::index::IndexContainer<usize> + serde::Serialize + for<'a> serde::Deserialize<'a>,
{
    use flatcontainer::impls::index::IndexContainer as IC;
    let mut c = C::default();
    let mut out = vec![];
    for op in ops {
        let r = match op {
            IcOp::Push(x) => caught(|| IC::push(&mut c, *x)).map(|_| U::None),
            IcOp::Extend(l) => caught(|| IC::extend(&mut c, l.clone().into_iter())).map(|_| U::None),
            IcOp::Clear => caught(|| Storage::clear(&mut c)).map(|_| U::None),
            IcOp::Serde => serde_step(&mut c),
            IcOp::Observe => caught(|| {
                let n = Storage::len(&c);
                let e = Storage::is_empty(&c);
                let elems: Vec<U> = (0..n).map(|i| res_n(caught(|| IC::index(&c, i)))).collect();
                let oob: Vec<U> = [n, n + 1].iter().map(|i| res_n(caught(|| IC::index(&c, *i)))).collect();
                let it = match caught(|| IC::iter(&c).take(n + 8).collect::<Vec<usize>>()) {
                    Some(v) => U::Some(Box::new(U::L(v.into_iter().map(|x| U::N(x as u128)).collect()))),
                    None => U::None,
                };
                let mut used = vec![];
                let mut caps = vec![];
                Storage::heap_size(&c, |u, cp| {
                    used.push(U::nat(u));
                    caps.push(U::nat(cp));
                });
                // iterator adaptors on a partly consumed iterator: nth(k) after one next(), step_by(2)
                let nth_after: Vec<U> = (0..n.min(5) + 1)
                    .map(|k| {
                        res_n(caught(|| {
                            let mut i = IC::iter(&c);
                            let _ = i.next();
                            i.nth(k)
                        })
                        .flatten())
                    })
                    .collect();
                let stepped = match caught(|| {
                    let mut i = IC::iter(&c);
                    let _ = i.next();
                    i.step_by(2).take(n + 8).collect::<Vec<usize>>()
                }) {
                    Some(v) => U::Some(Box::new(U::L(v.into_iter().map(|x| U::N(x as u128)).collect()))),
                    None => U::None,
                };
                U::L(vec![U::nat(n), U::bool(e), U::L(elems), U::L(oob), it, U::L(used), U::L(caps), U::L(nth_after), stepped])
            }),
        };
        let stop = r.is_none();
        out.push(r);
        if stop {
            break;
        }
    }
    out
}

fn stride_u(s: &Stride) -> U {
    let n = |x: usize| U::N(x as u128);
    match *s {
        Stride::Empty => U::L(vec![n(0)]),
        Stride::Zero => U::L(vec![n(1)]),
        Stride::Striding(a, b) => U::L(vec![n(2), n(a), n(b)]),
        Stride::Saturated(a, b, c) => U::L(vec![n(3), n(a), n(b), n(c)]),
    }
}

fn run_stride(ops: &[IcOp]) -> Vec<Option<U>> {
    let mut s = Stride::default();
    let mut out = vec![];
    for op in ops {
        let r = match op {
            IcOp::Push(x) => {
                let mut t = s;
                match caught(|| t.push(*x)) {
                    Some(ok) => {
                        s = t;
                        Some(U::L(vec![U::bool(ok), stride_u(&s)]))
                    }
                    None => None,
                }
            }
            IcOp::Extend(_) => Some(U::None),
            IcOp::Serde => serde_step(&mut s),
            IcOp::Clear => {
                s.clear();
                Some(U::None)
            }
            IcOp::Observe => caught(|| {
                let n = s.len();
                let elems: Vec<U> = (0..n).map(|i| res_n(caught(|| s.index(i)))).collect();
                let it = match caught(|| s.iter().take(n + 8).collect::<Vec<usize>>()) {
                    Some(v) => U::Some(Box::new(U::L(v.into_iter().map(|x| U::N(x as u128)).collect()))),
                    None => U::None,
                };
                U::L(vec![U::nat(n), U::bool(s.is_empty()), U::L(elems), it])
            }),
        };
        let stop = r.is_none();
        out.push(r);
        if stop {
            break;
        }
    }
    out
}

pub fn run_ic(kind: &str, ops: &[IcOp]) -> Option<Vec<Option<U>>> {
    Some(match kind {
        "vec" => run_container::<Vec<usize>>(ops),
        "ilist" => run_container::<IndexList<Vec<u32>, Vec<u64>>>(ops),
        "iopt" => run_container::<IndexOptimized>(ops),
        "stride" => run_stride(ops),
        _ => return None,
    })
}
