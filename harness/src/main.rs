//! Correspondence harness: runs histories on the real flatcontainer crate.
//! usage: fcharness regions IN OUT     (one history per line: `ENTRYNAME;op;op;...`)
mod fs;
mod gen;
mod ic;
mod run;
mod span;
mod strspan;
mod state;
mod wire;

use std::io::{BufRead, BufWriter, Write};

#[global_allocator]
static A: run::Counting = run::Counting;

fn main() {
    std::panic::set_hook(Box::new(|_| {}));
    let args: Vec<String> = std::env::args().collect();
    if args.len() < 4 {
        eprintln!("usage: fcharness MODE IN OUT");
        std::process::exit(2);
    }
    let input = std::io::BufReader::new(std::fs::File::open(&args[2]).expect("open input"));
    let mut out = BufWriter::new(std::fs::File::create(&args[3]).expect("create output"));
    match args[1].as_str() {
        "profile" => {
            let x: u8 = std::hint::black_box(255);
            let oc = std::panic::catch_unwind(|| std::hint::black_box(x + std::hint::black_box(1))).is_err();
            writeln!(out, "debug_assertions={} overflow_checks={}", cfg!(debug_assertions), oc).unwrap();
        }
        "sizes" => {
            for (n, s) in gen::entry_sizes() {
                let l: Vec<String> = s.iter().map(|x| format!("{x:x}")).collect();
                writeln!(out, "{n} {}", if l.is_empty() { "-".to_string() } else { l.join(",") }).unwrap();
            }
        }
        "regions" => {
            for line in input.lines() {
                let line = line.unwrap();
                let mut parts = line.split(';');
                let name = parts.next().unwrap_or("");
                let ops: Result<Vec<run::Op>, String> = parts.map(run::parse_op).collect();
                let mut s = String::new();
                match ops {
                    Err(e) => s.push_str(&format!("bad-history {e}")),
                    Ok(ops) => match gen::dispatch(name, &ops) {
                        None => s.push_str("unknown-entry"),
                        Some(groups) => {
                            for (i, g) in groups.iter().enumerate() {
                                if i > 0 {
                                    s.push(';');
                                }
                                for (j, o) in g.iter().enumerate() {
                                    if j > 0 {
                                        s.push(' ');
                                    }
                                    o.show(&mut s);
                                }
                            }
                        }
                    },
                }
                writeln!(out, "{s}").unwrap();
            }
        }
        "ic" => {
            for line in input.lines() {
                let line = line.unwrap();
                let mut parts = line.split(';');
                let kind = parts.next().unwrap_or("");
                let ops: Result<Vec<ic::IcOp>, String> = parts.map(ic::parse_ic_op).collect();
                let mut s = String::new();
                match ops {
                    Err(e) => s.push_str(&format!("bad-history {e}")),
                    Ok(ops) => match ic::run_ic(kind, &ops) {
                        None => s.push_str("unknown-entry"),
                        Some(obs) => {
                            for (i, o) in obs.iter().enumerate() {
                                if i > 0 {
                                    s.push(';');
                                }
                                match o {
                                    Some(u) => u.show(&mut s),
                                    None => s.push('P'),
                                }
                            }
                        }
                    },
                }
                writeln!(out, "{s}").unwrap();
            }
        }
        "fs" => {
            for line in input.lines() {
                let line = line.unwrap();
                let mut parts = line.split(';');
                let name = parts.next().unwrap_or("");
                let ops: Result<Vec<fs::FsOp>, String> = parts.map(fs::parse_fs_op).collect();
                let mut s = String::new();
                match ops {
                    Err(e) => s.push_str(&format!("bad-history {e}")),
                    Ok(ops) => match gen::dispatch_fs(name, &ops) {
                        None => s.push_str("unknown-entry"),
                        Some(obs) => {
                            for (i, o) in obs.iter().enumerate() {
                                if i > 0 {
                                    s.push(';');
                                }
                                o.show(&mut s);
                            }
                        }
                    },
                }
                writeln!(out, "{s}").unwrap();
            }
        }
        "strspan" => {
            for line in input.lines() {
                let line = line.unwrap();
                let mut parts = line.split(';');
                let kind = parts.next().unwrap_or("");
                let ops: Vec<&str> = parts.collect();
                let mut s = String::new();
                match strspan::run_strspan(kind, &ops) {
                    None => s.push_str("unknown-entry"),
                    Some(obs) => {
                        for (i, o) in obs.iter().enumerate() {
                            if i > 0 {
                                s.push(';');
                            }
                            o.show(&mut s);
                        }
                    }
                }
                writeln!(out, "{s}").unwrap();
            }
        }
        "span" => {
            for line in input.lines() {
                let line = line.unwrap();
                let mut parts = line.split(';');
                let kind = parts.next().unwrap_or("");
                let ops: Vec<&str> = parts.collect();
                let mut s = String::new();
                match span::run_span(kind, &ops) {
                    None => s.push_str("unknown-entry"),
                    Some(obs) => {
                        for (i, o) in obs.iter().enumerate() {
                            if i > 0 {
                                s.push(';');
                            }
                            o.show(&mut s);
                        }
                    }
                }
                writeln!(out, "{s}").unwrap();
            }
        }
        m => {
            eprintln!("unknown mode {m}");
            std::process::exit(2);
        }
    }
}
