//! FlatStack machine on the real crate (coq/Model/FSMachine.v).
use crate::run::{Caps, H};
use crate::wire::U;
use flatcontainer::impls::storage::Storage;
use flatcontainer::*;
use std::panic::{catch_unwind, AssertUnwindSafe};

pub enum FsOp {
    Copy(U),
    Extend(Vec<U>),
    /// extend from an iterator whose size_hint is (0, Some(usize::MAX))
    ExtendLazy(Vec<U>),
    FromIter(Vec<U>),
    Clear,
    Reserve(usize),
    Clone,
    /// replace the stack by `FlatStack::with_capacity(n)`
    WithCap(usize),
    /// replace the stack by `FlatStack::merge_capacity` over k references to itself
    MergeCap(usize),
    /// `reserve_regions` for a temporary region holding the given values
    ResRegs(Vec<U>),
    /// `FlatStack::reserve_items` for the given values (by reference)
    ResItems(Vec<U>),
    /// a scratch stack holding the given values is overwritten by `clone_from(&stack)` and replaces the stack
    CloneFrom(Vec<U>),
    /// serde_json round trip of the whole FlatStack; continue with the deserialised stack
    Serde,
    Observe,
}

pub fn parse_fs_op(s: &str) -> Result<FsOp, String> {
    let p: Vec<&str> = s.split(' ').collect();
    let list = |x: &str| match U::parse(x)? {
        U::L(l) => Ok(l),
        _ => Err("expected a list".to_string()),
    };
    Ok(match p.as_slice() {
        ["copy", v] => FsOp::Copy(U::parse(v)?),
        ["extend", l] => FsOp::Extend(list(l)?),
        ["extendlazy", l] => FsOp::ExtendLazy(list(l)?),
        ["fromiter", l] => FsOp::FromIter(list(l)?),
        ["clear"] => FsOp::Clear,
        ["reserve", n] => FsOp::Reserve(usize::from_str_radix(n, 16).map_err(|e| e.to_string())?),
        ["clone"] => FsOp::Clone,
        ["withcap", n] => FsOp::WithCap(usize::from_str_radix(n, 16).map_err(|e| e.to_string())?),
        ["mergecap", n] => FsOp::MergeCap(usize::from_str_radix(n, 16).map_err(|e| e.to_string())?),
        ["resregs", l] => FsOp::ResRegs(list(l)?),
        ["resitems", l] => FsOp::ResItems(list(l)?),
        ["clonefrom", l] => FsOp::CloneFrom(list(l)?),
        ["serde"] => FsOp::Serde,
        ["observe"] => FsOp::Observe,
        _ => return Err(format!("bad fs op {s}")),
    })
}

fn caught<T>(f: impl FnOnce() -> T) -> Option<T> {
    catch_unwind(AssertUnwindSafe(f)).ok()
}
const ILL: u128 = 99;
const PANIC: u128 = 98;

/// serde_json round trip of a whole stack: the deserialised stack and [state before, state after]
pub fn fs_serde<R, S>(fs: &FlatStack<R, S>) -> (FlatStack<R, S>, U)
where
    R: Region + serde::Serialize + for<'a> serde::Deserialize<'a>,
    S: flatcontainer::impls::index::IndexContainer<R::Index> + serde::Serialize + for<'a> serde::Deserialize<'a>,
{
    let before = crate::state::state_u(fs);
    let text = serde_json::to_string(fs).expect("serialize");
    let back: FlatStack<R, S> = serde_json::from_str(&text).expect("deserialize");
    let after = crate::state::state_u(&back);
    (back, U::L(vec![before, after]))
}

pub type FsSerde<R, S> = Option<fn(&FlatStack<R, S>) -> (FlatStack<R, S>, U)>;
pub type FsClone<R, S> = Option<fn(&FlatStack<R, S>, Option<FlatStack<R, S>>) -> FlatStack<R, S>>;
/// `clone()`, or with a destination `clone_from` into it
pub fn fs_clone<R: Region + Clone, S: Clone>(fs: &FlatStack<R, S>, dst: Option<FlatStack<R, S>>) -> FlatStack<R, S> {
    match dst {
        None => fs.clone(),
        Some(mut d) => {
            d.clone_from(fs);
            d
        }
    }
}

pub fn run_fs<R, S>(ops: &[FsOp], serde: FsSerde<R, S>, clone: FsClone<R, S>) -> Vec<U>
where
    R: Caps,
    for<'a> R: Push<&'a <R as Region>::Owned>,
    S: flatcontainer::impls::index::IndexContainer<R::Index> + 'static,
{
    let mut fs = FlatStack::<R, S>::default();
    let mut nidx = 0usize;
    Storage::heap_size(&S::default(), |_, _| nidx += 1);
    let mut out = vec![];
    macro_rules! stop {
        ($c:expr) => {{
            out.push(U::L(vec![U::N($c)]));
            break;
        }};
    }
    for op in ops {
        match op {
            FsOp::Copy(u) => match R::of_u(u) {
                None => stop!(ILL),
                Some(v) => match caught(|| fs.copy(&v)) {
                    Some(()) => out.push(U::None),
                    None => stop!(PANIC),
                },
            },
            FsOp::Extend(us) => match us.iter().map(R::of_u).collect::<Option<Vec<_>>>() {
                None => stop!(ILL),
                Some(vs) => match caught(|| fs.extend(vs.iter())) {
                    Some(()) => out.push(U::None),
                    None => stop!(PANIC),
                },
            },
            FsOp::ExtendLazy(us) => match us.iter().map(R::of_u).collect::<Option<Vec<_>>>() {
                None => stop!(ILL),
                Some(vs) => {
                    let n = vs.len();
                    let it = (0..usize::MAX).take_while(move |i| *i < n).map(|i| &vs[i]);
                    match caught(|| fs.extend(it)) {
                        Some(()) => out.push(U::None),
                        None => stop!(PANIC),
                    }
                }
            },
            FsOp::FromIter(us) => match us.iter().map(R::of_u).collect::<Option<Vec<_>>>() {
                None => stop!(ILL),
                Some(vs) => match caught(|| vs.iter().collect::<FlatStack<R, S>>()) {
                    Some(f) => {
                        fs = f;
                        out.push(U::None)
                    }
                    None => stop!(PANIC),
                },
            },
            FsOp::Clear => match caught(|| fs.clear()) {
                Some(()) => out.push(U::None),
                None => stop!(PANIC),
            },
            FsOp::Reserve(n) => match caught(|| fs.reserve(*n)) {
                Some(()) => out.push(U::None),
                None => stop!(PANIC),
            },
            FsOp::Clone => match clone {
                None => stop!(ILL),
                Some(c) => match caught(|| c(&fs, None)) {
                    Some(f) => {
                        fs = f;
                        out.push(U::None)
                    }
                    None => stop!(PANIC),
                },
            },
            FsOp::CloneFrom(us) => match (clone, us.iter().map(R::of_u).collect::<Option<Vec<_>>>()) {
                (None, _) | (_, None) => stop!(ILL),
                (Some(c), Some(vs)) => match caught(|| {
                    let mut d = FlatStack::<R, S>::default();
                    for v in vs.iter() {
                        d.copy(v);
                    }
                    c(&fs, Some(d))
                }) {
                    Some(f) => {
                        fs = f;
                        out.push(U::None)
                    }
                    None => stop!(PANIC),
                },
            },
            FsOp::WithCap(n) => match caught(|| FlatStack::<R, S>::with_capacity(*n)) {
                Some(f) => {
                    fs = f;
                    out.push(U::None)
                }
                None => stop!(PANIC),
            },
            FsOp::MergeCap(k) => match caught(|| FlatStack::<R, S>::merge_capacity(std::iter::repeat(&fs).take(*k))) {
                Some(f) => {
                    fs = f;
                    out.push(U::None)
                }
                None => stop!(PANIC),
            },
            FsOp::ResRegs(us) => match us.iter().map(R::of_u).collect::<Option<Vec<_>>>() {
                None => stop!(ILL),
                Some(vs) => match caught(|| {
                    let mut tmp = R::default();
                    for v in &vs {
                        let _ = tmp.push(v);
                    }
                    fs.reserve_regions(std::iter::once(&tmp));
                }) {
                    Some(()) => out.push(U::None),
                    None => stop!(PANIC),
                },
            },
            FsOp::ResItems(us) => match us.iter().map(R::of_u).collect::<Option<Vec<_>>>() {
                None => stop!(ILL),
                Some(vs) => match caught(|| R::try_fs_reserve_items(&mut fs, &vs)) {
                    Some(true) => out.push(U::None),
                    Some(false) => stop!(ILL),
                    None => stop!(PANIC),
                },
            },
            FsOp::Serde => match serde {
                None => stop!(ILL),
                Some(f) => match caught(|| f(&fs)) {
                    Some((back, u)) => {
                        fs = back;
                        out.push(u)
                    }
                    None => stop!(PANIC),
                },
            },
            FsOp::Observe => {
                let n = fs.len();
                let e = fs.is_empty();
                let gets: Vec<U> = (0..n).map(|k| U::res(caught(|| R::probe(fs.get(k))))).collect();
                let oob: Vec<U> = [n, n + 1].iter().map(|k| U::res(caught(|| R::probe(fs.get(*k))))).collect();
                let items = caught(|| fs.iter().take(n + 8).map(|x| U::res(caught(|| R::probe(x)))).collect::<Vec<U>>());
                let cloned = caught(|| {
                    let mut it = fs.iter();
                    let _ = it.next();
                    let c = it.clone();
                    c.take(n + 8).map(|x| U::res(caught(|| R::probe(x)))).collect::<Vec<U>>()
                });
                let hint_ok = caught(|| {
                    let (lo, hi) = fs.iter().size_hint();
                    lo <= n && hi.map_or(true, |h| h >= n)
                })
                .unwrap_or(false);
                let mut used = vec![];
                let mut caps = vec![];
                fs.heap_size(|u, c| {
                    used.push(U::nat(u));
                    caps.push(U::nat(c));
                });
                let k = used.len() - nidx;
                let wrap = |x: Option<Vec<U>>| match x {
                    Some(l) => U::Some(Box::new(U::L(l))),
                    None => U::None,
                };
                out.push(U::L(vec![
                    U::nat(n),
                    U::bool(e),
                    U::L(gets),
                    U::L(oob),
                    wrap(items),
                    wrap(cloned),
                    U::L(used[k..].to_vec()),
                    U::bool(hint_ok),
                    U::L(caps[k..].to_vec()),
                    U::L(used[..k].to_vec()),
                    U::L(caps[..k].to_vec()),
                ]));
            }
        }
    }
    out
}
