//! The history machine on the real crate: a few region slots of one catalogue entry driven by
//! untyped operations, emitting the observations the correspondence check compares with the
//! model's (coq/Model/Machine.v).
use crate::wire::*;
use flatcontainer::impls::columns::ReadColumns;
use flatcontainer::impls::deduplicate::{CollapseSequence, ConsecutiveIndexPairs};
use flatcontainer::impls::slice::ReadSlice;
use flatcontainer::impls::tuple::*;
use flatcontainer::*;
use std::panic::{catch_unwind, AssertUnwindSafe};

/// Typed/untyped boundary of one region type (Wire.v: Wire), implemented once per combinator.
pub trait H: Region + Sized + 'static {
    fn of_u(u: &U) -> Option<Self::Owned>;
    fn to_u(v: &Self::Owned) -> U;
    fn idx_u(i: Self::Index) -> U;
    /// the read item seen through all of its accessors
    fn probe(it: Self::ReadItem<'_>) -> U;
}

fn caught<T>(f: impl FnOnce() -> T) -> Option<T> {
    catch_unwind(AssertUnwindSafe(f)).ok()
}

impl<T: Elem> H for OwnedRegion<T> {
    fn of_u(u: &U) -> Option<Vec<T>> {
        match u {
            U::L(l) => l.iter().map(T::of_u).collect(),
            _ => None,
        }
    }
    fn to_u(v: &Vec<T>) -> U {
        U::L(v.iter().map(|x| x.to_u()).collect())
    }
    fn idx_u(i: (usize, usize)) -> U {
        U::pair(i.0, i.1)
    }
    fn probe(it: &[T]) -> U {
        U::L(it.iter().map(|x| x.to_u()).collect())
    }
}

impl H for flatcontainer::impls::codec::CodecRegion<flatcontainer::impls::codec::DictionaryCodec> {
    fn of_u(u: &U) -> Option<Vec<u8>> {
        bytes_of_u(u)
    }
    fn to_u(v: &Vec<u8>) -> U {
        u_of_bytes(v)
    }
    fn idx_u(i: (usize, usize)) -> U {
        U::pair(i.0, i.1)
    }
    fn probe(it: &[u8]) -> U {
        u_of_bytes(it)
    }
}

impl<B: Elem + Ord> H for flatcontainer::impls::huffman_container::HuffmanContainer<B> {
    fn of_u(u: &U) -> Option<Vec<B>> {
        match u {
            U::L(l) => l.iter().map(B::of_u).collect(),
            _ => None,
        }
    }
    fn to_u(v: &Vec<B>) -> U {
        U::L(v.iter().map(|x| x.to_u()).collect())
    }
    fn idx_u(i: (usize, usize)) -> U {
        U::pair(i.0, i.1)
    }
    fn probe(it: Self::ReadItem<'_>) -> U {
        // a decoder stuck on a zero-length code would never end: cut and report
        let limit = 1 << 20;
        let v: Vec<U> = match it.decode() {
            Ok(d) => d.take(limit).map(|x| x.to_u()).collect(),
            Err(s) => s.iter().map(|x| x.to_u()).collect(),
        };
        if v.len() >= limit {
            panic!("decode does not terminate");
        }
        U::L(v)
    }
}

impl<T: Elem> H for MirrorRegion<T>
where
    MirrorRegion<T>: Region<Owned = T, Index = T>,
    for<'a> MirrorRegion<T>: Region<ReadItem<'a> = T>,
{
    fn of_u(u: &U) -> Option<T> {
        T::of_u(u)
    }
    fn to_u(v: &T) -> U {
        v.to_u()
    }
    fn idx_u(i: T) -> U {
        i.to_u()
    }
    fn probe(it: T) -> U {
        it.to_u()
    }
}

impl<T: Elem> H for Vec<T> {
    fn of_u(u: &U) -> Option<T> {
        T::of_u(u)
    }
    fn to_u(v: &T) -> U {
        v.to_u()
    }
    fn idx_u(i: usize) -> U {
        U::nat(i)
    }
    fn probe(it: &T) -> U {
        it.to_u()
    }
}

impl<R> H for StringRegion<R>
where
    for<'a> R: Region<ReadItem<'a> = &'a [u8]> + Push<&'a [u8]> + 'static,
    R: H,
{
    fn of_u(u: &U) -> Option<String> {
        String::from_utf8(bytes_of_u(u)?).ok()
    }
    fn to_u(v: &String) -> U {
        u_of_bytes(v.as_bytes())
    }
    fn idx_u(i: R::Index) -> U {
        R::idx_u(i)
    }
    fn probe(it: &str) -> U {
        u_of_bytes(it.as_bytes())
    }
}

/// the report of a sequence-like read item (Wire.v: seq_probe)
macro_rules! seq_probe {
    ($R:ty, $it:expr) => {{
        let it = $it;
        let n = it.len();
        let e = it.is_empty();
        let gets: Vec<U> = (0..n + 2)
            .map(|k| U::res(caught(|| <$R>::probe(it.get(k)))))
            .collect();
        // positions just below usize::MAX: an accessor whose bounds arithmetic wraps would accept them
        let far: Vec<U> = (0..6usize)
            .map(|j| U::res(caught(|| <$R>::probe(it.get(usize::MAX - j)))))
            .collect();
        // iteration: the iterators are ExactSizeIterators, so at every step len() is the number of items left
        let mut iter = it.iter();
        let mut ps: Vec<U> = Vec::new();
        loop {
            let left = ExactSizeIterator::len(&iter);
            if left != n.wrapping_sub(ps.len()) {
                panic!("iterator reports {} items left, {} expected", left, n.wrapping_sub(ps.len()));
            }
            match iter.next() {
                Some(x) => ps.push(<$R>::probe(x)),
                None => break,
            }
        }
        let o = it.into_owned();
        U::L(vec![
            U::nat(n),
            U::bool(e),
            U::L(gets),
            U::L(far),
            U::L(ps),
            U::L(o.iter().map(|x| <$R>::to_u(x)).collect()),
        ])
    }};
}

impl<R: H, O: flatcontainer::impls::index::IndexContainer<R::Index> + 'static> H for SliceRegion<R, O> {
    fn of_u(u: &U) -> Option<Vec<R::Owned>> {
        match u {
            U::L(l) => l.iter().map(R::of_u).collect(),
            _ => None,
        }
    }
    fn to_u(v: &Vec<R::Owned>) -> U {
        U::L(v.iter().map(R::to_u).collect())
    }
    fn idx_u(i: (usize, usize)) -> U {
        U::pair(i.0, i.1)
    }
    fn probe(it: ReadSlice<'_, R, O>) -> U {
        seq_probe!(R, it)
    }
}

impl<R: H, O: flatcontainer::impls::index::IndexContainer<usize> + 'static> H for ColumnsRegion<R, O> {
    fn of_u(u: &U) -> Option<Vec<R::Owned>> {
        match u {
            U::L(l) => l.iter().map(R::of_u).collect(),
            _ => None,
        }
    }
    fn to_u(v: &Vec<R::Owned>) -> U {
        U::L(v.iter().map(R::to_u).collect())
    }
    fn idx_u(i: usize) -> U {
        U::nat(i)
    }
    fn probe(it: ReadColumns<'_, R>) -> U {
        seq_probe!(R, it)
    }
}

impl<R: H> H for OptionRegion<R> {
    fn of_u(u: &U) -> Option<Option<R::Owned>> {
        match u {
            U::None => Some(None),
            U::Some(x) => R::of_u(x).map(Some),
            _ => None,
        }
    }
    fn to_u(v: &Option<R::Owned>) -> U {
        match v {
            None => U::None,
            Some(x) => U::Some(Box::new(R::to_u(x))),
        }
    }
    fn idx_u(i: Option<R::Index>) -> U {
        match i {
            None => U::None,
            Some(x) => U::Some(Box::new(R::idx_u(x))),
        }
    }
    fn probe(it: Option<R::ReadItem<'_>>) -> U {
        match it {
            None => U::None,
            Some(x) => U::Some(Box::new(R::probe(x))),
        }
    }
}

impl<A: H, B: H> H for ResultRegion<A, B> {
    fn of_u(u: &U) -> Option<Result<A::Owned, B::Owned>> {
        match u {
            U::Ok(x) => A::of_u(x).map(Ok),
            U::Err(x) => B::of_u(x).map(Err),
            _ => None,
        }
    }
    fn to_u(v: &Result<A::Owned, B::Owned>) -> U {
        match v {
            Ok(x) => U::Ok(Box::new(A::to_u(x))),
            Err(x) => U::Err(Box::new(B::to_u(x))),
        }
    }
    fn idx_u(i: Result<A::Index, B::Index>) -> U {
        match i {
            Ok(x) => U::Ok(Box::new(A::idx_u(x))),
            Err(x) => U::Err(Box::new(B::idx_u(x))),
        }
    }
    fn probe(it: Result<A::ReadItem<'_>, B::ReadItem<'_>>) -> U {
        match it {
            Ok(x) => U::Ok(Box::new(A::probe(x))),
            Err(x) => U::Err(Box::new(B::probe(x))),
        }
    }
}

impl<A: H, B: H> H for TupleABRegion<A, B> {
    fn of_u(u: &U) -> Option<(A::Owned, B::Owned)> {
        match u {
            U::L(l) if l.len() == 2 => Some((A::of_u(&l[0])?, B::of_u(&l[1])?)),
            _ => None,
        }
    }
    fn to_u(v: &(A::Owned, B::Owned)) -> U {
        U::L(vec![A::to_u(&v.0), B::to_u(&v.1)])
    }
    fn idx_u(i: (A::Index, B::Index)) -> U {
        U::L(vec![A::idx_u(i.0), B::idx_u(i.1)])
    }
    fn probe(it: (A::ReadItem<'_>, B::ReadItem<'_>)) -> U {
        U::L(vec![A::probe(it.0), B::probe(it.1)])
    }
}

/// Tuple regions of arity >= 3 are presented to the model as right-nested pairs: (a, b, c) ~ (a, (b, c)).  The
/// model has one pair combinator (Region/Simple.v: tuple2); the flat Rust types are tied to its nesting.
macro_rules! flat_tuple_h {
    ($ty:ident; $a:ident $ia:tt; $($r:ident $ir:tt),+) => {
        impl<$a: H, $($r: H),+> H for $ty<$a, $($r),+> {
            fn of_u(u: &U) -> Option<Self::Owned> {
                let mut cur = u;
                let $a = match cur { U::L(l) if l.len() == 2 => { cur = &l[1]; $a::of_u(&l[0])? } _ => return None };
                flat_tuple_h!(@of cur; $($r),+);
                Some(($a, $($r),+))
            }
            fn to_u(v: &Self::Owned) -> U {
                flat_tuple_h!(@nest $a::to_u(&v.$ia); $($r::to_u(&v.$ir)),+)
            }
            fn idx_u(i: Self::Index) -> U {
                flat_tuple_h!(@nest $a::idx_u(i.$ia); $($r::idx_u(i.$ir)),+)
            }
            fn probe(it: Self::ReadItem<'_>) -> U {
                flat_tuple_h!(@nest $a::probe(it.$ia); $($r::probe(it.$ir)),+)
            }
        }
    };
    (@of $cur:ident; $last:ident) => { let $last = $last::of_u($cur)?; };
    (@of $cur:ident; $h:ident, $($t:ident),+) => {
        let $h = match $cur { U::L(l) if l.len() == 2 => { $cur = &l[1]; $h::of_u(&l[0])? } _ => return None };
        flat_tuple_h!(@of $cur; $($t),+);
    };
    (@nest $last:expr;) => { $last };
    (@nest $h:expr; $($t:expr),*) => { U::L(vec![$h, flat_tuple_h!(@nest2 $($t),*)]) };
    (@nest2 $last:expr) => { $last };
    (@nest2 $h:expr, $($t:expr),+) => { U::L(vec![$h, flat_tuple_h!(@nest2 $($t),+)]) };
}
#[allow(non_snake_case)]
mod flat_tuples {
    use super::*;
    flat_tuple_h!(TupleABCRegion; A 0; B 1, C 2);
    flat_tuple_h!(TupleABCDRegion; A 0; B 1, C 2, D 3);
    flat_tuple_h!(TupleABCDERegion; A 0; B 1, C 2, D 3, E 4);
}

impl<R: H> H for CollapseSequence<R> {
    fn of_u(u: &U) -> Option<R::Owned> {
        R::of_u(u)
    }
    fn to_u(v: &R::Owned) -> U {
        R::to_u(v)
    }
    fn idx_u(i: R::Index) -> U {
        R::idx_u(i)
    }
    fn probe(it: R::ReadItem<'_>) -> U {
        R::probe(it)
    }
}

impl<R: H + Region<Index = (usize, usize)>, O: flatcontainer::impls::index::IndexContainer<usize> + 'static> H
    for ConsecutiveIndexPairs<R, O>
{
    fn of_u(u: &U) -> Option<R::Owned> {
        R::of_u(u)
    }
    fn to_u(v: &R::Owned) -> U {
        R::to_u(v)
    }
    fn idx_u(i: usize) -> U {
        U::nat(i)
    }
    fn probe(it: R::ReadItem<'_>) -> U {
        R::probe(it)
    }
}

/// Capabilities that not every composition offers, and the typed input forms of its `Push`
/// impls; the impls are generated from the catalogue (gen.rs).
pub trait Caps: H {
    /// number of input forms `push_form` understands (form 0 is the canonical one)
    fn nforms() -> u32;
    fn push_form(&mut self, v: &Self::Owned, form: u32) -> Self::Index;
    /// `Push<ReadItem>`: copy the item at index `i` of `src`, region-backed or borrowed from its
    /// owned form
    fn push_item(&mut self, src: &Self, i: Self::Index, owned: bool) -> Self::Index;
    fn try_clone(&self) -> Option<Self> {
        None
    }
    fn try_clone_from(&mut self, _src: &Self) -> bool {
        false
    }
    fn try_reserve_items(&mut self, _items: &[Self::Owned]) -> bool {
        false
    }
    /// `reserve_items` with the items presented in input form `form` (catalogue.reserve_forms; 0 = by reference)
    fn try_reserve_items_form(&mut self, items: &[Self::Owned], _form: u32) -> bool {
        self.try_reserve_items(items)
    }
    /// `FlatStack::reserve_items(items.iter())` on a stack over this region
    fn try_fs_reserve_items<S: flatcontainer::impls::index::IndexContainer<Self::Index>>(
        _fs: &mut FlatStack<Self, S>,
        _items: &[Self::Owned],
    ) -> bool {
        false
    }
    fn try_serde(&self) -> Option<Self> {
        None
    }
    /// the complete serialised form as a name-free tree (harness/src/state.rs)
    fn try_state(&self) -> Option<U> {
        None
    }
    /// compare item `i` of `self` with item `j` of `other` in the given representations:
    /// [eq, partial_cmp, cmp] as a wire value, None when the read item is not comparable
    fn try_cmp(&self, _i: Self::Index, _a_owned: bool, _other: &Self, _j: Self::Index, _b_owned: bool) -> Option<U> {
        None
    }
}

#[derive(Clone, Debug)]
pub enum Op {
    Push(usize, u32, U),
    /// a push that may be refused (panic): the history goes on with whatever state the region is left in
    TryPush(usize, u32, U),
    Probe(usize),
    ProbeOwned(usize),
    Read(usize),
    Clear(usize),
    Merge(usize, Vec<usize>),
    Clone(usize, usize),
    CloneFrom(usize, usize),
    PushItem(usize, usize, usize, bool),
    CloneOnto(usize, usize, U),
    ReserveItems(usize, Vec<U>, u32),
    ReserveRegions(usize, Vec<usize>),
    Heap(usize),
    Serde(usize),
    Cmp(usize, usize, bool, usize, usize, bool),
    Allocs(usize),
}

#[derive(Clone, Debug, PartialEq)]
pub enum Obs {
    Idx(U),
    Val(U),
    Panic,
    Ill,
    None,
    Unsupported,
}

impl Obs {
    pub fn show(&self, out: &mut String) {
        match self {
            Obs::Idx(u) => {
                out.push_str("i=");
                u.show(out)
            }
            Obs::Val(u) => {
                out.push_str("v=");
                u.show(out)
            }
            Obs::Panic => out.push('P'),
            Obs::Ill => out.push_str("ILL"),
            Obs::None => out.push('-'),
            Obs::Unsupported => out.push_str("UNSUP"),
        }
    }
}

pub fn parse_op(s: &str) -> Result<Op, String> {
    let p: Vec<&str> = s.split(' ').collect();
    let n = |x: &str| x.parse::<usize>().map_err(|e| format!("{e} in {s}"));
    let ints = |x: &str| -> Result<Vec<usize>, String> {
        if x == "-" {
            Ok(vec![])
        } else {
            x.split(',').map(|y| y.parse::<usize>().map_err(|e| e.to_string())).collect()
        }
    };
    Ok(match p.as_slice() {
        ["push", k, f, v] => Op::Push(n(k)?, u32::from_str_radix(f, 16).map_err(|e| e.to_string())?, U::parse(v)?),
        ["trypush", k, f, v] => Op::TryPush(n(k)?, u32::from_str_radix(f, 16).map_err(|e| e.to_string())?, U::parse(v)?),
        ["probe", k] => Op::Probe(n(k)?),
        ["probeo", k] => Op::ProbeOwned(n(k)?),
        ["read", k] => Op::Read(n(k)?),
        ["clear", k] => Op::Clear(n(k)?),
        ["merge", d, ks] => Op::Merge(n(d)?, ints(ks)?),
        ["clone", d, k] => Op::Clone(n(d)?, n(k)?),
        ["clonefrom", d, k] => Op::CloneFrom(n(d)?, n(k)?),
        ["pushitem", d, k, j, o] => Op::PushItem(n(d)?, n(k)?, n(j)?, *o == "1"),
        ["cloneonto", k, j, v] => Op::CloneOnto(n(k)?, n(j)?, U::parse(v)?),
        ["resitems", k, v] => match U::parse(v)? {
            U::L(l) => Op::ReserveItems(n(k)?, l, 0),
            _ => return Err("resitems".into()),
        },
        ["resitems", k, v, f] => match U::parse(v)? {
            U::L(l) => Op::ReserveItems(n(k)?, l, n(f)? as u32),
            _ => return Err("resitems".into()),
        },
        ["resregs", k, ks] => Op::ReserveRegions(n(k)?, ints(ks)?),
        ["heap", k] => Op::Heap(n(k)?),
        ["serde", k] => Op::Serde(n(k)?),
        ["allocs", k] => Op::Allocs(n(k)?),
        ["cmp", k, i, a, l, j, b] => Op::Cmp(n(k)?, n(i)?, *a == "1", n(l)?, n(j)?, *b == "1"),
        _ => return Err(format!("bad op: {s}")),
    })
}

pub const NSLOTS: usize = 4;

/// counting allocator: alloc + realloc calls (frees are not counted)
pub struct Counting;
pub static ALLOCS: std::sync::atomic::AtomicUsize = std::sync::atomic::AtomicUsize::new(0);
unsafe impl std::alloc::GlobalAlloc for Counting {
    unsafe fn alloc(&self, l: std::alloc::Layout) -> *mut u8 {
        ALLOCS.fetch_add(1, std::sync::atomic::Ordering::Relaxed);
        std::alloc::System.alloc(l)
    }
    unsafe fn dealloc(&self, p: *mut u8, l: std::alloc::Layout) {
        std::alloc::System.dealloc(p, l)
    }
    unsafe fn realloc(&self, p: *mut u8, l: std::alloc::Layout, n: usize) -> *mut u8 {
        ALLOCS.fetch_add(1, std::sync::atomic::Ordering::Relaxed);
        std::alloc::System.realloc(p, l, n)
    }
}
pub fn allocs() -> usize {
    ALLOCS.load(std::sync::atomic::Ordering::Relaxed)
}

struct Slot<R: Region> {
    r: R,
    log: Vec<R::Index>,
    /// allocator calls made inside push calls on this slot since the last `allocs` op
    push_allocs: usize,
}

pub fn heap_of<R: Region>(r: &R) -> Vec<(usize, usize)> {
    let mut v = vec![];
    r.heap_size(|a, b| v.push((a, b)));
    v
}

/// Run one history; the result has one observation group per executed op.  The history stops
/// after a panicking mutation or an ill-typed input, as the model's does.
pub fn run_entry<R: Caps>(ops: &[Op]) -> Vec<Vec<Obs>> {
    let mut slots: Vec<Slot<R>> = (0..NSLOTS).map(|_| Slot { r: R::default(), log: vec![], push_allocs: 0 }).collect();
    let mut out = vec![];
    for op in ops {
        let mut stop = false;
        let group: Vec<Obs> = match op {
            Op::Push(k, f, u) => match R::of_u(u) {
                None => {
                    stop = true;
                    vec![Obs::Ill]
                }
                Some(v) => {
                    let s = &mut slots[*k];
                    let a0 = allocs();
                    let pushed = caught(|| s.r.push_form(&v, *f));
                    s.push_allocs += allocs() - a0;
                    match pushed {
                        Some(i) => {
                            s.log.push(i);
                            vec![Obs::Idx(R::idx_u(i))]
                        }
                        None => {
                            stop = true;
                            vec![Obs::Panic]
                        }
                    }
                }
            },
            Op::TryPush(k, f, u) => match R::of_u(u) {
                None => {
                    stop = true;
                    vec![Obs::Ill]
                }
                Some(v) => {
                    let s = &mut slots[*k];
                    match caught(|| s.r.push_form(&v, *f)) {
                        Some(i) => {
                            s.log.push(i);
                            vec![Obs::Idx(R::idx_u(i))]
                        }
                        // refused: carry on with the region as the refusal left it
                        None => vec![Obs::Panic],
                    }
                }
            },
            Op::Probe(k) => {
                let s = &slots[*k];
                s.log
                    .iter()
                    .map(|i| match caught(|| R::probe(s.r.index(*i))) {
                        Some(v) => Obs::Val(v),
                        None => Obs::Panic,
                    })
                    .collect()
            }
            Op::ProbeOwned(k) => {
                let s = &slots[*k];
                s.log
                    .iter()
                    .map(|i| {
                        match caught(|| {
                            let o = s.r.index(*i).into_owned();
                            let it: R::ReadItem<'_> = IntoOwned::borrow_as(&o);
                            R::probe(it)
                        }) {
                            Some(v) => Obs::Val(v),
                            None => Obs::Panic,
                        }
                    })
                    .collect()
            }
            Op::Read(k) => {
                let s = &slots[*k];
                s.log
                    .iter()
                    .map(|i| match caught(|| R::to_u(&R::reborrow(s.r.index(*i)).into_owned())) {
                        Some(v) => Obs::Val(v),
                        None => Obs::Panic,
                    })
                    .collect()
            }
            Op::Clear(k) => {
                let s = &mut slots[*k];
                match caught(|| s.r.clear()) {
                    Some(()) => {
                        s.log.clear();
                        vec![Obs::None]
                    }
                    None => {
                        stop = true;
                        vec![Obs::Panic]
                    }
                }
            }
            Op::Merge(d, ks) => {
                match caught(|| R::merge_regions(ks.iter().map(|k| &slots[*k].r))) {
                    Some(r) => {
                        slots[*d] = Slot { r, log: vec![], push_allocs: 0 };
                        vec![Obs::None]
                    }
                    None => {
                        stop = true;
                        vec![Obs::Panic]
                    }
                }
            }
            Op::Clone(d, k) => match caught(|| slots[*k].r.try_clone()) {
                Some(Some(r)) => {
                    let log = slots[*k].log.clone();
                    slots[*d] = Slot { r, log, push_allocs: 0 };
                    vec![Obs::None]
                }
                Some(None) => {
                    stop = true;
                    vec![Obs::Unsupported]
                }
                None => {
                    stop = true;
                    vec![Obs::Panic]
                }
            },
            Op::CloneFrom(d, k) => {
                if d == k {
                    vec![Obs::None]
                } else {
                    let mut dst = std::mem::take(&mut slots[*d].r);
                    let res = caught(|| dst.try_clone_from(&slots[*k].r));
                    let log = slots[*k].log.clone();
                    slots[*d] = Slot { r: dst, log, push_allocs: 0 };
                    match res {
                        Some(true) => vec![Obs::None],
                        Some(false) => {
                            stop = true;
                            vec![Obs::Unsupported]
                        }
                        None => {
                            stop = true;
                            vec![Obs::Panic]
                        }
                    }
                }
            }
            Op::PushItem(d, k, j, owned) => {
                if d == k || *j >= slots[*k].log.len() {
                    stop = true;
                    vec![Obs::Ill]
                } else {
                    let i = slots[*k].log[*j];
                    let mut dst = std::mem::take(&mut slots[*d].r);
                    let res = caught(|| dst.push_item(&slots[*k].r, i, *owned));
                    slots[*d].r = dst;
                    match res {
                        Some(i2) => {
                            slots[*d].log.push(i2);
                            vec![Obs::Idx(R::idx_u(i2))]
                        }
                        None => {
                            stop = true;
                            vec![Obs::Panic]
                        }
                    }
                }
            }
            Op::CloneOnto(k, j, u) => match (slots[*k].log.get(*j), R::of_u(u)) {
                (Some(i), Some(mut t)) => {
                    let s = &slots[*k];
                    match caught(|| {
                        s.r.index(*i).clone_onto(&mut t);
                        R::to_u(&t)
                    }) {
                        Some(v) => vec![Obs::Val(v)],
                        None => vec![Obs::Panic],
                    }
                }
                _ => {
                    stop = true;
                    vec![Obs::Ill]
                }
            },
            Op::ReserveItems(k, us, form) => {
                let vs: Option<Vec<R::Owned>> = us.iter().map(R::of_u).collect();
                match vs {
                    None => {
                        stop = true;
                        vec![Obs::Ill]
                    }
                    Some(vs) => {
                        let s = &mut slots[*k];
                        match caught(|| s.r.try_reserve_items_form(&vs, *form)) {
                            Some(true) => vec![Obs::None],
                            Some(false) => vec![Obs::Unsupported],
                            None => {
                                stop = true;
                                vec![Obs::Panic]
                            }
                        }
                    }
                }
            }
            Op::ReserveRegions(k, ks) => {
                if ks.contains(k) {
                    stop = true;
                    vec![Obs::Ill]
                } else {
                    let mut dst = std::mem::take(&mut slots[*k].r);
                    let res = caught(|| dst.reserve_regions(ks.iter().map(|j| &slots[*j].r)));
                    slots[*k].r = dst;
                    match res {
                        Some(()) => vec![Obs::None],
                        None => {
                            stop = true;
                            vec![Obs::Panic]
                        }
                    }
                }
            }
            Op::Heap(k) => {
                let s = &slots[*k];
                match caught(|| heap_of(&s.r)) {
                    Some(v) => vec![Obs::Val(U::L(v.into_iter().map(|(a, b)| U::pair(a, b)).collect()))],
                    None => vec![Obs::Panic],
                }
            }
            Op::Allocs(k) => {
                let c = slots[*k].push_allocs;
                slots[*k].push_allocs = 0;
                vec![Obs::Val(U::nat(c))]
            }
            Op::Serde(k) => match caught(|| (slots[*k].r.try_state(), slots[*k].r.try_serde())) {
                Some((before, Some(r))) => {
                    // the serialised state before the round trip and that of the deserialised value
                    let after = r.try_state();
                    slots[*k].r = r;
                    match (before, after) {
                        (Some(a), Some(b)) => vec![Obs::Val(U::L(vec![a, b]))],
                        _ => vec![Obs::None],
                    }
                }
                Some((_, None)) => {
                    stop = true;
                    vec![Obs::Unsupported]
                }
                None => {
                    stop = true;
                    vec![Obs::Panic]
                }
            },
            Op::Cmp(k, i, a, l, j, b) => match (slots[*k].log.get(*i), slots[*l].log.get(*j)) {
                (Some(ii), Some(jj)) => match caught(|| slots[*k].r.try_cmp(*ii, *a, &slots[*l].r, *jj, *b)) {
                    Some(Some(v)) => vec![Obs::Val(v)],
                    Some(None) => vec![Obs::Unsupported],
                    None => vec![Obs::Panic],
                },
                _ => {
                    stop = true;
                    vec![Obs::Ill]
                }
            },
        };
        out.push(group);
        if stop {
            break;
        }
    }
    out
}

// ---- generic helpers the generated Caps impls call -------------------------------------------

pub fn push_item_generic<R>(dst: &mut R, src: &R, i: R::Index, owned: bool) -> R::Index
where
    R: Region + 'static,
    for<'a> R: Push<<R as Region>::ReadItem<'a>>,
{
    if owned {
        let o = src.index(i).into_owned();
        let it: R::ReadItem<'_> = IntoOwned::borrow_as(&o);
        dst.push(it)
    } else {
        dst.push(src.index(i))
    }
}

pub fn push_borrowed<R>(dst: &mut R, v: &R::Owned) -> R::Index
where
    R: Region + 'static,
    for<'a> R: Push<<R as Region>::ReadItem<'a>>,
{
    let it: R::ReadItem<'_> = IntoOwned::borrow_as(v);
    dst.push(it)
}

pub fn ord_u(o: std::cmp::Ordering) -> U {
    U::N(match o {
        std::cmp::Ordering::Less => 0,
        std::cmp::Ordering::Equal => 1,
        std::cmp::Ordering::Greater => 2,
    })
}

pub fn cmp_generic<R>(a: &R, i: R::Index, a_owned: bool, b: &R, j: R::Index, b_owned: bool) -> U
where
    R: Region + 'static,
    for<'a> R::ReadItem<'a>: Ord,
{
    let oa = a.index(i).into_owned();
    let ob = b.index(j).into_owned();
    let x: R::ReadItem<'_> = if a_owned { IntoOwned::borrow_as(&oa) } else { a.index(i) };
    let y: R::ReadItem<'_> = if b_owned { IntoOwned::borrow_as(&ob) } else { b.index(j) };
    let pc = match x.partial_cmp(&y) {
        Some(o) => U::Some(Box::new(ord_u(o))),
        None => U::None,
    };
    U::L(vec![U::bool(x == y), pc, ord_u(x.cmp(&y))])
}

pub fn serde_generic<R>(r: &R) -> R
where
    R: serde::Serialize + for<'a> serde::Deserialize<'a>,
{
    let s = serde_json::to_string(r).expect("serialize");
    serde_json::from_str(&s).expect("deserialize")
}
