From Coq Require Import List Arith NArith Lia Bool.
Import ListNotations.
Set Implicit Arguments.

Inductive res (A : Type) := Ok (a : A) | Panic.
Arguments Panic {A}.
Definition bind {A B} (x : res A) (f : A -> res B) : res B :=
  match x with Ok a => f a | Panic => Panic end.
Notation "'let*' x ':=' c 'in' k" := (bind c (fun x => k)) (at level 200, x name, c at level 100, k at level 200).
Notation "'let*' ' p ':=' c 'in' k" := (bind c (fun x => let 'p := x in k)) (at level 200, p pattern, c at level 100, k at level 200).

(* Index container *)
Record IC (T : Type) := {
  ic_st : Type;
  ic_default : ic_st;
  ic_push : ic_st -> T -> ic_st;
  ic_index : ic_st -> nat -> res T;
  ic_len : ic_st -> nat;
  ic_clear : ic_st -> ic_st;
}.

Record ICOk T (c : IC T) := {
  ic_abs : ic_st c -> list T;
  ic_abs_default : ic_abs (ic_default c) = [];
  ic_abs_push : forall s x, ic_abs (ic_push c s x) = ic_abs s ++ [x];
  ic_abs_index : forall s i x, nth_error (ic_abs s) i = Some x -> ic_index c s i = Ok x;
  ic_abs_len : forall s, ic_len c s = length (ic_abs s);
  ic_abs_clear : forall s, ic_abs (ic_clear c s) = [];
}.

Definition vec_ic (T : Type) : IC T := {|
  ic_st := list T;
  ic_default := [];
  ic_push := fun s x => s ++ [x];
  ic_index := fun s i => match nth_error s i with Some x => Ok x | None => Panic end;
  ic_len := @length T;
  ic_clear := fun _ => [];
|}.

Lemma vec_ic_ok T : ICOk (vec_ic T).
Proof.
  refine (@Build_ICOk T (vec_ic T) (fun s => s) _ _ _ _ _); simpl; auto.
  intros s i x H. now rewrite H.
Qed.

Record Region := {
  val : Type;
  idx : Type;
  st : Type;
  dflt : st;
  push : st -> val -> res (st * idx);
  index : st -> idx -> res val;
  clear : st -> st;
}.

Record RegionOK (R : Region) := {
  inv : st R -> Prop;
  valid : st R -> idx R -> Prop;
  inv_dflt : inv (dflt R);
  push_ok : forall s v, inv s ->
     exists s' i, push R s v = Ok (s', i) /\ inv s' /\ valid s' i /\ index R s' i = Ok v
       /\ (forall j, valid s j -> valid s' j /\ index R s' j = index R s j);
}.

(* Owned region over T *)
Definition owned (T : Type) : Region := {|
  val := list T; idx := nat * nat; st := list T;
  dflt := [];
  push := fun s v => Ok (s ++ v, (length s, length s + length v));
  index := fun s '(a, b) => if (Nat.leb a b && Nat.leb b (length s))%bool then Ok (firstn (b - a) (skipn a s)) else Panic;
  clear := fun _ => [];
|}.

Lemma owned_ok T : RegionOK (owned T).
Proof.
  refine (@Build_RegionOK (owned T) (fun _ => True) (fun s '(a,b) => a <= b <= length s) _ _); simpl; auto.
  intros s v _. eexists _, _. split; [reflexivity|]. split; [auto|]. split; [rewrite app_length; lia|].
  split.
  - rewrite app_length. 
    replace (Nat.leb (length s) (length s + length v)) with true by (symmetry; apply Nat.leb_le; lia).
    rewrite Nat.leb_refl. simpl.
    rewrite skipn_app, skipn_all, Nat.sub_diag. simpl.
    replace (length s + length v - length s) with (length v) by lia. now rewrite firstn_all.
  - intros [a b] [H1 H2]. rewrite app_length. split; [lia|].
    destruct (Nat.leb_spec a b); try lia.
    destruct (Nat.leb_spec b (length s)); try lia.
    destruct (Nat.leb_spec b (length s + length v)); try lia. simpl.
    rewrite skipn_app. rewrite firstn_app. 
    replace (b - a - length (skipn a s)) with 0 by (rewrite skipn_length; lia).
    simpl. now rewrite app_nil_r.
Qed.

(* Slice region over R with index container O *)
Fixpoint push_all (R : Region) (s : st R) (vs : list (val R)) : res (st R * list (idx R)) :=
  match vs with
  | [] => Ok (s, [])
  | v :: vs => let* '(s1, i) := push R s v in
               let* '(s2, is) := push_all R s1 vs in Ok (s2, i :: is)
  end.

Fixpoint index_all (R : Region) (O : IC (idx R)) (so : ic_st O) (sr : st R) (a n : nat) : res (list (val R)) :=
  match n with
  | 0 => Ok []
  | S n => let* i := ic_index O so a in
           let* v := index R sr i in
           let* vs := index_all R O so sr (S a) n in Ok (v :: vs)
  end.

Definition slice (R : Region) (O : IC (idx R)) : Region := {|
  val := list (val R); idx := nat * nat; st := ic_st O * st R;
  dflt := (ic_default O, dflt R);
  push := fun '(so, sr) v =>
    let* '(sr', is) := push_all R sr v in
    let so' := fold_left (ic_push O) is so in
    Ok ((so', sr'), (ic_len O so, ic_len O so'));
  index := fun '(so, sr) '(a, b) => index_all R O so sr a (b - a);
  clear := fun '(so, sr) => (ic_clear O so, clear R sr);
|}.

Definition u8 := N.
Definition cat1 := slice (owned u8) (vec_ic _).

Definition run (R : Region) (vs : list (val R)) : res (list (idx R) * list (val R)) :=
  let* '(s, is) := push_all R (dflt R) vs in
  let* outs := (fix go is := match is with [] => Ok [] | i :: is => let* v := index R s i in let* r := go is in Ok (v :: r) end) is in
  Ok (is, outs).

Definition inp : list (val cat1) := Eval compute in ([ [[1;2];[3]] ; [] ; [[];[4;5;6]] ]%N : list (list (list N))).
Eval vm_compute in run cat1 inp.

Require Import Extraction ExtrOcamlBasic.
Extraction Language OCaml.
Extraction "proto.ml" run cat1.
