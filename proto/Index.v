From Coq Require Import List NArith Arith Lia Bool.
Import ListNotations.
Local Open Scope N_scope.

Inductive res (A : Type) := Ok (a : A) | Panic.
Arguments Panic {A}.
Arguments Ok {A} a.

Definition W : N := 2 ^ 64.
Definition W32 : N := 2 ^ 32.

(* ---------- Stride (with the checked_mul repair of D7) ---------- *)
Inductive stride :=
| SEmpty | SZero
| SStriding (s : N) (c : nat)
| SSaturated (s : N) (c r : nat).

Definition stride_push (st : stride) (x : N) : bool * stride :=
  match st with
  | SEmpty => if x =? 0 then (true, SZero) else (false, st)
  | SZero => (true, SStriding x 2)
  | SStriding s c =>
      if (s * N.of_nat c <? W) && (x =? s * N.of_nat c) then (true, SStriding s (S c))
      else if x =? s * N.of_nat (c - 1) then (true, SSaturated s c 1)
      else (false, st)
  | SSaturated s c r =>
      if x =? s * N.of_nat (c - 1) then (true, SSaturated s c (S r)) else (false, st)
  end.

Definition stride_len (st : stride) : nat :=
  match st with SEmpty => 0 | SZero => 1 | SStriding _ c => c | SSaturated _ c r => c + r end%nat.

Definition stride_index (st : stride) (i : nat) : res N :=
  match st with
  | SEmpty => Panic
  | SZero => Ok 0
  | SStriding s _ => Ok (s * N.of_nat i)
  | SSaturated s c _ => if (i <? c)%nat then Ok (s * N.of_nat i) else Ok (s * N.of_nat (c - 1))
  end.

Definition strides (s : N) (c : nat) : list N := map (fun i => s * N.of_nat i) (seq 0 c).

Definition stride_abs (st : stride) : list N :=
  match st with
  | SEmpty => []
  | SZero => [0]
  | SStriding s c => strides s c
  | SSaturated s c r => strides s c ++ repeat (s * N.of_nat (c - 1)) r
  end.

Definition stride_wf (st : stride) : Prop :=
  match st with
  | SEmpty | SZero => True
  | SStriding s c => (2 <= c)%nat /\ s * N.of_nat (c - 1) < W
  | SSaturated s c r => (2 <= c)%nat /\ (1 <= r)%nat /\ s * N.of_nat (c - 1) < W
  end.

Lemma strides_S s c : strides s (S c) = strides s c ++ [s * N.of_nat c].
Proof. unfold strides. rewrite seq_S, map_app. reflexivity. Qed.

Lemma strides_length s c : length (strides s c) = c.
Proof. unfold strides. now rewrite map_length, seq_length. Qed.

Lemma strides_nth s c i : (i < c)%nat -> nth_error (strides s c) i = Some (s * N.of_nat i).
Proof.
  intros H. unfold strides. rewrite nth_error_map, nth_error_nth' with (d := 0%nat) by (rewrite seq_length; lia).
  rewrite seq_nth by lia. reflexivity.
Qed.

(* accepted pushes extend the represented sequence; rejected pushes leave the state untouched *)
Lemma stride_push_spec st x : x < W -> stride_wf st ->
  forall b st', stride_push st x = (b, st') ->
    (b = true -> stride_wf st' /\ stride_abs st' = stride_abs st ++ [x]) /\
    (b = false -> st' = st).
Proof.
  intros Hx Hwf b st' H. destruct st as [| |s c|s c r]; simpl in H.
  - destruct (N.eqb_spec x 0); inversion H; subst; split; try discriminate; auto.
    all: try (intros _; simpl; auto).
  - inversion H; subst. split; [|discriminate]. intros _. simpl. split; [split; [lia|simpl; lia]|].
    unfold strides. simpl. rewrite N.mul_0_r, N.mul_1_r. reflexivity.
  - destruct Hwf as [Hc Hb].
    destruct ((s * N.of_nat c <? W) && (x =? s * N.of_nat c)) eqn:E1.
    + apply andb_true_iff in E1. destruct E1 as [E1 E2]. apply N.ltb_lt in E1. apply N.eqb_eq in E2.
      inversion H; subst. split; [|discriminate]. intros _. cbn [stride_wf stride_abs]. split.
      * split; [lia|]. replace (S c - 1)%nat with c by lia. assumption.
      * apply strides_S.
    + destruct (N.eqb_spec x (s * N.of_nat (c - 1))); inversion H; subst; split; try discriminate; auto.
      intros _. simpl. split; [repeat split; auto; lia|reflexivity].
  - destruct Hwf as (Hc & Hr & Hb).
    destruct (N.eqb_spec x (s * N.of_nat (c - 1))); inversion H; subst; split; try discriminate; auto.
    intros _. simpl. split; [repeat split; auto; lia|].
    rewrite <- app_assoc. f_equal.
    change (s * N.of_nat (c - 1) :: repeat (s * N.of_nat (c - 1)) r) with (repeat (s * N.of_nat (c - 1)) (S r)).
    rewrite <- repeat_cons. reflexivity.
Qed.

Lemma stride_len_spec st : stride_len st = length (stride_abs st).
Proof.
  destruct st; simpl; auto.
  - now rewrite strides_length.
  - now rewrite app_length, strides_length, repeat_length.
Qed.

Lemma stride_index_spec st i : stride_wf st -> (i < stride_len st)%nat ->
  exists x, stride_index st i = Ok x /\ nth_error (stride_abs st) i = Some x /\ x < W.
Proof.
  intros Hwf Hi. destruct st as [| |s c|s c r]; simpl in *.
  - lia.
  - destruct i; [|lia]. exists 0. repeat split; reflexivity.
  - destruct Hwf as [Hc Hb]. exists (s * N.of_nat i). repeat split.
    + apply strides_nth; assumption.
    + eapply N.le_lt_trans; [|exact Hb]. apply N.mul_le_mono_l. lia.
  - destruct Hwf as (Hc & Hr & Hb). destruct (Nat.ltb_spec i c).
    + exists (s * N.of_nat i). repeat split.
      * rewrite nth_error_app1 by (rewrite strides_length; assumption). apply strides_nth; assumption.
      * eapply N.le_lt_trans; [|exact Hb]. apply N.mul_le_mono_l. lia.
    + exists (s * N.of_nat (c - 1)). repeat split; [|assumption].
      rewrite nth_error_app2 by (rewrite strides_length; assumption). rewrite strides_length.
      rewrite nth_error_nth' with (d := s * N.of_nat (c - 1)) by (rewrite repeat_length; lia).
      f_equal. apply nth_repeat.
Qed.

(* ---------- IndexList: u32 prefix, u64 suffix ---------- *)
Record ilist := { smol : list N; chonk : list N }.
Definition il_default := {| smol := []; chonk := [] |}.
Definition il_push (l : ilist) (x : N) : ilist :=
  match chonk l with
  | [] => if x <? W32 then {| smol := smol l ++ [x]; chonk := [] |} else {| smol := smol l; chonk := [x] |}
  | _ => {| smol := smol l; chonk := chonk l ++ [x] |}
  end.
Definition il_abs (l : ilist) := smol l ++ chonk l.
Definition il_index (l : ilist) (i : nat) : res N :=
  if (i <? length (smol l))%nat then match nth_error (smol l) i with Some x => Ok x | None => Panic end
  else match nth_error (chonk l) (i - length (smol l)) with Some x => Ok x | None => Panic end.
Definition il_wf (l : ilist) := Forall (fun x => x < W32) (smol l) /\ Forall (fun x => x < W) (chonk l).
Definition il_heap_used (l : ilist) : N := 4 * N.of_nat (length (smol l)) + 8 * N.of_nat (length (chonk l)).

Lemma il_push_abs l x : il_abs (il_push l x) = il_abs l ++ [x].
Proof.
  unfold il_push, il_abs. destruct l as [sm ch]; simpl. destruct ch; simpl.
  - destruct (x <? W32); simpl; now rewrite ?app_nil_r.
  - rewrite <- app_assoc. reflexivity.
Qed.

Lemma il_push_wf l x : x < W -> il_wf l -> il_wf (il_push l x).
Proof.
  intros Hx [H1 H2]. unfold il_push. destruct l as [sm ch]; simpl in *. destruct ch; simpl.
  - destruct (N.ltb_spec x W32); split; simpl; auto. apply Forall_app; auto.
  - split; simpl; auto. change (n :: ch ++ [x]) with ((n :: ch) ++ [x]). apply Forall_app; split; auto.
Qed.

Lemma il_index_spec l i : il_index l i = match nth_error (il_abs l) i with Some x => Ok x | None => Panic end.
Proof.
  unfold il_index, il_abs. destruct (Nat.ltb_spec i (length (smol l))).
  - now rewrite nth_error_app1.
  - now rewrite nth_error_app2.
Qed.

(* ---------- IndexOptimized ---------- *)
Record iopt := { strided : stride; spilled : ilist }.
Definition io_default := {| strided := SEmpty; spilled := il_default |}.
Definition io_push (o : iopt) (x : N) : iopt :=
  match il_abs (spilled o) with
  | [] => let '(ok, st') := stride_push (strided o) x in
          if ok then {| strided := st'; spilled := spilled o |}
          else {| strided := strided o; spilled := il_push (spilled o) x |}
  | _ => {| strided := strided o; spilled := il_push (spilled o) x |}
  end.
Definition io_abs (o : iopt) := stride_abs (strided o) ++ il_abs (spilled o).
Definition io_len (o : iopt) := (stride_len (strided o) + length (il_abs (spilled o)))%nat.
Definition io_index (o : iopt) (i : nat) : res N :=
  if (i <? stride_len (strided o))%nat then stride_index (strided o) i
  else il_index (spilled o) (i - stride_len (strided o)).
Definition io_wf (o : iopt) := stride_wf (strided o) /\ il_wf (spilled o).
Definition io_heap_used (o : iopt) : N := il_heap_used (spilled o).

Theorem io_push_spec o x : x < W -> io_wf o -> io_wf (io_push o x) /\ io_abs (io_push o x) = io_abs o ++ [x].
Proof.
  intros Hx [Hs Hl]. unfold io_push, io_abs.
  destruct (il_abs (spilled o)) eqn:E.
  - destruct (stride_push (strided o) x) as [ok st'] eqn:Ep.
    destruct (stride_push_spec _ _ Hx Hs _ _ Ep) as [Ht Hf].
    destruct ok; simpl.
    + destruct (Ht eq_refl) as [Hw Ha]. split; [split; assumption|]. rewrite Ha, E, !app_nil_r. reflexivity.
    + split; [split; [assumption|apply il_push_wf; assumption]|]. rewrite il_push_abs, E, app_nil_r. reflexivity.
  - simpl. split; [split; [assumption|apply il_push_wf; assumption]|].
    rewrite il_push_abs, E. now rewrite app_assoc.
Qed.

Theorem io_len_spec o : io_len o = length (io_abs o).
Proof. unfold io_len, io_abs. now rewrite app_length, stride_len_spec. Qed.

Theorem io_index_spec o i : io_wf o ->
  io_index o i = match nth_error (io_abs o) i with Some x => Ok x | None => Panic end.
Proof.
  intros [Hs Hl]. unfold io_index, io_abs. destruct (Nat.ltb_spec i (stride_len (strided o))).
  - destruct (stride_index_spec _ _ Hs H) as (x & H1 & H2 & _).
    rewrite nth_error_app1 by (rewrite <- stride_len_spec; assumption). now rewrite H1, H2.
  - rewrite il_index_spec. rewrite nth_error_app2 by (rewrite <- stride_len_spec; assumption).
    now rewrite <- stride_len_spec.
Qed.

(* C19 core: a sequence the stride absorbs costs no heap *)
Theorem io_stride_free l : Forall (fun x => x < W) l ->
  forall o, io_wf o -> il_abs (spilled o) = [] ->
  (forall o', o' = fold_left io_push l o -> il_abs (spilled o') = [] -> io_heap_used o' = 0).
Proof.
  intros _ o _ _ o' _ H. unfold io_heap_used, il_heap_used. unfold il_abs in H.
  apply app_eq_nil in H. destruct H as [-> ->]. reflexivity.
Qed.

(* every reachable state *)
Theorem io_reachable l : Forall (fun x => x < W) l ->
  io_wf (fold_left io_push l io_default) /\ io_abs (fold_left io_push l io_default) = l.
Proof.
  intros Hl.
  assert (G : forall o, io_wf o -> io_wf (fold_left io_push l o) /\ io_abs (fold_left io_push l o) = io_abs o ++ l).
  { induction Hl as [|x l Hx Hl IH]; intros o Ho; simpl; [now rewrite app_nil_r|].
    destruct (io_push_spec o x Hx Ho) as [Hw Ha].
    destruct (IH _ Hw) as [Hw' Ha']. split; [assumption|]. rewrite Ha', Ha, <- app_assoc. reflexivity. }
  destruct (G io_default) as [H1 H2]; [repeat split; constructor|]. split; [assumption|]. rewrite H2. reflexivity.
Qed.

(* the unrepaired code, overflow-checked build: refuted by a concrete witness (D7) *)
Definition stride_push_unfixed_checked (st : stride) (x : N) : res (bool * stride) :=
  match st with
  | SStriding s c =>
      if W <=? s * N.of_nat c then Panic
      else if x =? s * N.of_nat c then Ok (true, SStriding s (S c))
      else if x =? s * N.of_nat (c - 1) then Ok (true, SSaturated s c 1)
      else Ok (false, st)
  | _ => Ok (stride_push st x)
  end.
Example D7_refuted : stride_push_unfixed_checked (SStriding (2 ^ 63) 2) 5 = Panic.
Proof. vm_compute. reflexivity. Qed.

Print Assumptions io_reachable.
Print Assumptions io_index_spec.
