use flatcontainer::impls::deduplicate::{CollapseSequence, ConsecutiveIndexPairs};
use flatcontainer::impls::index::{IndexContainer, IndexList, IndexOptimized};
use flatcontainer::impls::storage::Storage;
use flatcontainer::impls::tuple::TupleABRegion;
use flatcontainer::*;
use std::alloc::{GlobalAlloc, Layout, System};
use std::fmt::Debug;
use std::sync::atomic::{AtomicUsize, Ordering::SeqCst};
struct Counting;
static ALLOCS: AtomicUsize = AtomicUsize::new(0);
unsafe impl GlobalAlloc for Counting {
    unsafe fn alloc(&self, l: Layout) -> *mut u8 { ALLOCS.fetch_add(1, SeqCst); System.alloc(l) }
    unsafe fn dealloc(&self, p: *mut u8, l: Layout) { System.dealloc(p, l) }
    unsafe fn realloc(&self, p: *mut u8, l: Layout, n: usize) -> *mut u8 { ALLOCS.fetch_add(1, SeqCst); System.realloc(p, l, n) }
}
#[global_allocator]
static A: Counting = Counting;

struct Rng(u64);
impl Rng { fn next(&mut self) -> u64 { self.0 ^= self.0 << 13; self.0 ^= self.0 >> 7; self.0 ^= self.0 << 17; self.0 } fn below(&mut self, n: u64) -> u64 { self.next() % n } }
trait Gen: Sized + Clone + Debug + PartialEq { fn gen(r: &mut Rng) -> Self; }
impl Gen for u8 { fn gen(r: &mut Rng) -> Self { r.below(4) as u8 } }
impl Gen for u64 { fn gen(r: &mut Rng) -> Self { [0, 1, 7, u32::MAX as u64 + 1, u64::MAX][r.below(5) as usize] } }
impl Gen for String { fn gen(r: &mut Rng) -> Self { ["", "a", "ab", "ü", "€x", "abc"][r.below(6) as usize].to_string() } }
impl<T: Gen> Gen for Vec<T> { fn gen(r: &mut Rng) -> Self { let n = [0, 1, 2, 3, 5, 9][r.below(6) as usize]; (0..n).map(|_| T::gen(r)).collect() } }
impl<T: Gen> Gen for Option<T> { fn gen(r: &mut Rng) -> Self { if r.below(3) == 0 { None } else { Some(T::gen(r)) } } }
impl<T: Gen, E: Gen> Gen for Result<T, E> { fn gen(r: &mut Rng) -> Self { if r.below(3) == 0 { Err(E::gen(r)) } else { Ok(T::gen(r)) } } }
impl<A: Gen, B: Gen> Gen for (A, B) { fn gen(r: &mut Rng) -> Self { (A::gen(r), B::gen(r)) } }

fn caps<R: Region>(r: &R) -> Vec<(usize, usize)> { let mut v = vec![]; r.heap_size(|a, b| v.push((a, b))); v }

fn c17<R, V>(name: &str)
where
    R: Region<Owned = V> + 'static,
    V: Gen,
    for<'a> R: Push<&'a V> + ReserveItems<&'a V>,
{
    let mut bad = 0;
    for it in 0..500u64 {
        let mut rng = Rng(it * 7919 + 3 | 1);
        let pre: Vec<V> = (0..rng.below(20)).map(|_| V::gen(&mut rng)).collect();
        let batch: Vec<V> = (0..rng.below(60) + 1).map(|_| V::gen(&mut rng)).collect();
        // reserve_items on a populated region
        let mut r = R::default();
        for v in &pre { let _ = r.push(v); }
        r.reserve_items(batch.iter());
        let c0 = caps(&r).iter().map(|x| x.1).collect::<Vec<_>>();
        let a0 = ALLOCS.load(SeqCst);
        for v in &batch { let _ = r.push(v); }
        let a1 = ALLOCS.load(SeqCst);
        let c1 = caps(&r).iter().map(|x| x.1).collect::<Vec<_>>();
        if c0 != c1 || a1 != a0 { bad += 1; if bad <= 2 { println!("[C17 {name}] reserve_items: caps {c0:?} -> {c1:?}, allocs {}", a1 - a0); } }
        // reserve_regions / merge_regions from a source
        let mut src = R::default();
        for v in &batch { let _ = src.push(v); }
        let mut r = R::default();
        for v in &pre { let _ = r.push(v); }
        r.reserve_regions(std::iter::once(&src));
        let c0 = caps(&r).iter().map(|x| x.1).collect::<Vec<_>>();
        let a0 = ALLOCS.load(SeqCst);
        for v in &batch { let _ = r.push(v); }
        let a1 = ALLOCS.load(SeqCst);
        let c1 = caps(&r).iter().map(|x| x.1).collect::<Vec<_>>();
        if c0 != c1 || a1 != a0 { bad += 1; if bad <= 2 { println!("[C17 {name}] reserve_regions: caps {c0:?} -> {c1:?}, allocs {}", a1 - a0); } }
        let mut r = R::merge_regions(std::iter::once(&src));
        let c0 = caps(&r).iter().map(|x| x.1).collect::<Vec<_>>();
        let a0 = ALLOCS.load(SeqCst);
        for v in &batch { let _ = r.push(v); }
        let a1 = ALLOCS.load(SeqCst);
        let c1 = caps(&r).iter().map(|x| x.1).collect::<Vec<_>>();
        if c0 != c1 || a1 != a0 { bad += 1; if bad <= 2 { println!("[C17 {name}] merge_regions: caps {c0:?} -> {c1:?}, allocs {}", a1 - a0); } }
        // C18: used <= cap, monotone
        let mut r = R::default(); let mut last = 0;
        for v in &batch { let _ = r.push(v); let cs = caps(&r); let u: usize = cs.iter().map(|x| x.0).sum(); if cs.iter().any(|x| x.0 > x.1) || u < last { println!("[C18 {name}] {cs:?}"); } last = u; }
        let before = caps(&r); r.clear(); let after = caps(&r);
        if after.iter().zip(&before).any(|(a, b)| a.1 < b.1) || after.len() != before.len() { println!("[C18 {name}] clear shrank: {before:?} -> {after:?}"); }
    }
    println!("[C17/C18 {name}] {bad} bad of 1500");
}

fn c03<R, V, S>(name: &str)
where
    R: Region<Owned = V> + 'static, V: Gen, for<'a> R: Push<&'a V>, S: IndexContainer<R::Index>,
{
    let mut bad = 0;
    for it in 0..500u64 {
        let mut rng = Rng(it * 104729 + 11 | 1);
        let mut fs = FlatStack::<R, S>::default();
        let mut model: Vec<V> = vec![];
        for _ in 0..rng.below(40) + 1 {
            match rng.below(8) {
                0 => { fs.clear(); model.clear(); }
                1 => { let b: Vec<V> = (0..rng.below(5)).map(|_| V::gen(&mut rng)).collect(); fs.extend(b.iter()); model.extend(b); }
                2 => { fs.reserve(rng.below(10) as usize); }
                _ => { let v = V::gen(&mut rng); fs.copy(&v); model.push(v); }
            }
            let ok = fs.len() == model.len() && fs.is_empty() == model.is_empty()
                && (0..model.len()).all(|i| fs.get(i).into_owned() == model[i])
                && fs.iter().map(|x| x.into_owned()).collect::<Vec<_>>() == model
                && { let h = fs.iter().size_hint(); h.0 <= model.len() && h.1.map_or(true, |u| u >= model.len()) }
                && std::panic::catch_unwind(std::panic::AssertUnwindSafe(|| { let _ = fs.get(model.len()); })).is_err();
            if !ok { bad += 1; break; }
        }
        let mut it = fs.iter(); if !model.is_empty() { it.next(); let c = it.clone(); if c.map(|x| x.into_owned()).collect::<Vec<_>>() != model[1..] { bad += 1; } }
    }
    println!("[C03 {name}] {bad} bad of 500");
}

fn main() {
    std::panic::set_hook(Box::new(|_| {}));
    type S = StringRegion;
    c17::<OwnedRegion<u8>, _>("owned_u8");
    c17::<S, _>("string");
    c17::<SliceRegion<S>, _>("slice_string");
    c17::<SliceRegion<SliceRegion<MirrorRegion<u8>>>, _>("slice_slice_u8");
    c17::<OptionRegion<S>, _>("option_string");
    c17::<ResultRegion<S, OwnedRegion<u8>>, _>("result_string_owned");
    c17::<TupleABRegion<S, SliceRegion<S>>, _>("tuple_string_slice");
    c17::<Vec<u64>, _>("vec_u64");
    c03::<S, _, Vec<(usize, usize)>>("string/vec");
    c03::<ConsecutiveIndexPairs<S>, _, IndexOptimized>("consec_string/opt");
    c03::<ConsecutiveIndexPairs<S>, _, IndexList<Vec<u32>, Vec<u64>>>("consec_string/list");
    c03::<ColumnsRegion<ConsecutiveIndexPairs<S>>, _, IndexOptimized>("columns/opt");
    c03::<MirrorRegion<u64>, _, Vec<u64>>("mirror/vec");
    // C19: dense FlatStack spends zero index bytes
    let mut fs = FlatStack::<ConsecutiveIndexPairs<S>, IndexOptimized>::default();
    for i in 0..10000 { fs.copy(format!("{i}").as_str()); }
    let mut io = <IndexOptimized>::default();
    for i in 0..10000usize { io.push(i); }
    let mut v = vec![]; Storage::<usize>::heap_size(&io, |a, b| v.push((a, b)));
    println!("[C19] IndexOptimized dense 10000: {v:?}");
    let mut io = <IndexOptimized>::default();
    for x in [0usize, 3, 6, 9, 9, 9, 5, 1 << 31, 1 << 32, 7] { io.push(x); }
    let mut v = vec![]; Storage::<usize>::heap_size(&io, |a, b| v.push((a, b)));
    println!("[C19] [0,3,6,9,9,9,5,2^31,2^32,7]: {v:?} (expect used 8 and 16) contents {:?}", io.iter().collect::<Vec<_>>());
    // C15
    let mut bad = 0;
    for it in 0..2000u64 {
        let mut rng = Rng(it * 31 + 5 | 1);
        let a: Vec<Vec<u8>> = Gen::gen(&mut rng); let b: Vec<Vec<u8>> = Gen::gen(&mut rng);
        let mut r1 = <SliceRegion<OwnedRegion<u8>>>::default(); let mut r2 = <SliceRegion<OwnedRegion<u8>>>::default();
        let _ = r2.push(&b); let ia = r1.push(&a); let ib = r2.push(&b);
        let (x, y) = (r1.index(ia), r2.index(ib));
        let (ox, oy): (flatcontainer::impls::slice::ReadSlice<OwnedRegion<u8>>, flatcontainer::impls::slice::ReadSlice<OwnedRegion<u8>>) = (IntoOwned::borrow_as(&a), IntoOwned::borrow_as(&b));
        for (p, q) in [(x, y), (x, oy), (ox, y), (ox, oy)] {
            if p.cmp(&q) != a.cmp(&b) || (p == q) != (a == b) || p.partial_cmp(&q) != a.partial_cmp(&b) { bad += 1; }
        }
    }
    println!("[C15] {bad} bad of 8000");
}
