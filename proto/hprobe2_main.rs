use flatcontainer::impls::codec::{CodecRegion, DictionaryCodec};
use flatcontainer::*;
use std::panic::{catch_unwind, AssertUnwindSafe};
fn used<R: Region>(r: &R) -> usize { let mut u = 0; r.heap_size(|a, _| u += a); u }
fn enc_of(r: &CodecRegion<DictionaryCodec>) -> String {
    let d = format!("{:?}", r);
    let i = d.find("encode: ").unwrap(); let j = d[i..].find(", decode").unwrap();
    d[i..i + j].to_string()
}
fn run(r: &mut CodecRegion<DictionaryCodec>, items: &[Vec<u8>]) -> Vec<Option<(usize, Vec<u8>)>> {
    items.iter().map(|x| {
        let before = used(r);
        match catch_unwind(AssertUnwindSafe(|| r.push(x.as_slice()))) {
            Ok(i) => Some((used(r) - before, r.index(i).to_vec())),
            Err(_) => None,
        }
    }).collect()
}
fn main() {
    std::panic::set_hook(Box::new(|_| {}));
    let (a, b) = (97u8, 98u8);
    let mut train1 = CodecRegion::<DictionaryCodec>::default();
    run(&mut train1, &[vec![a,b,99], vec![a,b,99], vec![a,b,99], vec![100,101], vec![100,101], vec![255]]);
    let mut gen2 = CodecRegion::merge_regions([&train1].into_iter());
    eprintln!("{}", enc_of(&gen2));
    eprintln!("{:?}", run(&mut gen2, &[vec![a,b,99], vec![100,101], vec![255], vec![], vec![0,1,2], vec![1,5], vec![2], vec![3,3], vec![a]]));
    let mut train2 = CodecRegion::<DictionaryCodec>::default();
    let mut many: Vec<Vec<u8>> = vec![];
    for i in 0..1500usize { many.push(vec![1, (i / 256) as u8, (i % 256) as u8]); many.push(vec![2, 7]); many.push(vec![3, 9, 9]); }
    many.push(vec![2, 7]); many.push(vec![4]);
    run(&mut train2, &many);
    let gen2b = CodecRegion::merge_regions([&train2, &train1].into_iter());
    let e = enc_of(&gen2b);
    eprintln!("entries {}", e.matches("]: ").count());
    for k in ["[2, 7]: ", "[3, 9, 9]: ", "[97, 98, 99]: ", "[100, 101]: ", "[1, 0, 0]: ", "[1, 0, 1]: ", "[255]: "] {
        let t = e.find(k).map(|i| e[i + k.len()..].split(|c: char| !c.is_ascii_digit()).next().unwrap().to_string());
        eprintln!("{k}{t:?}");
    }
}
