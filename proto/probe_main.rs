use flatcontainer::*;
use flatcontainer::impls::deduplicate::{CollapseSequence, ConsecutiveIndexPairs};
use std::alloc::{GlobalAlloc, Layout, System};
use std::sync::atomic::{AtomicUsize, Ordering::SeqCst};
struct Counting;
static ALLOCS: AtomicUsize = AtomicUsize::new(0);
unsafe impl GlobalAlloc for Counting {
    unsafe fn alloc(&self, l: Layout) -> *mut u8 { ALLOCS.fetch_add(1, SeqCst); System.alloc(l) }
    unsafe fn dealloc(&self, p: *mut u8, l: Layout) { System.dealloc(p, l) }
    unsafe fn realloc(&self, p: *mut u8, l: Layout, n: usize) -> *mut u8 { ALLOCS.fetch_add(1, SeqCst); System.realloc(p, l, n) }
}
#[global_allocator]
static A: Counting = Counting;

fn caps<R: Region>(r: &R) -> Vec<(usize, usize)> { let mut v = vec![]; r.heap_size(|a, b| v.push((a, b))); v }

fn main() {
    // D9
    let mut src = <SliceRegion<StringRegion>>::default();
    let data: Vec<Vec<String>> = (0..10).map(|i| (0..i).map(|j| format!("s{j}")).collect()).collect();
    for d in &data { let _ = src.push(d); }
    let mut m = <SliceRegion<StringRegion>>::merge_regions(std::iter::once(&src));
    let before = caps(&m);
    for d in &data { let _ = m.push(d); }
    println!("[D9] merge_regions caps before {:?} after {:?}", before, caps(&m));
    let mut m = <SliceRegion<StringRegion>>::default();
    m.reserve_regions(std::iter::once(&src));
    let before = caps(&m);
    let a0 = ALLOCS.load(SeqCst);
    for d in &data { let _ = m.push(d); }
    let a1 = ALLOCS.load(SeqCst);
    println!("[ok] reserve_regions caps before {:?} after {:?} allocs {}", before, caps(&m), a1 - a0);
    let mut m = <SliceRegion<StringRegion>>::default();
    m.reserve_items(data.iter());
    let before = caps(&m);
    let a0 = ALLOCS.load(SeqCst);
    for d in &data { let _ = m.push(d); }
    let a1 = ALLOCS.load(SeqCst);
    println!("[ok] reserve_items caps before {:?} after {:?} allocs {}", before, caps(&m), a1 - a0);
    // log growth
    let mut r = <ColumnsRegion<CollapseSequence<ConsecutiveIndexPairs<StringRegion>>>>::default();
    let a0 = ALLOCS.load(SeqCst);
    for i in 0..16384usize { let row = [if i % 3 == 0 {"a"} else {"bb"}, "c", "dd"]; let _ = r.push(PushIter(row.iter().copied())); }
    let a1 = ALLOCS.load(SeqCst);
    let mut n = 0; r.heap_size(|_, _| n += 1);
    println!("[log] 16384 rows: allocs {} storages {}", a1 - a0, n);
    // ExactSizeIterator::len on ReadSliceIter
    let mut s = <SliceRegion<MirrorRegion<u8>>>::default();
    let i = s.push([1u8, 2, 3]);
    let it = s.index(i).iter();
    println!("size_hint {:?}", it.size_hint());
    let r = std::panic::catch_unwind(std::panic::AssertUnwindSafe(|| it.len()));
    println!("ReadSliceIter::len -> {:?}", r.is_ok());
    println!("sizes: (usize,usize)={} Option<usize>={} Result<usize,usize>={} Option<(usize,usize)>={}", std::mem::size_of::<(usize,usize)>(), std::mem::size_of::<Option<usize>>(), std::mem::size_of::<Result<usize,usize>>(), std::mem::size_of::<Option<(usize,usize)>>());
}
