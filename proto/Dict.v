From Coq Require Import List NArith Arith Lia Bool.
Import ListNotations.

Inductive res (A : Type) := Ok (a : A) | Panic.
Arguments Panic {A}. Arguments Ok {A} a.

Definition bytes := list nat.   (* u8 values; nat is fine here: only compared and indexed *)

(* lexicographic order of Vec<u8> *)
Fixpoint bcmp (a b : bytes) : comparison :=
  match a, b with
  | [], [] => Eq | [], _ => Lt | _, [] => Gt
  | x :: a, y :: b => match Nat.compare x y with Eq => bcmp a b | c => c end
  end.

(* ---------- consolidate / MisraGries ---------- *)
Definition entry := (bytes * nat)%type.

Fixpoint ins_by (le : entry -> entry -> bool) (x : entry) (l : list entry) : list entry :=
  match l with [] => [x] | y :: l' => if le y x then y :: ins_by le x l' else x :: l end.
(* stable: an element is inserted after all elements that are <= it *)
Definition sort_by (le : entry -> entry -> bool) (l : list entry) : list entry :=
  fold_left (fun acc x => ins_by le x acc) l [].

Definition key_le (a b : entry) : bool := match bcmp (fst a) (fst b) with Gt => false | _ => true end.
Definition count_ge (a b : entry) : bool := (snd b <=? snd a).   (* descending by count *)

Fixpoint merge_adj (l : list entry) : list entry :=
  match l with
  | [] => []
  | (k, c) :: l' =>
    match merge_adj l' with
    | (k', c') :: r => match bcmp k k' with Eq => (k, c + c') :: r | _ => (k, c) :: (k', c') :: r end
    | [] => [(k, c)]
    end
  end.
Definition consolidate (l : list entry) : list entry :=
  filter (fun e => negb (snd e =? 0)) (merge_adj (sort_by key_le l)).

Definition CAP := 1024.
Definition mg := list entry.

Definition tidy (m : mg) : mg :=
  let m := sort_by count_ge (consolidate m) in
  let k := CAP / 2 in
  if k <? length m then
    let sub := snd (nth k m ([], 0)) - 1 in
    let m := map (fun '(x, c) => (x, c - sub)) (firstn k m) in
    (* pop trailing zeros *)
    rev ((fix drop l := match l with (x, 0) :: l' => drop l' | _ => l end) (rev m))
  else m.

Definition mg_update (m : mg) (x : bytes) (c : nat) : mg :=
  let m := m ++ [(x, c)] in if length m =? CAP then tidy m else m.
Definition mg_done (m : mg) : list entry := sort_by count_ge (consolidate m).

(* ---------- BytesMap ---------- *)
Record bmap := { offs : list nat; bbytes : bytes }.
Definition bm_default := {| offs := [0]; bbytes := [] |}.
Definition bm_push (m : bmap) (x : option bytes) : bmap :=
  let b := match x with Some y => bbytes m ++ y | None => bbytes m end in
  {| offs := offs m ++ [length b]; bbytes := b |}.
Definition bm_get (m : bmap) (i : nat) : option bytes :=
  if i <? length (offs m) - 1 then
    let lo := nth i (offs m) 0 in let hi := nth (S i) (offs m) 0 in
    if lo <? hi then Some (firstn (hi - lo) (skipn lo (bbytes m))) else None
  else None.

(* ---------- DictionaryCodec (with the D5/D6 repairs) ---------- *)
Record codec := { cenc : list (bytes * nat); cdec : bmap; cstats : mg; cseen : list nat (* observed first bytes *) }.
Definition codec_default := {| cenc := []; cdec := bm_default; cstats := []; cseen := [] |}.

Fixpoint lookup (x : bytes) (e : list (bytes * nat)) : option nat :=
  match e with [] => None | (k, t) :: e => match bcmp k x with Eq => Some t | _ => lookup x e end end.

Definition encode (c : codec) (x : bytes) : res (codec * bytes) :=
  let stored :=
    match lookup x (cenc c) with
    | Some t => Ok [t]
    | None => match x with
              | b :: _ => match bm_get (cdec c) b with Some _ => Panic | None => Ok x end
              | [] => Ok x
              end
    end in
  match stored with
  | Panic => Panic
  | Ok st =>
    let c' := match x with
              | b :: _ => {| cenc := cenc c; cdec := cdec c; cstats := mg_update (cstats c) x 1; cseen := b :: cseen c |}
              | [] => c
              end in
    Ok (c', st)
  end.

Definition decode (c : codec) (st : bytes) : bytes :=
  match st with
  | b :: _ => match bm_get (cdec c) b with Some e => e | None => st end
  | [] => st
  end.

Definition new_from (cs : list codec) : codec :=
  let m := fold_left (fun m '(x, n) => mg_update m x n) (flat_map (fun c => mg_done (cstats c)) cs) [] in
  let hh := mg_done m in
  let seen := flat_map cseen cs in
  let '(_, e, d) := fold_left (fun '(hh, e, d) tag =>
      if existsb (Nat.eqb tag) seen then (hh, e, bm_push d None)
      else match hh with
           | (x, _) :: hh' => (hh', e ++ [(x, tag)], bm_push d (Some x))
           | [] => (hh, e, d)
           end) (seq 0 256) (hh, [], bm_default) in
  {| cenc := e; cdec := d; cstats := []; cseen := [] |}.

(* CodecRegion over an owned byte store: returns stored length per push and read-back *)
Definition run (c : codec) (items : list bytes) : codec * list (option (nat * bytes)) :=
  fold_left (fun '(c, out) x =>
    match encode c x with
    | Panic => (c, out ++ [None])
    | Ok (c', st) => (c', out ++ [Some (length st, decode c' st)])
    end) items (c, []).

Definition a := 97. Definition b := 98.
(* scenario 1: train, merge, push mixed *)
Definition train1 := fst (run codec_default ([ [a;b;99]; [a;b;99]; [a;b;99]; [100;101]; [100;101]; [255] ])).
Definition gen2 := new_from [train1].
Eval vm_compute in (cenc gen2).
Eval vm_compute in snd (run gen2 [ [a;b;99]; [100;101]; [255]; []; [0;1;2]; [1;5]; [2]; [3;3]; [a] ]).

(* scenario 2: more than 1024 distinct strings, a few heavy *)
Definition many : list bytes :=
  flat_map (fun i => [[1; i / 256; i mod 256]; [2; 7]; [3; 9; 9]]) (seq 0 1500) ++ [[2;7]; [4]].
Definition train2 := fst (run codec_default many).
Eval vm_compute in length (cstats train2).
Definition gen2b := new_from [train2; train1].
Eval vm_compute in firstn 6 (cenc gen2b).
Eval vm_compute in length (cenc gen2b).
