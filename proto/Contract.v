From Coq Require Import List Arith Lia Bool.
Import ListNotations.
Set Implicit Arguments.

(* ---------- result monad ---------- *)
Inductive res (A : Type) := Ok (a : A) | Panic.
Arguments Panic {A}.
Definition bind {A B} (x : res A) (f : A -> res B) : res B :=
  match x with Ok a => f a | Panic => Panic end.
Notation "'let*' x ':=' c 'in' k" := (bind c (fun x => k)) (at level 200, x name, c at level 100, k at level 200).
Notation "'let*' ' p ':=' c 'in' k" := (bind c (fun x => let 'p := x in k)) (at level 200, p pattern, c at level 100, k at level 200).

Fixpoint mapM {A B} (f : A -> res B) (l : list A) : res (list B) :=
  match l with
  | [] => Ok []
  | x :: l => let* y := f x in let* ys := mapM f l in Ok (y :: ys)
  end.

Lemma mapM_app {A B} (f : A -> res B) l1 l2 r1 r2 :
  mapM f l1 = Ok r1 -> mapM f l2 = Ok r2 -> mapM f (l1 ++ l2) = Ok (r1 ++ r2).
Proof.
  revert r1; induction l1 as [|x l1 IH]; simpl; intros r1 H1 H2.
  - inversion H1; subst; assumption.
  - destruct (f x); simpl in *; [|discriminate].
    destruct (mapM f l1) eqn:E; simpl in *; [|discriminate].
    inversion H1; subst. rewrite (IH _ eq_refl H2). reflexivity.
Qed.

Lemma mapM_ext_in {A B} (f g : A -> res B) l :
  (forall x, In x l -> f x = g x) -> mapM f l = mapM g l.
Proof.
  induction l as [|x l IH]; simpl; intros H; [reflexivity|].
  rewrite (H x) by auto. rewrite IH by auto. reflexivity.
Qed.

Lemma mapM_length {A B} (f : A -> res B) l r : mapM f l = Ok r -> length r = length l.
Proof.
  revert r; induction l as [|x l IH]; simpl; intros r H.
  - inversion H; reflexivity.
  - destruct (f x); simpl in *; [|discriminate].
    destruct (mapM f l); simpl in *; [|discriminate]. inversion H; subst; simpl. f_equal; auto.
Qed.

Lemma In_firstn_in {A} (x : A) n l : In x (firstn n l) -> In x l.
Proof. revert l; induction n; intros [|y l]; simpl; intuition. Qed.
Lemma In_skipn_in {A} (x : A) n l : In x (skipn n l) -> In x l.
Proof. revert l; induction n; intros [|y l]; simpl; intuition. Qed.

(* ---------- index containers ---------- *)
Record IC (T : Type) := {
  ic_st : Type;
  ic_default : ic_st;
  ic_push : ic_st -> T -> ic_st;
  ic_index : ic_st -> nat -> res T;
  ic_len : ic_st -> nat;
  ic_clear : ic_st -> ic_st;
}.

Class ICOk T (c : IC T) := {
  ic_abs : ic_st c -> list T;
  abs_default : ic_abs (ic_default c) = [];
  abs_push : forall s x, ic_abs (ic_push c s x) = ic_abs s ++ [x];
  abs_index : forall s i, ic_index c s i = match nth_error (ic_abs s) i with Some x => Ok x | None => Panic end;
  abs_len : forall s, ic_len c s = length (ic_abs s);
  abs_clear : forall s, ic_abs (ic_clear c s) = [];
}.

Lemma abs_push_all T (c : IC T) `{ICOk T c} l s : ic_abs (fold_left (ic_push c) l s) = ic_abs s ++ l.
Proof.
  revert s; induction l as [|x l IH]; simpl; intros s; [now rewrite app_nil_r|].
  rewrite IH, abs_push, <- app_assoc. reflexivity.
Qed.

(* ---------- regions ---------- *)
Record Region := {
  val : Type; idx : Type; st : Type;
  dflt : st;
  push : st -> val -> res (st * idx);
  read : st -> idx -> res val;
  clear : st -> st;
}.

Definition frame (R : Region) (valid : st R -> idx R -> Prop) (s s' : st R) : Prop :=
  forall j, valid s j -> valid s' j /\ read R s' j = read R s j.

Class RSpec (R : Region) := {
  inv : st R -> Prop;
  valid : st R -> idx R -> Prop;
  sim : st R -> st R -> Prop;
}.

Class RegionOK (R : Region) (SP : RSpec R) : Prop := {
  inv_dflt : inv (dflt R);
  push_ok : forall s v, inv s ->
     exists s' i, push R s v = Ok (s', i) /\ inv s' /\ valid s' i /\ read R s' i = Ok v /\ frame R valid s s';
  valid_reads : forall s j, inv s -> valid s j -> exists w, read R s j = Ok w;
  clear_ok : forall s, inv s -> inv (clear R s) /\ sim (clear R s) (dflt R);
  sim_refl : forall s, sim s s;
  sim_sym : forall s t, sim s t -> sim t s;
  sim_trans : forall s t u, sim s t -> sim t u -> sim s u;
  sim_push : forall s t v s' i, inv s -> inv t -> sim s t -> push R s v = Ok (s', i) ->
     exists t', push R t v = Ok (t', i) /\ sim s' t';
  sim_read : forall s t i, inv s -> inv t -> sim s t -> valid s i -> valid t i /\ read R t i = read R s i;
}.

Arguments RegionOK R {SP}.

Lemma frame_refl R `{RSpec R} s : frame R valid s s.
Proof. intros j Hj; auto. Qed.
Lemma frame_trans R `{RSpec R} s t u : frame R valid s t -> frame R valid t u -> frame R valid s u.
Proof.
  intros H1 H2 j Hj. destruct (H1 j Hj) as [Hv Hr]. destruct (H2 j Hv) as [Hv' Hr']. split; [assumption|congruence].
Qed.

(* ---------- owned region ---------- *)
Definition owned (T : Type) : Region := {|
  val := list T; idx := nat * nat; st := list T;
  dflt := [];
  push := fun s v => Ok (s ++ v, (length s, length s + length v));
  read := fun s '(a, b) => if (a <=? b) && (b <=? length s) then Ok (firstn (b - a) (skipn a s)) else Panic;
  clear := fun _ => [];
|}.

#[export] Instance owned_spec T : RSpec (owned T) :=
  @Build_RSpec (owned T) (fun _ => True) (fun (s : list T) (i : nat * nat) => fst i <= snd i <= length s) eq.
#[export] Instance owned_ok T : RegionOK (owned T).
Proof.
  constructor; simpl.
  - exact I.
  - intros s v _. eexists _, _. split; [reflexivity|]. split; [auto|]. split; [simpl; rewrite app_length; lia|].
    split.
    + rewrite app_length.
      destruct (Nat.leb_spec (length s) (length s + length v)); try lia.
      destruct (Nat.leb_spec (length s + length v) (length s + length v)); try lia. simpl.
      rewrite skipn_app, skipn_all, Nat.sub_diag. simpl.
      replace (length s + length v - length s) with (length v) by lia. now rewrite firstn_all.
    + intros [a b] [H1 H2]. simpl in *. rewrite app_length. split; [lia|].
      destruct (Nat.leb_spec a b); try lia.
      destruct (Nat.leb_spec b (length s)); try lia.
      destruct (Nat.leb_spec b (length s + length v)); try lia. simpl.
      rewrite skipn_app. rewrite firstn_app.
      replace (b - a - length (skipn a s)) with 0 by (rewrite skipn_length; lia).
      simpl. now rewrite app_nil_r.
  - intros s [a b] _ [H1 H2]. simpl in *.
    destruct (Nat.leb_spec a b); try lia. destruct (Nat.leb_spec b (length s)); try lia. simpl. eauto.
  - auto.
  - auto.
  - auto.
  - intros; congruence.
  - intros s t v s' i _ _ -> H. eauto.
  - intros s t [a b] _ _ -> H. auto.
Qed.

(* ---------- push_all: the helper every fan-out region needs ---------- *)
Fixpoint push_all (R : Region) (s : st R) (vs : list (val R)) : res (st R * list (idx R)) :=
  match vs with
  | [] => Ok (s, [])
  | v :: vs => let* '(s1, i) := push R s v in
               let* '(s2, is) := push_all R s1 vs in Ok (s2, i :: is)
  end.

Lemma push_all_ok R `{RegionOK R} vs : forall s, inv s ->
  exists s' is, push_all R s vs = Ok (s', is) /\ inv s' /\ Forall (valid s') is /\
                mapM (read R s') is = Ok vs /\ frame R valid s s'.
Proof.
  induction vs as [|v vs IH]; intros s Hs; simpl.
  - exists s, []. split; [reflexivity|]. split; [assumption|]. split; [constructor|]. split; [reflexivity|apply frame_refl].
  - destruct (push_ok s v Hs) as (s1 & i & Hp & Hi1 & Hv1 & Hr1 & Hf1).
    destruct (IH s1 Hi1) as (s2 & is & Hp2 & Hi2 & Hv2 & Hr2 & Hf2).
    exists s2, (i :: is). rewrite Hp; simpl. rewrite Hp2; simpl.
    destruct (Hf2 i Hv1) as [Hvi Hri].
    split; [reflexivity|]. split; [assumption|]. split; [constructor; assumption|]. split.
    + simpl. rewrite Hri, Hr1. simpl. rewrite Hr2. reflexivity.
    + eapply frame_trans; eauto.
Qed.

Lemma push_all_sim R `{RegionOK R} vs : forall s t s' is, inv s -> inv t -> sim s t ->
  push_all R s vs = Ok (s', is) -> exists t', push_all R t vs = Ok (t', is) /\ sim s' t'.
Proof.
  induction vs as [|v vs IH]; intros s t s' is Hs Ht Hst; simpl; intros Hp.
  - inversion Hp; subst. eauto.
  - destruct (push_ok s v Hs) as (s1 & i & Hp1 & Hi1 & _).
    rewrite Hp1 in Hp; simpl in Hp.
    destruct (@sim_push R _ _ s t v s1 i Hs Ht Hst Hp1) as (t1 & Hq1 & Hs1).
    destruct (push_ok t v Ht) as (t1' & i' & Hq1' & Hti1 & _).
    rewrite Hq1 in Hq1'; inversion Hq1'; subst t1' i'.
    destruct (push_all R s1 vs) as [[s2 is2]|] eqn:E; simpl in Hp; [|discriminate].
    inversion Hp; subst.
    destruct (IH s1 t1 _ _ Hi1 Hti1 Hs1 E) as (t2 & Hq2 & Hs2).
    exists t2. rewrite Hq1; simpl. rewrite Hq2; simpl. auto.
Qed.

(* ---------- slice region ---------- *)
Fixpoint read_range (R : Region) (O : IC (idx R)) (so : ic_st O) (sr : st R) (a n : nat) : res (list (val R)) :=
  match n with
  | 0 => Ok []
  | S n => let* i := ic_index O so a in
           let* v := read R sr i in
           let* vs := read_range R O so sr (S a) n in Ok (v :: vs)
  end.

Lemma read_range_spec R (O : IC (idx R)) `{ICOk _ O} so sr n : forall a,
  a + n <= length (ic_abs so) ->
  read_range R O so sr a n = mapM (read R sr) (firstn n (skipn a (ic_abs so))).
Proof.
  induction n as [|n IH]; intros a Ha; simpl; [reflexivity|].
  rewrite abs_index.
  destruct (nth_error (ic_abs so) a) as [x|] eqn:E.
  - apply nth_error_split in E. destruct E as (l1 & l2 & El & Hl).
    rewrite El. rewrite skipn_app, skipn_all2 by lia. simpl.
    replace (a - length l1) with 0 by lia. simpl.
    rewrite IH by lia. rewrite El.
    replace (S a) with (length (l1 ++ [x])) by (rewrite app_length; simpl; lia).
    replace (l1 ++ x :: l2) with ((l1 ++ [x]) ++ l2) by (rewrite <- app_assoc; reflexivity).
    rewrite skipn_app, skipn_all, Nat.sub_diag. simpl. reflexivity.
  - apply nth_error_None in E. lia.
Qed.

Definition slice (R : Region) (O : IC (idx R)) : Region := {|
  val := list (val R); idx := nat * nat; st := ic_st O * st R;
  dflt := (ic_default O, dflt R);
  push := fun '(so, sr) v =>
    let* '(sr', is) := push_all R sr v in
    let so' := fold_left (ic_push O) is so in
    Ok ((so', sr'), (ic_len O so, ic_len O so'));
  read := fun '(so, sr) '(a, b) => if (a <=? b) && (b <=? ic_len O so) then read_range R O so sr a (b - a) else Panic;
  clear := fun '(so, sr) => (ic_clear O so, clear R sr);
|}.

Lemma mapM_read_frame R `{RegionOK R} s s' l :
  frame R valid s s' -> Forall (valid s) l -> mapM (read R s') l = mapM (read R s) l.
Proof.
  intros Hf Hl. apply mapM_ext_in. intros x Hx. rewrite Forall_forall in Hl. apply Hf; auto.
Qed.

#[export] Instance slice_spec R (O : IC (idx R)) `{RSpec R} `{ICOk _ O} : RSpec (slice R O) :=
  @Build_RSpec (slice R O)
     (fun x : ic_st O * st R => inv (snd x) /\ Forall (valid (snd x)) (ic_abs (fst x)))
     (fun (x : ic_st O * st R) (i : nat * nat) => fst i <= snd i <= length (ic_abs (fst x)))
     (fun x y : ic_st O * st R => ic_abs (fst x) = ic_abs (fst y) /\ sim (snd x) (snd y)).
#[export] Instance slice_ok R (O : IC (idx R)) `{RegionOK R} `{ICOk _ O} : RegionOK (slice R O).
Proof.
  constructor.
  - simpl. split; [apply inv_dflt|]. rewrite abs_default. constructor.
  - pose proof (@read_range_spec R O _) as RRS.
    intros [so sr] vs [Hi Hall]. simpl in *.
    destruct (push_all_ok vs sr Hi) as (sr' & is & Hp & Hi' & Hv' & Hr' & Hf).
    rewrite Hp. simpl. eexists _, _. split; [reflexivity|]. simpl.
    assert (Habs : ic_abs (fold_left (ic_push O) is so) = ic_abs so ++ is) by apply abs_push_all.
    assert (Hlen : length is = length vs) by (symmetry; eapply mapM_length; eauto).
    split; [|split; [|split]].
    + split; [assumption|]. rewrite Habs. apply Forall_app. split; [|assumption].
      rewrite Forall_forall in *. intros x Hx. apply Hf; auto.
    + rewrite !abs_len, Habs, app_length. lia.
    + rewrite !abs_len, Habs, app_length.
      destruct (Nat.leb_spec (length (ic_abs so)) (length (ic_abs so) + length is)); try lia.
      rewrite Nat.leb_refl. simpl.
      rewrite RRS by (rewrite Habs, app_length; lia).
      rewrite Habs, skipn_app, skipn_all, Nat.sub_diag. simpl.
      replace (length (ic_abs so) + length is - length (ic_abs so)) with (length is) by lia.
      rewrite firstn_all. assumption.
    + intros [a b] [Hab Hb]. simpl in *. split; [rewrite Habs, app_length; lia|].
      rewrite !abs_len, Habs, app_length.
      destruct (Nat.leb_spec a b); try lia.
      destruct (Nat.leb_spec b (length (ic_abs so))); try lia.
      destruct (Nat.leb_spec b (length (ic_abs so) + length is)); try lia. simpl.
      rewrite !RRS by (rewrite ?Habs, ?app_length; lia).
      rewrite Habs, skipn_app, firstn_app.
      replace (b - a - length (skipn a (ic_abs so))) with 0 by (rewrite skipn_length; lia).
      simpl. rewrite app_nil_r.
      apply (@mapM_read_frame R _ _ sr sr'); [assumption|].
      rewrite Forall_forall in *. intros x Hx. apply Hall.
      apply In_firstn_in in Hx. eapply In_skipn_in; eauto.
  - pose proof (@read_range_spec R O _) as RRS.
    intros [so sr] [a b] [Hi Hall] [Hab Hb]. simpl in *.
    rewrite abs_len.
    destruct (Nat.leb_spec a b); try lia. destruct (Nat.leb_spec b (length (ic_abs so))); try lia. simpl.
    rewrite RRS by lia.
    assert (Hsub : Forall (valid sr) (firstn (b - a) (skipn a (ic_abs so)))).
    { rewrite Forall_forall in *. intros x Hx. apply Hall. apply In_firstn_in in Hx. eapply In_skipn_in; eauto. }
    induction (firstn (b - a) (skipn a (ic_abs so))) as [|x l IHl]; simpl; [eauto|].
    inversion Hsub; subst.
    destruct (valid_reads _ _ Hi H5) as (w & ->). simpl.
    destruct (IHl H6) as (ws & ->). simpl. eauto.
  - intros [so sr] [Hi Hall]. simpl in *. split.
    + split; [apply clear_ok; assumption|]. rewrite abs_clear. constructor.
    + rewrite abs_clear, abs_default. split; [reflexivity|apply clear_ok; assumption].
  - intros [so sr]. simpl. split; [reflexivity|apply sim_refl].
  - intros [so sr] [to tr] [H1 H2]. simpl in *. split; [congruence|apply sim_sym; assumption].
  - intros [so sr] [to tr] [uo ur] [H1 H2] [H3 H4]. simpl in *. split; [congruence|eapply sim_trans; eauto].
  - intros [so sr] [to tr] vs [so' sr'] i [Hi Hall] [Hti Htall] [Habs Hsim]. simpl in *.
    destruct (push_all R sr vs) as [[sr1 is]|] eqn:E; simpl; [|discriminate].
    intros Hp; inversion Hp; subst.
    destruct (@push_all_sim R _ _ vs sr tr _ _ Hi Hti Hsim E) as (tr' & Hq & Hs').
    rewrite Hq. simpl. eexists. split; simpl.
    + rewrite !abs_len, !abs_push_all, Habs. reflexivity.
    + split; [|assumption]. rewrite (abs_push_all (c:=O) is so), (abs_push_all (c:=O) is to), Habs. reflexivity.
  - pose proof (@read_range_spec R O _) as RRS.
    intros [so sr] [to tr] [a b] [Hi Hall] [Hti Htall] [Habs Hsim] [Hab Hb]. simpl in *.
    split; [rewrite <- Habs; lia|].
    rewrite !abs_len, <- Habs.
    destruct (Nat.leb_spec a b); try lia.
    destruct (Nat.leb_spec b (length (ic_abs so))); try lia. simpl.
    rewrite !RRS by (rewrite <- ?Habs; lia). rewrite <- Habs.
    apply mapM_ext_in. intros x Hx.
    apply sim_read; auto.
    rewrite Forall_forall in Hall. apply Hall. apply In_firstn_in in Hx. eapply In_skipn_in; eauto.
Qed.

(* ---------- collapse ---------- *)
Section Collapse.
  Variable R : Region.
  Variable veq : val R -> val R -> bool.   (* PartialEq between pushed item and read item; no laws assumed *)

  Definition collapse : Region := {|
    val := val R; idx := idx R; st := st R * option (idx R);
    dflt := (dflt R, None);
    push := fun '(s, last) v =>
      let fresh := let* '(s', i) := push R s v in Ok ((s', Some i), i) in
      match last with
      | Some j => let* w := read R s j in if veq v w then Ok ((s, last), j) else fresh
      | None => fresh
      end;
    read := fun '(s, _) i => read R s i;
    clear := fun '(s, _) => (clear R s, None);
  |}.
End Collapse.


#[export] Instance collapse_spec R veq `{RSpec R} : RSpec (collapse R veq) :=
  @Build_RSpec (collapse R veq)
     (fun x : st R * option (idx R) => inv (fst x) /\ forall j, snd x = Some j -> valid (fst x) j)
     (fun (x : st R * option (idx R)) (i : idx R) => valid (fst x) i)
     (fun x y : st R * option (idx R) => sim (fst x) (fst y) /\ snd x = snd y).
#[export] Instance collapse_ok R veq `{RegionOK R}
  (veq_sound : forall v w, veq v w = true -> v = w) : RegionOK (collapse R veq).
Proof.
  constructor.
  - simpl. split; [apply inv_dflt|discriminate].
  - intros [s last] v [Hs Hl]. simpl in Hs, Hl.
    destruct (push_ok s v Hs) as (s1 & i & Hp & Hi1 & Hv1 & Hr1 & Hf1).
    assert (Hfresh : forall l0, exists s' i0,
              (let* ' (s'0, i1) := push R s v in Ok (s'0, Some i1, i1)) = Ok (s', i0) /\
              (inv (fst s') /\ (forall j, snd s' = Some j -> valid (fst s') j)) /\
              valid (fst s') i0 /\ read (collapse R veq) s' i0 = Ok v /\
              frame (collapse R veq) (fun x i => valid (fst x) i) (s, l0) s').
    { intros l0. rewrite Hp. simpl. exists (s1, Some i), i. split; [reflexivity|]. split.
      - simpl. split; [assumption|]. intros j Hj. inversion Hj; subst; assumption.
      - split; [assumption|]. split; [assumption|]. intros j Hj. simpl in *. apply Hf1; assumption. }
    destruct last as [j|]; simpl; [|apply Hfresh].
    destruct (valid_reads _ _ Hs (Hl j eq_refl)) as (w & Hw). rewrite Hw. simpl.
    destruct (veq v w) eqn:Ev; [|apply Hfresh].
    exists (s, Some j), j. split; [reflexivity|]. split; [split; assumption|].
    split; [apply Hl; reflexivity|]. split.
    + simpl. rewrite Hw. f_equal. symmetry. apply veq_sound. assumption.
    + intros k Hk. simpl in *. auto.
  - intros [s last] j [Hs Hl] Hj. simpl in *. eapply valid_reads; eauto.
  - intros [s last] [Hs Hl]. simpl in *. split.
    + split; [apply clear_ok; assumption|discriminate].
    + split; [apply clear_ok; assumption|reflexivity].
  - intros [s l]. split; [apply sim_refl|reflexivity].
  - intros [s l] [t m] [H1 H2]. split; [apply sim_sym; assumption|congruence].
  - intros [s l] [t m] [u n] [H1 H2] [H3 H4]. split; [eapply sim_trans; eauto|congruence].
  - intros [s l] [t m] v [s' l'] i [Hs Hl] [Ht Hm] [Hsim Heq]. simpl in *. subst m.
    assert (Hfresh : (let* ' (s'0, i1) := push R s v in Ok (s'0, Some i1, i1)) = Ok (s', l', i) ->
       exists t', (let* ' (s'0, i1) := push R t v in Ok (s'0, Some i1, i1)) = Ok (t', i) /\
                  (sim s' (fst t') /\ l' = snd t')).
    { destruct (push R s v) as [[s1 i1]|] eqn:Ep; simpl; [|discriminate].
      intros Hq; inversion Hq; subst.
      destruct (@sim_push R _ _ s t v s' i Hs Ht Hsim Ep) as (t1 & Hq1 & Hs1).
      rewrite Hq1. simpl. exists (t1, Some i). auto. }
    destruct l as [j|]; [|exact Hfresh].
    destruct (@sim_read R _ _ s t j Hs Ht Hsim (Hl j eq_refl)) as [Hvt Hrt]. rewrite Hrt.
    destruct (read R s j) as [w|]; simpl; [|discriminate].
    destruct (veq v w); [|exact Hfresh].
    intros Hq; inversion Hq; subst. exists (t, Some i). auto.
  - intros [s l] [t m] i [Hs Hl] [Ht Hm] [Hsim Heq] Hv. simpl in *. apply sim_read; auto.
Qed.

(* ---------- dense pair-indexed regions and ConsecutiveIndexPairs ---------- *)
Class Dense (R : Region) (HR : RSpec R) := {
  to_pair : idx R -> nat * nat;
  of_pair : nat * nat -> idx R;
  extent : st R -> nat;
  of_to : forall i, of_pair (to_pair i) = i;
  extent_dflt : extent (dflt R) = 0;
  extent_clear : forall s, extent (clear R s) = 0;
  extent_sim : forall s t, sim s t -> extent s = extent t;
  dense_push : forall s v s' i, inv s -> push R s v = Ok (s', i) -> to_pair i = (extent s, extent s');
}.

Arguments Dense R {HR}.
Arguments to_pair {R HR _}. Arguments of_pair {R HR _}. Arguments extent {R HR _}.
Definition consec (R : Region) (HR : RSpec R) (D : Dense R) (O : IC nat) : Region := {|
  val := val R; idx := nat; st := st R * ic_st O;
  dflt := (dflt R, ic_push O (ic_default O) 0);
  push := fun '(s, o) v =>
    let* '(s', i) := push R s v in
    let o' := ic_push O o (snd (to_pair i)) in
    Ok ((s', o'), ic_len O o' - 2);
  read := fun '(s, o) k =>
    let* a := ic_index O o k in
    let* b := ic_index O o (S k) in
    read R s (of_pair (a, b));
  clear := fun '(s, o) => (clear R s, ic_push O (ic_clear O o) 0);
|}.

Arguments consec R {HR D} O.

#[export] Instance owned_dense T : Dense (owned T).
Proof.
  refine (@Build_Dense (owned T) _ (fun i => i) (fun i => i) (@length T) _ _ _ _ _); simpl; auto.
  - intros s t ->. reflexivity.
  - intros s v s' i _ H. inversion H; subst. rewrite app_length. reflexivity.
Qed.

#[export] Instance consec_spec R `{Dense R} (O : IC nat) `{ICOk _ O} : RSpec (consec R O) :=
  @Build_RSpec (consec R O)
     (fun x : st R * ic_st O => inv (fst x) /\ exists offs, ic_abs (snd x) = 0 :: offs /\ last (0 :: offs) 0 = extent (fst x) /\
        forall k a b, nth_error (0 :: offs) k = Some a -> nth_error (0 :: offs) (S k) = Some b ->
                      valid (fst x) (of_pair (a, b)))
     (fun (x : st R * ic_st O) (k : nat) => S k < length (ic_abs (snd x)))
     (fun x y : st R * ic_st O => sim (fst x) (fst y) /\ ic_abs (snd x) = ic_abs (snd y)).
Lemma nth_error_last {A} (l : list A) : forall x d, nth_error (x :: l) (length l) = Some (last (x :: l) d).
Proof.
  induction l as [|y l IH]; intros x d; [reflexivity|].
  change (nth_error (x :: y :: l) (length (y :: l))) with (nth_error (y :: l) (length l)).
  rewrite (IH y d). reflexivity.
Qed.

#[export] Instance consec_ok R `{RegionOK R} `{!Dense R} (O : IC nat) `{ICOk _ O} : RegionOK (consec R O).
Proof.
  constructor.
  - simpl. split; [apply inv_dflt|]. exists []. rewrite abs_push, abs_default. simpl.
    split; [reflexivity|]. split; [symmetry; apply extent_dflt|].
    intros k a b Ha Hb. destruct k; simpl in *; [discriminate|destruct k; discriminate].
  - intros [s o] v (Hs & offs & Ho & Hlast & Hall). cbn [fst snd] in *. cbn [push consec].
    destruct (push_ok s v Hs) as (s1 & i & Hp & Hi1 & Hv1 & Hr1 & Hf1). rewrite Hp. simpl.
    pose proof (@dense_push R _ _ s v s1 i Hs Hp) as Hd.
    eexists _, _. split; [reflexivity|]. cbn [fst snd inv valid consec_spec read consec].
    assert (Ho' : ic_abs (ic_push O o (snd (to_pair i))) = 0 :: (offs ++ [extent s1])).
    { rewrite abs_push, Ho, Hd. reflexivity. }
    assert (Hn : forall k, nth_error (0 :: offs ++ [extent s1]) k =
                 if k <? length (0 :: offs) then nth_error (0 :: offs) k
                 else if k =? length (0 :: offs) then Some (extent s1) else None).
    { intros k. change (0 :: offs ++ [extent s1]) with ((0 :: offs) ++ [extent s1]).
      destruct (Nat.ltb_spec k (length (0 :: offs))).
      - apply nth_error_app1; assumption.
      - rewrite nth_error_app2 by assumption.
        destruct (Nat.eqb_spec k (length (0 :: offs))).
        + subst. rewrite Nat.sub_diag. reflexivity.
        + destruct (k - length (0 :: offs)) eqn:E; [lia|]. simpl. destruct n0; reflexivity. }
    assert (Hlastnth : nth_error (0 :: offs) (length offs) = Some (extent s)).
    { rewrite <- Hlast. apply nth_error_last. }
    split; [|split; [|split]].
    + split; [assumption|]. exists (offs ++ [extent s1]). split; [assumption|]. split.
      * change (last ((0 :: offs) ++ [extent s1]) 0 = extent s1). apply last_last.
      * intros k a b Ha Hb.
        change (nth_error (0 :: offs ++ [extent s1]) (S k) = Some b) in Hb.
        rewrite Hn in Ha, Hb.
        destruct (Nat.ltb_spec (S k) (length (0 :: offs))).
        -- destruct (Nat.ltb_spec k (length (0 :: offs))); [|lia].
           apply Hf1. eapply Hall; eauto.
        -- destruct (Nat.eqb_spec (S k) (length (0 :: offs))); [|discriminate].
           destruct (Nat.ltb_spec k (length (0 :: offs))); [|lia].
           inversion Hb; subst b.
           assert (k = length offs) by (simpl in *; lia). subst k.
           rewrite Hlastnth in Ha. inversion Ha; subst a.
           rewrite <- Hd, of_to. assumption.
    + rewrite Ho'. simpl. rewrite abs_len, Ho'. simpl. rewrite app_length. simpl. lia.
    + rewrite abs_len, Ho'. simpl length. rewrite app_length. simpl.
      replace (length offs + 1 - 1) with (length offs) by lia.
      rewrite !abs_index, Ho', !Hn.
      destruct (Nat.ltb_spec (length offs) (length (0 :: offs))); [|simpl in *; lia].
      rewrite Hlastnth. cbn [bind].
      destruct (Nat.ltb_spec (S (length offs)) (length (0 :: offs))); [simpl in *; lia|].
      destruct (Nat.eqb_spec (S (length offs)) (length (0 :: offs))); [|simpl in *; lia].
      cbn [bind]. rewrite <- Hd, of_to. assumption.
    + intros k Hk. cbn [fst snd valid consec_spec] in *. rewrite Ho in Hk. rewrite Ho'. split; [simpl in *; rewrite app_length; lia|].
      cbn [read consec]. rewrite !abs_index, Ho', Ho, !Hn.
      destruct (Nat.ltb_spec k (length (0 :: offs))); [|simpl in *; lia].
      destruct (Nat.ltb_spec (S k) (length (0 :: offs))); [|simpl in *; lia].
      destruct (nth_error (0 :: offs) k) as [a|] eqn:Ea; [|reflexivity].
      destruct (nth_error (0 :: offs) (S k)) as [b|] eqn:Eb; [|reflexivity].
      cbn [bind]. apply Hf1. eapply Hall; eauto.
  - intros [s o] k (Hs & offs & Ho & Hlast & Hall) Hk. simpl in *.
    rewrite !abs_index.
    destruct (nth_error (ic_abs o) k) as [a|] eqn:Ea; [|apply nth_error_None in Ea; lia].
    destruct (nth_error (ic_abs o) (S k)) as [b|] eqn:Eb; [|apply nth_error_None in Eb; lia].
    simpl. apply valid_reads; [assumption|]. rewrite Ho in *. eapply Hall; eauto.
  - intros [s o] (Hs & offs & Ho & Hlast & Hall). simpl in *. split.
    + split; [apply clear_ok; assumption|]. exists []. rewrite abs_push, abs_clear. simpl.
      split; [reflexivity|]. split; [symmetry; apply extent_clear|].
      intros k a b Ha Hb. destruct k; simpl in *; [discriminate|destruct k; discriminate].
    + split; [apply clear_ok; assumption|]. rewrite !abs_push, abs_clear, abs_default. reflexivity.
  - intros [s o]. simpl. split; [apply sim_refl|reflexivity].
  - intros [s o] [t p] [H3 H4]. simpl in *. split; [apply sim_sym; assumption|congruence].
  - intros [s o] [t p] [u q] [H3 H4] [H5 H6]. simpl in *. split; [eapply sim_trans; eauto|congruence].
  - intros [s o] [t p] v [s' o'] i (Hs & _) (Ht & _) [Hsim Habs]. simpl in *.
    destruct (push R s v) as [[s1 i1]|] eqn:Ep; simpl; [|discriminate].
    intros Hq; inversion Hq; subst.
    destruct (@sim_push R _ _ s t v s' i1 Hs Ht Hsim Ep) as (t1 & Hq1 & Hs1).
    rewrite Hq1. simpl. eexists. split; simpl.
    + rewrite !abs_len, !abs_push, Habs. reflexivity.
    + cbn [fst snd]. split; [assumption|]. rewrite !abs_push, Habs. reflexivity.
  - intros [s o] [t p] k (Hs & offs & Ho & Hlast & Hall) (Ht & _) [Hsim Habs] Hk. simpl in *.
    split; [rewrite <- Habs; assumption|].
    rewrite !abs_index, <- Habs.
    destruct (nth_error (ic_abs o) k) as [a|] eqn:Ea; [|reflexivity].
    destruct (nth_error (ic_abs o) (S k)) as [b|] eqn:Eb; [|reflexivity].
    simpl. apply sim_read; auto. rewrite Ho in *. eapply Hall; eauto.
Qed.

(* ---------- histories: the top-level statements of C01 / C02 / C08 ---------- *)
Section History.
  Variable R : Region.
  Context `{RegionOK R}.

  Inductive op := OPush (v : val R) | OClear.

  (* state, log of (index, value) issued since the last clear, trace of returned indices *)
  Fixpoint run (ops : list op) (s : st R) (log : list (idx R * val R)) (tr : list (idx R))
    : res (st R * list (idx R * val R) * list (idx R)) :=
    match ops with
    | [] => Ok (s, log, tr)
    | OPush v :: ops => let* '(s', i) := push R s v in run ops s' (log ++ [(i, v)]) (tr ++ [i])
    | OClear :: ops => run ops (clear R s) [] tr
    end.

  Definition log_ok (s : st R) (log : list (idx R * val R)) : Prop :=
    Forall (fun iv => valid s (fst iv) /\ read R s (fst iv) = Ok (snd iv)) log.

  (* C01 + C02: no history panics, and in every reachable state every index issued since the
     last clear still reads the value it was issued for *)
  Theorem run_ok ops : forall s log tr, inv s -> log_ok s log ->
    exists s' log' tr', run ops s log tr = Ok (s', log', tr') /\ inv s' /\ log_ok s' log'.
  Proof.
    induction ops as [|o ops IH]; intros s log tr Hs Hl; simpl.
    - exists s, log, tr. auto.
    - destruct o as [v|].
      + destruct (push_ok s v Hs) as (s1 & i & Hp & Hi1 & Hv1 & Hr1 & Hf1). rewrite Hp. simpl.
        apply IH; [assumption|]. apply Forall_app. split.
        * unfold log_ok in *. rewrite Forall_forall in *. intros iv Hin. destruct (Hl iv Hin) as [Hv Hr].
          destruct (Hf1 _ Hv) as [Hv' Hr']. split; [assumption|congruence].
        * constructor; [|constructor]. simpl. auto.
      + apply IH; [apply clear_ok; assumption|constructor].
  Qed.

  Corollary C01_C02_reachable ops : exists s log tr, run ops (dflt R) [] [] = Ok (s, log, tr) /\ log_ok s log.
  Proof.
    destruct (@run_ok ops (dflt R) [] [] inv_dflt) as (s & log & tr & Hr & _ & Hl); [constructor|]. eauto.
  Qed.

  (* C08: whatever happened before a clear, the continuation behaves as on a fresh region:
     same returned indices, and sim final states (hence same reads, by sim_read) *)
  Lemma run_sim ops : forall s t log tr s' log' tr', inv s -> inv t -> sim s t ->
    run ops s log tr = Ok (s', log', tr') ->
    exists t', run ops t log tr = Ok (t', log', tr') /\ sim s' t' /\ inv s' /\ inv t'.
  Proof.
    induction ops as [|o ops IH]; intros s t log tr s' log' tr' Hs Ht Hst; simpl; intros Hr.
    - inversion Hr; subst. exists t. auto.
    - destruct o as [v|].
      + destruct (push_ok s v Hs) as (s1 & i & Hp & Hi1 & _). rewrite Hp in Hr. simpl in Hr.
        destruct (@sim_push R _ _ s t v s1 i Hs Ht Hst Hp) as (t1 & Hq & Hs1).
        destruct (push_ok t v Ht) as (t1' & i' & Hq' & Hti1 & _). rewrite Hq in Hq'. inversion Hq'; subst t1' i'.
        rewrite Hq. simpl. eapply IH; [exact Hi1|exact Hti1|exact Hs1|exact Hr].
      + eapply IH; [| |  |exact Hr]; try (apply clear_ok; assumption).
        destruct (clear_ok s Hs) as [_ H1]. destruct (clear_ok t Ht) as [_ H2].
        eapply sim_trans; [exact H1|]. apply sim_sym. exact H2.
  Qed.

  Theorem C08_clear_fresh h1 h2 s1 log1 tr1 :
    run h1 (dflt R) [] [] = Ok (s1, log1, tr1) ->
    forall s2 log2 tr2, run h2 (clear R s1) [] [] = Ok (s2, log2, tr2) ->
    exists s2', run h2 (dflt R) [] [] = Ok (s2', log2, tr2) /\ sim s2 s2'.
  Proof.
    intros H1 s2 log2 tr2 H2.
    destruct (@run_ok h1 (dflt R) [] [] inv_dflt) as (s1' & l1' & t1' & Hr & Hi & _); [constructor|].
    rewrite H1 in Hr. inversion Hr; subst.
    destruct (clear_ok s1' Hi) as [Hci Hcs].
    destruct (@run_sim h2 (clear R s1') (dflt R) [] [] s2 log2 tr2 Hci inv_dflt Hcs H2) as (t' & Hq & Hs & _).
    eauto.
  Qed.
End History.

(* ---------- a concrete index container and a concrete composition ---------- *)
Definition vec_ic (T : Type) : IC T := {|
  ic_st := list T; ic_default := []; ic_push := fun s x => s ++ [x];
  ic_index := fun s i => match nth_error s i with Some x => Ok x | None => Panic end;
  ic_len := @length T; ic_clear := fun _ => [] |}.
#[export] Instance vec_ic_ok T : ICOk (vec_ic T).
Proof. refine (@Build_ICOk T (vec_ic T) (fun s => s) _ _ _ _ _); simpl; auto. Defined.

Definition list_nat_eqb (a b : list nat) : bool := if list_eq_dec Nat.eq_dec a b then true else false.
Lemma list_nat_eqb_sound a b : list_nat_eqb a b = true -> a = b.
Proof. unfold list_nat_eqb. destruct (list_eq_dec Nat.eq_dec a b); [auto|discriminate]. Qed.

(* SliceRegion<CollapseSequence<ConsecutiveIndexPairs<OwnedRegion<_>, Vec<usize>>>, Vec<usize>> *)
Definition inner_example : Region := consec (owned nat) (vec_ic nat).
#[export] Instance collapse_example_ok : RegionOK (collapse inner_example list_nat_eqb) :=
  collapse_ok (R := inner_example) list_nat_eqb list_nat_eqb_sound.
Definition cat_example : Region := slice (collapse inner_example list_nat_eqb) (vec_ic _).

(* the theorems instantiate, without further proof, at the composition *)
Definition C01_C02_example := @C01_C02_reachable cat_example _ _.
Definition C08_example := @C08_clear_fresh cat_example _ _.
Check C01_C02_example.
Check C08_example.
Print Assumptions C08_example.

