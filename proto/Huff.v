From Coq Require Import List NArith ZArith Arith Lia Bool.
Import ListNotations.
Local Open Scope N_scope.

Inductive res (A : Type) := Ok (a : A) | Panic.
Arguments Panic {A}. Arguments Ok {A} a.

Definition sym := N.
Definition W64 : N := 2 ^ 64.

(* ---------- tree construction: BinaryHeap<(i64, Node<T>)> with derived Ord ---------- *)
Inductive node := Leaf (s : sym) | Fork (l r : nat).

Definition node_cmp (a b : node) : comparison :=
  match a, b with
  | Leaf x, Leaf y => N.compare x y
  | Leaf _, Fork _ _ => Lt
  | Fork _ _, Leaf _ => Gt
  | Fork a1 a2, Fork b1 b2 => match Nat.compare a1 b1 with Eq => Nat.compare a2 b2 | c => c end
  end.
Definition ent := (Z * node)%type.
Definition ent_cmp (a b : ent) : comparison :=
  match Z.compare (fst a) (fst b) with Eq => node_cmp (snd a) (snd b) | c => c end.

Fixpoint max_ent (best : ent) (l : list ent) : ent :=
  match l with [] => best | x :: l => max_ent (match ent_cmp x best with Gt => x | _ => best end) l end.
Fixpoint remove_ent (x : ent) (l : list ent) : list ent :=
  match l with [] => [] | y :: l => match ent_cmp x y with Eq => l | _ => y :: remove_ent x l end end.
Definition pop_max (h : list ent) : option (ent * list ent) :=
  match h with [] => None | x :: l => let m := max_ent x l in Some (m, remove_ent m h) end.

Fixpoint build (fuel : nat) (heap : list ent) (tree : list node) : list node :=
  match fuel with
  | O => tree
  | S f =>
    match pop_max heap with
    | None => tree
    | Some (e1, h1) =>
      match pop_max h1 with
      | None => tree ++ [snd e1]
      | Some (e2, h2) =>
        let fork := Fork (length tree) (S (length tree)) in
        build f ((fst e1 + fst e2, fork)%Z :: h2) (tree ++ [snd e1; snd e2])
      end
    end
  end.

(* DFS with an explicit stack; head of [todo] is the top *)
Fixpoint dfs (fuel : nat) (tree : list node) (todo : list (nat * nat)) (acc : list (nat * sym)) : list (nat * sym) :=
  match fuel with
  | O => acc
  | S f =>
    match todo with
    | [] => acc
    | (ni, lvl) :: rest =>
      match nth ni tree (Leaf 0) with
      | Leaf s => dfs f tree rest (acc ++ [(lvl, s)])
      | Fork l r => dfs f tree ((r, S lvl) :: (l, S lvl) :: rest) acc
      end
    end
  end.

(* stable sort by level *)
Fixpoint ins (x : nat * sym) (l : list (nat * sym)) : list (nat * sym) :=
  match l with [] => [x] | y :: l' => if (fst x <? fst y)%nat then x :: l else y :: ins x l' end.
Definition sort_levels (l : list (nat * sym)) := fold_left (fun acc x => ins x acc) l [].

Definition levels_of (counts : list (sym * Z)) : list (nat * sym) :=
  let heap := map (fun '(s, c) => ((- c)%Z, Leaf s)) counts in
  let tree := build (length counts) heap [] in
  let lv := dfs (2 * length tree + 1) tree [((length tree - 1)%nat, 0%nat)] [] in
  let lv := sort_levels lv in
  match lv with [(_, s)] => [(1%nat, s)] | _ => lv end.   (* repair of D3: a lone symbol gets one bit *)

(* ---------- decode tables ---------- *)
Inductive dec := Void | Sym (s : sym) (b : nat) | Further (m : list dec).
Definition void_map : list dec := repeat Void 256.

Fixpoint set_nth {A} (l : list A) (i : nat) (x : A) : list A :=
  match l, i with
  | [], _ => []
  | _ :: l, O => x :: l
  | y :: l, S i => y :: set_nth l i x
  end.
Fixpoint set_range {A} (l : list A) (i n : nat) (x : A) : list A :=
  match n with O => l | S n => set_range (set_nth l i x) (S i) n x end.

(* code is left-aligned in 64 bits *)
Fixpoint insert_decode (fuel : nat) (map : list dec) (s : sym) (bits : nat) (code : N) : list dec :=
  match fuel with
  | O => map
  | S f =>
    let byte := N.to_nat (code / 2 ^ 56) in
    if (bits <=? 8)%nat then set_range map byte (2 ^ (8 - bits)) (Sym s bits)
    else
      match nth byte map Void with
      | Void => set_nth map byte (Further (insert_decode f void_map s (bits - 8) ((code * 256) mod W64)))
      | Further m => set_nth map byte (Further (insert_decode f m s (bits - 8) ((code * 256) mod W64)))
      | Sym _ _ => map
      end
  end.

Record huff := { enc : list (sym * (nat * N)); dtab : list dec }.

Definition create_from (counts : list (sym * Z)) : huff :=
  match counts with
  | [] => {| enc := []; dtab := void_map |}
  | _ =>
    let lv := levels_of counts in
    let single := match lv with [_] => true | _ => false end in
    let '(_, _, e, d) :=
      fold_left (fun '(code, prev, e, d) '(level, s) =>
        let code := if (prev =? level)%nat then code else code * 2 ^ N.of_nat (level - prev) in
        let d := insert_decode 9 d s level ((code * 2 ^ N.of_nat (64 - level)) mod W64) in
        let d := if single then insert_decode 9 d s level (((code + 1) * 2 ^ N.of_nat (64 - level)) mod W64) else d in
        (code + 1, level, e ++ [(s, (level, code))], d))
      lv (0, 0%nat, [], void_map) in
    {| enc := e; dtab := d |}
  end.

Fixpoint lookup (s : sym) (e : list (sym * (nat * N))) : option (nat * N) :=
  match e with [] => None | (k, v) :: e => if k =? s then Some v else lookup s e end.

(* ---------- encoder: u64 register ---------- *)
Inductive eout := EByte (b : N) | EPart (b : N) (n : nat).

Fixpoint flush (fuel : nat) (pb : N) (pn : nat) (acc : list eout) : N * nat * list eout :=
  match fuel with
  | O => (pb, pn, acc)
  | S f => if (8 <=? pn)%nat
           then flush f (pb mod 2 ^ N.of_nat (pn - 8)) (pn - 8) (acc ++ [EByte (pb / 2 ^ N.of_nat (pn - 8))])
           else (pb, pn, acc)
  end.

Fixpoint encode (e : list (sym * (nat * N))) (syms : list sym) (pb : N) (pn : nat) (acc : list eout) : res (list eout) :=
  match syms with
  | [] => Ok (if (0 <? pn)%nat then acc ++ [EPart ((pb * 2 ^ N.of_nat (8 - pn)) mod 256) pn] else acc)
  | s :: syms =>
    match lookup s e with
    | None => Panic                                   (* encode.get(symbol).unwrap() *)
    | Some (bits, code) =>
      let pb := ((pb * 2 ^ N.of_nat bits) mod W64) + code in
      let pn := (pn + bits)%nat in
      let '(pb, pn, acc) := flush 9 pb pn acc in
      encode e syms pb pn acc
    end
  end.

(* push_symbols: bytes, bit cursor *)
Definition push_symbols (h : huff) (bytes : list N) (bits : nat) (syms : list sym) : res (list N * nat * (nat * nat)) :=
  let start := bits in
  let bits0 := (bits - bits mod 8)%nat in
  let '(bytes0, init) :=
    if (start mod 8 =? 0)%nat then (bytes, (0, 0%nat))
    else let k := (start mod 8)%nat in
         (removelast bytes, (last bytes 0 / 2 ^ N.of_nat (8 - k), k)) in
  match encode (enc h) syms (fst init) (snd init) [] with
  | Panic => Panic
  | Ok outs =>
    let '(bytes1, bits1) := fold_left (fun '(bs, n) o =>
        match o with EByte b => (bs ++ [b], (n + 8)%nat) | EPart b k => (bs ++ [b], (n + k)%nat) end) outs (bytes0, bits0) in
    Ok (bytes1, bits1, (start, bits1))
  end.

(* ---------- BitIterator (repaired mask) ---------- *)
Fixpoint bit_chunks (fuel : nat) (bytes : list N) (lo hi : nat) : list (N * nat) :=
  match fuel with
  | O => []
  | S f =>
    if (lo <? hi)%nat then
      let byte := nth (lo / 8) bytes 0 in
      let bits := Nat.min (hi - lo) (8 - lo mod 8) in
      let b := (byte / 2 ^ N.of_nat (8 - lo mod 8 - bits)) mod 2 ^ N.of_nat bits in
      (b, bits) :: bit_chunks f bytes (lo + bits) hi
    else []
  end.

(* ---------- Decoder: u16 register, table walk ---------- *)
Record dst := { chunks : list (N * nat); pbyte : N; pbits : nat }.

Definition restock (d : dst) : dst :=
  if (pbits d <? 8)%nat then
    match chunks d with
    | (b, n) :: cs => {| chunks := cs; pbyte := pbyte d * 2 ^ N.of_nat n + b; pbits := (pbits d + n)%nat |}
    | [] => d
    end
  else d.

Inductive step := SSym (s : sym) (d : dst) | SEnd | SPanic.

Fixpoint walk (fuel : nat) (map : list dec) (d : dst) : step :=
  match fuel with
  | O => SPanic
  | S f =>
    let d := restock d in
    if (pbits d =? 0)%nat then SEnd                       (* repair of D4 *)
    else if (pbits d <? 8)%nat then
      let byte := N.to_nat (pbyte d * 2 ^ N.of_nat (8 - pbits d)) in
      match nth byte map Void with
      | Void => SPanic
      | Further _ => SPanic
      | Sym s b => if (b <=? pbits d)%nat
                   then SSym s {| chunks := chunks d; pbyte := pbyte d mod 2 ^ N.of_nat (pbits d - b); pbits := (pbits d - b)%nat |}
                   else SPanic
      end
    else
      let byte := N.to_nat (pbyte d / 2 ^ N.of_nat (pbits d - 8)) in
      match nth byte map Void with
      | Void => SPanic
      | Sym s b => SSym s {| chunks := chunks d; pbyte := pbyte d mod 2 ^ N.of_nat (pbits d - b); pbits := (pbits d - b)%nat |}
      | Further m => walk f m {| chunks := chunks d; pbyte := pbyte d mod 2 ^ N.of_nat (pbits d - 8); pbits := (pbits d - 8)%nat |}
      end
  end.

Fixpoint decode_all (fuel : nat) (map : list dec) (d : dst) (acc : list sym) : res (list sym) :=
  match fuel with
  | O => Panic   (* diverged *)
  | S f => match walk 10 map d with
           | SSym s d' => decode_all f map d' (acc ++ [s])
           | SEnd => Ok acc
           | SPanic => Panic
           end
  end.

Definition decode_range (h : huff) (bytes : list N) (lo hi : nat) : res (list sym) :=
  let cs := bit_chunks (hi - lo + 1) bytes lo hi in
  let d0 := match cs with (b, n) :: cs' => {| chunks := cs'; pbyte := b; pbits := n |} | [] => {| chunks := []; pbyte := 0; pbits := 0 |} end in
  decode_all (hi - lo + 2) (dtab h) d0 [].

(* ---------- tests ---------- *)
Definition lens (counts : list (sym * Z)) : list (sym * nat) :=
  map (fun '(s, (l, _)) => (s, l)) (enc (create_from counts)).

Definition roundtrip (counts : list (sym * Z)) (items : list (list sym)) : res (list (nat * nat) * list (list sym)) :=
  let h := create_from counts in
  let fix go items bytes bits idxs :=
    match items with
    | [] => Ok (bytes, idxs)
    | it :: items => match push_symbols h bytes bits it with
                     | Panic => Panic
                     | Ok (bytes', bits', ix) => go items bytes' bits' (idxs ++ [ix])
                     end
    end in
  match go items [] 0%nat [] with
  | Panic => Panic
  | Ok (bytes, idxs) =>
    let outs := map (fun '(lo, hi) => match decode_range h bytes lo hi with Ok l => l | Panic => [999] end) idxs in
    Ok (idxs, outs)
  end.

Definition mk (l : list (N * N)) : list (sym * Z) := map (fun '(s, c) => (s, Z.of_N c)) l.
Eval vm_compute in lens (mk [(1, 4); (2, 6); (3, 6); (4, 2)]).
Eval vm_compute in lens (mk [(0,1);(1,1);(2,2);(3,3);(4,5);(5,8);(6,13);(7,21);(8,34);(9,55);(10,89);(11,144)]).
Eval vm_compute in lens (mk [(7, 3)]).
Eval vm_compute in lens (mk [(0,3);(1,3);(2,3);(3,3);(4,3)]).
Eval vm_compute in roundtrip (mk [(1, 4); (2, 6); (3, 6); (4, 2)]) [[1;2;3;4;1;2;3;4;4;3;2;1]; []; [4]; [1;1;1;1;1;1;1;1;1]; [2;3]].
Eval vm_compute in roundtrip (mk [(0,1);(1,1);(2,2);(3,3);(4,5);(5,8);(6,13);(7,21);(8,34);(9,55);(10,89);(11,144)]) [[0;11;1;10]; [0]; [11;11;11]; [1;2;3]].
Eval vm_compute in roundtrip (mk [(7, 3)]) [[7;7]; []; [7]].
Eval vm_compute in roundtrip (mk [(7, 3)]) [[8]].
