#!/bin/bash
# run every registered quick (or $1=thorough) check on the current tree; summary at the end
cd "$(dirname "$0")/.."
tier=${1:-quick}
fail=0
for p in C01 C02 C03 C04 C05 C06 C07 C08 C09 C10 C11 C12 C13 C14 C15 C16 C17 C18 C19 C20; do
  out=$(python3 tools/check.py $p --tier $tier 2>&1); rc=$?
  echo "$p rc=$rc $(echo "$out" | grep -v KNOWN | tail -1)"
  [ $rc -ne 0 ] && fail=1
done
exit $fail
