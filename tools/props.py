#!/usr/bin/env python3
"""Per-property generators, oracles and projections (DESIGN.md section 7)."""
import json, os, random, sys
import lib, gen, catalogue
from catalogue import ENTRIES, shape, contains, is_known_bad, forms, caps, idx_kind

NUMBERING = {name: i for i, (name, _) in enumerate(ENTRIES)}
EXPR = dict(ENTRIES)
PROFILES = ['checked', 'wrapping']

class Ctx:
    def __init__(self, prop, tier, seed, replay):
        self.prop, self.tier, self.seed, self.replay = prop, tier, seed, replay
        self.rng = random.Random(f'{prop}:{seed}')
        self.thorough = tier == 'thorough'

class Result:
    def __init__(self):
        self.failures = []      # oracle failures on the implementation (concrete inputs)
        self.corr = []          # model/implementation disagreements on the property's projection
        self.evaluations = 0
        self.compared = 0
        self.rule = ''
        self.samples = []
        self.tags = {}
        self.per_profile = {}
        self.exhaustive = False
        self.extra = {}
        self.trusted = []
        self.assumptions = []
        self.nontrivial = set()
    def distinct_nontrivial(self): return len(self.nontrivial)
    def tag(self, t): self.tags[t] = self.tags.get(t, 0) + 1

# ------------------------------------------------------------------ ops
def op_str(op):
    k = op[0]
    ints = lambda l: ','.join(str(x) for x in l) if l else '-'
    if k == 'push': return f'push {op[1]} {op[2]:x} {gen.show(op[3])}'
    if k in ('probe', 'read', 'clear', 'heap', 'serde'): return f'{k} {op[1]}'
    if k == 'merge': return f'merge {op[1]} {ints(op[2])}'
    if k in ('clone', 'clonefrom'): return f'{k} {op[1]} {op[2]}'
    if k == 'pushitem': return f'pushitem {op[1]} {op[2]} {op[3]} {1 if op[4] else 0}'
    if k == 'cloneonto': return f'cloneonto {op[1]} {op[2]} {gen.show(op[3])}'
    if k == 'resitems': return f'resitems {op[1]} {gen.show(list(op[2]))}'
    if k == 'resregs': return f'resregs {op[1]} {ints(op[2])}'
    if k == 'cmp': return f'cmp {op[1]} {op[2]} {1 if op[3] else 0} {op[4]} {op[5]} {1 if op[6] else 0}'
    raise ValueError(op)

def expected_probe(e, v):
    """the report of a read item of region expression e that denotes value v (Wire.v: probe)"""
    k = e[0]
    if k in ('own', 'mir', 'vecr', 'str', 'strof'): return v
    if k in ('col', 'con'): return expected_probe(e[1], v)
    if k in ('sl', 'cols'):
        ps = [expected_probe(e[1], x) for x in v]
        return [len(v), 1 if len(v) == 0 else 0, [('S', p) for p in ps] + [None, None], ps, list(v)]
    if k == 'opt': return None if v is None else ('S', expected_probe(e[1], v[1]))
    if k == 'res': return (v[0], expected_probe(e[1] if v[0] == 'O' else e[2], v[1]))
    if k == 'tup2': return [expected_probe(e[1], v[0]), expected_probe(e[2], v[1])]
    raise ValueError(e)

def wire_equiv(a, b, ieee):
    if isinstance(a, int) and isinstance(b, int) and not isinstance(a, bool):
        return a == b or (ieee and gen.f64_eq(a, b))
    if isinstance(a, list) and isinstance(b, list):
        return len(a) == len(b) and all(wire_equiv(x, y, ieee) for x, y in zip(a, b))
    if isinstance(a, tuple) and isinstance(b, tuple):
        return a[0] == b[0] and wire_equiv(a[1], b[1], ieee)
    return a is None and b is None

def uses_ieee(e):
    return contains(e, 'col') and 'f64' in repr(e)

# ------------------------------------------------------------------ reference semantics
class RefState:
    """what the property text says a region is: per slot, the values pushed since the last clear"""
    def __init__(self): self.log = [[], [], []]

def ref_oracle(e, ops, obs, clauses=()):
    """Walk a history and its observations; return None or a failure description.
    Covers: pushes succeed, every probe/read reports exactly the value pushed at that index, item
    copies and clone_onto reproduce the value.  `clauses` are extra per-property hooks
    f(t, op, group, ref, scratch) -> failure or None."""
    ref = RefState(); ieee = uses_ieee(e); scratch = {}
    for t, op in enumerate(ops):
        if t >= len(obs): return None if t > 0 and obs and obs[-1] and obs[-1][0] in ('P', 'ILL', 'UNSUP') else f'op {t}: no observation'
        g = obs[t]; k = op[0]
        if g and g[0] == 'CRASH': return f'op {t}: harness crashed'
        if k == 'push':
            if len(g) != 1 or not g[0].startswith('i='): return f'op {t} ({op_str(op)}): push did not return an index: {g}'
            ref.log[op[1]].append(op[3])
        elif k in ('probe', 'read'):
            log = ref.log[op[1]]
            if len(g) != len(log): return f'op {t}: {len(g)} reads for {len(log)} issued indices'
            for j, (o, v) in enumerate(zip(g, log)):
                want = expected_probe(e, v) if k == 'probe' else v
                if not o.startswith('v='): return f'op {t}: reading index #{j} gave {o}, pushed {gen.show(v)}'
                got = gen.parse(o[2:])
                if not wire_equiv(got, want, ieee):
                    return f'op {t}: index #{j} reads {o[2:]} but {gen.show(want)} was pushed'
        elif k == 'clear':
            if g != ['-']: return f'op {t}: clear observed {g}'
            ref.log[op[1]] = []
        elif k == 'merge':
            if g != ['-']: return f'op {t}: merge_regions observed {g}'
            ref.log[op[1]] = []
        elif k in ('clone', 'clonefrom'):
            if g != ['-']: return f'op {t}: {k} observed {g}'
            ref.log[op[1]] = list(ref.log[op[2]])
        elif k == 'pushitem':
            if len(g) != 1 or not g[0].startswith('i='): return f'op {t} ({op_str(op)}): item copy did not return an index: {g}'
            ref.log[op[1]].append(ref.log[op[2]][op[3]])
        elif k == 'cloneonto':
            v = ref.log[op[1]][op[2]]
            if len(g) != 1 or not g[0].startswith('v='): return f'op {t}: clone_onto observed {g}'
            if not wire_equiv(gen.parse(g[0][2:]), v, ieee):
                return f'op {t}: clone_onto left {g[0][2:]}, item is {gen.show(v)}'
        elif k in ('resitems', 'resregs', 'serde'):
            if g != ['-']: return f'op {t}: {k} observed {g}'
        elif k == 'heap':
            if len(g) != 1 or not g[0].startswith('v='): return f'op {t}: heap_size observed {g}'
        elif k == 'cmp':
            if len(g) != 1 or not g[0].startswith('v='): return f'op {t}: comparison observed {g}'
        for c in clauses:
            f = c(t, op, g, ref, scratch)
            if f: return f
    return None

def project(ops, obs, mode):
    """the observables a property speaks about.  mode 'values': indices are opaque; 'full': as is"""
    out = []
    for t, g in enumerate(obs):
        op = ops[t] if t < len(ops) else ('?',)
        if op[0] == 'heap': out.append(['-']); continue
        if mode == 'values': out.append(['i' if o.startswith('i=') else o for o in g])
        else: out.append(list(g))
    return out

# ------------------------------------------------------------------ generic runner
def run_regions(ctx, res, cases, oracle, mode, known_ok=True):
    """cases: list of (entry name, ops).  Runs implementation and model in both profiles, applies
    the oracle to the implementation, the projection to model vs implementation."""
    hist = [(n, [op_str(o) for o in ops]) for n, ops in cases]
    for prof in PROFILES:
        impl = lib.run_impl('regions', hist, prof)
        model = lib.run_model('regions', hist, prof, NUMBERING)
        nfail = 0
        for (name, ops), io, mo in zip(cases, impl, model):
            res.evaluations += 1
            e = EXPR[name]
            if any(g and g[0] in ('ILL', 'UNSUP', 'bad-history', 'unknown-entry') or (g and g[0].startswith('bad-')) for g in io):
                raise RuntimeError(f'generator/harness bug: {name} {[op_str(o) for o in ops]} -> {io}')
            f = oracle(e, ops, io)
            if f:
                nfail += 1
                known = None
                if known_ok and is_known_bad(e) and oracle(e, ops, mo):
                    known = known_class(e, ctx.prop)
                res.failures.append({'kind': 'oracle', 'entry': name, 'rust_type': catalogue.rust_type(e), 'profile': prof,
                                     'history': [op_str(o) for o in ops], 'what': f,
                                     'observed': [' '.join(g) for g in io], 'model': [' '.join(g) for g in mo],
                                     'known': known})
            res.compared += 1
            pi, pm = project(ops, io, mode), project(ops, mo, mode)
            if pi != pm and not (known_ok and is_known_bad(e)):
                t = next((i for i in range(max(len(pi), len(pm))) if i >= len(pi) or i >= len(pm) or pi[i] != pm[i]), 0)
                res.corr.append({'kind': f'regions/{mode}', 'entry': name, 'profile': prof,
                                 'history': [op_str(o) for o in ops], 'first_difference_at_op': t,
                                 'impl': [' '.join(g) for g in io], 'model': [' '.join(g) for g in mo]})
        res.per_profile[prof] = res.per_profile.get(prof, 0) + len(cases)
    return res

def known_class(e, prop=None):
    """the text of the known finding this failure belongs to, if known_findings.json lists it"""
    for k in lib.load_known().get('known', []):
        if k.get('class') == 'consec-over-collapse' and is_known_bad(e) and (prop is None or prop in k['properties']):
            return k['what']
    return None

def pick_entries(pred=lambda n, e: True):
    return [(n, e) for n, e in ENTRIES if pred(n, e)]

class HistGen:
    """random histories over one entry"""
    def __init__(self, ctx, name, e):
        self.ctx, self.name, self.e = ctx, name, e
        self.rng = ctx.rng
        self.vg = gen.ValueGen(ctx.rng, big=ctx.thorough)
        self.shape = shape(e)
        self.nforms = len(forms(e))
        self.caps = caps(e)
        self.recent = []
    def value(self, repeat=0.3):
        if self.recent and self.rng.random() < repeat:
            return self.rng.choice(self.recent[-4:])
        v = self.vg.gen(self.shape)
        self.recent.append(v)
        return v
    def push(self, k, form=None):
        f = self.rng.randrange(self.nforms) if form is None else form
        return ('push', k, f, self.value())

def note_case(res, name, ops):
    s = name + ';' + ';'.join(op_str(o) for o in ops)
    npush = sum(1 for o in ops if o[0] in ('push', 'pushitem'))
    if npush >= 2 and any(o[0] in ('probe', 'read') for o in ops):
        res.nontrivial.add(s)
    for o in ops:
        res.tag(o[0])
    if len(res.samples) < 6 and npush >= 2:
        res.samples.append({'entry': name, 'history': [op_str(o) for o in ops]})

# ------------------------------------------------------------------ C01
def c01(ctx):
    res = Result()
    res.rule = ('per catalogue entry: random histories of pushes (every offered input form, values from boundary '
                'pools incl. empty, multi-byte UTF-8, ragged/nested, u64 extremes, NaN/-0 patterns, repeats) with '
                'occasional clear, every issued index probed through len/is_empty/get(0..len+1)/iter/into_owned; '
                'non-trivial = distinct history with >= 2 pushes and a probe')
    n_hist = 30 if not ctx.thorough else 400
    cases = []
    for name, e in ENTRIES:
        for _ in range(n_hist):
            hg = HistGen(ctx, name, e)
            ops = []
            for _ in range(ctx.rng.choice([1, 2, 3, 5, 8, 12])):
                r = ctx.rng.random()
                if r < 0.06 and ops: ops.append(('clear', 0))
                elif r < 0.12 and ops: ops.append(('probe', 0))
                else: ops.append(hg.push(0))
            ops.append(('probe', 0))
            cases.append((name, ops)); note_case(res, name, ops)
    run_regions(ctx, res, cases, lambda e, ops, obs: ref_oracle(e, ops, obs), 'values')
    return res

PROPS = {'C01': c01}
