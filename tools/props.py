#!/usr/bin/env python3
"""Per-property generators, oracles and projections (DESIGN.md section 7)."""
import json, os, random, sys
import lib, gen, catalogue
from catalogue import ENTRIES, shape, contains, is_known_bad, forms, caps, idx_kind

NUMBERING = {name: i for i, (name, _) in enumerate(ENTRIES)}
EXPR = dict(ENTRIES)
PROFILES = ['checked', 'wrapping']

class Ctx:
    def __init__(self, prop, tier, seed, replay):
        self.prop, self.tier, self.seed, self.replay = prop, tier, seed, replay
        self.rng = random.Random(f'{prop}:{seed}')
        self.thorough = tier == 'thorough'

class Result:
    def __init__(self):
        self.failures = []      # oracle failures on the implementation (concrete inputs)
        self.corr = []          # model/implementation disagreements on the property's projection
        self.evaluations = 0
        self.compared = 0
        self.rule = ''
        self.samples = []
        self.tags = {}
        self.per_entry = {}   # histories run per catalogue entry / container kind (input distribution)
        self.per_profile = {}
        self.exhaustive = False
        self.extra = {}
        self.trusted = []
        self.assumptions = []
        self.nontrivial = set()
        self.nontrivial_counted = 0   # distinct non-trivial cases counted without being kept (enumerations)
    def distinct_nontrivial(self): return len(self.nontrivial) + self.nontrivial_counted
    def tag(self, t): self.tags[t] = self.tags.get(t, 0) + 1

# ------------------------------------------------------------------ ops
def op_str(op):
    k = op[0]
    ints = lambda l: ','.join(str(x) for x in l) if l else '-'
    if k == 'push': return f'push {op[1]} {op[2]:x} {gen.show(op[3])}'
    if k == 'trypush': return f'trypush {op[1]} {op[2]:x} {gen.show(op[3])}'
    if k in ('probe', 'probeo', 'read', 'clear', 'heap', 'serde', 'allocs'): return f'{k} {op[1]}'
    if k == 'merge': return f'merge {op[1]} {ints(op[2])}'
    if k in ('clone', 'clonefrom'): return f'{k} {op[1]} {op[2]}'
    if k == 'pushitem': return f'pushitem {op[1]} {op[2]} {op[3]} {1 if op[4] else 0}'
    if k == 'cloneonto': return f'cloneonto {op[1]} {op[2]} {gen.show(op[3])}'
    if k == 'resitems': return f'resitems {op[1]} {gen.show(list(op[2]))}' + (f' {op[3]}' if len(op) > 3 and op[3] else '')
    if k == 'resregs': return f'resregs {op[1]} {ints(op[2])}'
    if k == 'cmp': return f'cmp {op[1]} {op[2]} {1 if op[3] else 0} {op[4]} {op[5]} {1 if op[6] else 0}'
    raise ValueError(op)

def expected_probe(e, v):
    """the report of a read item of region expression e that denotes value v (Wire.v: probe)"""
    k = e[0]
    if k in ('own', 'mir', 'vecr', 'str', 'strof', 'cdc', 'huf'): return v
    if k in ('col', 'con'): return expected_probe(e[1], v)
    if k in ('sl', 'cols'):
        ps = [expected_probe(e[1], x) for x in v]
        return [len(v), 1 if len(v) == 0 else 0, [('S', p) for p in ps] + [None, None], [None] * 6, ps, list(v)]
    if k == 'opt': return None if v is None else ('S', expected_probe(e[1], v[1]))
    if k == 'res': return (v[0], expected_probe(e[1] if v[0] == 'O' else e[2], v[1]))
    if k == 'tup2': return [expected_probe(e[1], v[0]), expected_probe(e[2], v[1])]
    raise ValueError(e)

def wire_equiv(a, b, ieee):
    if isinstance(a, int) and isinstance(b, int) and not isinstance(a, bool):
        return a == b or (ieee and gen.f64_eq(a, b))
    if isinstance(a, list) and isinstance(b, list):
        return len(a) == len(b) and all(wire_equiv(x, y, ieee) for x, y in zip(a, b))
    if isinstance(a, tuple) and isinstance(b, tuple):
        return a[0] == b[0] and wire_equiv(a[1], b[1], ieee)
    return a is None and b is None

def coded(e): return contains(e, 'cdc') or contains(e, 'huf')

def uses_ieee(e):
    return contains(e, 'col') and 'f64' in repr(e)

# ------------------------------------------------------------------ reference semantics
class RefState:
    """what the property text says a region is: per slot, the values pushed since the last clear"""
    def __init__(self): self.log = [[], [], [], []]

def ref_oracle(e, ops, obs, clauses=(), model_obs=None):
    """Walk a history and its observations; return None or a failure description.
    Covers: pushes succeed, every probe/read reports exactly the value pushed at that index, item
    copies and clone_onto reproduce the value.  `clauses` are extra per-property hooks
    f(t, op, group, ref, scratch) -> failure or None."""
    ref = RefState(); ieee = uses_ieee(e); scratch = {}
    for t, op in enumerate(ops):
        if t >= len(obs): return None if t > 0 and obs and obs[-1] and obs[-1][0] in ('P', 'ILL', 'UNSUP') else f'op {t}: no observation'
        g = obs[t]; k = op[0]
        if g and g[0] == 'CRASH': return f'op {t}: harness crashed'
        if k == 'push':
            if g == ['P'] and model_obs is not None and coded(e) and t < len(model_obs) and model_obs[t] == ['P']:
                # a refusal the proven model predicts (the dictionary cannot represent the input): legitimate, history ends
                for c in clauses:
                    f = c(t, ('refused',) + tuple(op[1:]), g, ref, scratch)
                    if f: return f
                return None
            if len(g) != 1 or not g[0].startswith('i='): return f'op {t} ({op_str(op)}): push did not return an index: {g}'
            ref.log[op[1]].append(op[3])
        elif k == 'trypush':
            # a push the region may refuse by panicking; whether it does is the model's word (compared by the
            # correspondence) -- here: a refusal stores nothing and must leave every earlier item as it was
            if g == ['P']:
                for c in clauses:
                    f = c(t, ('refused',) + tuple(op[1:]), g, ref, scratch)
                    if f: return f
            elif len(g) == 1 and g[0].startswith('i='): ref.log[op[1]].append(op[3])
            else: return f'op {t} ({op_str(op)}): push neither returned an index nor was refused: {g}'
        elif k in ('probe', 'probeo', 'read'):
            log = ref.log[op[1]]
            if len(g) != len(log): return f'op {t}: {len(g)} reads for {len(log)} issued indices'
            for j, (o, v) in enumerate(zip(g, log)):
                want = v if k == 'read' else expected_probe(e, v)
                if not o.startswith('v='): return f'op {t}: reading index #{j} gave {o}, pushed {gen.show(v)}'
                got = gen.parse(o[2:])
                if not wire_equiv(got, want, ieee):
                    return f'op {t}: index #{j} reads {o[2:]} but {gen.show(want)} was pushed'
        elif k == 'clear':
            if g != ['-']: return f'op {t}: clear observed {g}'
            ref.log[op[1]] = []
        elif k == 'merge':
            if g != ['-']: return f'op {t}: merge_regions observed {g}'
            ref.log[op[1]] = []
        elif k in ('clone', 'clonefrom'):
            if g != ['-']: return f'op {t}: {k} observed {g}'
            ref.log[op[1]] = list(ref.log[op[2]])
        elif k == 'pushitem':
            if len(g) != 1 or not g[0].startswith('i='): return f'op {t} ({op_str(op)}): item copy did not return an index: {g}'
            ref.log[op[1]].append(ref.log[op[2]][op[3]])
        elif k == 'cloneonto':
            v = ref.log[op[1]][op[2]]
            if len(g) != 1 or not g[0].startswith('v='): return f'op {t}: clone_onto observed {g}'
            if not wire_equiv(gen.parse(g[0][2:]), v, ieee):
                return f'op {t}: clone_onto left {g[0][2:]}, item is {gen.show(v)}'
        elif k in ('resitems', 'resregs'):
            if g != ['-']: return f'op {t}: {k} observed {g}'
        elif k == 'serde':
            # '-' or the serialised state before / after the round trip
            if g != ['-'] and not (len(g) == 1 and g[0].startswith('v=')): return f'op {t}: {k} observed {g}'
        elif k == 'heap':
            if len(g) != 1 or not g[0].startswith('v='): return f'op {t}: heap_size observed {g}'
        elif k == 'allocs':
            if len(g) != 1 or not g[0].startswith('v='): return f'op {t}: allocs observed {g}'
        elif k == 'cmp':
            if len(g) != 1 or not g[0].startswith('v='): return f'op {t}: comparison observed {g}'
        for c in clauses:
            f = c(t, op, g, ref, scratch)
            if f: return f
    return None

def project(ops, obs, mode):
    """the observables a property speaks about.  mode 'values': indices are opaque; 'full': as is.
    heap_size: the used bytes per callback (capacities are the implementation's); what reserve /
    merge size for and allocator calls are compared by C17 only."""
    out = []
    for t, g in enumerate(obs):
        op = ops[t] if t < len(ops) else ('?',)
        if op[0] == 'heap' and g and g[0].startswith('v='):
            # used bytes per callback as a multiset: the ORDER in which a region invokes the callback for its parts is
            # not something any property speaks about (C17 pairs needs with capacities by position in its own loop)
            v = gen.parse(g[0][2:])
            out.append(['v=' + gen.show(sorted(p[0] if isinstance(p, list) else p for p in v))]); continue
        if op[0] in ('resitems', 'resregs', 'merge', 'allocs') and g and (g[0] == '-' or g[0].startswith('v=')):
            out.append(['-']); continue
        if op[0] == 'serde' and mode != 'state':
            # the serialised state is compared by C16 only (mode 'state')
            out.append(['-']); continue
        if mode == 'values': out.append(['i' if o.startswith('i=') else o for o in g])
        else: out.append(list(g))
    return out

# ------------------------------------------------------------------ generic runner
def run_impl_only(ctx, res, cases, oracle):
    """oracle-only evaluation of histories too large for the list-based model (no correspondence is claimed for them)"""
    hist = [(n, [op_str(o) for o in ops]) for n, ops in cases]
    for prof in PROFILES:
        impl = lib.run_impl('regions', hist, prof)
        for (name, ops), io in zip(cases, impl):
            res.evaluations += 1
            res.per_entry[name + ' (impl only)'] = res.per_entry.get(name + ' (impl only)', 0) + 1
            e = EXPR[name]
            if any(g and g[0] in ('ILL', 'UNSUP', 'bad-history', 'unknown-entry', 'CRASH') or (g and g[0].startswith('bad-')) for g in io):
                raise RuntimeError(f'generator/harness bug: {name} -> {[g for g in io if g][:3]}')
            f = oracle(e, ops, io)
            if f:
                short = lambda l: [x if len(x) < 400 else x[:200] + f'...({len(x)} chars)' for x in l]
                res.failures.append({'kind': 'oracle', 'entry': name, 'rust_type': catalogue.rust_type(e), 'profile': prof,
                                     'history': short([op_str(o) for o in ops]), 'what': f, 'generator': 'implementation-and-oracle-only batch (too large for the list-based model)',
                                     'observed': short([' '.join(g) for g in io]), 'known': None})
def run_regions(ctx, res, cases, oracle, mode, known_ok=True):
    """cases: list of (entry name, ops).  Runs implementation and model in both profiles, applies
    the oracle to the implementation, the projection to model vs implementation."""
    hist = [(n, [op_str(o) for o in ops]) for n, ops in cases]
    for prof in PROFILES:
        impl = lib.run_impl('regions', hist, prof)
        model = lib.run_model('regions', hist, prof, NUMBERING)
        nfail = 0
        for (name, ops), io, mo in zip(cases, impl, model):
            res.evaluations += 1
            res.per_entry[name] = res.per_entry.get(name, 0) + 1
            e = EXPR[name]
            if any(g and g[0] in ('ILL', 'UNSUP', 'bad-history', 'unknown-entry') or (g and g[0].startswith('bad-')) for g in io):
                raise RuntimeError(f'generator/harness bug: {name} {[op_str(o) for o in ops]} -> {io}')
            f = oracle(e, ops, io, mo) if coded(e) else oracle(e, ops, io)
            if f:
                nfail += 1
                known = None
                if known_ok and is_known_bad(e) and (oracle(e, ops, mo, mo) if coded(e) else oracle(e, ops, mo)):
                    known = known_class(e, ctx.prop)
                res.failures.append({'kind': 'oracle', 'entry': name, 'rust_type': catalogue.rust_type(e), 'profile': prof,
                                     'history': [op_str(o) for o in ops], 'what': f,
                                     'observed': [' '.join(g) for g in io], 'model': [' '.join(g) for g in mo],
                                     'known': known})
            res.compared += 1
            # Huffman bit ranges depend on how ties between equally frequent symbols are broken, which no property fixes
            # (any optimal code is allowed): for entries containing a HuffmanContainer the index VALUES are compared with
            # the model only through the oracle (contiguity, sum of code lengths, optimal total cost), never literally
            m_ = 'values' if (contains(e, 'huf') and mode in ('full', 'state')) else mode
            pi, pm = project(ops, io, m_), project(ops, mo, m_)
            if pi != pm and not (known_ok and is_known_bad(e)):
                t = next((i for i in range(max(len(pi), len(pm))) if i >= len(pi) or i >= len(pm) or pi[i] != pm[i]), 0)
                res.corr.append({'kind': f'regions/{mode}', 'entry': name, 'profile': prof,
                                 'history': [op_str(o) for o in ops], 'first_difference_at_op': t,
                                 'impl': [' '.join(g) for g in io], 'model': [' '.join(g) for g in mo]})
        res.per_profile[prof] = res.per_profile.get(prof, 0) + len(cases)
        if prof == 'checked' and os.environ.get('VERIF_VMCHECK', '1') == '1':
            # the extracted driver against vm_compute inside Coq, on a sample
            n, bad = lib.vm_crosscheck(cases, model, prof, NUMBERING, gen.parse)
            res.extra['extraction_crosschecked_by_vm_compute'] = res.extra.get('extraction_crosschecked_by_vm_compute', 0) + n
            for b in bad: res.corr.append(b)
    return res

def known_by_class(cls, prop=None):
    for k in lib.load_known().get('known', []):
        if k.get('class') == cls and (prop is None or prop in k['properties']): return k['what']
    return None

def known_class(e, prop=None):
    """the text of the known finding this failure belongs to, if known_findings.json lists it"""
    for k in lib.load_known().get('known', []):
        if k.get('class') == 'consec-over-collapse' and is_known_bad(e) and (prop is None or prop in k['properties']):
            return k['what']
    return None

def pick_entries(pred=lambda n, e: True):
    return [(n, e) for n, e in ENTRIES if pred(n, e)]

class HistGen:
    """random histories over one entry"""
    def __init__(self, ctx, name, e):
        self.ctx, self.name, self.e = ctx, name, e
        self.rng = ctx.rng
        self.vg = gen.ValueGen(ctx.rng, big=ctx.thorough)
        self.shape = shape(e)
        self.nforms = len(forms(e))
        self.caps = caps(e)
        self.recent = []
    def value(self, repeat=0.3):
        if self.recent and self.rng.random() < repeat:
            return self.rng.choice(self.recent[-4:])
        v = self.vg.gen(self.shape)
        self.recent.append(v)
        return v
    def push(self, k, form=None):
        f = self.rng.randrange(self.nforms) if form is None else form
        return ('push', k, f, self.value())

def note_case(res, name, ops):
    s = name + ';' + ';'.join(op_str(o) for o in ops)
    npush = sum(1 for o in ops if o[0] in ('push', 'pushitem'))
    if npush >= 2 and any(o[0] in ('probe', 'probeo', 'read') for o in ops):
        res.nontrivial.add(s)
    for o in ops:
        res.tag(o[0])
    if len(res.samples) < 6 and npush >= 2:
        res.samples.append({'entry': name, 'history': [op_str(o) for o in ops]})

def coded_pool(ctx, e):
    """a pool of values for a coded entry and skewed repetition counts (so that a merged region has a real
    dictionary / code lengths beyond one byte)"""
    sh = shape(e); vg = gen.ValueGen(ctx.rng)
    if contains(e, 'huf'):
        # symbols 0..13 with counts 2^i: code lengths up to 13 bits
        syms = list(range(14))
        train = [[s_] * (2 ** i) for i, s_ in enumerate(syms)]
        def cover(v, sh):
            # replace every huffman symbol list by covered symbols
            k = sh[0]
            if k == 'list' and sh[1][0] == 'n' and sh[1][1] in ('u8', 'u16'): return [ctx.rng.choice(syms) for _ in v]
            if k == 'list': return [cover(x, sh[1]) for x in v]
            if k == 'tup': return [cover(x, t) for x, t in zip(v, sh[1])]
            return v
        pool = [cover(vg.gen(sh), sh) for _ in range(8)]
        # every symbol (i.e. every code length, 1..13 bits, the 8-bit one included) as the LAST symbol of an item
        def ending(s_, sh):
            k = sh[0]
            if k == 'list' and sh[1][0] == 'n' and sh[1][1] in ('u8', 'u16'): return [ctx.rng.choice(syms) for _ in range(ctx.rng.randrange(3))] + [s_]
            if k == 'list': return [ending(s_, sh[1])]
            if k == 'tup': return [ending(s_, sh[1][0])] + [cover(vg.gen(t), t) for t in sh[1][1:]]
            return s_
        pool += [ending(s_, sh) for s_ in syms]
        # training values: one value per symbol run, shaped like the entry
        def shaped(run, sh):
            k = sh[0]
            if k == 'list' and sh[1][0] == 'n' and sh[1][1] in ('u8', 'u16'): return run
            if k == 'list': return [shaped(run, sh[1])]
            if k == 'tup': return [shaped(run, sh[1][0])] + [vg.gen(t) for t in sh[1][1:]]
            return run
        return pool, [shaped(r, sh) for r in train]
    pool = [vg.gen(sh) for _ in range(6)]
    train = [v for i, v in enumerate(pool) for _ in range(2 ** i)]
    ctx.rng.shuffle(train)
    return pool, train

def trained_prefix(ctx, e, dst, src):
    """ops that train slot src and make slot dst = merge_regions([src]); returns (ops, pool of covered values)"""
    pool, train = coded_pool(ctx, e)
    ops = [('push', src, 0, v) for v in train] + [('merge', dst, [src])]
    return ops, pool

# ------------------------------------------------------------------ C01
def c01(ctx):
    res = Result()
    res.rule = ('per catalogue entry: random histories of pushes (every offered input form, values from boundary '
                'pools incl. empty, multi-byte UTF-8, ragged/nested, u64 extremes, NaN/-0 patterns, repeats) with '
                'occasional clear, every issued index probed through len/is_empty/get(0..len+1)/iter/into_owned; '
                'non-trivial = distinct history with >= 2 pushes and a probe')
    n_hist = 30 if not ctx.thorough else 400
    cases = []
    for name, e in ENTRIES:
        for _ in range(n_hist):
            hg = HistGen(ctx, name, e)
            ops = []; live = 0
            for _ in range(ctx.rng.choice([1, 2, 3, 5, 8, 12])):
                r = ctx.rng.random()
                if r < 0.06 and ops: ops.append(('clear', 0)); live = 0
                elif r < 0.12 and ops: ops.append(('probe', 0))
                elif r < 0.20 and live:
                    # the other owned conversion: clone_onto a target with arbitrary prior contents
                    ops.append(('cloneonto', 0, ctx.rng.randrange(live), hg.value(repeat=0.2)))
                else: ops.append(hg.push(0)); live += 1
            ops.append(('probe', 0))
            cases.append((name, ops)); note_case(res, name, ops)
    # coded regions built by merge_regions, data covered by the statistics they were built from
    for name, e in pick_entries(lambda nm, e: coded(e)):
        for _ in range(max(3, n_hist // 6)):
            ops, pool = trained_prefix(ctx, e, 0, 1)
            nf = len(forms(e))
            for _ in range(ctx.rng.choice([3, 8, 20])):
                ops.append(('push', 0, ctx.rng.randrange(nf), ctx.rng.choice(pool)))
                if ctx.rng.random() < 0.2: ops.append(('probe', 0))
            ops.append(('probe', 0))
            cases.append((name, ops)); note_case(res, name, ops)
    # states reached through clone_from / merge_regions / reserve: pushes must succeed and read back there too
    for name, e in ENTRIES:
        c = caps(e)
        if coded(e) or not c['clone']: continue
        for _ in range(max(3, n_hist // 5)):
            hg = HistGen(ctx, name, e)
            ops = gen_ops(ctx, hg, ctx.rng.choice([0, 1, 3, 7]), 0) + gen_ops(ctx, hg, ctx.rng.choice([0, 2, 5, 12]), 1)
            r = ctx.rng.random()
            if r < 0.5: ops.append(('clonefrom', 1, 0))
            elif r < 0.75: ops += [('clear', 1), ('clonefrom', 1, 0)]
            else: ops += [('merge', 1, [0, 1])]
            for _ in range(ctx.rng.choice([1, 3, 6])): ops.append(('push', 1, ctx.rng.randrange(hg.nforms), hg.value(repeat=0.6)))
            ops.append(('probe', 1))
            cases.append((name, ops)); note_case(res, name, ops)
    run_regions(ctx, res, cases, lambda e, ops, obs, mo=None: ref_oracle(e, ops, obs, (), mo), 'values')
    return res


def gen_ops(ctx, hg, n, slot=0, p_clear=0.0, p_probe=0.0):
    ops = []
    for _ in range(n):
        r = ctx.rng.random()
        if r < p_clear and ops: ops.append(('clear', slot))
        elif r < p_clear + p_probe and ops: ops.append(('probe', slot))
        else: ops.append(hg.push(slot))
    return ops

def small_domain(ctx, e, n=3):
    vg = gen.ValueGen(random.Random(f'dom:{catalogue.rust_type(e)}:{ctx.seed}'))
    sh = shape(e); out = []
    for _ in range(200):
        v = vg.gen(sh)
        if v not in out: out.append(v)
        if len(out) == n: break
    return out

# ------------------------------------------------------------------ C02
def c02(ctx):
    res = Result()
    res.rule = ('per entry: (a) bounded-exhaustive: every push sequence up to length L over a 3-value domain, all issued '
                'indices re-read after every step; (b) random long histories of push (all forms) / reserve_items / '
                'reserve_regions crossing reallocation, stride->spill and u32->u64 switches, re-read after every step; '
                'non-trivial = distinct history with >= 2 pushes')
    L = 3 if not ctx.thorough else 5
    cases = []
    import itertools
    for name, e in ENTRIES:
        dom = small_domain(ctx, e)
        for l in range(1, L + 1):
            for seq in itertools.product(range(len(dom)), repeat=l):
                ops = []
                for x in seq:
                    ops.append(('push', 0, 0, dom[x])); ops.append(('probe', 0))
                cases.append((name, ops)); note_case(res, name, ops)
        nrand = 6 if not ctx.thorough else 60
        for _ in range(nrand):
            hg = HistGen(ctx, name, e); ops = []
            hg.vg.big = False   # every issued index is re-read after EVERY step: long items would make that quadratic
            c = hg.caps
            # a source region for reserve_regions
            for _ in range(ctx.rng.choice([0, 2, 5])): ops.append(hg.push(1))
            for _ in range(ctx.rng.choice([4, 10, 25] if not ctx.thorough else [10, 40, 150])):
                r = ctx.rng.random()
                if r < 0.1 and c['reserve_items'] and catalogue.ref_ok(e): ops.append(('resitems', 0, [hg.value() for _ in range(ctx.rng.randrange(4))], ctx.rng.randrange(len(catalogue.reserve_forms(e)))))
                elif r < 0.2 and c['reserve_regions']: ops.append(('resregs', 0, [1]))
                else: ops.append(hg.push(0))
                ops.append(('probe', 0))
            cases.append((name, ops)); note_case(res, name, ops)
    # coded regions: merged from trained sources, every issued index re-read after every push (shared partial bytes)
    for name, e in pick_entries(lambda nm, e: coded(e)):
        for _ in range(3 if not ctx.thorough else 30):
            ops, pool = trained_prefix(ctx, e, 0, 1)
            nf = len(forms(e))
            for _ in range(ctx.rng.choice([6, 12, 25])):
                ops.append(('push', 0, ctx.rng.randrange(nf), ctx.rng.choice(pool))); ops.append(('probe', 0))
            cases.append((name, ops)); note_case(res, name, ops)
    res.exhaustive = True
    res.extra['exhaustive_part'] = f'all push sequences of length <= {L} over 3 values per entry'
    run_regions(ctx, res, cases, lambda e, ops, obs, mo=None: ref_oracle(e, ops, obs, (), mo), 'values')
    return res

# ------------------------------------------------------------------ C08
def paired_clause(a, b):
    """a push marked 'twin' repeats, on slot b, the push just made on slot a: same index expected"""
    def clause(t, op, g, ref, sc):
        key = ('pair', a, b)
        if op[0] in ('push', 'pushitem') and op[1] == b and op[-1] == 'twin' and key in sc:
            t0, g0 = sc.pop(key)
            if t0 == t - 1 and g0 != g:
                return f'ops {t0}/{t}: the same push returned {g0} on slot {a} but {g} on the twin slot {b}'
        if op[0] in ('push', 'pushitem') and op[1] == a: sc[key] = (t, g)
        return None
    return clause

def c08(ctx):
    res = Result()
    res.rule = ('per entry: history h1, clear, then history h2 applied in lock step to the cleared region and to a '
                'default twin; returned indices compared pairwise, all reads compared; repeated clear/refill cycles; '
                'non-trivial = distinct history with >= 2 pushes')
    cases = []
    n = 25 if not ctx.thorough else 300
    for name, e in ENTRIES:
        for _ in range(n):
            hg = HistGen(ctx, name, e)
            ops = gen_ops(ctx, hg, ctx.rng.choice([1, 3, 6, 12]), 0)
            for cyc in range(ctx.rng.choice([1, 1, 2, 3])):
                ops.append(('clear', 0))
                # state-level tie: the complete serialised state of the cleared region is the model's cleared state
                # (the round trip itself is C16's business; here it only exposes the state)
                if hg.caps['serde'] and not uses_ieee(e) and ctx.rng.random() < 0.5: ops.append(('serde', 0))
                if cyc > 0: ops.append(('clear', 1))
                for _ in range(ctx.rng.choice([1, 2, 4, 8])):
                    p = hg.push(0); ops.append(p); ops.append(('push', 1, p[2], p[3], 'twin'))
                ops.append(('probe', 0)); ops.append(('probe', 1))
            cases.append((name, ops)); note_case(res, name, ops)
    # coded regions: the history before the clear includes a merge_regions (dictionary / code table present)
    for name, e in pick_entries(lambda nm, e: coded(e)):
        for _ in range(max(3, n // 5)):
            ops, pool = trained_prefix(ctx, e, 0, 2)
            hg = HistGen(ctx, name, e)
            ops += [('push', 0, 0, ctx.rng.choice(pool)) for _ in range(ctx.rng.choice([0, 2, 6]))]
            ops.append(('clear', 0))
            for _ in range(ctx.rng.choice([2, 5, 9])):
                p = hg.push(0); ops.append(p); ops.append(('push', 1, p[2], p[3], 'twin'))
            ops += [('probe', 0), ('probe', 1)]
            cases.append((name, ops)); note_case(res, name, ops)
    withstate = [c for c in cases if any(o[0] == 'serde' for o in c[1])]
    without = [c for c in cases if not any(o[0] == 'serde' for o in c[1])]
    run_regions(ctx, res, without, lambda e, ops, obs, mo=None: ref_oracle(e, ops, obs, [paired_clause(0, 1)], mo), 'full')
    run_regions(ctx, res, withstate, lambda e, ops, obs, mo=None: ref_oracle(e, ops, obs, [paired_clause(0, 1)], mo), 'state')
    res.extra['state_tie_after_clear'] = len(withstate)
    # FlatStack: after clear() the stack is a fresh one -- also when it came from with_capacity / merge_capacity (whose
    # region carries a dictionary for the coded entries) and nothing was copied yet
    fscases = gen_fs_cases(ctx, list(FS_EXPR), 12 if not ctx.thorough else 120, 12, p_cap=0.25)
    fscases += fs_coded_cases(ctx, 8 if not ctx.thorough else 60)
    note_fs(res, fscases)
    run_fs_cases(ctx, res, fscases)
    return res

# ------------------------------------------------------------------ C09
def c09(ctx):
    res = Result()
    res.rule = ('per Clone-able entry: history, then clone or clone_from into a destination pre-filled by an unrelated '
                'history (longer / shorter / more or fewer columns), reads compared; identical continuation pushes on '
                'both copies must return identical indices; then diverging histories on both and re-reads')
    cases = []
    n = 25 if not ctx.thorough else 300
    for name, e in pick_entries(lambda nm, e: caps(e)['clone']):
        for _ in range(n):
            hg = HistGen(ctx, name, e)
            ops = gen_ops(ctx, hg, ctx.rng.choice([0, 1, 3, 6, 12]), 0, p_clear=0.05)
            if ctx.rng.random() < 0.5:
                ops.append(('clone', 1, 0))
            else:
                ops += gen_ops(ctx, hg, ctx.rng.choice([0, 1, 4, 15]), 1, p_clear=0.05)
                ops.append(('clonefrom', 1, 0))
            ops += [('probe', 1), ('probe', 0)]
            for _ in range(ctx.rng.choice([0, 1, 3])):
                p = hg.push(0); ops.append(p); ops.append(('push', 1, p[2], p[3], 'twin'))
            # diverge
            ops += gen_ops(ctx, hg, ctx.rng.choice([1, 3]), 0, p_clear=0.15)
            ops += [('probe', 1), ('probe', 0)]
            ops += gen_ops(ctx, hg, ctx.rng.choice([1, 3]), 1, p_clear=0.15)
            ops += [('probe', 0), ('probe', 1)]
            cases.append((name, ops)); note_case(res, name, ops)
    for name, e in pick_entries(lambda nm, e: e[0] == 'huf'):
        for _ in range(4 if not ctx.thorough else 40):
            k = ctx.rng.choice([11, 13, 14])
            syms = list(range(k)); perm = syms[:]; ctx.rng.shuffle(perm)
            def fibc(n):
                a, b, out = 1, 1, []
                for _ in range(n): out.append(a); a, b = b, a + b
                return out
            ca = dict(zip(syms, fibc(k))); cb = dict(zip(perm, fibc(k)))
            ops = [('push', 2, 0, [s_] * c) for s_, c in ca.items()] + [('merge', 0, [2])]
            ops += [('clear', 2)] + [('push', 2, 0, [s_] * c) for s_, c in cb.items()] + [('merge', 1, [2])]
            rare_a = syms[0]; rare_b = perm[0]
            # the two rarest symbols of either code book tie: which of them gets the all-ones (deepest) code is a tie-break
            items = [[rare_a] * 3, [rare_b] * 3, [syms[1]] * 3, [perm[1]] * 3, [rare_a, syms[-1], rare_a], [syms[1], syms[-1], perm[1]],
                     [ctx.rng.choice(syms) for _ in range(6)]]
            for v in items: ops.append(('push', 0, 0, v))
            for v in items[::-1]: ops.append(('push', 1, 0, v))
            ops += [('clonefrom', 1, 0), ('probe', 1), ('probe', 0)]
            for v in items:
                ops += [('push', 0, 0, v), ('push', 1, 0, v, 'twin')]
            ops += [('probe', 1), ('probe', 0)]
            cases.append((name, ops)); note_case(res, name, ops)
    res.assumptions.append('independence of the two copies in the implementation rests on Rust ownership (no unsafe/Rc/interior '
                           'mutability in any Clone impl); the model is a value model and cannot exhibit aliasing')
    run_regions(ctx, res, cases, lambda e, ops, obs, mo=None: ref_oracle(e, ops, obs, [paired_clause(0, 1)], mo), 'full')
    # FlatStack::clone: the stack continues as its own clone after arbitrary prefixes (value semantics: the list of
    # copied values and every observation must be unaffected, all later copies land behind the cloned contents)
    fscases = []
    for name in FS_EXPR:
        e, o = FS_EXPR[name]
        if not caps(e)['clone']: continue
        for _ in range(8 if not ctx.thorough else 80):
            vg = gen.ValueGen(ctx.rng, big=ctx.thorough); sh = shape(e); ops = []
            for _ in range(ctx.rng.choice([1, 3, 8])):
                r = ctx.rng.random()
                if r < 0.5: ops.append(('copy', vg.gen(sh)))
                elif r < 0.6: ops.append(('clear',))
                elif r < 0.8: ops.append(('extend', [vg.gen(sh) for _ in range(ctx.rng.randrange(4))]))
                elif r < 0.9: ops.append(('clone',))
                else: ops.append(('clonefrom', [vg.gen(sh) for _ in range(ctx.rng.choice([0, 2, 6]))]))
            ops += [('clonefrom', [vg.gen(sh) for _ in range(ctx.rng.choice([0, 1, 4, 8]))]), ('observe',)] if ctx.rng.random() < 0.5 else [('clone',), ('observe',)]
            ops += [('copy', vg.gen(sh)) for _ in range(ctx.rng.choice([1, 2, 5]))] + [('observe',)]
            fscases.append((name, ops))
    note_fs(res, fscases)
    run_fs_cases(ctx, res, fscases)
    return res

# ------------------------------------------------------------------ C10
def c10(ctx):
    res = Result()
    res.rule = ('per entry: (a) reserve_items / reserve_regions with arbitrary announced contents interleaved with '
                'pushes, in lock step with a twin that never reserves (indices and reads compared); (b) merge_regions '
                'over 0..3 source regions with arbitrary histories (incl. the target\'s own ancestor), then pushes in '
                'lock step with a default twin')
    cases = []
    n = 15 if not ctx.thorough else 200
    for name, e in ENTRIES:
        c = caps(e)
        for _ in range(n):
            hg = HistGen(ctx, name, e); ops = []
            ops += gen_ops(ctx, hg, ctx.rng.choice([0, 2, 6]), 2)
            for _ in range(ctx.rng.choice([2, 5, 10])):
                r = ctx.rng.random()
                if r < 0.2 and c['reserve_items'] and catalogue.ref_ok(e):
                    ops.append(('resitems', 0, [hg.value() for _ in range(ctx.rng.randrange(5))], ctx.rng.randrange(len(catalogue.reserve_forms(e)))))
                elif r < 0.4 and c['reserve_regions']: ops.append(('resregs', 0, ctx.rng.choice([[2], [2, 2], []])))
                else:
                    p = hg.push(0); ops.append(p); ops.append(('push', 1, p[2], p[3], 'twin'))
                if ctx.rng.random() < 0.3: ops += [('probe', 0)]
            ops += [('probe', 0), ('probe', 1)]
            cases.append((name, ops)); note_case(res, name, ops)
        for _ in range(n):
            hg = HistGen(ctx, name, e); ops = []
            for k in (1, 2, 0):
                ops += gen_ops(ctx, hg, ctx.rng.choice([0, 1, 4, 9]), k, p_clear=0.05)
            srcs = ctx.rng.choice([[], [1], [1, 2], [2, 1, 1], [0, 1], [0]])
            ops.append(('merge', 0, srcs))
            ops.append(('clear', 3))
            for _ in range(ctx.rng.choice([1, 3, 7])):
                p = hg.push(0); ops.append(p); ops.append(('push', 3, p[2], p[3], 'twin'))
            ops += [('probe', 0), ('probe', 3), ('probe', 1)]
            cases.append((name, ops)); note_case(res, name, ops)
    # a coded region merged from trained sources legitimately stores (and indexes) differently from a default one
    run_regions(ctx, res, cases, lambda e, ops, obs, mo=None: ref_oracle(
        e, ops, obs, [paired_clause(0, 1)] + ([] if coded(e) else [paired_clause(0, 3)]), mo), 'full')
    # FlatStack::reserve / with_capacity / merge_capacity / reserve_regions: invisible, and the stacks they return are empty
    # and usable (for the coded entries within the dictionary the merged region carries)
    fscases = gen_fs_cases(ctx, list(FS_EXPR), 15 if not ctx.thorough else 150, 12, p_cap=0.5)
    fscases += fs_coded_cases(ctx, 8 if not ctx.thorough else 60)
    note_fs(res, fscases)
    run_fs_cases(ctx, res, fscases)
    # "whatever source regions": two sources whose lengths add up to more than usize::MAX (zero-sized elements; known finding D17)
    for prof in PROFILES:
        z = [g[0] if g else '' for g in lib.run_impl('span', [('zst_sum', ['x'])], prof)[0]]
        res.evaluations += 1
        if z != ['1', '3', '2']:
            res.failures.append({'kind': 'oracle', 'entry': 'probe/zst_sum', 'profile': prof, 'rust_type': 'OwnedRegion<()>',
                                 'history': ['push &[(); usize::MAX/2+1]', 'merge_regions([&r, &r]) then push 3 units', 'reserve_regions([&r, &r]) then push 2 units'],
                                 'observed': z, 'what': f'merge_regions / reserve_regions over sources totalling more than usize::MAX elements: {z} (62 = panic)',
                                 'known': known_by_class('zst-length-sum-overflow', ctx.prop) if (prof == 'checked' and z == ['1', '[62]', '[62]']) else None})
    return res

# ------------------------------------------------------------------ C11
def heap_used(g):
    return sum((p[0] if isinstance(p, list) else p) for p in gen.parse(g[0][2:]))

def c11(ctx):
    res = Result()
    res.rule = ('entries whose top level is CollapseSequence: push sequences with many repeats (runs, alternations, '
                'equal after clear / merge / clone / serde, NaN and +-0 patterns); a push equal (PartialEq) to the '
                'previous push on that region since its last reset must return the same index and leave heap_size '
                'used bytes unchanged; every index reads an item equal to what was pushed. Entries with '
                'CollapseSequence nested deeper run under the read oracle.')
    cases = []
    n = 40 if not ctx.thorough else 500
    tops = pick_entries(lambda nm, e: e[0] == 'col')
    inner = pick_entries(lambda nm, e: e[0] != 'col' and contains(e, 'col'))
    def clause_for(e):
        sh = shape(e)
        def clause(t, op, g, ref, sc):
            k = op[0]
            if k == 'heap':
                sc[('h', op[1])] = heap_used(g); return None
            if k in ('clear', 'merge'): sc.pop(('prev', op[1]), None)
            if k in ('clone', 'clonefrom'):
                if ('prev', op[2]) in sc: sc[('prev', op[1])] = sc[('prev', op[2])]
                else: sc.pop(('prev', op[1]), None)
            if k == 'push':
                prev = sc.get(('prev', op[1]))
                if prev is not None and gen.values_equiv(sh, op[3], prev[0], True) and not (sh == ('n', 'f64') and (gen.f64_is_nan(op[3]) or gen.f64_is_nan(prev[0]))):
                    if g != prev[1]: return f'op {t}: repeated item got {g}, the previous equal item has {prev[1]}'
                    sc[('chk', op[1])] = sc.get(('h', op[1]))
                else:
                    sc[('prev', op[1])] = (op[3], g)
                    sc.pop(('chk', op[1]), None)
            return None
        return clause
    def heap_clause(t, op, g, ref, sc):
        # heap ops are emitted around pushes: [heap, push, heap]; a collapsed push stores nothing
        if op[0] == 'heap' and sc.get(('chk', op[1])) is not None:
            before = sc.pop(('chk', op[1]))
            if heap_used(g) != before: return f'op {t}: a collapsed push changed the stored bytes {before} -> {heap_used(g)}'
        return None
    for name, e in tops:
        for _ in range(n):
            hg = HistGen(ctx, name, e); ops = []
            for _ in range(ctx.rng.choice([3, 6, 12, 20])):
                r = ctx.rng.random()
                if not hg.caps['clone'] and 0.07 <= r < 0.14: r = 0.5
                if not hg.caps['serde'] and 0.17 <= r < 0.21: r = 0.5
                if r < 0.07: ops.append(('clear', 0))
                elif r < 0.10: ops += [('clone', 1, 0), ('push', 1, 0, hg.recent[-1] if hg.recent else hg.value()), ('probe', 1)]
                elif r < 0.14:
                    # clone_from into a destination with its own dedup memory
                    ops += [('push', 1, 0, hg.value(repeat=0.5)) for _ in range(ctx.rng.choice([0, 1, 3]))]
                    ops += [('clonefrom', 1, 0), ('push', 1, 0, hg.recent[-1] if hg.recent else hg.value()),
                            ('push', 1, 0, hg.value(repeat=0.7)), ('probe', 1)]
                elif r < 0.17: ops += [('merge', 2, [0]), ('push', 2, 0, hg.recent[-1] if hg.recent else hg.value()), ('probe', 2)]
                elif r < 0.21: ops.append(('serde', 0))
                elif r < 0.27 and hg.caps['reserve_regions'] and hg.recent:
                    # a reservation is not a reset: the item pushed before it is still the one to compare with
                    p = ('push', 0, ctx.rng.randrange(hg.nforms), hg.recent[-1])
                    ops += [('resregs', 0, ctx.rng.choice([[], [1], [2], [1, 2]]))] + ([('heap', 0), p, ('heap', 0)] if hg.caps['heap'] else [p])
                else:
                    p = ('push', 0, ctx.rng.randrange(hg.nforms), hg.value(repeat=0.6))
                    ops += [('heap', 0), p, ('heap', 0)] if hg.caps['heap'] else [p]
            ops.append(('probe', 0))
            cases.append((name, ops)); note_case(res, name, ops)
    for name, e in inner:
        for _ in range(n // 2):
            hg = HistGen(ctx, name, e)
            ops = gen_ops(ctx, hg, ctx.rng.choice([3, 6, 12]), 0, p_clear=0.07, p_probe=0.1) + [('probe', 0)]
            cases.append((name, ops)); note_case(res, name, ops)
    # CollapseSequence over a coded region built by merge_regions: the comparison is between a raw pushed item and an
    # ENCODED stored one; consecutive items that are prefixes / extensions of each other, empty items, exact repeats
    for name, e in pick_entries(lambda nm, e: e[0] == 'col' and coded(e)):
        for _ in range(max(6, n // 3)):
            ops, pool = trained_prefix(ctx, e, 0, 1)
            seqs = []
            for _ in range(ctx.rng.choice([2, 4, 7])):
                v = list(ctx.rng.choice(pool))
                k = ctx.rng.randrange(len(v) + 1)
                seqs += ctx.rng.choice([[v, v[:k]], [v[:k], v], [v, v], [v, [], v], [[], v], [v, v + v[:1]]])
            for v in seqs:
                ops += [('push', 0, 0, v)]
                if ctx.rng.random() < 0.3: ops.append(('probe', 0))
            ops.append(('probe', 0))
            cases.append((name, ops)); note_case(res, name, ops)
    def oracle(e, ops, obs, mo=None):
        if e[0] == 'col': return ref_oracle(e, ops, obs, [heap_clause, clause_for(e)], mo)
        return ref_oracle(e, ops, obs, (), mo)
    run_regions(ctx, res, cases, oracle, 'full')
    return res

# ------------------------------------------------------------------ C12
def dense_clause(t, op, g, ref, sc):
    k = op[0]
    if k in ('clear', 'merge'): sc[op[1]] = 0
    if k in ('clone', 'clonefrom'): sc[op[1]] = sc.get(op[2], 0)
    if k in ('push', 'pushitem'):
        want = sc.get(op[1], 0)
        if g != [f'i={want:x}']: return f'op {t}: push number {want} since the last reset returned {g}'
        sc[op[1]] = want + 1
    return None

def c12(ctx):
    res = Result()
    res.rule = ('entries whose top level is ConsecutiveIndexPairs or ColumnsRegion: push sequences incl. empty items, '
                'ragged rows 0..9 wide in any order, across clear / merge / clone; the k-th push since the last reset '
                'must return k and index k must read the k-th item with exactly its own length and cells')
    cases = []
    n = 40 if not ctx.thorough else 500
    for name, e in pick_entries(lambda nm, e: e[0] in ('con', 'cols')):
        for _ in range(n):
            hg = HistGen(ctx, name, e); ops = []
            for _ in range(ctx.rng.choice([2, 5, 10, 20])):
                r = ctx.rng.random()
                if r < 0.06: ops.append(('clear', 0))
                elif r < 0.1: ops += [('merge', 1, [0]), hg.push(1), hg.push(1), ('probe', 1)]
                elif r < 0.14 and hg.caps['clone']: ops += [('clone', 2, 0), hg.push(2), ('probe', 2)]
                elif r < 0.2 and any(o[0] == 'push' and o[1] == 0 for o in ops): ops.append(('probe', 0))
                elif r < 0.26 and hg.caps['reserve_regions']:
                    # reserve for narrower / wider / empty regions in between (must be invisible)
                    ops += [('clear', 3)] + [hg.push(3) for _ in range(ctx.rng.choice([0, 1, 3]))] + [('resregs', 0, ctx.rng.choice([[3], [3, 3], []]))]
                else: ops.append(hg.push(0))
            ops.append(('probe', 0))
            cases.append((name, ops)); note_case(res, name, ops)
    run_regions(ctx, res, cases, lambda e, ops, obs, mo=None: ref_oracle(e, ops, obs, [dense_clause], mo), 'full')
    span_cases(ctx, res, 'C12')
    return res

def span_cases(ctx, res, prop):
    """Offsets beyond u32::MAX under ConsecutiveIndexPairs / FlatStack, reached cheaply through a user-defined region
    that meets the Region contract and returns dense pairs of arbitrary width (harness/src/span.rs).  Bounded-exhaustive:
    every sequence of L operations over push(w), w in {0, 1, 5, 2^31-5, 2^31, 2^32, 2^32+7, 2^33}, clear and
    merge_regions.  Implementation-side oracle only (the k-th push since the last reset returns k; index k reads width_k)."""
    import itertools
    L = 4 if not ctx.thorough else 5
    alpha = ['0', '1', '5', '%x' % (2 ** 31 - 5), '%x' % 2 ** 31, '%x' % 2 ** 32, '%x' % (2 ** 32 + 7), '%x' % 2 ** 33, 'c', 'm']
    seqs = [list(q) for q in itertools.product(alpha, repeat=L)]
    kinds = ['iopt', 'ilist', 'vec', 'fs_iopt', 'fs_ilist']
    hist = [(k, q) for q in seqs for k in kinds]
    nfail = 0
    for prof in PROFILES:
        obs = lib.run_impl('span', hist, prof)
        for (k, q), io in zip(hist, obs):
            res.evaluations += 1
            io = [g[0] if g else '' for g in io]
            f = None; want = []; 
            for t, op in enumerate(q):
                if t >= len(io): f = f'op {t}: no observation'; break
                if op in ('c', 'm'):
                    want = []
                    if io[t] != 'N': f = f'op {t} ({op}): observed {io[t]}'; break
                else:
                    if io[t] != '%x' % len(want): f = f'op {t}: push of width {op} returned index {io[t]}, it is push number {len(want)} since the last reset'; break
                    want.append(int(op, 16))
            if f is None:
                if len(io) != len(q) + 1: f = f'no final reads: {io}'
                else:
                    got = gen.parse(io[-1])
                    if got != [('S', w) for w in want]: f = f'final reads {io[-1]}, pushed widths {[hex(w) for w in want]}'
            if f:
                nfail += 1
                res.failures.append({'kind': 'oracle', 'entry': 'span/' + k, 'rust_type': 'ConsecutiveIndexPairs<SpanRegion, _> (user-defined dense region, harness/src/span.rs)',
                                     'profile': prof, 'history': q, 'what': f, 'observed': io, 'known': None})
        res.per_profile[prof] = res.per_profile.get(prof, 0) + len(hist)
    # D8b: the same unchecked precondition through a tuple of two usize-indexed regions (push (w, w+1)); histories that
    # are dense by luck ([0, 1, 2]) must pass, the others are the known finding
    thist = [('con_tup', q) for q in (['0', '1', '2'], ['0', '1', 'c', '0'], ['5'], ['0', '3'], ['0', '1', '1'], ['2', 'c', '7'])]
    for prof in PROFILES:
        obs = lib.run_impl('span', thist, prof)
        for (k, q), io in zip(thist, obs):
            res.evaluations += 1
            io = [g[0] if g else '' for g in io]
            want = []; f = None
            for t, op in enumerate(q):
                if t >= len(io): f = f'op {t}: no observation'; break
                if op == 'c': want = []; continue
                if io[t] != '%x' % len(want): f = f'op {t}: push of ({op}, {op}+1) returned {io[t]}, it is push number {len(want)} since the last reset'; break
                want.append(int(op, 16))
            if f is None and (len(io) != len(q) + 1 or gen.parse(io[-1]) != [('S', w) for w in want]):
                f = f'final reads {io[-1]}, pushed first fields {[hex(w) for w in want]}'
            if f:
                dense = True; end = 0
                for op in q:
                    if op == 'c': end = 0
                    else:
                        if int(op, 16) != end: dense = False
                        end = int(op, 16) + 1
                res.failures.append({'kind': 'oracle', 'entry': 'span/con_tup', 'profile': prof, 'history': q, 'what': f, 'observed': io,
                                     'rust_type': 'ConsecutiveIndexPairs<TupleABRegion<MirrorRegion<usize>, MirrorRegion<usize>>, Vec<usize>>',
                                     'known': None if dense else known_by_class('consec-over-usize-pair-tuple', prop)})
    res.extra['span_exhaustive'] = f'{len(hist)} histories: all sequences of length {L} over 8 widths (up to 2^33) + clear + merge, 5 container arrangements'

# ------------------------------------------------------------------ C13
def c13(ctx):
    res = Result()
    res.rule = ('entries containing SliceRegion or ColumnsRegion: regions holding >= 3 adjacent items; for every item, '
                'in both representations (region-backed, and borrowed from its owned Vec), get(i) for all i in '
                '0..len+1, len, is_empty, iteration; get(i) must be the i-th element for i < len and panic for '
                'i >= len (never a neighbour\'s element)')
    cases = []
    n = 40 if not ctx.thorough else 500
    for name, e in pick_entries(lambda nm, e: contains(e, 'sl') or contains(e, 'cols')):
        for _ in range(n):
            hg = HistGen(ctx, name, e)
            ops = gen_ops(ctx, hg, ctx.rng.choice([3, 4, 6, 10]), 0)
            ops += [('probe', 0), ('probeo', 0)]
            cases.append((name, ops)); note_case(res, name, ops)
    res.exhaustive = True
    res.extra['exhaustive_part'] = 'all positions 0..len+1 of every item of every generated region, both representations'
    run_regions(ctx, res, cases, lambda e, ops, obs, mo=None: ref_oracle(e, ops, obs, (), mo), 'values')
    return res

# ------------------------------------------------------------------ C14
def c14(ctx):
    res = Result()
    res.rule = ('per entry: items copied between regions as region-backed read items and as borrows of their owned form '
                '(Push<ReadItem>), clone_onto into targets with arbitrary prior contents (empty, shorter, longer, other '
                'variant, nested), into_owned (through reborrow) and borrow_as(&into_owned(x)) probed through every accessor')
    cases = []
    n = 30 if not ctx.thorough else 400
    for name, e in ENTRIES:
        for _ in range(n):
            hg = HistGen(ctx, name, e)
            ops = gen_ops(ctx, hg, ctx.rng.choice([1, 3, 6]), 0)
            npush = len(ops)
            ops += gen_ops(ctx, hg, ctx.rng.choice([0, 2]), 1)
            for _ in range(ctx.rng.choice([1, 3, 6])):
                r = ctx.rng.random(); j = ctx.rng.randrange(npush)
                if r < 0.5: ops.append(('pushitem', 1, 0, j, ctx.rng.random() < 0.5))
                else: ops.append(('cloneonto', 0, j, hg.value(repeat=0.2)))
            ops += [('read', 0), ('probeo', 0), ('probe', 1), ('probeo', 1), ('read', 1)]
            cases.append((name, ops)); note_case(res, name, ops)
    # coded regions: read items of merged (encoded / dictionary-coded) regions copied across generations
    for name, e in pick_entries(lambda nm, e: coded(e)):
        for _ in range(4 if not ctx.thorough else 40):
            ops, pool = trained_prefix(ctx, e, 0, 3)                 # A = slot 0
            m = ctx.rng.choice([3, 6])
            ops += [('push', 0, 0, ctx.rng.choice(pool)) for _ in range(m)]
            ops += [('merge', 1, [0])]                               # B = merge(A), filled with A's read items only
            ops += [('pushitem', 1, 0, j, ctx.rng.random() < 0.3) for j in range(m)]
            ops += [('probe', 1), ('merge', 2, [1])]                 # C = merge(B)
            ops += [('pushitem', 2, 1, j, False) for j in range(m)]
            ops += [('probe', 2), ('probeo', 2), ('cloneonto', 1, 0, ctx.rng.choice(pool)), ('read', 1)]
            cases.append((name, ops)); note_case(res, name, ops)
    run_regions(ctx, res, cases, lambda e, ops, obs, mo=None: ref_oracle(e, ops, obs, (), mo), 'values')
    return res

# ------------------------------------------------------------------ C04
def src_inventory_c04():
    """program-text part: every `unsafe` in src/ and every `impl Push<_> for StringRegion`"""
    import re
    fails = []; found = {'unsafe': [], 'push_impls': []}
    for dp, _, fs in os.walk(os.path.join(lib.REPO, 'src')):
        for f in fs:
            if not f.endswith('.rs'): continue
            p = os.path.join(dp, f); txt = open(p).read()
            for m in re.finditer(r'\bunsafe\b', txt):
                line = txt.count('\n', 0, m.start()) + 1
                ctxt = txt[m.start():m.start() + 120].split('\n')[0:2]
                found['unsafe'].append(f'{os.path.relpath(p, lib.REPO)}:{line}: {" ".join(x.strip() for x in ctxt)}')
            for m in re.finditer(r'impl\s*<[^{]*?>\s*Push<([^{]*?)>\s*for\s*StringRegion', txt, flags=re.S):
                found['push_impls'].append(re.sub(r'\s+', ' ', m.group(1)))
    allowed_unsafe = lambda s: s.startswith('src/impls/string.rs') and 'from_utf8_unchecked' in s
    for u in found['unsafe']:
        if not allowed_unsafe(u): fails.append(f'unexpected unsafe: {u}')
    string_types = {'String', '&String', '&str', '&&str'}
    for t in found['push_impls']:
        if t not in string_types: fails.append(f'StringRegion accepts a non-string input type: Push<{t}>')
    return found, fails

def c04(ctx):
    res = Result()
    res.rule = ('string-bearing entries: strings of 1-4 byte scalars, combining sequences, empty and adjacent multi-byte '
                'strings; histories of push (all string forms) / clear / clone / clone_from / merge / serde / item '
                'copies; every &str handed out is compared byte-for-byte with the pushed string (the harness obtains '
                'it as &str, bytes are checked to be valid UTF-8 by Python decoding); plus the source inventory of '
                'unsafe blocks and of impl Push<_> for StringRegion')
    cases = []
    n = 30 if not ctx.thorough else 400
    for name, e in pick_entries(lambda nm, e: contains(e, 'str') or contains(e, 'strof')):
        for _ in range(n):
            hg = HistGen(ctx, name, e); ops = []
            for _ in range(ctx.rng.choice([3, 6, 12])):
                r = ctx.rng.random()
                if r < 0.06: ops.append(('clear', 0))
                elif r < 0.12 and hg.caps['clone']: ops += [('clone', 1, 0), ('probe', 1)]
                elif r < 0.17 and hg.caps['clone']: ops += [('clonefrom', 2, 0), ('probe', 2)]
                elif r < 0.22: ops += [('merge', 1, [0, 2]), hg.push(1), ('probe', 1)]
                elif r < 0.28 and hg.caps['serde']: ops += [('serde', 0), ('probe', 0)]
                elif r < 0.33 and any(o[0] == 'push' and o[1] == 0 for o in ops) and not any(o[0] == 'clear' for o in ops):
                    ops += [('clear', 3), ('pushitem', 3, 0, 0, ctx.rng.random() < 0.5), ('probe', 3)]
                else: ops.append(hg.push(0))
            ops.append(('probe', 0))
            cases.append((name, ops)); note_case(res, name, ops)
    # dictionary-coded strings: the empty string and every trained string pushed again after the representation switch
    # (merge_regions), with few and with more than 128 dictionary entries (tags beyond 0x7f are not valid UTF-8 on their own)
    for name, e in pick_entries(lambda nm, e: contains(e, 'cdc') and (contains(e, 'str') or contains(e, 'strof'))):
        sh = shape(e)
        def wrap(b):
            # a value of the entry's shape holding the byte string b
            def go(sh_):
                if sh_[0] == 'str': return list(b)
                if sh_[0] == 'list': return [go(sh_[1])]
                if sh_[0] == 'tup': return [go(t_) for t_ in sh_[1]]
                return gen.ValueGen(ctx.rng).gen(sh_)
            return go(sh)
        small = [b'', b'ab', b'\xc3\xa9t\xc3\xa9', b'z', b'']
        large = [b'z%03d' % i for i in range(140)]
        for train in ([x for x in small for _ in range(3)], [x for x in large for _ in range(2)] + [b'']):
            ops = [('push', 0, 0, wrap(b)) for b in train] + [('merge', 1, [0])]
            trained = set(train)
            for b in [b'', b'z', large[0], large[139], b'']:
                if b in trained: ops += [('push', 1, 0, wrap(b))]
            ops += [('probe', 1), ('merge', 2, [1, 0]), ('push', 2, 0, wrap(b''))]
            ops += [('push', 2, 0, wrap(train[1])), ('probe', 2)]
            # a string outside the dictionary (may legitimately be refused when it starts with an assigned tag: the history ends there)
            ops += [('push', 1, 0, wrap(b'ab')), ('probe', 1)]
            cases.append((name, ops)); note_case(res, name, ops)
    run_regions(ctx, res, cases, lambda e, ops, obs, mo=None: ref_oracle(e, ops, obs, (), mo), 'values')
    strspan_cases(ctx, res)
    found, fails = src_inventory_c04()
    res.extra['source_inventory'] = found
    for f in fails:
        res.failures.append({'kind': 'source-inventory', 'what': f, 'known': None,
                             'note': 'the unchecked UTF-8 conversion is reachable through a write path that does not guarantee UTF-8'})
    return res

def strspan_cases(ctx, res):
    """String boundaries at and around byte 2^32 (and 2^31) in the crate's own string regions, reached through a
    user-defined Storage<u8> whose first item is a virtual prefix (harness/src/strspan.rs).  Bounded-exhaustive: a
    prefix of 2^32-6 .. 2^32+1 (or 2^31-2, or none) bytes, then every sequence of L strings over
    {"", "a", "e-acute", "euro", "emoji", "ab"}, optionally cleared and refilled.  Implementation-side oracle: every
    &str read back is byte-identical to the pushed one (hence valid UTF-8), indices of the consecutive-pair kinds
    count from 0."""
    import itertools
    L = 3 if not ctx.thorough else 4
    strs = ['', 'a', '\u00e9', '\u20ac', '\U0001F600', 'ab']
    enc = {x: 's' + x.encode('utf-8').hex() for x in strs}
    gaps = [None, 2 ** 31 - 2] + [2 ** 32 + d for d in range(-6, 2)]
    kinds = ['str', 'con_str_iopt', 'con_str_ilist', 'con_str_vec', 'str_con_iopt', 'str_con_ilist', 'fs_iopt', 'fs_ilist']
    hist = []
    for g in gaps:
        pre = [] if g is None else ['g%x' % g]
        for q in itertools.product(strs, repeat=L):
            for k in kinds: hist.append((k, pre + [enc[x] for x in q], None))
        # cleared and refilled with another prefix
        for q in itertools.product(strs[1:5], repeat=2):
            for k in kinds: hist.append((k, pre + [enc[q[0]], 'c', 'g%x' % (2 ** 32 - 1), enc[q[1]], enc['ab']], None))
    for prof in PROFILES:
        obs = lib.run_impl('strspan', [(k, q) for k, q, _ in hist], prof)
        for (k, q, _), io in zip(hist, obs):
            res.evaluations += 1
            res.per_entry['strspan:' + k + ' (impl only)'] = res.per_entry.get('strspan:' + k + ' (impl only)', 0) + 1
            io = [g_[0] if g_ else '' for g_ in io]
            f = None; want = []; pos = 0
            for t, op in enumerate(q):
                if t >= len(io): f = f'op {t}: no observation'; break
                if op == 'c':
                    want = []; pos = 0
                    if io[t] != 'N': f = f'op {t} (clear): observed {io[t]}'; break
                    continue
                if io[t] == '[62]': f = f'op {t} ({op}): push panicked'; break
                if k != 'str' and io[t] != '%x' % pos: f = f'op {t} ({op}): push number {pos} since the last reset returned index {io[t]}'; break
                pos += 1
                if op[0] == 's': want.append(list(bytes.fromhex(op[1:])))
            if f is None:
                if len(io) != len(q) + 1: f = f'no final reads: {io}'
                else:
                    got = gen.parse(io[-1])
                    if got != [('S', w) for w in want]:
                        f = f'strings read back {io[-1]}, pushed {[bytes(w).decode("utf-8") for w in want]} (history {";".join(q)}; g<N> = virtual prefix of N bytes)'
            if f:
                res.failures.append({'kind': 'oracle', 'entry': 'strspan/' + k,
                                     'rust_type': 'string region over OwnedRegion<u8, Sparse> (user-defined storage, harness/src/strspan.rs)',
                                     'profile': prof, 'history': q, 'what': f, 'observed': io, 'known': None})
        res.per_profile[prof] = res.per_profile.get(prof, 0) + len(hist)
    res.extra['strspan_exhaustive'] = (f'{len(hist)} histories: virtual prefix in {{none, 2^31-2, 2^32-6..2^32+1}}, all sequences of {L} strings over 6 '
                                       f'(1-4 byte scalars, empty), clear+refill variants, {len(kinds)} string-region arrangements')

# ------------------------------------------------------------------ C16
def c16(ctx):
    res = Result()
    res.rule = ('per serde-enabled entry: history, clone into a twin, serialise+deserialise (serde_json) the original '
                'in place, reads compared, then the same continuation on both copies (repeat the last item, continue '
                'the stride, cross u32): indices and reads must agree')
    cases = []
    n = 30 if not ctx.thorough else 400
    for name, e in pick_entries(lambda nm, e: caps(e)['serde'] and caps(e)['clone']):
        for _ in range(n):
            hg = HistGen(ctx, name, e)
            ops = gen_ops(ctx, hg, ctx.rng.choice([0, 1, 3, 6, 12]), 0, p_clear=0.05)
            ops += [('clone', 1, 0), ('serde', 0), ('probe', 0), ('probe', 1)]
            for _ in range(ctx.rng.choice([1, 3, 6])):
                p = ('push', 0, ctx.rng.randrange(hg.nforms), hg.value(repeat=0.6)); ops.append(p); ops.append(('push', 1, p[2], p[3], 'twin'))
                if ctx.rng.random() < 0.15: ops.append(('serde', 0))
            ops += [('probe', 0), ('probe', 1)]
            cases.append((name, ops)); note_case(res, name, ops)
    res.assumptions.append('serde, serde_json and the derive macros are trusted, not modelled; the model treats the round trip as the identity and the correspondence shows the implementation does too')
    def state_clause(t, op, g, ref, sc):
        # implementation side: serialising the deserialised value gives the serialised form again
        if op[0] == 'serde' and g and g[0].startswith('v='):
            v = gen.parse(g[0][2:])
            sc['states'] = sc.get('states', 0) + 1
            if len(v) != 2 or v[0] != v[1]:
                return f'op {t}: the serialised form changed across the round trip: {gen.show(v[0])} became {gen.show(v[1])}'
        return None
    # JSON cannot carry NaN / +-inf (serde_json writes null): a region whose STATE holds such a float (the last_index of
    # CollapseSequence<MirrorRegion<f64>>) changes its serialised form across a serde_json round trip without any
    # observable difference (NaN never collapses; an infinite index is the value itself).  The state tie is therefore
    # applied to the entries without IEEE payloads; the float entries keep the behavioural twin run.
    plain = [(n_, o_) for n_, o_ in cases if not uses_ieee(EXPR[n_])]
    floats = [(n_, o_) for n_, o_ in cases if uses_ieee(EXPR[n_])]
    run_regions(ctx, res, plain, lambda e, ops, obs, mo=None: ref_oracle(e, ops, obs, [paired_clause(0, 1), state_clause], mo), 'state')
    if floats:
        run_regions(ctx, res, floats, lambda e, ops, obs, mo=None: ref_oracle(e, ops, obs, [paired_clause(0, 1)], mo), 'full')
    # index containers on their own: every sequence of length L over the transition-covering alphabet, a serde round
    # trip after every push (so every Stride variant, the u32/u64 split and every spill state is serialised), then
    # observed and continued
    import itertools
    L = 3 if not ctx.thorough else 4
    iccases = []
    for s_ in (1, 3):
        alpha = list(dict.fromkeys(ic_alphabet(s_)))
        for seq in itertools.product(alpha, repeat=L):
            ops = []
            for x in seq: ops += [('p', x), ('s',), ('o',)]
            ostr = [('p %x' % a[1]) if a[0] == 'p' else a[0] for a in ops]
            for k in ('vec', 'ilist', 'iopt', 'stride'): iccases.append((k, ostr, ops))
    run_ic_cases(ctx, res, iccases)
    # FlatStack: random histories with serde round trips of the whole stack
    fscases = gen_fs_cases(ctx, list(FS_EXPR), 12 if not ctx.thorough else 150, 12, p_serde=0.4)
    note_fs(res, fscases)
    run_fs_cases(ctx, res, fscases)
    res.extra['containers_and_stacks'] = (f'{len(iccases)} index-container histories (all sequences of length {L} over the 9-letter alphabet, two strides, '
                                          f'4 container kinds, serde after every push) and {len(fscases)} FlatStack histories with serde round trips')
    res.extra['state_tie'] = ('after every serde operation the complete serialised form of the implementation value (a name-free tree, '
                              'harness/src/state.rs) is compared with the form the model computes from its own state (coq/Serde/Ser.v): '
                              'equality of the whole internal state, not only of the observations')
    return res

# ------------------------------------------------------------------ C20
def c20(ctx):
    res = Result()
    nf = sum(len(forms(e)) for _, e in ENTRIES)
    res.rule = (f'per entry: every typed input form the composition offers ({nf} generated forms over the catalogue: '
                'owned, &, &&, slice, Vec of alternative child forms, PushIter, borrowed read item, region-backed read '
                'item) pushed in lock step with a twin fed the canonical form: equal indices, equal heap_size used '
                'bytes, equal reads; histories mix forms arbitrarily')
    cases = []
    n = 30 if not ctx.thorough else 300
    for name, e in ENTRIES:
        nfm = len(forms(e))
        for it in range(n):
            hg = HistGen(ctx, name, e); ops = []
            m = ctx.rng.choice([2, 4, 8, 14])
            for j in range(m):
                f = (it + j) % nfm if ctx.rng.random() < 0.7 else ctx.rng.randrange(nfm)
                v = hg.value(repeat=0.4)
                ops += [('push', 0, f, v), ('push', 1, 0, v, 'twin')]
                if ctx.rng.random() < 0.2 and hg.caps['heap']:
                    ops += [('heap', 0), ('heap', 1)]
            # region-backed read item as the input form
            if ctx.rng.random() < 0.5:
                j = ctx.rng.randrange(m)
                ops += [('pushitem', 2, 0, j, False), ('pushitem', 3, 1, j, True, 'twin')]
                ops += [('probe', 2), ('probe', 3)]
            ops += ([('heap', 0), ('heap', 1)] if hg.caps['heap'] else []) + [('probe', 0), ('probe', 1)]
            cases.append((name, ops)); note_case(res, name, ops)
    # every form on its own, from a fresh region: the first push, then growing and shrinking items (for a columns or
    # slice entry: rows of 1, 3, 0, 4, 2 elements), in lock step with the canonical-form twin
    for name, e in ENTRIES:
        if coded(e): continue
        sh = shape(e)
        for f in range(len(forms(e))):
            hg = HistGen(ctx, name, e); hg.vg.big = False; ops = []
            if sh[0] == 'list': vals = [[hg.vg.gen(sh[1]) for _ in range(w)] for w in (1, 3, 0, 4, 2)]
            else: vals = [hg.value(repeat=0.2) for _ in range(4)]
            for v in vals: ops += [('push', 0, f, v), ('push', 1, 0, v, 'twin')]
            ops += ([('heap', 0), ('heap', 1)] if hg.caps['heap'] else []) + [('probe', 0), ('probe', 1)]
            cases.append((name, ops)); note_case(res, name, ops)
    for name, e in pick_entries(lambda nm, e: e[0] == 'huf'):
        for _ in range(6 if not ctx.thorough else 60):
            k = ctx.rng.choice([4, 5, 7])
            syms = list(range(k)); cnt = [ctx.rng.choice([1, 1, 2]) for _ in syms]
            ops = [('push', 0, 0, syms * 2), ('merge', 0, [0])]          # slot 0: encoded container covering syms
            vals = [[s_] for s_, c in zip(syms, cnt) for _ in range(c)]
            ctx.rng.shuffle(vals)
            for j, v in enumerate(vals): ops.append(('push', 0, 0, v))
            # slot 1 receives slot 0's read items, slot 2 the same values as slices
            for j, v in enumerate(vals): ops += [('pushitem', 1, 0, j, ctx.rng.random() < 0.3), ('push', 2, ctx.rng.randrange(len(forms(e))), v)]
            ops += [('merge', 3, [1]), ('merge', 0, [2])]
            for v in vals + [syms]:
                ops += [('push', 3, 0, v), ('push', 0, 0, v, 'twin')]
            ops += [('probe', 3), ('probe', 0)]
            cases.append((name, ops)); note_case(res, name, ops)
    def heap_pair(t, op, g, ref, sc):
        if op[0] == 'heap':
            if op[1] == 0: sc['h0'] = heap_used(g)
            elif op[1] == 1 and 'h0' in sc:
                h0 = sc.pop('h0')
                if heap_used(g) != h0: return f'op {t}: mixed-form region stores {h0} bytes, canonical-form twin {heap_used(g)}'
        return None
    def inventory():
        import re
        found = []
        for dp, _, fs in os.walk(os.path.join(lib.REPO, 'src')):
            for f in fs:
                if f.endswith('.rs'):
                    txt = open(os.path.join(dp, f)).read()
                    body = txt.split('#[cfg(test)]')[0]
                    for m in re.finditer(r'impl\s*<[^{;]*?>\s*Push<([^{;]*?)>\s*for\s*([A-Za-z]+)', body, flags=re.S):
                        found.append(f'{m.group(2)}: Push<{re.sub(chr(92) + "s+", " ", m.group(1))}>')
        return sorted(found)
    res.extra['push_impls_in_source'] = inventory()
    run_regions(ctx, res, cases, lambda e, ops, obs, mo=None: ref_oracle(e, ops, obs, [paired_clause(0, 1), paired_clause(2, 3), paired_clause(3, 0), heap_pair], mo), 'full')
    return res


# ================================================================== index containers (C05, C19)
W64 = 2 ** 64; W32 = 2 ** 32
def stride_prefix_len(l):
    """length of the longest prefix of l of the documented shape 0, s, 2s, ... then repeats of the last"""
    if not l or l[0] != 0: return 0
    if len(l) == 1: return 1
    s = l[1]; c = 2
    while c < len(l) and l[c] == s * c and s * c < W64: c += 1
    k = c
    while k < len(l) and l[k] == s * (c - 1): k += 1
    # a repeat right after the strided part may equally be read as a continuation when s == 0
    return k
def stride_shape(l): return stride_prefix_len(l) == len(l)
def ilist_cost(r):
    k = next((i for i, x in enumerate(r) if x >= W32), len(r))
    return [4 * k, 8 * (len(r) - k)]
def iopt_cost(l):
    return ilist_cost(l[stride_prefix_len(l):])

def ic_case_str(kind, ops): return kind + ';' + ';'.join(ops)

def run_ic_cases(ctx, res, cases, cost_oracle=False):
    """cases: list of (kind, [op strings], [python ops]) ; python ops: ('p', x) ('e', [..]) ('c',) ('o',)"""
    hist = [(k, o) for k, o, _ in cases]
    for prof in PROFILES:
        impl = lib.run_impl('ic', hist, prof)
        model = lib.run_model('ic', hist, prof, None)
        for (kind, ostr, ops), io, mo in zip(cases, impl, model):
            res.evaluations += 1
            res.per_entry['ic:' + kind] = res.per_entry.get('ic:' + kind, 0) + 1
            io = [g[0] if g else '' for g in io]; mo = [g[0] if g else '' for g in mo]
            f = ic_oracle(kind, ops, io, cost_oracle)
            if f:
                res.failures.append({'kind': 'oracle', 'entry': kind, 'profile': prof, 'history': ostr, 'what': f,
                                     'observed': io, 'model': mo, 'known': None})
            res.compared += 1
            # projection: everything the model predicts (capacities are the implementation's only)
            def strip(o):
                if o.startswith('[') and kind != 'stride':
                    v = gen.parse(o)
                    if len(v) >= 6 and isinstance(v[5], list): return gen.show(v[:5] + [sorted(v[5])])
                return o
            pi = [strip(o) for o in io]; mo = [strip(o) for o in mo]
            if pi != mo:
                t = next((i for i in range(max(len(pi), len(mo))) if i >= len(pi) or i >= len(mo) or pi[i] != mo[i]), 0)
                res.corr.append({'kind': 'index-container', 'entry': kind, 'profile': prof, 'history': ostr,
                                 'first_difference_at_op': t, 'impl': io, 'model': mo})
        res.per_profile[prof] = res.per_profile.get(prof, 0) + len(cases)

def ic_oracle(kind, ops, obs, cost):
    l = []; state = None; spilled_ever = False
    for t, op in enumerate(ops):
        if t >= len(obs): return f'op {t}: no observation (previous: {obs[-1] if obs else None})'
        o = obs[t]
        if o in ('P', 'CRASH'): return f'op {t} {op}: the container panicked (sequence so far {[hex(x) for x in l]})'
        if op[0] == 'p':
            if kind == 'stride':
                v = gen.parse(o); ok, st = v[0], v[1]
                want = stride_shape(l + [op[1]])
                if bool(ok) != want: return f'op {t}: Stride::push({op[1]:#x}) returned {bool(ok)} after {[hex(x) for x in l]}; the documented pattern says {want}'
                if not ok and state is not None and st != state: return f'op {t}: a rejected push changed the state {state} -> {st}'
                if not ok and state is None and st != [0]: return f'op {t}: a rejected push changed the empty state to {st}'
                if ok: l.append(op[1])
                state = st
            else:
                l.append(op[1])
                if cost and kind == 'iopt' and not spilled_ever and not stride_shape(l): spilled_ever = True
        elif op[0] == 'e':
            l += op[1]
            if cost and kind == 'iopt' and not spilled_ever and not stride_shape(l): spilled_ever = True
        elif op[0] == 'c': l = []; state = None
        elif op[0] == 's':
            v = gen.parse(o)
            if not isinstance(v, list) or len(v) != 2 or v[0] != v[1]:
                return f'op {t}: the serialised form changed across the serde round trip: {o} (sequence {[hex(x) for x in l]})'
        elif op[0] == 'o':
            v = gen.parse(o)
            if v[0] != len(l): return f'op {t}: len {v[0]} for sequence {[hex(x) for x in l]}'
            if v[1] != (1 if not l else 0): return f'op {t}: is_empty {v[1]} for a sequence of length {len(l)}'
            if v[2] != [('S', x) for x in l]: return f'op {t}: index() yields {gen.show(v[2])} for sequence {[hex(x) for x in l]}'
            if kind == 'stride':
                if v[3] != ('S', l): return f'op {t}: iteration yields {gen.show(v[3])} for {[hex(x) for x in l]}'
            else:
                if v[3] != [None, None]: return f'op {t}: index(len), index(len+1) did not panic: {gen.show(v[3])}'
                if v[4] != ('S', l): return f'op {t}: iteration yields {gen.show(v[4])} for {[hex(x) for x in l]}'
                if len(v) > 8:
                    want_nth = [(('S', l[1 + k]) if 1 + k < len(l) else None) for k in range(min(len(l), 5) + 1)]
                    if v[7] != want_nth: return f'op {t}: iter(); next(); nth(k) yields {gen.show(v[7])} for {[hex(x) for x in l]}'
                    if v[8] != ('S', l[1::2]): return f'op {t}: iter(); next(); step_by(2) yields {gen.show(v[8])} for {[hex(x) for x in l]}'
                if cost:
                    want = {'vec': [8 * len(l)], 'ilist': ilist_cost(l), 'iopt': iopt_cost(l)}[kind]
                    if sorted(v[5]) != sorted(want): return f'op {t}: heap_size used {v[5]} but the documented rule gives {want} for {[hex(x) for x in l]}'
                    if kind == 'iopt' and want != [0, 0]: spilled_ever = True
                    if kind == 'iopt' and not spilled_ever and v[6] != [0, 0]:
                        return f'op {t}: a purely strided sequence holds capacity {v[6]}'
    return None

def ic_alphabet(s):
    return [min(x, W64 - 1) for x in [0, s, 2 * s, 3 * s, 7, W32 - 1, W32, 2 ** 63, W64 - 1]]

def ic_exhaustive_cases(L, strides, kinds, with_clear=True):
    import itertools
    cases = []
    for s in strides:
        alpha = [('p', x) for x in dict.fromkeys(ic_alphabet(s))] + ([('c',)] if with_clear else [])
        for seq in itertools.product(alpha, repeat=L):
            ops = []
            for a in seq:
                ops.append(a); ops.append(('o',))
            ostr = [('p %x' % a[1]) if a[0] == 'p' else a[0] for a in ops]
            for k in kinds:
                cases.append((k, ostr, ops))
    return cases

def ic_random_cases(ctx, n, kinds, maxlen):
    cases = []
    for _ in range(n):
        s = ctx.rng.choice([0, 1, 2, 3, 8, 1000, W32 - 1, W32, 2 ** 62, 2 ** 63, W64 - 1])
        m = ctx.rng.choice([5, 20, maxlen]); ops = []
        pool = ic_alphabet(s) + [ctx.rng.randrange(W64), ctx.rng.randrange(W32)]
        c = 0
        for _ in range(m):
            r = ctx.rng.random()
            if r < 0.55: ops.append(('p', (s * c) % W64 if s * c < W64 else W64 - 1)); c += 1   # continue the stride
            elif r < 0.7 and c > 0: ops.append(('p', min(s * (c - 1), W64 - 1)))                      # repeat the last
            elif r < 0.9: ops.append(('p', ctx.rng.choice(pool)))
            elif r < 0.95: ops.append(('e', [ctx.rng.choice(pool) for _ in range(ctx.rng.randrange(4))]))
            else: ops.append(('c',)); c = 0
            if ctx.rng.random() < 0.3: ops.append(('o',))
        ops.append(('o',))
        ostr = []
        for a in ops:
            if a[0] == 'p': ostr.append('p %x' % a[1])
            elif a[0] == 'e': ostr.append('e ' + gen.show(a[1]))
            else: ostr.append(a[0])
        for k in kinds:
            if k == 'stride' and any(a[0] == 'e' for a in ops): continue
            cases.append((k, ostr, ops))
    return cases

def note_ic(res, cases):
    for k, ostr, ops in cases:
        s = ic_case_str(k, ostr)
        if sum(1 for a in ops if a[0] == 'p') >= 2: res.nontrivial.add(s)
    for k, ostr, ops in cases[:: max(1, len(cases) // 5)][:5]:
        res.samples.append({'container': k, 'ops': ostr})

def c05(ctx):
    res = Result()
    L = 4 if not ctx.thorough else 5
    res.rule = (f'exhaustive: every sequence of {L} operations over push(x), x in {{0, s, 2s, 3s, 7, 2^32-1, 2^32, 2^63, 2^64-1}} '
                'for s in {1, 3}, and clear, observed after every operation (len, is_empty, index(i) for all i < len, '
                'index(len), index(len+1), iteration), on Vec<usize>, IndexList, IndexOptimized and Stride (push result and '
                'public enum value), both build profiles; plus long random sequences that continue / repeat / break '
                'strides with extend; non-trivial = distinct sequence with >= 2 pushes')
    kinds = ['vec', 'ilist', 'iopt', 'stride']
    # chunked (one stride and container kind at a time) so that the thorough tier's 8 * 10^5 histories never sit in memory at once
    for s_ in (1, 3):
        for k_ in kinds:
            chunk = ic_exhaustive_cases(L, [s_], [k_])
            res.nontrivial_counted += sum(1 for _, _, ops_ in chunk if sum(1 for a in ops_ if a[0] == 'p') >= 2)   # an enumeration: all distinct
            res.samples.append({'container': k_, 'ops': chunk[len(chunk) // 2][1]})
            run_ic_cases(ctx, res, chunk)
    cases = ic_random_cases(ctx, 300 if not ctx.thorough else 3000, kinds, 200)
    note_ic(res, cases)
    res.exhaustive = True
    res.extra['exhaustive_part'] = f'all operation sequences of length {L} over the 10-letter alphabet (9 values + clear), strides 1 and 3, 4 containers'
    run_ic_cases(ctx, res, cases)
    return res

# ================================================================== FlatStack (C03, C19)
FS_NUMBERING = {name: i for i, (name, _, _) in enumerate(catalogue.FS_ENTRIES)}
FS_EXPR = {name: (e, o) for name, e, o in catalogue.FS_ENTRIES}

def fs_op_str(op):
    k = op[0]
    if k == 'copy': return 'copy ' + gen.show(op[1])
    if k in ('extend', 'fromiter', 'extendlazy'): return k + ' ' + gen.show(list(op[1]))
    if k == 'reserve': return 'reserve %x' % op[1]
    if k in ('withcap', 'mergecap'): return '%s %x' % (k, op[1])
    if k in ('resregs', 'resitems', 'clonefrom'): return k + ' ' + gen.show(list(op[1]))
    return k

def fs_oracle(e, o, ops, obs, index_free=False, heap=False):
    l = []; ieee = uses_ieee(e); hs = {}
    for t, op in enumerate(ops):
        if t >= len(obs): return f'op {t}: no observation (last: {obs[-1] if obs else None})'
        g = obs[t]
        if g in ('[62]', '[63]', 'CRASH'): return f'op {t} ({fs_op_str(op)}): panicked or ill-typed ({g})'
        k = op[0]
        if k != 'observe': hs.setdefault('since', []).append(k)
        if k == 'copy': l.append(op[1])
        elif k in ('extend', 'extendlazy'): l += list(op[1])
        elif k == 'fromiter': l = list(op[1])
        elif k in ('clear', 'withcap', 'mergecap'): l = []
        elif k == 'serde':
            v = gen.parse(g)
            if not isinstance(v, list) or len(v) != 2 or v[0] != v[1]:
                return f'op {t}: the serialised form of the stack changed across the serde round trip: {g}'
        elif k == 'observe':
            v = gen.parse(g)
            ps = [expected_probe(e, x) for x in l]
            if v[0] != len(l): return f'op {t}: len() = {v[0]}, {len(l)} values were copied'
            if v[1] != (1 if not l else 0): return f'op {t}: is_empty() = {v[1]} with {len(l)} values'
            if not wire_equiv(v[2], [('S', p) for p in ps], ieee): return f'op {t}: get(i) yields {gen.show(v[2])}, copied values are {gen.show(ps)}'
            if v[3] != [None, None]: return f'op {t}: get(len) / get(len+1) did not panic: {gen.show(v[3])}'
            if not wire_equiv(v[4], ('S', [('S', p) for p in ps]), ieee): return f'op {t}: iteration yields {gen.show(v[4])}, copied values are {gen.show(ps)}'
            if not wire_equiv(v[5], ('S', [('S', p) for p in ps[1:]]), ieee): return f'op {t}: a cloned iterator after one step yields {gen.show(v[5])}'
            if len(v) > 7 and v[7] != 1: return f'op {t}: size_hint does not bound the number of remaining items'
            if heap and len(v) >= 11:
                # C18 on the stack: every branch contributes at every moment, used <= capacity, no capacity shrinks on clear
                allu = list(v[9]) + list(v[6]); allc = list(v[10]) + list(v[8])
                if any(u_ > c_ for u_, c_ in zip(allu, allc)): return f'op {t}: used > capacity in {list(zip(allu, allc))}'
                if not contains(e, 'cols'):
                    if 'ncb' in hs and hs['ncb'] != len(allu):
                        return f'op {t}: heap_size reported {len(allu)} (used, capacity) pairs, {hs["ncb"]} before: a branch of the stack stopped contributing'
                    hs['ncb'] = len(allu)
                since = hs.get('since', [])
                if 'caps' in hs and since and all(x == 'clear' for x in since) and len(hs['caps']) == len(allc) and any(a > b for a, b in zip(hs['caps'], allc)):
                    return f'op {t}: a capacity shrank on clear: {hs["caps"]} -> {allc}'
                hs['caps'] = allc; hs['since'] = []
            if index_free:
                if any(x != 0 for x in v[6]): return f'op {t}: the stack spends {v[6]} bytes on its own indices over a dense-index region'
                if len(v) > 8 and any(x != 0 for x in v[8]): return f'op {t}: the stack holds index capacity {v[8]} over a dense-index region'
    return None

def fs_coded_cases(ctx, n):
    """FlatStack over dictionary-coded regions: train, merge_capacity (the new stack's region carries a dictionary),
    then covered copies; clear at any point must give a stack that takes arbitrary values again"""
    cases = []
    for name in FS_EXPR:
        e, o = FS_EXPR[name]
        if not coded(e): continue
        for _ in range(n):
            pool, train = coded_pool(ctx, e)
            vg = gen.ValueGen(ctx.rng); sh = shape(e)
            ops = [('copy', v) for v in train] + [('observe',), ('mergecap', ctx.rng.choice([1, 1, 2]))]
            r = ctx.rng.random()
            def tagged(t):
                # a string whose first byte is a low byte value (the tags a dictionary hands out first)
                v = vg.gen(sh)
                return [t, 0x78, 0x79] if isinstance(v, list) and all(isinstance(x_, int) for x_ in v) else v
            if r < 0.4:
                # clear the merged, still empty stack: it must be a fresh one (arbitrary values accepted again, stored raw)
                ops += [('clear',)] + [('copy', vg.gen(sh)) for _ in range(ctx.rng.choice([1, 3, 6]))]
                ops += [('copy', tagged(t)) for t in (0, 1, 2)] + [('copy', ctx.rng.choice(pool)), ('observe',)]
            else:
                ops += [('copy', ctx.rng.choice(pool)) for _ in range(ctx.rng.choice([1, 4, 9]))] + [('observe',)]
                if r < 0.7: ops += [('clear',)] + [('copy', vg.gen(sh)) for _ in range(3)] + [('observe',)]
                else: ops += [('mergecap', 1)] + [('copy', ctx.rng.choice(pool)) for _ in range(3)] + [('observe',)]
            cases.append((name, ops))
            # a reservation is not a merge: reserve_regions for a trained region on a still empty (fresh or cleared)
            # stack must not hand the stack a dictionary -- strings starting with low bytes are still accepted
            pre = [] if ctx.rng.random() < 0.5 else [('copy', ctx.rng.choice(pool)), ('clear',)]
            ops2 = pre + [('resregs', train[:ctx.rng.choice([3, 10, 40])]), ('observe',)] + [('copy', tagged(t)) for t in (0, 1, 2, 3)] + \
                   [('copy', ctx.rng.choice(pool)), ('observe',)]
            cases.append((name, ops2))
    return cases

def gen_fs_cases(ctx, names, n, maxops, observe_each=True, p_serde=0.0, p_cap=0.0):
    cases = []
    for name in names:
        e, o = FS_EXPR[name]
        if coded(e): continue
        for _ in range(n):
            vg = gen.ValueGen(ctx.rng, big=ctx.thorough); sh = shape(e); recent = []
            def val():
                if recent and ctx.rng.random() < 0.3: return ctx.rng.choice(recent[-4:])
                v = vg.gen(sh); recent.append(v); return v
            ops = []
            for _ in range(ctx.rng.choice([2, 5, maxops])):
                r = ctx.rng.random()
                if r < 0.5: ops.append(('copy', val()))
                elif r < 0.6: ops.append(('extend', [val() for _ in range(ctx.rng.randrange(5))]))
                elif r < 0.65: ops.append(('extendlazy', [val() for _ in range(ctx.rng.randrange(4))]))
                elif r < 0.72: ops.append(('fromiter', [val() for _ in range(ctx.rng.randrange(5))]))
                elif r < 0.8: ops.append(('clear',))
                elif r < 0.84: ops.append(('clone',))
                elif r < 0.88: ops.append(('clonefrom', [val() for _ in range(ctx.rng.choice([0, 1, 3, 6]))]))   # clone_from into a pre-filled scratch stack
                else: ops.append(('reserve', ctx.rng.choice([0, 1, 10, 100])))
                if p_serde and ctx.rng.random() < p_serde: ops.append(('serde',))
                if p_cap and ctx.rng.random() < p_cap:
                    r2 = ctx.rng.random()
                    if r2 < 0.3: ops.append(('withcap', ctx.rng.choice([0, 1, 7, 100])))
                    elif r2 < 0.6: ops.append(('mergecap', ctx.rng.choice([0, 1, 2, 3])))
                    elif not contains(e, 'cols'): ops.append(('resregs', [val() for _ in range(ctx.rng.randrange(4))]))
                    # (ColumnsRegion::reserve_regions creates columns: invisible to reads and indices -- C10's sim --
                    #  but not to heap_size, which this observation includes; the region-level C10 check covers it)
                if observe_each: ops.append(('observe',))
            ops.append(('observe',))
            cases.append((name, ops))
    return cases

def run_fs_cases(ctx, res, cases, index_free_names=(), heap=False):
    hist = [(n, [fs_op_str(o) for o in ops]) for n, ops in cases]
    for prof in PROFILES:
        impl = lib.run_impl('fs', hist, prof)
        model = lib.run_model('fs', hist, prof, FS_NUMBERING)
        for (name, ops), io, mo in zip(cases, impl, model):
            res.evaluations += 1
            res.per_entry[name] = res.per_entry.get(name, 0) + 1
            e, o = FS_EXPR[name]
            io = [g[0] if g else '' for g in io]; mo = [g[0] if g else '' for g in mo]
            f = fs_oracle(e, o, ops, io, name in index_free_names, heap)
            if f:
                res.failures.append({'kind': 'oracle', 'entry': name, 'rust_type': f'FlatStack<{catalogue.rust_type(e)}, {o}>',
                                     'profile': prof, 'history': [fs_op_str(x) for x in ops], 'what': f,
                                     'observed': io, 'model': mo, 'known': None})
            res.compared += 1
            def strip(x):
                # the model predicts everything but the size-hint flag and the capacities
                if x.startswith('['):
                    v = gen.parse(x)
                    if len(v) >= 10: return gen.show(v[:6] + [sorted(v[6]), sorted(v[9])])
                    if len(v) == 8: return gen.show(v[:6] + [sorted(v[6]), sorted(v[7])])   # the model's observation
                return x
            pi = [strip(x) for x in io]; mo = [strip(x) for x in mo]
            if pi != mo:
                t = next((i for i in range(max(len(pi), len(mo))) if i >= len(pi) or i >= len(mo) or pi[i] != mo[i]), 0)
                res.corr.append({'kind': 'flatstack', 'entry': name, 'profile': prof, 'history': [fs_op_str(x) for x in ops],
                                 'first_difference_at_op': t, 'impl': io, 'model': mo})
        res.per_profile[prof] = res.per_profile.get(prof, 0) + len(cases)

def note_fs(res, cases):
    for name, ops in cases:
        s = name + ';' + ';'.join(fs_op_str(o) for o in ops)
        if sum(1 for o in ops if o[0] in ('copy', 'extend', 'fromiter', 'extendlazy')) >= 2: res.nontrivial.add(s)
        for o in ops: res.tag(o[0])
    for name, ops in cases[:: max(1, len(cases) // 5)][:5]:
        res.samples.append({'entry': name, 'ops': [fs_op_str(o) for o in ops]})

def c03(ctx):
    res = Result()
    res.rule = ('FlatStack<R, S> over 14 region x index-container pairs (Vec, IndexOptimized, IndexList; string, slice, '
                'mirror<usize> with extreme values, consecutive-pair, columns, collapse, option regions): random histories '
                'of copy / extend / from_iter / clear / clone / reserve, observed after every step: len, is_empty, get(i) '
                'for every i < len, get(len), get(len+1) (must panic), iteration, a cloned iterator after one step, '
                'size_hint bounds; compared with a Python list of the copied values and with the Coq FlatStack model')
    cases = gen_fs_cases(ctx, list(FS_EXPR), 25 if not ctx.thorough else 300, 14, p_cap=0.12)
    cases += fs_coded_cases(ctx, 4 if not ctx.thorough else 40)
    # bounded-exhaustive part: over a region whose indices are caller-controlled (MirrorRegion<usize>) the index
    # container sees arbitrary usize sequences; all sequences of length <= L over the transition-covering
    # alphabet of C05 (0, s, 2s, 3s, 7, 2^32-1, 2^32, 2^63, 2^64-1), copied one by one and via extend
    import itertools
    L = 3 if not ctx.thorough else 4
    mir = [n for n in FS_EXPR if n.startswith('fs_mir_usize')]
    nex = 0
    for s_ in (3, 2 ** 63):
        alpha = list(dict.fromkeys(ic_alphabet(s_)))
        for seq in itertools.product(alpha, repeat=L):
            for n in mir:
                ops = [('copy', v) for v in seq] + [('observe',)]
                cases.append((n, ops)); nex += 1
            if seq[0] == 0:
                for n in mir:
                    cases.append((n, [('extend', list(seq)), ('observe',), ('clear',), ('fromiter', list(seq[1:])), ('observe',)])); nex += 1
    res.exhaustive = True
    res.extra['exhaustive_part'] = (f'all usize sequences of length {L} over the 9-letter alphabet of C05 for two strides, copied into '
                                    f'FlatStack<MirrorRegion<usize>, S> for S in Vec / IndexOptimized / IndexList ({nex} histories)')
    note_fs(res, cases)
    run_fs_cases(ctx, res, cases)
    return res

def c19(ctx):
    res = Result()
    L = 4 if not ctx.thorough else 5
    res.rule = (f'(a) exhaustive: every sequence of {L} pushes over the transition-covering alphabet of C05 (strides 1 and 3), '
                'heap_size used bytes of IndexOptimized / IndexList / Vec compared after every push with the documented rule '
                '(stride-matching prefix free; remainder 4 bytes per entry while values fit u32, 8 bytes from the first larger '
                'value on) and zero capacity while purely strided; (b) long dense / strided / saturated / random sequences; '
                '(c) FlatStack<_, IndexOptimized> over consecutive-pair and columns regions with arbitrary contents: zero '
                'index bytes and zero index capacity for any number of items')
    kinds = ['vec', 'ilist', 'iopt']
    for s_ in (1, 3):
        for k_ in kinds:
            chunk = ic_exhaustive_cases(L, [s_], [k_], with_clear=False)
            res.nontrivial_counted += sum(1 for _, _, ops_ in chunk if sum(1 for a in ops_ if a[0] == 'p') >= 2)
            res.samples.append({'container': k_, 'ops': chunk[len(chunk) // 2][1]})
            run_ic_cases(ctx, res, chunk, cost_oracle=True)
    cases = ic_random_cases(ctx, 200 if not ctx.thorough else 2000, kinds, 400)
    # long regular shapes
    for s, n, r in [(1, 3000, 0), (3, 500, 200), (0, 300, 0), (W32, 50, 10), (2 ** 62, 3, 5), (7, 2, 300)]:
        ops = [('p', s * i) for i in range(n) if s * i < W64] + [('p', min(s * (n - 1), W64 - 1))] * r + [('o',)]
        ostr = [('p %x' % a[1]) if a[0] == 'p' else a[0] for a in ops]
        for k in kinds: cases.append((k, ostr, ops))
    note_ic(res, cases)
    res.exhaustive = True
    res.extra['exhaustive_part'] = f'all push sequences of length {L} over the 9-value alphabet, strides 1 and 3, 3 containers'
    run_ic_cases(ctx, res, cases, cost_oracle=True)
    dense = [n for n, (e, o) in FS_EXPR.items() if o == 'iopt' and e[0] in ('con', 'cols')]
    fcases = gen_fs_cases(ctx, dense, 30 if not ctx.thorough else 300, 40, observe_each=False)
    # no clear/from_iter needed to stay dense, but they are allowed: indices restart at 0
    # deterministic: stacks that held only EMPTY items before a clear (every inner offset is 0), then grow again
    for name in dense:
        e, o = FS_EXPR[name]
        if coded(e): continue
        vg = gen.ValueGen(ctx.rng, big=False); sh = shape(e)
        for k in (1, 2, 5):
            for how in ('copy', 'extend'):
                pre = [('copy', [])] * k if how == 'copy' else [('extend', [[]] * k)]
                ops = pre + [('observe',), ('clear',), ('observe',)] + [('copy', vg.gen(sh)) for _ in range(4)] + [('copy', []), ('observe',), ('clear',),
                       ('copy', []), ('copy', vg.gen(sh)), ('observe',)]
                fcases.append((name, ops))
    note_fs(res, fcases)
    run_fs_cases(ctx, res, fcases, index_free_names=set(dense))
    return res


# ================================================================== C18 heap_size accounting
ELEM_SIZE = catalogue.ELEM_SIZE
def payload_bound(e, v, sizes, ctr=None):
    """bytes the reference model says storing v must account for (no deduplication): payload bytes of
    strings and owned elements plus one index entry per element of a Vec-indexed slice / per row cell.
    sizes: the measured size slots of the entry (catalogue.size_slots order)."""
    k = e[0]
    if k == 'own': return len(v) * ELEM_SIZE[e[1]]
    if k == 'mir': return 0
    if k == 'vecr': return ELEM_SIZE[e[1]]
    if k == 'str': return len(v)
    if k == 'strof': return payload_bound_sub(e[1], v, sizes, ctr)
    if k in ('con',): return payload_bound_sub(e[1], v, sizes, ctr)
    if k == 'opt': return 0 if v is None else payload_bound_sub(e[1], v[1], sizes, ctr)
    raise ValueError(e)
def payload_bound_sub(e, v, sizes, ctr): return payload_bound(e, v, sizes, ctr)

def simple_payload(e, v, sizes):
    """payload lower bound for the entries it is defined on (None otherwise): walks e and v together"""
    slots = iter(sizes)
    def go(e, vs):
        # vs: list of values stored through this node
        k = e[0]
        if k == 'own': return sum(len(v) for v in vs) * ELEM_SIZE[e[1]]
        if k == 'mir': return 0
        if k == 'vecr': return len(vs) * ELEM_SIZE[e[1]]
        if k in ('str', 'cdc'): return sum(len(v) for v in vs)
        if k in ('strof', 'con'): return go(e[1], vs)
        if k == 'sl':
            flat = [x for v in vs for x in v]
            if e[2] == 'vec':
                isz = next(slots); return len(flat) * isz + go(e[1], flat)
            return go(e[1], flat)
        if k == 'opt': return go(e[1], [v[1] for v in vs if v is not None])
        if k == 'res': return go(e[1], [v[1] for v in vs if v[0] == 'O']) + go(e[2], [v[1] for v in vs if v[0] == 'E'])
        if k == 'tup2': return go(e[1], [v[0] for v in vs]) + go(e[2], [v[1] for v in vs])
        if k == 'cols':
            csz = next(slots); isz = next(slots)
            width = max([len(v) for v in vs], default=0)
            cells = sum(go_copy(e[1], [v[j] for v in vs if len(v) > j]) for j in range(width))
            return sum(len(v) for v in vs) * isz + cells
        raise ValueError(e)
    def go_copy(e, vs):
        # columns share one set of size slots per column
        nonlocal slots
        saved = list(slots); slots = iter(saved); r = go(e, vs); slots = iter(saved); return r
    if contains(e, 'col') or contains(e, 'cdc') or contains(e, 'huf'): return None   # deduplicating / compressing regions store less
    try: return go(e, v)
    except StopIteration: return None

def c18(ctx):
    res = Result()
    res.rule = ('per entry: random histories of push / clear / clone / merge with heap_size observed after every '
                'step: (i) every (used, capacity) pair has used <= capacity; (ii) the sum of used bytes never '
                'decreases on push; (iii) the sum of used bytes is at least the payload bytes plus one index entry per '
                'element of a Vec-indexed slice / per row cell of everything stored since the last clear (bound computed '
                'from the reference list, for compositions without deduplication); (iv) clear: used bytes return to what '
                'the model says a cleared region accounts (no payload), no reported capacity shrinks; (v) the used bytes '
                'per callback, their number and order equal the Coq model\'s r_used exactly (every branch contributes); plus a '
                'deterministic large-allocation batch (one item of > 1 MiB and > 4 MiB in every kind of backing vector, then clear) '
                'run on the implementation and clauses (i)-(iv) only: the list-based model is not run on million-element items')
    cases = []
    n = 30 if not ctx.thorough else 400
    sizes = {k: ([] if v == '-' else [int(x, 16) for x in v.split(',')]) for k, v in lib.column_sizes().items()}
    for name, e in pick_entries(lambda nm, e: caps(e)['heap']):
        for _ in range(n):
            hg = HistGen(ctx, name, e); ops = [('heap', 0)]; twin = False
            for _ in range(ctx.rng.choice([3, 6, 12, 25])):
                r = ctx.rng.random()
                if r < 0.08: ops += [('clear', 0), ('clear', 3), ('heap', 0)]; twin = True
                elif r < 0.12 and hg.caps['clone']: ops += [('clone', 1, 0), ('heap', 1)]
                elif r < 0.16: ops += [('merge', 2, [0]), ('heap', 2), hg.push(2), ('heap', 2)]
                elif twin:
                    # after a clear: the same pushes on a region that was never used must account the same bytes
                    p_ = hg.push(0); ops += [p_, ('push', 3, p_[2], p_[3], 'twin'), ('heap', 0), ('heap', 3)]
                else: ops += [hg.push(0), ('heap', 0)]
            cases.append((name, ops)); note_case(res, name, ops)
    # large allocations (a retention policy with a size threshold would only show here): one item of a little more than
    # 1 MiB / 4 MiB in every kind of backing vector (bytes, u64 elements, string bytes, a slice's index container).
    # Implementation and oracle only: the list-based model takes tens of minutes on a million-element item, and
    # clauses (i)-(iv) do not need it.
    large = []
    for name, unit, small in (('own_u8', 1, [1, 2]), ('own_u64', 8, [1, 2]), ('str', 1, [97]), ('sl_mir_u64', 8, [5]), ('con_own_u64', 8, [7]),
                              ('sl_own_u8', 16, [[1], [2, 3]]), ('opt_str', 1, ('S', [97]))):
        if name not in EXPR: continue
        for total in ((1 << 20) + 4096, (1 << 22) + 8):
            cnt = total // unit + 1
            if name == 'sl_own_u8': big = [[i & 0xff] for i in range(cnt)]
            elif name == 'opt_str': big = ('S', [97 + (i % 26) for i in range(cnt)])
            elif name == 'str': big = [97 + (i % 26) for i in range(cnt)]
            else: big = [(i * 7) & 0xff for i in range(cnt)]
            ops = [('heap', 0), ('push', 0, 0, big), ('heap', 0), ('clear', 0), ('heap', 0), ('push', 0, 0, small), ('heap', 0), ('read', 0)]
            large.append((name, ops)); res.nontrivial.add(f'large:{name}:{total}')
    def oracle_for(name, ops_ref):
        e = EXPR[name]; sz = sizes.get(name, [])
        def clause(t, op, g, ref, sc):
            k = op[0]
            if k == 'clear':
                sc[('cleared', op[1])] = sc.get(('caps', op[1])); sc[('justcleared', op[1])] = True
            if k == 'push': sc[('pushed', op[1])] = True; sc.pop(('justcleared', op[1]), None); sc.pop(('cleared', op[1]), None)
            if k == 'heap' and g and g[0].startswith('v='):
                pairs = gen.parse(g[0][2:])
                if any(isinstance(p, list) and p[0] > p[1] for p in pairs): return f'op {t}: used > capacity in {pairs}'
                if not all(isinstance(p, list) for p in pairs): return None   # model observation
                used = sum(p[0] for p in pairs); caps = [p[1] for p in pairs]
                prev = sc.get(('used', op[1]))
                if sc.pop(('pushed', op[1]), False) and prev is not None and used < prev:
                    return f'op {t}: used bytes decreased on push: {prev} -> {used}'
                if t == 0 and op[1] == 0: sc['base'] = used     # the default region, before anything was pushed
                before = sc.pop(('cleared', op[1]), None)
                if before is not None:
                    if len(before) != len(caps) or any(a > b for a, b in zip(before, caps)):
                        return f'op {t}: a capacity shrank on clear: {before} -> {caps}'
                if ('justcleared', op[1]) in sc:
                    sc.pop(('justcleared', op[1]))
                    # a cleared region accounts what a fresh one does (a columns region keeps its vector of columns)
                    if op[1] == 0 and 'base' in sc and not contains(e, 'cols') and used != sc['base']:
                        return f'op {t}: after clear the region still accounts {used} used bytes; a fresh region accounts {sc["base"]}'
                lb = simple_payload(e, ref.log[op[1]], sz)
                if lb is not None and used < lb:
                    return f'op {t}: used bytes {used} below the payload + index entries of the stored items ({lb})'
                sc[('used', op[1])] = used; sc[('caps', op[1])] = caps
                sc[('usedlist', op[1])] = [p[0] for p in pairs]
                if op[1] == 3 and t > 0 and ops_ref[t - 1] == ('heap', 0) and not contains(e, 'cols'):
                    if sc.get(('usedlist', 0)) != sc[('usedlist', 3)]:
                        return (f'op {t}: after clear and the same pushes the region accounts {sc.get(("usedlist", 0))} used bytes, '
                                f'a region that was never used accounts {sc[("usedlist", 3)]}')
            if k in ('clear', 'merge', 'clone', 'clonefrom'): sc.pop(('used', op[1]), None)
            return None
        return clause
    def oracle(e, ops, obs, mo=None):
        name = next(n for n, x in ENTRIES if x is e)
        return ref_oracle(e, ops, obs, [oracle_for(name, [tuple(o[:2]) for o in ops])], mo)
    run_regions(ctx, res, cases, oracle, 'values')
    run_impl_only(ctx, res, large, oracle)
    # the dictionary codec's own memory (known finding D14: DictionaryCodec::heap_size is an empty stub)
    if 'cdc' in EXPR:
        word = [97, 98, 99, 100, 101, 102, 103, 104]
        dops = [('push', 0, 0, word)] * 50 + [('merge', 1, [0])] + [('push', 1, 0, word)] * 50 + [('heap', 1), ('read', 1)]
        dh = [('cdc', [op_str(o) for o in dops])]
        for prof in PROFILES:
            io = lib.run_impl('regions', dh, prof)[0]
            res.evaluations += 1
            hv = gen.parse(io[-2][0][2:]) if io[-2] and io[-2][0].startswith('v=') else None
            used = sum(p_[0] for p_ in hv) if hv else None
            need = 50 + len(word)    # 50 one-byte codes + the dictionary entry they stand for
            if used is None or used < need:
                res.failures.append({'kind': 'oracle', 'entry': 'cdc', 'rust_type': catalogue.rust_type(EXPR['cdc']), 'profile': prof,
                                     'history': dh[0][1], 'observed': [' '.join(g) for g in io],
                                     'what': f'op 101: heap_size accounts {used} used bytes for 50 stored codes of an {len(word)}-byte dictionary entry; codes + entry need {need}',
                                     'known': known_by_class('codec-heap-size-stub', ctx.prop) if used == 50 else None})
    # the stack's own heap_size: region and index container both contribute at every moment (also when the stack is empty
    # but holds capacity: after clear, with_capacity, merge_capacity, reserve), used <= capacity, nothing shrinks on clear
    fscases = gen_fs_cases(ctx, list(FS_EXPR), 10 if not ctx.thorough else 100, 14, observe_each=True, p_cap=0.3)
    note_fs(res, fscases)
    run_fs_cases(ctx, res, fscases, heap=True)
    return res

def c17_flatstack(ctx, res):
    """FlatStack's own pre-sizing: after reserve_items(batch) (from an empty and from a populated stack) and after
    merge_capacity over k copies of the stack, copying exactly the announced items changes no capacity reported by
    FlatStack::heap_size -- neither the region's nor the vector index storage's."""
    cases = []
    n = 6 if not ctx.thorough else 60
    for name, (e, o) in FS_EXPR.items():
        if o != 'vec' or coded(e) or not (caps(e)['reserve_items'] and catalogue.ref_ok(e)) or not VEC_BACKED(name, e): continue
        for it in range(n):
            vg = gen.ValueGen(ctx.rng, big=False); sh = shape(e)
            pre = [vg.gen(sh) for _ in range(ctx.rng.choice([0, 0, 3, 20]))]
            batch = [vg.gen(sh) for _ in range(ctx.rng.choice([1, 5, 30, 60]))]
            if it % 2 == 0:
                ops = [('copy', v) for v in pre] + [('resitems', batch), ('observe',)] + [('copy', v) for v in batch] + [('observe',)]
            else:
                k = ctx.rng.choice([1, 2])
                ops = [('copy', v) for v in batch] + [('mergecap', k), ('observe',)] + [('copy', v) for v in batch] * k + [('observe',)]
            cases.append((name, ops))
    note_fs(res, cases)
    hist = [(nm, [fs_op_str(o_) for o_ in ops]) for nm, ops in cases]
    for prof in PROFILES:
        impl = lib.run_impl('fs', hist, prof)
        model = lib.run_model('fs', hist, prof, FS_NUMBERING)
        for (name, ops), io, mo in zip(cases, impl, model):
            res.evaluations += 1; res.compared += 1
            res.per_entry[name] = res.per_entry.get(name, 0) + 1
            e, o = FS_EXPR[name]
            io = [g[0] if g else '' for g in io]
            f = fs_oracle(e, o, ops, io)
            if not f:
                obs_at = [t for t, op in enumerate(ops) if op[0] == 'observe']
                a = gen.parse(io[obs_at[0]]); b = gen.parse(io[obs_at[1]])
                ca = list(a[10]) + list(a[8]); cb = list(b[10]) + list(b[8])
                if ca != cb:
                    what = 'reserve_items' if any(op[0] == 'resitems' for op in ops) else 'merge_capacity'
                    f = (f'op {obs_at[1]}: capacities changed while copying exactly the contents announced to FlatStack::{what}: '
                         f'{ca} -> {cb} (region capacities first, then the index storage)')
            if f:
                res.failures.append({'kind': 'oracle', 'entry': name, 'rust_type': f'FlatStack<{catalogue.rust_type(e)}, {o}>',
                                     'profile': prof, 'history': [fs_op_str(x) for x in ops], 'what': f, 'observed': io, 'known': None})
        res.per_profile[prof] = res.per_profile.get(prof, 0) + len(cases)

# ================================================================== C17 allocation discipline
VEC_BACKED = lambda nm, e: not (contains(e, 'col') or contains(e, 'con') or contains(e, 'cols') or coded(e)) and 'iopt' not in repr(e) and 'ilist' not in repr(e)

def c17(ctx):
    res = Result()
    res.rule = ('(a) vector-backed structural entries (owned, string, slice, option, result, tuple, Vec-as-region; Vec index '
                'containers): from empty and from populated regions, reserve_items(batch) / reserve_regions([src]) / '
                'merge_regions([src]) then pushing exactly the announced contents by reference (one history in three: in every input form the entry offers, chosen per push; capacities only): every capacity reported by '
                'heap_size must be unchanged and the allocator must not be called during the pushes; the capacities after '
                'the reservation must cover what the Coq model says is needed (used + announced bytes per backing vector, '
                'the premise of theorem presize_no_growth); (b) every catalogue entry: n = 2^6..2^k items pushed from empty, '
                'allocator calls during pushes bounded by the sum over backing vectors of log2(capacity)+2; histories longer than '
                '2^10 pushes (thorough tier: up to 2^14) run on the implementation and this bound only, not on the model')
    cases = []
    n = 15 if not ctx.thorough else 300
    ref_form = lambda e: 1 if catalogue.ref_ok(e) else 0
    for name, e in pick_entries(VEC_BACKED):
        for it in range(n):
            hg = HistGen(ctx, name, e); f = ref_form(e)
            # (thorough: 4k-element items in one history out of ten; in all of them one model process grew to 24 GB)
            hg.vg.big = ctx.thorough and it % 10 == 0
            pre = [('push', 0, f, hg.value()) for _ in range(ctx.rng.choice([0, 0, 3, 20]))]
            batch = [hg.value(repeat=0.2) for _ in range(ctx.rng.choice([1, 5, 30, 60]))]
            kind = ctx.rng.choice(['items', 'regions', 'merge'])
            ops = list(pre)
            if kind == 'items': ops += [('resitems', 0, batch, (it + ctx.rng.randrange(2)) % len(catalogue.reserve_forms(e)))]   # every announcing form in turn
            elif kind == 'regions': ops += [('push', 1, f, v) for v in batch] + [('resregs', 0, [1])]
            else: ops = [('push', 1, f, v) for v in batch] + [('merge', 0, [1])]
            if it % 3 == 2:
                # the announced contents pushed in EVERY input form the entry offers (owned vectors, arrays, iterators, ...),
                # a form chosen per push: the capacities must not move whatever the form (the allocator clause is left to the
                # by-reference histories: the harness's own form conversions, e.g. `v.clone()`, allocate)
                nf = len(forms(e))
                ops += [('heap', 0)] + [('push', 0, ctx.rng.randrange(nf), v) for v in batch] + [('heap', 0), ('probe', 0)]
            else:
                ops += [('heap', 0), ('allocs', 0)] + [('push', 0, f, v) for v in batch] + [('allocs', 0), ('heap', 0), ('probe', 0)]
            cases.append((name, ops)); note_case(res, name, ops)
    # every announcing form of every entry, deterministically, with the LARGEST item first and with it last: an announcement
    # that loses its first (or last) item under-reserves by that item's size, which shows only when that item dominates
    for name, e in pick_entries(VEC_BACKED):
        if not (catalogue.caps(e)['reserve_items'] and catalogue.ref_ok(e)): continue
        for j in range(len(catalogue.reserve_forms(e))):
            for order in (0, 1):
                hg = HistGen(ctx, name, e); hg.vg.big = False
                batch = sorted([hg.value() for _ in range(6)], key=lambda v: len(gen.show(v)), reverse=(order == 0))
                ops = [('resitems', 0, batch, j), ('heap', 0), ('allocs', 0)] + [('push', 0, 1, v) for v in batch] + [('allocs', 0), ('heap', 0), ('probe', 0)]
                cases.append((name, ops)); note_case(res, name, ops)
    import math
    # 2^k pushes per entry.  The extracted model keeps indices as unary nat (ExtrOcamlBasic only), so the indices it
    # logs cost memory quadratic in the number of pushes (7 GB at 2^12 for the slice entries: one model process was
    # OOM-killed in the thorough tier): the model runs up to 2^10, the implementation and the oracle (allocator calls
    # against the logarithmic bound, which needs no model) up to 2^14 in the thorough tier.
    K = 8 if not ctx.thorough else 14
    long_cases = []
    for name, e in ENTRIES:
        if is_known_bad(e) or coded(e): continue   # the logarithmic bound is stated for non-coded regions
        for k in range(6, K + 1, 2):
            hg = HistGen(ctx, name, e); f = ref_form(e)
            hg.vg.big = False
            ops = [('allocs', 0)] + [('push', 0, f, hg.value(repeat=0.1)) for _ in range(2 ** k)] + [('allocs', 0), ('heap', 0)]
            (cases if k <= 10 else long_cases).append((name, ops))
    def clause(t, op, g, ref, sc):
        k = op[0]
        if k in ('resitems', 'resregs', 'merge'): sc['armed'] = t
        if k == 'heap' and g and g[0].startswith('v='):
            pairs = gen.parse(g[0][2:])
            if not all(isinstance(p, list) for p in pairs): return None
            caps = [p[1] for p in pairs]
            if 'armed' in sc and 'caps0' not in sc: sc['caps0'] = caps
            elif 'caps0' in sc:
                c0 = sc.pop('caps0'); sc.pop('armed')
                if c0 != caps: return f'op {t}: capacities changed while pushing exactly the announced contents: {c0} -> {caps}'
            else:
                # logarithmic bound run
                a = sc.get('allocs_log')
                if a is not None:
                    bound = sum(math.floor(math.log2(c)) + 2 for c in caps if c > 0) + 2
                    if a > bound: return f'op {t}: {a} allocator calls for {sc.get("npush")} pushes; bound {bound} (capacities {caps})'
        if k == 'allocs' and g and g[0].startswith('v='):
            a = gen.parse(g[0][2:])
            if 'caps0' in sc and sc.get('seen_alloc_reset'):
                if a != 0: return f'op {t}: the allocator was called {a} times while pushing exactly the announced contents'
            sc['seen_alloc_reset'] = True
            sc['allocs_log'] = a
        if k == 'push': sc['npush'] = sc.get('npush', 0) + 1
        return None
    def oracle(e, ops, obs, mo=None):
        return ref_oracle(e, ops, obs, [clause], mo)
    if long_cases: run_impl_only(ctx, res, long_cases, oracle)
    c17_flatstack(ctx, res)
    # correspondence: the reserved capacities cover what the model needs
    hist = [(nm, [op_str(o) for o in ops]) for nm, ops in cases]
    for prof in PROFILES:
        impl = lib.run_impl('regions', hist, prof)
        model = lib.run_model('regions', hist, prof, NUMBERING)
        for (name, ops), io, mo in zip(cases, impl, model):
            res.evaluations += 1; e = EXPR[name]
            res.per_entry[name] = res.per_entry.get(name, 0) + 1
            f = oracle(e, ops, io, mo)
            if f:
                res.failures.append({'kind': 'oracle', 'entry': name, 'rust_type': catalogue.rust_type(e), 'profile': prof,
                                     'history': [op_str(o) for o in ops], 'what': f,
                                     'observed': [' '.join(g) for g in io], 'known': None})
            res.compared += 1
            pi, pm = project(ops, io, 'values'), project(ops, mo, 'values')
            bad = None
            if pi != pm:
                t = next((i for i in range(max(len(pi), len(pm))) if i >= len(pi) or i >= len(pm) or pi[i] != pm[i]), 0)
                bad = {'kind': 'regions/values', 'first_difference_at_op': t}
            else:
                for t, op in enumerate(ops):
                    if op[0] in ('resitems', 'resregs', 'merge') and t + 1 < len(io) and ops[t + 1][0] == 'heap' and mo[t] and mo[t][0].startswith('v='):
                        need = gen.parse(mo[t][0][2:]); caps = [p[1] for p in gen.parse(io[t + 1][0][2:])]
                        # (paired after sorting: the order of the heap_size callbacks is not the property's business)
                        if len(need) != len(caps) or any(a > b for a, b in zip(sorted(need), sorted(caps))):
                            bad = {'kind': 'reserved-capacity-covers-model-need', 'first_difference_at_op': t, 'need': need, 'caps': caps}
                            # this is also a concrete failing input for the property
                            break
            if bad:
                t = bad['first_difference_at_op']
                bad.update({'entry': name, 'profile': prof, 'history': [op_str(o) for o in ops],
                            'window': {'ops': [op_str(o) for o in ops][max(0, t - 2):t + 3], 'impl': [' '.join(g) for g in io][max(0, t - 2):t + 3],
                                       'model': [' '.join(g) for g in mo][max(0, t - 2):t + 3]},
                            'impl': [' '.join(g) for g in io], 'model': [' '.join(g) for g in mo]})
                res.corr.append(bad)
        res.per_profile[prof] = res.per_profile.get(prof, 0) + len(cases)
    res.assumptions.append('the allocator and RawVec growth policy are std\'s, tied only by observation; std\'s Vec contract enters the theorems as Section hypotheses')
    return res


# ================================================================== C15 equality and ordering
def vcmp(e, a, b):
    """ordering of owned values as Rust derives it: returns -1, 0, 1"""
    sgn = lambda x, y: (x > y) - (x < y)
    k = e[0]
    if k in ('own', 'str', 'strof', 'cdc', 'huf'): return sgn(list(a), list(b))
    if k in ('mir', 'vecr'): return 0 if e[1] == 'unit' else sgn(a, b)
    if k in ('col', 'con'): return vcmp(e[1], a, b)
    if k in ('sl', 'cols'):
        for x, y in zip(a, b):
            c = vcmp(e[1], x, y)
            if c: return c
        return sgn(len(a), len(b))
    if k == 'opt':
        if a is None or b is None: return sgn(a is not None, b is not None)
        return vcmp(e[1], a[1], b[1])
    if k == 'res':
        if a[0] != b[0]: return -1 if a[0] == 'O' else 1
        return vcmp(e[1] if a[0] == 'O' else e[2], a[1], b[1])
    if k == 'tup2':
        return vcmp(e[1], a[0], b[0]) or vcmp(e[2], a[1], b[1])
    raise ValueError(e)

def mutate_same_len(sh, v):
    """a different value occupying exactly the same slots (same lengths everywhere), if there is one"""
    k = sh[0]
    if k == 'n': return v if sh[1] == 'unit' else v ^ 1
    if k == 'str': return ([v[0] ^ 1] + v[1:]) if v and v[0] < 0x80 else v
    if k == 'list': return (v[:-1] + [mutate_same_len(sh[1], v[-1])]) if v else v
    if k == 'opt': return None if v is None else ('S', mutate_same_len(sh[1], v[1]))
    if k == 'res': return (v[0], mutate_same_len(sh[1] if v[0] == 'O' else sh[2], v[1]))
    if k == 'tup': return [mutate_same_len(sh[1][0], v[0])] + list(v[1:])
    return v

def c15(ctx):
    res = Result()
    res.rule = ('comparable entries (slices of strings / owned bytes / integers, nested slices, options, results, tuples, '
                'deduplicated and consecutive-pair wrappers): items from small value domains rich in prefixes and equal '
                'contents, pushed into two regions; every pair (and the induced triples) compared through ==, partial_cmp '
                'and cmp in all four representation pairs (region-backed / owned-borrowed on either side) and across '
                'regions; results must equal the comparison of the owned values; reflexivity, antisymmetry, transitivity '
                'and eq <=> cmp == Equal are checked on the observed results')
    cases = []
    n = 25 if not ctx.thorough else 300
    for name, e in pick_entries(lambda nm, e: catalogue.cmp_ok(e) and not is_known_bad(e)):
        sh = shape(e)
        for _ in range(n):
            vg = gen.ValueGen(ctx.rng); base = [vg.gen(sh) for _ in range(3)]
            dom = list(base)
            # prefixes / extensions / equal copies
            for v in base:
                if sh[0] == 'str':
                    t = bytes(v).decode('utf-8')
                    if t: dom.append(list(t[:-1].encode('utf-8'))); dom.append(list((t + t[0]).encode('utf-8')))
                elif sh[0] == 'list' and v: dom.append(v[:-1]); dom.append(v + [v[0]])
                dom.append(v)
            ctx.rng.shuffle(dom); dom = dom[:6]
            ops = []
            for v in dom: ops.append(('push', 0, 0, v))
            order = list(range(len(dom))); ctx.rng.shuffle(order)
            for j in order: ops.append(('push', 1, 0, dom[j]))
            # for dedup entries indices may coincide; comparisons go through the logs anyway
            m = len(dom)
            for i in range(m):
                for j in range(m):
                    if ctx.rng.random() < 0.5:
                        ops.append(('cmp', 0, i, ctx.rng.random() < 0.5, ctx.rng.choice([0, 1]), j, ctx.rng.random() < 0.5))
            cases.append((name, ops)); note_case(res, name, ops)
            res.nontrivial.add(name + ';' + ';'.join(op_str(o) for o in ops))
            # two regions whose items occupy the same slots but differ in content: region-backed on both sides
            ops = [('push', 0, 0, v) for v in dom] + [('push', 1, 0, mutate_same_len(sh, v)) for v in dom]
            for i in range(m):
                ops.append(('cmp', 0, i, False, 1, i, False))
                ops.append(('cmp', 1, i, False, 0, i, ctx.rng.random() < 0.3))
            cases.append((name, ops)); note_case(res, name, ops)
    # Huffman items: raw (untrained container, or borrowed from an owned Vec) versus encoded (merged container)
    for name, e in pick_entries(lambda nm, e: e[0] == 'huf'):
        for _ in range(n):
            syms = [ctx.rng.randrange(6) for _ in range(3)]
            dom = [[ctx.rng.choice(syms) for _ in range(ctx.rng.choice([0, 1, 2, 3, 5]))] for _ in range(5)]
            dom += [v[:-1] for v in dom if v][:2] + [dom[0]]
            ops = [('push', 0, 0, v) for v in dom] + [('push', 2, 0, v) for v in dom] + [('push', 2, 0, syms * 3), ('merge', 1, [2])]
            order = list(range(len(dom))); ctx.rng.shuffle(order)
            ops += [('push', 1, 0, dom[j]) for j in order]
            for i in range(len(dom)):
                for j in range(len(dom)):
                    if ctx.rng.random() < 0.6:
                        a, b = ctx.rng.choice([(0, 1), (1, 0), (1, 1), (0, 0)])
                        ops.append(('cmp', a, i, ctx.rng.random() < 0.3, b, j, ctx.rng.random() < 0.3))
            cases.append((name, ops)); note_case(res, name, ops)
    # ... and encoded versus encoded across two containers with DIFFERENT code tables (different statistics, or a later
    # generation): equal sequences have different bit lengths there
    for name, e in pick_entries(lambda nm, e: e[0] == 'huf'):
        for _ in range(n):
            syms = [ctx.rng.randrange(8) for _ in range(4)]
            dom = [[ctx.rng.choice(syms) for _ in range(ctx.rng.choice([0, 1, 2, 4, 6]))] for _ in range(5)]
            dom += [v[:-1] for v in dom if v][:2]
            skew = [syms[0]] * 40 + [syms[1]] * 9 + [syms[2]] * 3 + [syms[3]]
            flat = syms * 5
            ops = [('push', 2, 0, skew), ('merge', 0, [2]), ('clear', 2), ('push', 2, 0, flat), ('merge', 1, [2])]
            ops += [('push', 0, 0, v) for v in dom] + [('push', 1, 0, v) for v in dom]
            if ctx.rng.random() < 0.5:
                # slot 3: the next generation of slot 0 (statistics = what was pushed into slot 0)
                ops += [('merge', 3, [0])] + [('push', 3, 0, v) for v in dom]
                other = 3
            else: other = 1
            for i in range(len(dom)):
                for j in range(len(dom)):
                    if ctx.rng.random() < 0.5:
                        a, b = ctx.rng.choice([(0, other), (other, 0)])
                        ops.append(('cmp', a, i, False, b, j, False))
            cases.append((name, ops)); note_case(res, name, ops)
    # encoded versus encoded WITHIN one container: the same symbol sequence stored at several positions -- byte-aligned
    # and not, with bit lengths that are and are not multiples of 8 -- each followed by different neighbours; equal items
    # must compare equal whatever bits follow them in the shared last byte (2-bit, 3-bit and mixed code lengths)
    for name, e in pick_entries(lambda nm, e: e[0] == 'huf'):
        for syms, train in (([0, 1, 2, 3], [0, 1, 2, 3] * 4), ([0, 1, 2, 3, 4, 5, 6, 7], list(range(8)) * 2), ([0, 1, 2, 3], [0] * 8 + [1] * 4 + [2] * 2 + [3] * 2)):
            items = [[syms[0], syms[1], syms[2], syms[3], syms[0]], [syms[2]], [], [syms[3], syms[3], syms[1]]]
            fillers = [[syms[1]] * k for k in (1, 2, 3, 4, 5, 7)] + [[syms[2]] * k for k in (1, 3, 4, 6)]
            ops = [('push', 2, 0, train), ('merge', 1, [2])]
            pos = {}   # item number -> list of log positions in slot 1
            nlog = 0
            for rep in range(3):
                for k, it in enumerate(items):
                    ops.append(('push', 1, 0, it)); pos.setdefault(k, []).append(nlog); nlog += 1
                    ops.append(('push', 1, 0, fillers[(rep * len(items) + k) % len(fillers)])); nlog += 1
            for k, ps in pos.items():
                for i in ps:
                    for j in ps:
                        ops.append(('cmp', 1, i, False, 1, j, False))
            for k in pos:
                for l in pos:
                    if k != l: ops.append(('cmp', 1, pos[k][0], False, 1, pos[l][-1], False))
            cases.append((name, ops)); note_case(res, name, ops)
    def clause_for(e):
        def clause(t, op, g, ref, sc):
            if op[0] != 'cmp' or not g or not g[0].startswith('v='): return None
            v = gen.parse(g[0][2:])
            a = ref.log[op[1]][op[2]]; b = ref.log[op[4]][op[5]]
            want = vcmp(e, a, b)
            eq, pc, c = v[0], v[1], v[2]
            if c != want + 1: return f'op {t}: cmp({gen.show(a)}, {gen.show(b)}) = {c - 1}, owned values compare {want}'
            if pc != ('S', want + 1): return f'op {t}: partial_cmp({gen.show(a)}, {gen.show(b)}) = {pc}, owned values compare {want}'
            if eq != (1 if want == 0 else 0): return f'op {t}: ==({gen.show(a)}, {gen.show(b)}) = {eq}, owned values compare {want}'
            # order laws on the observed relation
            key = lambda x: gen.show(x)
            rel = sc.setdefault('rel', {})
            rel[(key(a), key(b))] = c - 1
            if (key(b), key(a)) in rel and rel[(key(b), key(a))] != -(c - 1):
                return f'op {t}: antisymmetry fails for {gen.show(a)}, {gen.show(b)}'
            return None
        return clause
    def oracle(e, ops, obs, mo=None):
        return ref_oracle(e, ops, obs, [clause_for(e)], mo)
    run_regions(ctx, res, cases, oracle, 'values')
    res.assumptions.append('Huffman raw-versus-encoded item comparison is exercised by the C06 machine (huffman mode)')
    return res


# ================================================================== C07 dictionary codec
C07_FILL = {('str',): [120], ('n', 'u8'): 7}
def c07_wrappable(sh):
    if sh in (('list', ('n', 'u8')), ('str',)): return True
    if sh[0] == 'list': return c07_wrappable(sh[1])
    if sh[0] == 'tup': return c07_wrappable(sh[1][0]) and all(s in C07_FILL for s in sh[1][1:])
    return False
def c07_wrap(sh, v):
    if sh in (('list', ('n', 'u8')), ('str',)): return v
    if sh[0] == 'list': return [c07_wrap(sh[1], v)]
    return [c07_wrap(sh[1][0], v)] + [C07_FILL[s] for s in sh[1][1:]]
def c07_unwrap(sh, v):
    if sh in (('list', ('n', 'u8')), ('str',)): return v
    return c07_unwrap(sh[1] if sh[0] == 'list' else sh[1][0], v[0])

def c07(ctx):
    res = Result()
    res.rule = ('dictionary-coded entries (bare, under StringRegion, under ConsecutiveIndexPairs, in slices, columns, '
                'deduplicated): (A) training regions with skewed pools of 1-8 strings (incl. empty strings, strings starting '
                'with low bytes that become tags), merge_regions over 1..3 sources in any order, then dictionary hits, '
                'literals, literals starting with every possible tag byte, empty strings; second and third generations; '
                'clear; (B) more than 1024 distinct strings to cross the heavy-hitter compaction. Oracle: every read '
                'equals the pushed bytes; a push may only panic where the proven model refuses (input starts with an '
                'assigned tag and is not in the dictionary); in the exact regime every string among the top-#free-tags '
                'by (count desc, bytes asc) of the merged statistics is stored in exactly 1 byte; in the lossy regime the '
                'dominating strings are')
    cases = []
    n = 60 if not ctx.thorough else 600
    names = [nm for nm, e in ENTRIES if contains(e, 'cdc')]
    def bstr(rng, lowfirst):
        L = rng.choice([1, 1, 2, 3, 5, 9])
        first = rng.choice([0, 1, 2, 3, 4, 5, 6, 7]) if lowfirst else rng.choice([97, 98, 99, 0x41, 0x7a])
        return [first] + [rng.choice([0, 1, 97, 98, 0x7f]) for _ in range(L - 1)]
    for it in range(n):
        rng = ctx.rng
        pool = [bstr(rng, rng.random() < 0.25) for _ in range(rng.choice([1, 2, 4, 8]))] + [[]]
        weights = [rng.choice([1, 2, 5, 20]) for _ in pool]
        ops = []
        for slot in (0, 1):
            for _ in range(rng.choice([0, 3, 10, 30])):
                ops.append(('push', slot, 0, rng.choices(pool, weights)[0]))
        gens = [(2, rng.choice([[0], [1], [0, 1], [1, 0], [0, 0], []])), (3, rng.choice([[2], [2, 0], [0, 2, 1]])),
                (0, rng.choice([[3], [3, 1]]))][:rng.choice([1, 2, 3])]
        for d, srcs in gens:
            ops.append(('merge', d, srcs))
            for _ in range(rng.choice([3, 8, 20])):
                r = rng.random()
                if r < 0.5: v = rng.choices(pool, weights)[0]
                elif r < 0.7: v = bstr(rng, False)
                elif r < 0.9: v = [rng.randrange(0, 12)] + [rng.choice([1, 97]) for _ in range(rng.randrange(3))]
                else: v = []
                ops.append(('push', d, 0, v))
                if rng.random() < 0.2: ops.append(('read', d))
            ops.append(('read', d))
            if rng.random() < 0.15: ops += [('clear', d), ('push', d, 0, rng.choices(pool, weights)[0]), ('read', d)]
        for nm in names:
            e = EXPR[nm]; sh = shape(e)
            if c07_wrappable(sh):
                # the same byte strings (all ASCII, hence valid UTF-8) as the payload of every composition around the codec
                wops = [(o[0], o[1], o[2], c07_wrap(sh, o[3])) if o[0] == 'push' else o for o in ops]
                if caps(e)['heap']: wops = [x for o in wops for x in ([o, ('heap', o[1])] if o[0] == 'merge' or (o[0] == 'read') else [o])]
                cases.append((nm, wops)); note_case(res, nm, wops)
    # all 256 first bytes against a trained dictionary
    for nm in ('cdc',):
        ops = [('push', 0, 0, [97, 98, 99])] * 5 + [('push', 0, 0, [100])] * 3 + [('push', 0, 0, [7, 7])] + [('merge', 1, [0])]
        for b in range(256):
            ops2 = ops + [('push', 1, 0, [b, 1]), ('push', 1, 0, [97, 98, 99]), ('read', 1)]
            cases.append((nm, ops2)); note_case(res, nm, ops2)
    # (B) the lossy regime
    for it in range(2 if not ctx.thorough else 10):
        many = []
        nd = 1100 + 100 * it
        for i in range(nd):
            many.append([1 + (i % 3), i // 256, i % 256]); many.append([50, 7]);
            if i % 2 == 0: many.append([51, 9, 9])
        ctx.rng.shuffle(many)
        ops = [('push', 0, 0, v) for v in many] + [('merge', 1, [0]), ('push', 1, 0, [50, 7]), ('push', 1, 0, [51, 9, 9]),
               ('push', 1, 0, [1, 0, 0]), ('push', 1, 0, [9, 9]), ('read', 1), ('merge', 2, [1, 0]), ('push', 2, 0, [50, 7]), ('read', 2)]
        cases.append(('cdc', ops)); res.nontrivial.add('lossy%d' % it)
    # a dictionary whose entries total more than 64 KiB
    for it in range(1 if not ctx.thorough else 4):
        big = [[100 + (i % 50)] + [(i * 7 + j) % 251 for j in range(999)] for i in range(70)]
        ops = []
        for i, v in enumerate(big): ops += [('push', 0, 0, v)] * (2 + (i % 3))
        ops += [('merge', 1, [0])] + [('push', 1, 0, v) for v in big[::7] + big[-3:]] + [('read', 1)]
        cases.append(('cdc', ops)); res.nontrivial.add('bigdict%d' % it)
    # the dominating string is the lexicographically greatest key among more distinct strings than free tags
    for it in range(1 if not ctx.thorough else 4):
        cold = [[99] + list(('%05d' % i).encode()) for i in range(300 + 50 * it)]
        hot = [122, 122, 45, 104, 111, 116]; warm = [97, 45, 104, 111, 116]
        seq = cold + [hot] * 300 + [warm] * 200
        ctx.rng.shuffle(seq)
        ops = [('push', 0, 0, v) for v in seq] + [('merge', 1, [0]), ('push', 1, 0, hot), ('push', 1, 0, warm), ('push', 1, 0, cold[0]), ('read', 1)]
        cases.append(('cdc', ops)); res.nontrivial.add('hotlast%d' % it)
    # the dominating string first, then more than two compactions' worth of distinct rarer strings that all sort BEFORE it,
    # in order (no shuffle: the dominating string is never seen again after the compactions start).  By mg_accuracy /
    # dominant_one_byte its estimate stays within total/513 + #compactions of its count, so it must get a tag.
    for it in range(2 if not ctx.thorough else 6):
        hot = [122, 122, 122]; ncold = 1100 + 150 * it
        cold = [[97] + list(('%05d' % i).encode()) for i in range(ncold)]
        if it % 2 == 1: cold.reverse()
        ops = [('push', 0, 0, hot)] * (1500 + 500 * it) + [('push', 0, 0, v) for v in cold] + \
              [('merge', 1, [0]), ('push', 1, 0, hot), ('push', 1, 0, cold[0]), ('push', 1, 0, hot), ('read', 1)]
        cases.append(('cdc', ops)); res.nontrivial.add('hotfirst%d' % it)
    # the tag table filled to its last entry: first bytes cover all but tag 255 (one source), all but tags 0 and 255
    # (two sources), and a dictionary of more strings than free tags whose lowest-ranked member takes the last tag
    hot = [254, 1, 2, 3, 4, 5]; second = [9, 8, 7, 6, 5]
    ops = [('push', 0, 0, [b]) for b in range(255)] + [('push', 0, 0, hot)] * 40 + [('merge', 1, [0]), ('push', 1, 0, hot), ('push', 1, 0, [3]),
           ('push', 1, 0, hot), ('read', 1)]
    cases.append(('cdc', ops)); res.nontrivial.add('tag255-only')
    ops = [('push', 0, 0, [b]) for b in range(1, 128)] + [('push', 0, 0, hot)] * 40 + [('push', 1, 0, [b]) for b in range(128, 255)] + \
          [('push', 1, 0, second)] * 20 + [('merge', 2, [0, 1]), ('push', 2, 0, hot), ('push', 2, 0, second), ('push', 2, 0, [77]), ('read', 2)]
    cases.append(('cdc', ops)); res.nontrivial.add('tag0-and-255')
    cold = [[99] + list(('%03d' % i).encode()) for i in range(300)]
    ops = [('push', 0, 0, v) for v in cold] + [('push', 0, 0, v) for v in cold[:260]] + [('merge', 1, [0])] + \
          [('push', 1, 0, cold[i]) for i in (0, 253, 254, 255, 259, 299)] + [('read', 1)]
    cases.append(('cdc', ops)); res.nontrivial.add('last-tag-by-rank')
    def clause_for(e):
        sh_e = shape(e)
        # where the codec's own (start, end) pair sits inside the entry's index: the index itself, or its first component
        ipath = (lambda ix: ix) if e[0] in ('cdc', 'strof') else (lambda ix: ix[0]) if (e[0] == 'tup2' and e[1][0] in ('cdc', 'strof')) else None
        def clause(t, op, g, ref, sc):
            k = op[0]
            st = sc.setdefault('stats', {i: ({}, set(), None) for i in range(4)})   # counts, seen first bytes, dictionary
            if k == 'push':
                cnt, seen, dic = st[op[1]]
                v = c07_unwrap(sh_e, op[3])
                if v:
                    cnt[tuple(v)] = cnt.get(tuple(v), 0) + 1; seen.add(v[0])
                if dic is not None and tuple(v) in dic and g and g[0].startswith('i=') and ipath:
                    ix = ipath(gen.parse(g[0][2:]))
                    if isinstance(ix, list) and len(ix) == 2 and all(isinstance(x, int) for x in ix):
                        if ix[1] - ix[0] != 1:
                            return f'op {t}: {gen.show(v)} dominates the merged statistics but was stored in {ix[1] - ix[0]} bytes'
            elif k == 'clear': st[op[1]] = ({}, set(), None)
            elif k == 'merge':
                tot = {}; seen = set()
                for j in op[2]:
                    for key, c in st[j][0].items(): tot[key] = tot.get(key, 0) + c
                    seen |= st[j][1]
                exact = all(len(st[j][0]) < 500 for j in op[2]) and len(tot) < 500
                free = 256 - len(seen)
                ranked = sorted(tot.items(), key=lambda kv: (-kv[1], list(kv[0])))
                if exact: dic = set(kk for kk, _ in ranked[:free])
                else: dic = set(kk for kk, c in ranked[:8] if c >= 400)
                st[op[1]] = ({}, set(), dic)
            return None
        return clause
    def oracle(e, ops, obs, mo=None):
        return ref_oracle(e, ops, obs, [clause_for(e)], mo)
    run_regions(ctx, res, cases, oracle, 'full')
    # two limits of the dictionary scheme that the property text, read literally, does not allow for (known findings)
    for prof in PROFILES:
        pobs = lib.run_impl('span', [('no_free_tag', ['x']), ('nested_codec', ['x'])], prof)
        res.evaluations += 2
        a = [g[0] if g else '' for g in pobs[0]]; b = [g[0] if g else '' for g in pobs[1]]
        if a != ['1', '1']:
            res.failures.append({'kind': 'oracle', 'entry': 'probe/no_free_tag', 'profile': prof, 'rust_type': 'CodecRegion<DictionaryCodec>',
                                 'history': ['push [b,1] for b in 0..=255', 'push "hello" x10000', 'merge_regions', 'push "hello"'], 'observed': a,
                                 'what': f'the dominating string (97% of the pushes) is stored in {a[0] if a else "?"} bytes, read-back exact: {a[1:] == ["1"]}',
                                 'known': known_by_class('no-free-tag', ctx.prop) if a == ['5', '1'] else None})
        if b != ['1', '1']:
            res.failures.append({'kind': 'oracle', 'entry': 'probe/nested_codec', 'profile': prof,
                                 'rust_type': 'CodecRegion<DictionaryCodec, CodecRegion<DictionaryCodec>>',
                                 'history': ['push "abc" x1000', 'merge_regions', 'push "abc"'], 'observed': b,
                                 'what': 'the merged region refuses (panics on) the only string of its statistics' if b == ['[62]'] else f'observed {b}',
                                 'known': known_by_class('nested-dictionary-codec', ctx.prop) if b == ['[62]'] else None})
    # a refused CELL of a row (known finding D13): the refusal must leave the columns region as it was
    if 'cols_cdc' in EXPR:
        abc, xyz = [97, 98, 99], [120, 121, 122]
        base = [('push', 0, 0, [abc, xyz])] * 10 + [('merge', 1, [0]), ('push', 1, 0, [abc, xyz])]
        rcases = []
        for nm_ in ('cols_cdc', 'con_sl_cdc'):
            if nm_ not in EXPR: continue
            rcases += [(nm_, base + [('trypush', 1, 0, [abc, [0, 9, 9]]), ('push', 1, 0, [abc, xyz]), ('push', 1, 0, [abc]), ('read', 1)]),
                       (nm_, base + [('trypush', 1, 0, [[0, 9, 9], xyz]), ('push', 1, 0, [abc, xyz]), ('read', 1)])]   # first cell refused: clean
        before = len(res.failures); nb = len(res.corr)
        run_regions(ctx, res, rcases, oracle, 'full')
        for f in res.failures[before:]:
            h = f.get('history', [])
            if any(x.startswith('trypush') and '[61,62,63],[0,9,9]' in x for x in h) and not f.get('known'):
                mo_fail = oracle(EXPR[f['entry']], rcases[0][1], project(rcases[0][1], [m.split(' ') for m in f.get('model', [])], 'full'), None) if f.get('model') else 'no model run'
                if not mo_fail: f['known'] = known_by_class('refused-cell-in-columns', ctx.prop)
        # the model goes on from the untouched state, the implementation from the damaged one: that disagreement is the finding itself
        res.corr[nb:] = [c for c in res.corr[nb:] if not any(x.startswith('trypush') and '[61,62,63],[0,9,9]' in x for x in c.get('history', []))]
    return res


# ================================================================== C06 Huffman container
def huffman_cost(counts):
    """minimum total bits of a prefix code for the counts (sum of internal node weights); 1 symbol: 1 bit each"""
    import heapq
    ws = [c for c in counts.values() if c > 0]
    if len(ws) == 1: return ws[0]
    heapq.heapify(ws); cost = 0
    while len(ws) > 1:
        a = heapq.heappop(ws); b = heapq.heappop(ws); cost += a + b; heapq.heappush(ws, a + b)
    return cost

def c06(ctx):
    res = Result()
    res.rule = ('HuffmanContainer<u8> / <u16>: frequency profiles (1 symbol; 2-6 equiprobable symbols; Fibonacci counts forcing '
                'code lengths up to 15 (quick) / 22 (thorough) bits; 300 equiprobable u16 symbols; random counts), training '
                'regions, merge_regions over 1-2 sources (shared symbols with different counts), then: every symbol pushed '
                'alone (measures its code length), empty items, random items of 0..12 symbols so that every start / end '
                'bit offset and items spanning 0, 1, 2+ whole bytes occur, an uncovered symbol (must panic), second and third '
                'generations, clear and raw mode. Oracle: every read equals the pushed symbols; bit ranges are contiguous '
                'and (hi - lo) = sum of the symbols\' code lengths; lengths >= 1, Kraft sum <= 1, and sum(count * length) '
                'equals the optimal prefix-code cost of the merged statistics computed independently; refusals only for '
                'uncovered symbols')
    cases = []
    rng = ctx.rng
    def fib(n):
        a, b, out = 1, 1, []
        for _ in range(n): out.append(a); a, b = b, a + b
        return out
    profiles = []
    profiles.append({7: 3})
    for k in (2, 3, 4, 5, 6): profiles.append({i * 3: 2 for i in range(k)})
    profiles.append({i: c for i, c in enumerate([4, 6, 6, 2], 1)})
    profiles.append({i: c for i, c in enumerate(fib(10))})
    profiles.append({i: c for i, c in enumerate(fib(16 if not ctx.thorough else 22))})
    for _ in range(6 if not ctx.thorough else 60):
        k = rng.choice([2, 3, 5, 9, 17, 40])
        profiles.append({rng.randrange(256): rng.choice([1, 1, 2, 3, 7, 20, 100]) for _ in range(k)})
    def train_ops(slot, counts):
        syms = [s for s, c in counts.items() for _ in range(c)]
        rng.shuffle(syms); ops = []
        i = 0
        while i < len(syms):
            n = rng.choice([1, 3, 10, 50, 400]); ops.append(('push', slot, rng.randrange(4), syms[i:i + n])); i += n
        return ops
    def use_ops(slot, alphabet, uncovered):
        ops = []
        for s_ in alphabet: ops.append(('push', slot, 0, [s_]))
        for _ in range(20 if not ctx.thorough else 60):
            n = rng.choice([0, 0, 1, 2, 3, 5, 8, 12])
            ops.append(('push', slot, rng.randrange(4), [rng.choice(alphabet) for _ in range(n)]))
            if rng.random() < 0.15: ops.append(('probe', slot))
        ops.append(('probe', slot))
        return ops
    for name, maxsym in (('huf_u8', 255), ('huf_u16', 65535)):
        for counts in profiles + ([{i * 7 + 1: 1 for i in range(300)}] if name == 'huf_u16' else []):
            alphabet = sorted(counts)
            ops = train_ops(0, counts)
            two = rng.random() < 0.5 and len(alphabet) > 1
            if two:
                c2 = {s_: rng.choice([1, 5, 30]) for s_ in rng.sample(alphabet, max(1, len(alphabet) // 2))}
                ops += train_ops(1, c2); ops.append(('merge', 2, [0, 1]))
            else:
                ops.append(('merge', 2, [0]))
            ops += use_ops(2, alphabet, None)
            # second generation from what was pushed into slot 2; third from both
            ops.append(('merge', 3, [2])); ops += use_ops(3, alphabet, None)
            if rng.random() < 0.5: ops += [('merge', 0, [3, 2])] + use_ops(0, alphabet, None)
            # an uncovered symbol must be refused
            unc = next(x for x in range(maxsym, 0, -1) if x not in counts)
            ops2 = list(ops) + [('push', 3, 0, [alphabet[0], unc])]
            cases.append((name, ops)); note_case(res, name, ops)
            cases.append((name, ops2))
            # a refusal is a clean one: with the bit cursor at every position within a byte, an item holding an
            # uncovered symbol is refused and every earlier item still reads as before, later pushes continue where the
            # accepted ones ended, and the next generation is built from the accepted symbols only
            ops5 = train_ops(0, counts) + [('merge', 2, [0])]
            for j in range(9):
                ops5 += [('push', 2, 0, [rng.choice(alphabet) for _ in range(rng.choice([1, 2, 3]))]),
                         ('trypush', 2, rng.randrange(4), [rng.choice(alphabet) for _ in range(j % 3)] + [unc] + [alphabet[0]] * (j % 2)),
                         ('probe', 2)]
            ops5 += use_ops(2, alphabet, None) + [('merge', 3, [2])] + use_ops(3, alphabet, None)
            cases.append((name, ops5)); note_case(res, name, ops5)
            # clear: raw mode again
            ops3 = ops[:len(ops) // 2] + [('clear', 2), ('push', 2, 0, [unc, unc]), ('push', 2, 0, []), ('probe', 2)]
            cases.append((name, ops3))
            # encoded, pushed into, cleared, refilled raw with other statistics, merged again: only the new statistics count
            c4 = {s_: rng.choice([1, 2, 5]) for s_ in alphabet[:max(2, len(alphabet) // 2)]}
            a4 = sorted(c4)
            ops4 = train_ops(0, counts) + [('merge', 2, [0])] + [('push', 2, 0, [alphabet[-1]] * 3), ('clear', 2)] + train_ops(2, c4) + [('merge', 3, [2])] + use_ops(3, a4, None)
            cases.append((name, ops4)); note_case(res, name, ops4)
    if True:
        # 27-bit codes (Fibonacci counts over 28 symbols, 832 039 training symbols): 7 carried bits + code > 32
        counts = {i: c for i, c in enumerate(fib(28))}
        alphabet = sorted(counts)
        ops = [('push', 0, 0, [s_] * c) for s_, c in counts.items()] + [('merge', 1, [0])]
        for s_ in alphabet: ops.append(('push', 1, 0, [s_]))
        for off in range(8):
            for s_ in alphabet[:6]:
                ops += [('push', 1, 0, [alphabet[-1]] * off), ('push', 1, 0, [alphabet[-2], s_, alphabet[-2]])]
        ops.append(('probe', 1))
        cases.append(('huf_u8', ops)); note_case(res, 'huf_u8', ops[28:60])
    def clause(t, op, g, ref, sc):
        k = op[0]
        st = sc.setdefault('st', {i: {'cnt': {}, 'enc': None, 'lens': {}, 'bits': 0, 'used': {}} for i in range(4)})
        if k == 'refused':
            d = st[op[1]]
            if d['enc'] is not None and all(x in d['enc'] for x in op[3]):
                return f'op {t}: a push of covered symbols {op[3]} was refused'
            return None
        if k == 'push':
            d = st[op[1]]; v = op[3]
            for x in v: d['cnt'][x] = d['cnt'].get(x, 0) + 1
            if d['enc'] is not None and g and g[0].startswith('i='):
                lo, hi = gen.parse(g[0][2:])
                if any(x not in d['enc'] for x in v): return f'op {t}: an uncovered symbol in {v} was stored instead of refused'
                if lo != d['bits']: return f'op {t}: the item starts at bit {lo}, the previous one ended at {d["bits"]}'
                d['bits'] = hi
                if len(v) == 1 and v[0] not in d['lens']:
                    d['lens'][v[0]] = hi - lo
                    if hi - lo < 1: return f'op {t}: symbol {v[0]} has a {hi - lo}-bit code'
                if all(x in d['lens'] for x in v) and hi - lo != sum(d['lens'][x] for x in v):
                    return f'op {t}: item {v} occupies {hi - lo} bits, its code lengths sum to {sum(d["lens"][x] for x in v)}'
                if len(d['lens']) == len(d['enc']) and not d.get('checked'):
                    d['checked'] = True
                    cost = sum(d['enc'][x] * d['lens'][x] for x in d['enc'])
                    best = huffman_cost(d['enc'])
                    kraft = sum(2.0 ** -d['lens'][x] for x in d['enc'])
                    if cost != best: return f'op {t}: code lengths {d["lens"]} cost {cost} bits on the merged statistics {d["enc"]}; the optimum is {best}'
                    if kraft > 1.0 + 1e-9: return f'op {t}: code lengths {d["lens"]} violate the Kraft inequality'
        elif k == 'clear': st[op[1]] = {'cnt': {}, 'enc': None, 'lens': {}, 'bits': 0, 'used': {}}
        elif k == 'merge':
            tot = {}
            for j in op[2]:
                for x, c in st[j]['cnt'].items(): tot[x] = tot.get(x, 0) + c
            st[op[1]] = {'cnt': {}, 'enc': tot, 'lens': {}, 'bits': 0, 'used': {}}
        return None
    def oracle(e, ops, obs, mo=None):
        return ref_oracle(e, ops, obs, [clause], mo)
    run_regions(ctx, res, cases, oracle, 'full')
    res.assumptions += ['code lengths <= 57 bits (the u64 encoder register); counts < 2^63']
    return res

PROPS = {'C01': c01, 'C02': c02, 'C03': c03, 'C04': c04, 'C05': c05, 'C06': c06, 'C07': c07, 'C08': c08, 'C09': c09,
         'C10': c10, 'C11': c11, 'C12': c12, 'C13': c13, 'C14': c14, 'C15': c15, 'C16': c16, 'C17': c17, 'C18': c18,
         'C19': c19, 'C20': c20}
