#!/usr/bin/env python3
"""Per-property generators, oracles and projections (DESIGN.md section 7)."""
import json, os, random, sys
import lib, gen, catalogue
from catalogue import ENTRIES, shape, contains, is_known_bad, forms, caps, idx_kind

NUMBERING = {name: i for i, (name, _) in enumerate(ENTRIES)}
EXPR = dict(ENTRIES)
PROFILES = ['checked', 'wrapping']

class Ctx:
    def __init__(self, prop, tier, seed, replay):
        self.prop, self.tier, self.seed, self.replay = prop, tier, seed, replay
        self.rng = random.Random(f'{prop}:{seed}')
        self.thorough = tier == 'thorough'

class Result:
    def __init__(self):
        self.failures = []      # oracle failures on the implementation (concrete inputs)
        self.corr = []          # model/implementation disagreements on the property's projection
        self.evaluations = 0
        self.compared = 0
        self.rule = ''
        self.samples = []
        self.tags = {}
        self.per_profile = {}
        self.exhaustive = False
        self.extra = {}
        self.trusted = []
        self.assumptions = []
        self.nontrivial = set()
    def distinct_nontrivial(self): return len(self.nontrivial)
    def tag(self, t): self.tags[t] = self.tags.get(t, 0) + 1

# ------------------------------------------------------------------ ops
def op_str(op):
    k = op[0]
    ints = lambda l: ','.join(str(x) for x in l) if l else '-'
    if k == 'push': return f'push {op[1]} {op[2]:x} {gen.show(op[3])}'
    if k in ('probe', 'probeo', 'read', 'clear', 'heap', 'serde'): return f'{k} {op[1]}'
    if k == 'merge': return f'merge {op[1]} {ints(op[2])}'
    if k in ('clone', 'clonefrom'): return f'{k} {op[1]} {op[2]}'
    if k == 'pushitem': return f'pushitem {op[1]} {op[2]} {op[3]} {1 if op[4] else 0}'
    if k == 'cloneonto': return f'cloneonto {op[1]} {op[2]} {gen.show(op[3])}'
    if k == 'resitems': return f'resitems {op[1]} {gen.show(list(op[2]))}'
    if k == 'resregs': return f'resregs {op[1]} {ints(op[2])}'
    if k == 'cmp': return f'cmp {op[1]} {op[2]} {1 if op[3] else 0} {op[4]} {op[5]} {1 if op[6] else 0}'
    raise ValueError(op)

def expected_probe(e, v):
    """the report of a read item of region expression e that denotes value v (Wire.v: probe)"""
    k = e[0]
    if k in ('own', 'mir', 'vecr', 'str', 'strof'): return v
    if k in ('col', 'con'): return expected_probe(e[1], v)
    if k in ('sl', 'cols'):
        ps = [expected_probe(e[1], x) for x in v]
        return [len(v), 1 if len(v) == 0 else 0, [('S', p) for p in ps] + [None, None], [None] * 6, ps, list(v)]
    if k == 'opt': return None if v is None else ('S', expected_probe(e[1], v[1]))
    if k == 'res': return (v[0], expected_probe(e[1] if v[0] == 'O' else e[2], v[1]))
    if k == 'tup2': return [expected_probe(e[1], v[0]), expected_probe(e[2], v[1])]
    raise ValueError(e)

def wire_equiv(a, b, ieee):
    if isinstance(a, int) and isinstance(b, int) and not isinstance(a, bool):
        return a == b or (ieee and gen.f64_eq(a, b))
    if isinstance(a, list) and isinstance(b, list):
        return len(a) == len(b) and all(wire_equiv(x, y, ieee) for x, y in zip(a, b))
    if isinstance(a, tuple) and isinstance(b, tuple):
        return a[0] == b[0] and wire_equiv(a[1], b[1], ieee)
    return a is None and b is None

def uses_ieee(e):
    return contains(e, 'col') and 'f64' in repr(e)

# ------------------------------------------------------------------ reference semantics
class RefState:
    """what the property text says a region is: per slot, the values pushed since the last clear"""
    def __init__(self): self.log = [[], [], [], []]

def ref_oracle(e, ops, obs, clauses=()):
    """Walk a history and its observations; return None or a failure description.
    Covers: pushes succeed, every probe/read reports exactly the value pushed at that index, item
    copies and clone_onto reproduce the value.  `clauses` are extra per-property hooks
    f(t, op, group, ref, scratch) -> failure or None."""
    ref = RefState(); ieee = uses_ieee(e); scratch = {}
    for t, op in enumerate(ops):
        if t >= len(obs): return None if t > 0 and obs and obs[-1] and obs[-1][0] in ('P', 'ILL', 'UNSUP') else f'op {t}: no observation'
        g = obs[t]; k = op[0]
        if g and g[0] == 'CRASH': return f'op {t}: harness crashed'
        if k == 'push':
            if len(g) != 1 or not g[0].startswith('i='): return f'op {t} ({op_str(op)}): push did not return an index: {g}'
            ref.log[op[1]].append(op[3])
        elif k in ('probe', 'probeo', 'read'):
            log = ref.log[op[1]]
            if len(g) != len(log): return f'op {t}: {len(g)} reads for {len(log)} issued indices'
            for j, (o, v) in enumerate(zip(g, log)):
                want = v if k == 'read' else expected_probe(e, v)
                if not o.startswith('v='): return f'op {t}: reading index #{j} gave {o}, pushed {gen.show(v)}'
                got = gen.parse(o[2:])
                if not wire_equiv(got, want, ieee):
                    return f'op {t}: index #{j} reads {o[2:]} but {gen.show(want)} was pushed'
        elif k == 'clear':
            if g != ['-']: return f'op {t}: clear observed {g}'
            ref.log[op[1]] = []
        elif k == 'merge':
            if g != ['-']: return f'op {t}: merge_regions observed {g}'
            ref.log[op[1]] = []
        elif k in ('clone', 'clonefrom'):
            if g != ['-']: return f'op {t}: {k} observed {g}'
            ref.log[op[1]] = list(ref.log[op[2]])
        elif k == 'pushitem':
            if len(g) != 1 or not g[0].startswith('i='): return f'op {t} ({op_str(op)}): item copy did not return an index: {g}'
            ref.log[op[1]].append(ref.log[op[2]][op[3]])
        elif k == 'cloneonto':
            v = ref.log[op[1]][op[2]]
            if len(g) != 1 or not g[0].startswith('v='): return f'op {t}: clone_onto observed {g}'
            if not wire_equiv(gen.parse(g[0][2:]), v, ieee):
                return f'op {t}: clone_onto left {g[0][2:]}, item is {gen.show(v)}'
        elif k in ('resitems', 'resregs', 'serde'):
            if g != ['-']: return f'op {t}: {k} observed {g}'
        elif k == 'heap':
            if len(g) != 1 or not g[0].startswith('v='): return f'op {t}: heap_size observed {g}'
        elif k == 'cmp':
            if len(g) != 1 or not g[0].startswith('v='): return f'op {t}: comparison observed {g}'
        for c in clauses:
            f = c(t, op, g, ref, scratch)
            if f: return f
    return None

def project(ops, obs, mode):
    """the observables a property speaks about.  mode 'values': indices are opaque; 'full': as is"""
    out = []
    for t, g in enumerate(obs):
        op = ops[t] if t < len(ops) else ('?',)
        if op[0] == 'heap': out.append(['-']); continue
        if mode == 'values': out.append(['i' if o.startswith('i=') else o for o in g])
        else: out.append(list(g))
    return out

# ------------------------------------------------------------------ generic runner
def run_regions(ctx, res, cases, oracle, mode, known_ok=True):
    """cases: list of (entry name, ops).  Runs implementation and model in both profiles, applies
    the oracle to the implementation, the projection to model vs implementation."""
    hist = [(n, [op_str(o) for o in ops]) for n, ops in cases]
    for prof in PROFILES:
        impl = lib.run_impl('regions', hist, prof)
        model = lib.run_model('regions', hist, prof, NUMBERING)
        nfail = 0
        for (name, ops), io, mo in zip(cases, impl, model):
            res.evaluations += 1
            e = EXPR[name]
            if any(g and g[0] in ('ILL', 'UNSUP', 'bad-history', 'unknown-entry') or (g and g[0].startswith('bad-')) for g in io):
                raise RuntimeError(f'generator/harness bug: {name} {[op_str(o) for o in ops]} -> {io}')
            f = oracle(e, ops, io)
            if f:
                nfail += 1
                known = None
                if known_ok and is_known_bad(e) and oracle(e, ops, mo):
                    known = known_class(e, ctx.prop)
                res.failures.append({'kind': 'oracle', 'entry': name, 'rust_type': catalogue.rust_type(e), 'profile': prof,
                                     'history': [op_str(o) for o in ops], 'what': f,
                                     'observed': [' '.join(g) for g in io], 'model': [' '.join(g) for g in mo],
                                     'known': known})
            res.compared += 1
            pi, pm = project(ops, io, mode), project(ops, mo, mode)
            if pi != pm and not (known_ok and is_known_bad(e)):
                t = next((i for i in range(max(len(pi), len(pm))) if i >= len(pi) or i >= len(pm) or pi[i] != pm[i]), 0)
                res.corr.append({'kind': f'regions/{mode}', 'entry': name, 'profile': prof,
                                 'history': [op_str(o) for o in ops], 'first_difference_at_op': t,
                                 'impl': [' '.join(g) for g in io], 'model': [' '.join(g) for g in mo]})
        res.per_profile[prof] = res.per_profile.get(prof, 0) + len(cases)
    return res

def known_class(e, prop=None):
    """the text of the known finding this failure belongs to, if known_findings.json lists it"""
    for k in lib.load_known().get('known', []):
        if k.get('class') == 'consec-over-collapse' and is_known_bad(e) and (prop is None or prop in k['properties']):
            return k['what']
    return None

def pick_entries(pred=lambda n, e: True):
    return [(n, e) for n, e in ENTRIES if pred(n, e)]

class HistGen:
    """random histories over one entry"""
    def __init__(self, ctx, name, e):
        self.ctx, self.name, self.e = ctx, name, e
        self.rng = ctx.rng
        self.vg = gen.ValueGen(ctx.rng, big=ctx.thorough)
        self.shape = shape(e)
        self.nforms = len(forms(e))
        self.caps = caps(e)
        self.recent = []
    def value(self, repeat=0.3):
        if self.recent and self.rng.random() < repeat:
            return self.rng.choice(self.recent[-4:])
        v = self.vg.gen(self.shape)
        self.recent.append(v)
        return v
    def push(self, k, form=None):
        f = self.rng.randrange(self.nforms) if form is None else form
        return ('push', k, f, self.value())

def note_case(res, name, ops):
    s = name + ';' + ';'.join(op_str(o) for o in ops)
    npush = sum(1 for o in ops if o[0] in ('push', 'pushitem'))
    if npush >= 2 and any(o[0] in ('probe', 'probeo', 'read') for o in ops):
        res.nontrivial.add(s)
    for o in ops:
        res.tag(o[0])
    if len(res.samples) < 6 and npush >= 2:
        res.samples.append({'entry': name, 'history': [op_str(o) for o in ops]})

# ------------------------------------------------------------------ C01
def c01(ctx):
    res = Result()
    res.rule = ('per catalogue entry: random histories of pushes (every offered input form, values from boundary '
                'pools incl. empty, multi-byte UTF-8, ragged/nested, u64 extremes, NaN/-0 patterns, repeats) with '
                'occasional clear, every issued index probed through len/is_empty/get(0..len+1)/iter/into_owned; '
                'non-trivial = distinct history with >= 2 pushes and a probe')
    n_hist = 30 if not ctx.thorough else 400
    cases = []
    for name, e in ENTRIES:
        for _ in range(n_hist):
            hg = HistGen(ctx, name, e)
            ops = []
            for _ in range(ctx.rng.choice([1, 2, 3, 5, 8, 12])):
                r = ctx.rng.random()
                if r < 0.06 and ops: ops.append(('clear', 0))
                elif r < 0.12 and ops: ops.append(('probe', 0))
                else: ops.append(hg.push(0))
            ops.append(('probe', 0))
            cases.append((name, ops)); note_case(res, name, ops)
    run_regions(ctx, res, cases, lambda e, ops, obs: ref_oracle(e, ops, obs), 'values')
    return res


def gen_ops(ctx, hg, n, slot=0, p_clear=0.0, p_probe=0.0):
    ops = []
    for _ in range(n):
        r = ctx.rng.random()
        if r < p_clear and ops: ops.append(('clear', slot))
        elif r < p_clear + p_probe and ops: ops.append(('probe', slot))
        else: ops.append(hg.push(slot))
    return ops

def small_domain(ctx, e, n=3):
    vg = gen.ValueGen(random.Random(f'dom:{catalogue.rust_type(e)}:{ctx.seed}'))
    sh = shape(e); out = []
    for _ in range(200):
        v = vg.gen(sh)
        if v not in out: out.append(v)
        if len(out) == n: break
    return out

# ------------------------------------------------------------------ C02
def c02(ctx):
    res = Result()
    res.rule = ('per entry: (a) bounded-exhaustive: every push sequence up to length L over a 3-value domain, all issued '
                'indices re-read after every step; (b) random long histories of push (all forms) / reserve_items / '
                'reserve_regions crossing reallocation, stride->spill and u32->u64 switches, re-read after every step; '
                'non-trivial = distinct history with >= 2 pushes')
    L = 3 if not ctx.thorough else 5
    cases = []
    import itertools
    for name, e in ENTRIES:
        dom = small_domain(ctx, e)
        for l in range(1, L + 1):
            for seq in itertools.product(range(len(dom)), repeat=l):
                ops = []
                for x in seq:
                    ops.append(('push', 0, 0, dom[x])); ops.append(('probe', 0))
                cases.append((name, ops)); note_case(res, name, ops)
        nrand = 6 if not ctx.thorough else 60
        for _ in range(nrand):
            hg = HistGen(ctx, name, e); ops = []
            c = hg.caps
            # a source region for reserve_regions
            for _ in range(ctx.rng.choice([0, 2, 5])): ops.append(hg.push(1))
            for _ in range(ctx.rng.choice([4, 10, 25] if not ctx.thorough else [10, 40, 150])):
                r = ctx.rng.random()
                if r < 0.1 and c['reserve_items'] and catalogue.ref_ok(e): ops.append(('resitems', 0, [hg.value() for _ in range(ctx.rng.randrange(4))]))
                elif r < 0.2: ops.append(('resregs', 0, [1]))
                else: ops.append(hg.push(0))
                ops.append(('probe', 0))
            cases.append((name, ops)); note_case(res, name, ops)
    res.exhaustive = True
    res.extra['exhaustive_part'] = f'all push sequences of length <= {L} over 3 values per entry'
    run_regions(ctx, res, cases, lambda e, ops, obs: ref_oracle(e, ops, obs), 'values')
    return res

# ------------------------------------------------------------------ C08
def paired_clause(a, b):
    """a push marked 'twin' repeats, on slot b, the push just made on slot a: same index expected"""
    def clause(t, op, g, ref, sc):
        key = ('pair', a, b)
        if op[0] in ('push', 'pushitem') and op[1] == b and op[-1] == 'twin' and key in sc:
            t0, g0 = sc.pop(key)
            if t0 == t - 1 and g0 != g:
                return f'ops {t0}/{t}: the same push returned {g0} on slot {a} but {g} on the twin slot {b}'
        if op[0] in ('push', 'pushitem') and op[1] == a: sc[key] = (t, g)
        return None
    return clause

def c08(ctx):
    res = Result()
    res.rule = ('per entry: history h1, clear, then history h2 applied in lock step to the cleared region and to a '
                'default twin; returned indices compared pairwise, all reads compared; repeated clear/refill cycles; '
                'non-trivial = distinct history with >= 2 pushes')
    cases = []
    n = 25 if not ctx.thorough else 300
    for name, e in ENTRIES:
        for _ in range(n):
            hg = HistGen(ctx, name, e)
            ops = gen_ops(ctx, hg, ctx.rng.choice([1, 3, 6, 12]), 0)
            for cyc in range(ctx.rng.choice([1, 1, 2, 3])):
                ops.append(('clear', 0))
                if cyc > 0: ops.append(('clear', 1))
                for _ in range(ctx.rng.choice([1, 2, 4, 8])):
                    p = hg.push(0); ops.append(p); ops.append(('push', 1, p[2], p[3], 'twin'))
                ops.append(('probe', 0)); ops.append(('probe', 1))
            cases.append((name, ops)); note_case(res, name, ops)
    run_regions(ctx, res, cases, lambda e, ops, obs: ref_oracle(e, ops, obs, [paired_clause(0, 1)]), 'full')
    return res

# ------------------------------------------------------------------ C09
def c09(ctx):
    res = Result()
    res.rule = ('per Clone-able entry: history, then clone or clone_from into a destination pre-filled by an unrelated '
                'history (longer / shorter / more or fewer columns), reads compared; identical continuation pushes on '
                'both copies must return identical indices; then diverging histories on both and re-reads')
    cases = []
    n = 25 if not ctx.thorough else 300
    for name, e in ENTRIES:
        for _ in range(n):
            hg = HistGen(ctx, name, e)
            ops = gen_ops(ctx, hg, ctx.rng.choice([0, 1, 3, 6, 12]), 0, p_clear=0.05)
            if ctx.rng.random() < 0.5:
                ops.append(('clone', 1, 0))
            else:
                ops += gen_ops(ctx, hg, ctx.rng.choice([0, 1, 4, 15]), 1, p_clear=0.05)
                ops.append(('clonefrom', 1, 0))
            ops += [('probe', 1), ('probe', 0)]
            for _ in range(ctx.rng.choice([0, 1, 3])):
                p = hg.push(0); ops.append(p); ops.append(('push', 1, p[2], p[3], 'twin'))
            # diverge
            ops += gen_ops(ctx, hg, ctx.rng.choice([1, 3]), 0, p_clear=0.15)
            ops += [('probe', 1), ('probe', 0)]
            ops += gen_ops(ctx, hg, ctx.rng.choice([1, 3]), 1, p_clear=0.15)
            ops += [('probe', 0), ('probe', 1)]
            cases.append((name, ops)); note_case(res, name, ops)
    res.assumptions.append('independence of the two copies in the implementation rests on Rust ownership (no unsafe/Rc/interior '
                           'mutability in any Clone impl); the model is a value model and cannot exhibit aliasing')
    run_regions(ctx, res, cases, lambda e, ops, obs: ref_oracle(e, ops, obs, [paired_clause(0, 1)]), 'full')
    return res

# ------------------------------------------------------------------ C10
def c10(ctx):
    res = Result()
    res.rule = ('per entry: (a) reserve_items / reserve_regions with arbitrary announced contents interleaved with '
                'pushes, in lock step with a twin that never reserves (indices and reads compared); (b) merge_regions '
                'over 0..3 source regions with arbitrary histories (incl. the target\'s own ancestor), then pushes in '
                'lock step with a default twin')
    cases = []
    n = 15 if not ctx.thorough else 200
    for name, e in ENTRIES:
        c = caps(e)
        for _ in range(n):
            hg = HistGen(ctx, name, e); ops = []
            ops += gen_ops(ctx, hg, ctx.rng.choice([0, 2, 6]), 2)
            for _ in range(ctx.rng.choice([2, 5, 10])):
                r = ctx.rng.random()
                if r < 0.2 and c['reserve_items'] and catalogue.ref_ok(e):
                    ops.append(('resitems', 0, [hg.value() for _ in range(ctx.rng.randrange(5))]))
                elif r < 0.4: ops.append(('resregs', 0, ctx.rng.choice([[2], [2, 2], []])))
                else:
                    p = hg.push(0); ops.append(p); ops.append(('push', 1, p[2], p[3], 'twin'))
                if ctx.rng.random() < 0.3: ops += [('probe', 0)]
            ops += [('probe', 0), ('probe', 1)]
            cases.append((name, ops)); note_case(res, name, ops)
        for _ in range(n):
            hg = HistGen(ctx, name, e); ops = []
            for k in (1, 2, 0):
                ops += gen_ops(ctx, hg, ctx.rng.choice([0, 1, 4, 9]), k, p_clear=0.05)
            srcs = ctx.rng.choice([[], [1], [1, 2], [2, 1, 1], [0, 1], [0]])
            ops.append(('merge', 0, srcs))
            ops.append(('clear', 3))
            for _ in range(ctx.rng.choice([1, 3, 7])):
                p = hg.push(0); ops.append(p); ops.append(('push', 3, p[2], p[3], 'twin'))
            ops += [('probe', 0), ('probe', 3), ('probe', 1)]
            cases.append((name, ops)); note_case(res, name, ops)
    run_regions(ctx, res, cases, lambda e, ops, obs: ref_oracle(e, ops, obs, [paired_clause(0, 1), paired_clause(0, 3)]), 'full')
    return res

# ------------------------------------------------------------------ C11
def heap_used(g):
    return sum(p[0] for p in gen.parse(g[0][2:]))

def c11(ctx):
    res = Result()
    res.rule = ('entries whose top level is CollapseSequence: push sequences with many repeats (runs, alternations, '
                'equal after clear / merge / clone / serde, NaN and +-0 patterns); a push equal (PartialEq) to the '
                'previous push on that region since its last reset must return the same index and leave heap_size '
                'used bytes unchanged; every index reads an item equal to what was pushed. Entries with '
                'CollapseSequence nested deeper run under the read oracle.')
    cases = []
    n = 40 if not ctx.thorough else 500
    tops = pick_entries(lambda nm, e: e[0] == 'col')
    inner = pick_entries(lambda nm, e: e[0] != 'col' and contains(e, 'col'))
    def clause_for(e):
        sh = shape(e)
        def clause(t, op, g, ref, sc):
            k = op[0]
            if k == 'heap':
                sc[('h', op[1])] = heap_used(g); return None
            if k in ('clear', 'merge'): sc.pop(('prev', op[1]), None)
            if k in ('clone', 'clonefrom'):
                if ('prev', op[2]) in sc: sc[('prev', op[1])] = sc[('prev', op[2])]
                else: sc.pop(('prev', op[1]), None)
            if k == 'push':
                prev = sc.get(('prev', op[1]))
                if prev is not None and gen.values_equiv(sh, op[3], prev[0], True) and not (sh == ('n', 'f64') and (gen.f64_is_nan(op[3]) or gen.f64_is_nan(prev[0]))):
                    if g != prev[1]: return f'op {t}: repeated item got {g}, the previous equal item has {prev[1]}'
                    sc[('chk', op[1])] = sc.get(('h', op[1]))
                else:
                    sc[('prev', op[1])] = (op[3], g)
                    sc.pop(('chk', op[1]), None)
            return None
        return clause
    def heap_clause(t, op, g, ref, sc):
        # heap ops are emitted around pushes: [heap, push, heap]; a collapsed push stores nothing
        if op[0] == 'heap' and sc.get(('chk', op[1])) is not None:
            before = sc.pop(('chk', op[1]))
            if heap_used(g) != before: return f'op {t}: a collapsed push changed the stored bytes {before} -> {heap_used(g)}'
        return None
    for name, e in tops:
        for _ in range(n):
            hg = HistGen(ctx, name, e); ops = []
            for _ in range(ctx.rng.choice([3, 6, 12, 20])):
                r = ctx.rng.random()
                if r < 0.07: ops.append(('clear', 0))
                elif r < 0.10: ops += [('clone', 1, 0), ('push', 1, 0, hg.recent[-1] if hg.recent else hg.value()), ('probe', 1)]
                elif r < 0.14:
                    # clone_from into a destination with its own dedup memory
                    ops += [('push', 1, 0, hg.value(repeat=0.5)) for _ in range(ctx.rng.choice([0, 1, 3]))]
                    ops += [('clonefrom', 1, 0), ('push', 1, 0, hg.recent[-1] if hg.recent else hg.value()),
                            ('push', 1, 0, hg.value(repeat=0.7)), ('probe', 1)]
                elif r < 0.17: ops += [('merge', 2, [0]), ('push', 2, 0, hg.recent[-1] if hg.recent else hg.value()), ('probe', 2)]
                elif r < 0.21: ops.append(('serde', 0))
                else:
                    p = ('push', 0, ctx.rng.randrange(hg.nforms), hg.value(repeat=0.6))
                    ops += [('heap', 0), p, ('heap', 0)]
            ops.append(('probe', 0))
            cases.append((name, ops)); note_case(res, name, ops)
    for name, e in inner:
        for _ in range(n // 2):
            hg = HistGen(ctx, name, e)
            ops = gen_ops(ctx, hg, ctx.rng.choice([3, 6, 12]), 0, p_clear=0.07, p_probe=0.1) + [('probe', 0)]
            cases.append((name, ops)); note_case(res, name, ops)
    def oracle(e, ops, obs):
        if e[0] == 'col': return ref_oracle(e, ops, obs, [heap_clause, clause_for(e)])
        return ref_oracle(e, ops, obs)
    run_regions(ctx, res, cases, oracle, 'full')
    return res

# ------------------------------------------------------------------ C12
def dense_clause(t, op, g, ref, sc):
    k = op[0]
    if k in ('clear', 'merge'): sc[op[1]] = 0
    if k in ('clone', 'clonefrom'): sc[op[1]] = sc.get(op[2], 0)
    if k in ('push', 'pushitem'):
        want = sc.get(op[1], 0)
        if g != [f'i={want:x}']: return f'op {t}: push number {want} since the last reset returned {g}'
        sc[op[1]] = want + 1
    return None

def c12(ctx):
    res = Result()
    res.rule = ('entries whose top level is ConsecutiveIndexPairs or ColumnsRegion: push sequences incl. empty items, '
                'ragged rows 0..9 wide in any order, across clear / merge / clone; the k-th push since the last reset '
                'must return k and index k must read the k-th item with exactly its own length and cells')
    cases = []
    n = 40 if not ctx.thorough else 500
    for name, e in pick_entries(lambda nm, e: e[0] in ('con', 'cols')):
        for _ in range(n):
            hg = HistGen(ctx, name, e); ops = []
            for _ in range(ctx.rng.choice([2, 5, 10, 20])):
                r = ctx.rng.random()
                if r < 0.06: ops.append(('clear', 0))
                elif r < 0.1: ops += [('merge', 1, [0]), hg.push(1), hg.push(1), ('probe', 1)]
                elif r < 0.14: ops += [('clone', 2, 0), hg.push(2), ('probe', 2)]
                elif r < 0.2 and any(o[0] == 'push' and o[1] == 0 for o in ops): ops.append(('probe', 0))
                else: ops.append(hg.push(0))
            ops.append(('probe', 0))
            cases.append((name, ops)); note_case(res, name, ops)
    run_regions(ctx, res, cases, lambda e, ops, obs: ref_oracle(e, ops, obs, [dense_clause]), 'full')
    return res

# ------------------------------------------------------------------ C13
def c13(ctx):
    res = Result()
    res.rule = ('entries containing SliceRegion or ColumnsRegion: regions holding >= 3 adjacent items; for every item, '
                'in both representations (region-backed, and borrowed from its owned Vec), get(i) for all i in '
                '0..len+1, len, is_empty, iteration; get(i) must be the i-th element for i < len and panic for '
                'i >= len (never a neighbour\'s element)')
    cases = []
    n = 40 if not ctx.thorough else 500
    for name, e in pick_entries(lambda nm, e: contains(e, 'sl') or contains(e, 'cols')):
        for _ in range(n):
            hg = HistGen(ctx, name, e)
            ops = gen_ops(ctx, hg, ctx.rng.choice([3, 4, 6, 10]), 0)
            ops += [('probe', 0), ('probeo', 0)]
            cases.append((name, ops)); note_case(res, name, ops)
    res.exhaustive = True
    res.extra['exhaustive_part'] = 'all positions 0..len+1 of every item of every generated region, both representations'
    run_regions(ctx, res, cases, lambda e, ops, obs: ref_oracle(e, ops, obs), 'values')
    return res

# ------------------------------------------------------------------ C14
def c14(ctx):
    res = Result()
    res.rule = ('per entry: items copied between regions as region-backed read items and as borrows of their owned form '
                '(Push<ReadItem>), clone_onto into targets with arbitrary prior contents (empty, shorter, longer, other '
                'variant, nested), into_owned (through reborrow) and borrow_as(&into_owned(x)) probed through every accessor')
    cases = []
    n = 30 if not ctx.thorough else 400
    for name, e in ENTRIES:
        for _ in range(n):
            hg = HistGen(ctx, name, e)
            ops = gen_ops(ctx, hg, ctx.rng.choice([1, 3, 6]), 0)
            npush = len(ops)
            ops += gen_ops(ctx, hg, ctx.rng.choice([0, 2]), 1)
            for _ in range(ctx.rng.choice([1, 3, 6])):
                r = ctx.rng.random(); j = ctx.rng.randrange(npush)
                if r < 0.5: ops.append(('pushitem', 1, 0, j, ctx.rng.random() < 0.5))
                else: ops.append(('cloneonto', 0, j, hg.value(repeat=0.2)))
            ops += [('read', 0), ('probeo', 0), ('probe', 1), ('probeo', 1), ('read', 1)]
            cases.append((name, ops)); note_case(res, name, ops)
    run_regions(ctx, res, cases, lambda e, ops, obs: ref_oracle(e, ops, obs), 'values')
    return res

# ------------------------------------------------------------------ C04
def src_inventory_c04():
    """program-text part: every `unsafe` in src/ and every `impl Push<_> for StringRegion`"""
    import re
    fails = []; found = {'unsafe': [], 'push_impls': []}
    for dp, _, fs in os.walk(os.path.join(lib.REPO, 'src')):
        for f in fs:
            if not f.endswith('.rs'): continue
            p = os.path.join(dp, f); txt = open(p).read()
            for m in re.finditer(r'\bunsafe\b', txt):
                line = txt.count('\n', 0, m.start()) + 1
                ctxt = txt[m.start():m.start() + 120].split('\n')[0:2]
                found['unsafe'].append(f'{os.path.relpath(p, lib.REPO)}:{line}: {" ".join(x.strip() for x in ctxt)}')
            for m in re.finditer(r'impl\s*<[^{]*?>\s*Push<([^{]*?)>\s*for\s*StringRegion', txt, flags=re.S):
                found['push_impls'].append(re.sub(r'\s+', ' ', m.group(1)))
    allowed_unsafe = lambda s: s.startswith('src/impls/string.rs') and 'from_utf8_unchecked' in s
    for u in found['unsafe']:
        if not allowed_unsafe(u): fails.append(f'unexpected unsafe: {u}')
    string_types = {'String', '&String', '&str', '&&str'}
    for t in found['push_impls']:
        if t not in string_types: fails.append(f'StringRegion accepts a non-string input type: Push<{t}>')
    return found, fails

def c04(ctx):
    res = Result()
    res.rule = ('string-bearing entries: strings of 1-4 byte scalars, combining sequences, empty and adjacent multi-byte '
                'strings; histories of push (all string forms) / clear / clone / clone_from / merge / serde / item '
                'copies; every &str handed out is compared byte-for-byte with the pushed string (the harness obtains '
                'it as &str, bytes are checked to be valid UTF-8 by Python decoding); plus the source inventory of '
                'unsafe blocks and of impl Push<_> for StringRegion')
    cases = []
    n = 30 if not ctx.thorough else 400
    for name, e in pick_entries(lambda nm, e: contains(e, 'str') or contains(e, 'strof')):
        for _ in range(n):
            hg = HistGen(ctx, name, e); ops = []
            for _ in range(ctx.rng.choice([3, 6, 12])):
                r = ctx.rng.random()
                if r < 0.06: ops.append(('clear', 0))
                elif r < 0.12: ops += [('clone', 1, 0), ('probe', 1)]
                elif r < 0.17: ops += [('clonefrom', 2, 0), ('probe', 2)]
                elif r < 0.22: ops += [('merge', 1, [0, 2]), hg.push(1), ('probe', 1)]
                elif r < 0.28: ops += [('serde', 0), ('probe', 0)]
                elif r < 0.33 and any(o[0] == 'push' and o[1] == 0 for o in ops) and not any(o[0] == 'clear' for o in ops):
                    ops += [('clear', 3), ('pushitem', 3, 0, 0, ctx.rng.random() < 0.5), ('probe', 3)]
                else: ops.append(hg.push(0))
            ops.append(('probe', 0))
            cases.append((name, ops)); note_case(res, name, ops)
    def utf8_clause(t, op, g, ref, sc):
        return None
    run_regions(ctx, res, cases, lambda e, ops, obs: ref_oracle(e, ops, obs), 'values')
    found, fails = src_inventory_c04()
    res.extra['source_inventory'] = found
    for f in fails:
        res.failures.append({'kind': 'source-inventory', 'what': f, 'known': None,
                             'note': 'the unchecked UTF-8 conversion is reachable through a write path that does not guarantee UTF-8'})
    return res

# ------------------------------------------------------------------ C16
def c16(ctx):
    res = Result()
    res.rule = ('per serde-enabled entry: history, clone into a twin, serialise+deserialise (serde_json) the original '
                'in place, reads compared, then the same continuation on both copies (repeat the last item, continue '
                'the stride, cross u32): indices and reads must agree')
    cases = []
    n = 30 if not ctx.thorough else 400
    for name, e in ENTRIES:
        for _ in range(n):
            hg = HistGen(ctx, name, e)
            ops = gen_ops(ctx, hg, ctx.rng.choice([0, 1, 3, 6, 12]), 0, p_clear=0.05)
            ops += [('clone', 1, 0), ('serde', 0), ('probe', 0), ('probe', 1)]
            for _ in range(ctx.rng.choice([1, 3, 6])):
                p = ('push', 0, ctx.rng.randrange(hg.nforms), hg.value(repeat=0.6)); ops.append(p); ops.append(('push', 1, p[2], p[3], 'twin'))
                if ctx.rng.random() < 0.15: ops.append(('serde', 0))
            ops += [('probe', 0), ('probe', 1)]
            cases.append((name, ops)); note_case(res, name, ops)
    res.assumptions.append('serde, serde_json and the derive macros are trusted, not modelled; the model treats the round trip as the identity and the correspondence shows the implementation does too')
    run_regions(ctx, res, cases, lambda e, ops, obs: ref_oracle(e, ops, obs, [paired_clause(0, 1)]), 'full')
    return res

# ------------------------------------------------------------------ C20
def c20(ctx):
    res = Result()
    nf = sum(len(forms(e)) for _, e in ENTRIES)
    res.rule = (f'per entry: every typed input form the composition offers ({nf} generated forms over the catalogue: '
                'owned, &, &&, slice, Vec of alternative child forms, PushIter, borrowed read item, region-backed read '
                'item) pushed in lock step with a twin fed the canonical form: equal indices, equal heap_size used '
                'bytes, equal reads; histories mix forms arbitrarily')
    cases = []
    n = 30 if not ctx.thorough else 300
    for name, e in ENTRIES:
        nfm = len(forms(e))
        for it in range(n):
            hg = HistGen(ctx, name, e); ops = []
            m = ctx.rng.choice([2, 4, 8, 14])
            for j in range(m):
                f = (it + j) % nfm if ctx.rng.random() < 0.7 else ctx.rng.randrange(nfm)
                v = hg.value(repeat=0.4)
                ops += [('push', 0, f, v), ('push', 1, 0, v, 'twin')]
                if ctx.rng.random() < 0.2:
                    ops += [('heap', 0), ('heap', 1)]
            # region-backed read item as the input form
            if ctx.rng.random() < 0.5:
                j = ctx.rng.randrange(m)
                ops += [('pushitem', 2, 0, j, False), ('pushitem', 3, 1, j, True, 'twin')]
                ops += [('probe', 2), ('probe', 3)]
            ops += [('heap', 0), ('heap', 1), ('probe', 0), ('probe', 1)]
            cases.append((name, ops)); note_case(res, name, ops)
    def heap_pair(t, op, g, ref, sc):
        if op[0] == 'heap':
            if op[1] == 0: sc['h0'] = heap_used(g)
            elif op[1] == 1 and 'h0' in sc:
                h0 = sc.pop('h0')
                if heap_used(g) != h0: return f'op {t}: mixed-form region stores {h0} bytes, canonical-form twin {heap_used(g)}'
        return None
    def inventory():
        import re
        found = []
        for dp, _, fs in os.walk(os.path.join(lib.REPO, 'src')):
            for f in fs:
                if f.endswith('.rs'):
                    txt = open(os.path.join(dp, f)).read()
                    body = txt.split('#[cfg(test)]')[0]
                    for m in re.finditer(r'impl\s*<[^{;]*?>\s*Push<([^{;]*?)>\s*for\s*([A-Za-z]+)', body, flags=re.S):
                        found.append(f'{m.group(2)}: Push<{re.sub(chr(92) + "s+", " ", m.group(1))}>')
        return sorted(found)
    res.extra['push_impls_in_source'] = inventory()
    run_regions(ctx, res, cases, lambda e, ops, obs: ref_oracle(e, ops, obs, [paired_clause(0, 1), paired_clause(2, 3), heap_pair]), 'full')
    return res

PROPS = {'C01': c01, 'C02': c02, 'C04': c04, 'C08': c08, 'C09': c09, 'C10': c10, 'C11': c11, 'C12': c12,
         'C13': c13, 'C14': c14, 'C16': c16, 'C20': c20}
