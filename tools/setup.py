#!/usr/bin/env python3
"""MANIFEST.setup_cmd: build everything from files on disk (offline): the Coq development (full
.vo), the extracted OCaml driver, the Rust harness in both profiles."""
import os, sys, time
sys.path.insert(0, os.path.dirname(os.path.abspath(__file__)))
import lib, catalogue
t0 = time.time()
catalogue.main()
ok, log = lib.build_coq()
print(log[-1500:]); print(f'coq: {"ok" if ok else "FAILED"} {time.time()-t0:.0f}s')
ok2, log2 = lib.build_driver()
print(f'driver: {"ok" if ok2 else "FAILED"} {log2[-800:] if not ok2 else ""}')
ok3, log3 = lib.build_harness()
print(f'harness: {"ok" if ok3 else "FAILED"} {log3[-1500:] if not ok3 else ""} {time.time()-t0:.0f}s')
# a failure here is reported by the checks themselves (as a broken proof / correspondence)
sys.exit(0)
