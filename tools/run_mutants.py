#!/usr/bin/env python3
"""Apply each seeded change under /verif/seeded/<id>/ to /repo, run the quick check of its property
(and optionally others), undo the change.  Writes seeded/RESULTS.json.  Never commits to /repo.
usage: run_mutants.py [ID ...] [--props C01,C02]"""
import json, os, subprocess, sys, time
ROOT = '/verif'
def sh(cmd, **kw): return subprocess.run(cmd, shell=True, stdout=subprocess.PIPE, stderr=subprocess.STDOUT, text=True, **kw)
def main():
    args = [a for a in sys.argv[1:] if not a.startswith('--')]
    extra = [a.split('=', 1)[1].split(',') for a in sys.argv[1:] if a.startswith('--props=')]
    ids = args or sorted(d for d in os.listdir(f'{ROOT}/seeded') if os.path.isdir(f'{ROOT}/seeded/{d}'))
    resf = f'{ROOT}/seeded/RESULTS.json'
    results = json.load(open(resf)) if os.path.exists(resf) else {}
    assert sh('git -C /repo status --porcelain').stdout.strip() == '', '/repo not clean'
    for i in ids:
        d = f'{ROOT}/seeded/{i}'
        meta = json.load(open(f'{d}/meta.json'))
        if meta.get('retired'): print(i, 'retired:', meta['retired'][:80]); results.pop(i, None); continue
        props = extra[0] if extra else [meta['property']] + meta.get('also_check', [])
        r = sh(f'git -C /repo apply {d}/patch.diff')
        if r.returncode != 0:
            print(i, 'patch does not apply', r.stdout); continue
        out = {}
        try:
            for p in props:
                t0 = time.time()
                c = sh(f'python3 tools/check.py {p} --tier quick', cwd=ROOT)
                lines = [l for l in c.stdout.split('\n') if l.startswith('VIOLATION') or l.startswith('OK')]
                what = ''
                if c.returncode == 1 and lines:
                    rp = lines[0].split('replay=')[1].split()[0]
                    try:
                        j = json.load(open(rp)); what = (j.get('what') or j.get('kind') or '')[:300]
                        what = f"{j.get('entry', '')} {j.get('profile', '')}: {what}"
                    except Exception: pass
                out[p] = {'exit': c.returncode, 'line': lines[0] if lines else c.stdout[-300:], 'what': what, 's': round(time.time() - t0, 1)}
                print(i, p, c.returncode, (lines[0] if lines else c.stdout[-200:])[:160], '|', what[:200], flush=True)
        finally:
            sh('git -C /repo checkout -- .')
        results[i] = out
        json.dump(results, open(resf, 'w'), indent=1)
    assert sh('git -C /repo status --porcelain').stdout.strip() == ''
main()
