#!/usr/bin/env python3
"""Shared machinery of the checks: building (Coq development, extracted driver, Rust harness in
two profiles, all from the current /repo working tree), running histories on the implementation
and on the model, the proof audit, evidence and replay files."""
import fcntl, hashlib, json, os, re, resource, shutil, subprocess, sys, time

ROOT = os.path.dirname(os.path.dirname(os.path.abspath(__file__)))
# The registered checks always run with the defaults (/repo, /verif/build, /verif/evidence).  The three
# overrides exist only for tools/par_mutants.py, which evaluates seeded changes in scratch worktrees in
# parallel: VERIF_REPO (the tree the harness is built against), VERIF_BUILD (cargo target dirs, driver,
# scratch files), VERIF_OUT (where evidence/ and replay/ are written).
REPO = os.environ.get('VERIF_REPO', '/repo')
BUILD = os.environ.get('VERIF_BUILD', os.path.join(ROOT, 'build'))
OUT = os.environ.get('VERIF_OUT', ROOT)
COQ = os.path.join(ROOT, 'coq')
HARNESS_SRC = os.path.join(ROOT, 'harness')
HARNESS = HARNESS_SRC if REPO == '/repo' else os.path.join(BUILD, 'harness')
TARGET = os.path.join(BUILD, 'target')
DRIVER = os.path.join(BUILD, 'driver', 'fcmodel')
ENV = dict(os.environ, CARGO_NET_OFFLINE='true')
PROFILES = {'checked': ('dev', 'debug'), 'wrapping': ('wrapping', 'wrapping')}

ALLOWED_AXIOMS = {
    # axioms of the standard library that a tactic or library may bring in; none is declared here
    'functional_extensionality_dep', 'proof_irrelevance', 'JMeq_eq', 'eq_rect_eq', 'classic',
    'Eqdep.Eq_rect_eq.eq_rect_eq', 'FunctionalExtensionality.functional_extensionality_dep',
}
FORBIDDEN = re.compile(r'\b(Admitted|admit|Axiom|Parameter|Conjecture|Unset Guard Checking|bypass_check|'
                       r'Admit Obligations|type-in-type|impredicative-set)\b')

class Lock:
    def __init__(self, name, where=None):
        os.makedirs(where or BUILD, exist_ok=True)
        self.path = os.path.join(where or BUILD, name + '.lock')
    def __enter__(self):
        self.f = open(self.path, 'w')
        fcntl.flock(self.f, fcntl.LOCK_EX)
    def __exit__(self, *a):
        fcntl.flock(self.f, fcntl.LOCK_UN)
        self.f.close()

def sh(cmd, cwd=None, timeout=1800, env=None):
    p = subprocess.run(cmd, cwd=cwd, env=env or ENV, stdout=subprocess.PIPE, stderr=subprocess.STDOUT,
                       timeout=timeout, text=True)
    return p.returncode, p.stdout

# ------------------------------------------------------------------------------- building
def build_coq(target=None):
    """full .vo build through coq_makefile (never -vos); returns (ok, log)"""
    # (the lock lives beside the sources: runs with different VERIF_BUILD directories share this one Coq tree)
    with Lock('.coqbuild', COQ):
        if not os.path.exists(os.path.join(COQ, 'Makefile')) or \
           os.path.getmtime(os.path.join(COQ, 'Makefile')) < os.path.getmtime(os.path.join(COQ, '_CoqProject')):
            rc, out = sh(['coq_makefile', '-f', '_CoqProject', '-o', 'Makefile'], cwd=COQ)
            if rc != 0: return False, out
        cmd = ['timeout', '1700', 'make', '-j16'] + ([target] if target else [])
        rc, out = sh(cmd, cwd=COQ, timeout=1800)
        return rc == 0, out

def build_driver():
    with Lock('driver'):
        src = os.path.join(COQ, 'model.ml')
        main = os.path.join(ROOT, 'driver', 'main.ml')
        if not os.path.exists(src):
            return False, 'coq/model.ml missing (extraction did not run)'
        d = os.path.join(BUILD, 'driver')
        os.makedirs(d, exist_ok=True)
        if os.path.exists(DRIVER) and os.path.getmtime(DRIVER) >= max(os.path.getmtime(src), os.path.getmtime(main)):
            return True, 'up to date'
        shutil.copy(src, os.path.join(d, 'model.ml'))
        shutil.copy(main, os.path.join(d, 'main.ml'))
        # the generated .mli is deliberately not used (it mis-types records with Type fields)
        rc, out = sh(['ocamlfind', 'ocamlopt', '-w', '-a', '-o', 'fcmodel', 'model.ml', 'main.ml'], cwd=d)
        return rc == 0, out

def _stage_harness():
    """scratch-worktree mode only: a copy of the harness crate whose path dependency points at VERIF_REPO"""
    if HARNESS == HARNESS_SRC: return
    os.makedirs(HARNESS, exist_ok=True)
    for dp, dn, fs in os.walk(HARNESS_SRC):
        dn[:] = [d for d in dn if d != 'target']
        rel = os.path.relpath(dp, HARNESS_SRC)
        os.makedirs(os.path.join(HARNESS, rel), exist_ok=True)
        for f in fs:
            src = os.path.join(dp, f); dst = os.path.join(HARNESS, rel, f)
            txt = open(src, 'rb').read()
            if f == 'Cargo.toml': txt = txt.replace(b'"/repo"', ('"%s"' % REPO).encode())
            if not os.path.exists(dst) or open(dst, 'rb').read() != txt:
                open(dst, 'wb').write(txt)

def build_harness():
    """rebuild the harness against the current working tree of /repo, both profiles in parallel (one cargo
    target directory per profile, so the two builds do not wait for each other's lock)"""
    with Lock('cargo'):
        _stage_harness()
        lock = os.path.join(HARNESS, 'Cargo.lock')
        if not os.path.exists(lock):
            shutil.copy(os.path.join(REPO, 'Cargo.lock'), lock)
        procs = []
        for prof, (pname, _) in PROFILES.items():
            cmd = ['timeout', '1800', 'cargo', 'build', '--offline', '-q'] + ([] if pname == 'dev' else ['--profile', pname])
            env = dict(ENV, CARGO_TARGET_DIR=os.path.join(TARGET, prof))
            procs.append(subprocess.Popen(cmd, cwd=HARNESS, env=env, stdout=subprocess.PIPE, stderr=subprocess.STDOUT, text=True))
        logs = []; ok = True
        for p in procs:
            out, _ = p.communicate()
            logs.append(out); ok = ok and p.returncode == 0
        return ok, '\n'.join(logs)

def harness_bin(prof):
    return os.path.join(TARGET, prof, PROFILES[prof][1], 'fcharness')

# ------------------------------------------------------------------------------- running
_workdir = None
def workdir():
    global _workdir
    if _workdir is None:
        _workdir = os.path.join(BUILD, 'work', f'{os.getpid()}')
        os.makedirs(_workdir, exist_ok=True)
    return _workdir

def cleanup():
    if _workdir and os.path.exists(_workdir):
        shutil.rmtree(_workdir, ignore_errors=True)

def parse_obs_line(line):
    """one history's observations: list of groups, each a list of observation strings"""
    line = line.rstrip('\n')
    if line == '': return []
    return [g.split(' ') if g != '' else [] for g in line.split(';')]

def _big_stack():
    # the extracted model recurses over long lists (non tail-recursive List functions)
    try: resource.setrlimit(resource.RLIMIT_STACK, (resource.RLIM_INFINITY, resource.RLIM_INFINITY))
    except Exception: pass

def _run_sharded(cmd_of, lines, tag, nshards=16):
    """run a line-oriented tool over `lines`, sharded across processes, preserving order"""
    w = workdir()
    n = max(1, min(nshards, (len(lines) + 199) // 200))
    shards = [lines[i::n] for i in range(n)]
    procs = []
    for i, sh_lines in enumerate(shards):
        fi = os.path.join(w, f'{tag}.{i}.in'); fo = os.path.join(w, f'{tag}.{i}.out')
        with open(fi, 'w') as f:
            f.write('\n'.join(sh_lines) + ('\n' if sh_lines else ''))
        procs.append((subprocess.Popen(cmd_of(fi, fo), stdout=subprocess.DEVNULL, stderr=subprocess.PIPE, preexec_fn=_big_stack), fo, len(sh_lines)))
    outs = []
    for p, fo, cnt in procs:
        _, err = p.communicate(timeout=3000)
        got = open(fo).read().split('\n') if os.path.exists(fo) else []
        if got and got[-1] == '': got.pop()
        if p.returncode != 0 or len(got) != cnt:
            # a crash (abort, stack overflow) of the tool: mark the missing lines
            got = got + ['CRASH'] * (cnt - len(got))
        outs.append(got)
    res = [None] * len(lines)
    for i in range(n):
        for j, l in enumerate(outs[i]):
            res[i + j * n] = l
    return res

def run_impl(mode, histories, prof):
    """histories: list of (entry name, [op strings]); returns list of parsed observation lines"""
    lines = [';'.join([name] + ops) for name, ops in histories]
    b = harness_bin(prof)
    out = _run_sharded(lambda fi, fo: [b, mode, fi, fo], lines, f'impl-{mode}-{prof}')
    return [parse_obs_line(l) for l in out]

_csz = None
def column_sizes():
    """size_of::<R>() of the column region of every entry with a ColumnsRegion, measured by the harness"""
    global _csz
    if _csz is None:
        w = workdir(); fo = os.path.join(w, 'sizes.out'); fi = os.path.join(w, 'sizes.in')
        open(fi, 'w').close()
        subprocess.run([harness_bin('checked'), 'sizes', fi, fo], check=True)
        _csz = {l.split()[0]: l.split()[1] for l in open(fo) if l.strip()}
    return _csz

def run_model(mode, histories, prof, numbering):
    """numbering: entry name -> catalogue number; the model takes `NUM CHK` (None: the name itself)"""
    chk = '1' if prof == 'checked' else '0'
    if numbering is None:
        lines = [';'.join([name] + ops) for name, ops in histories]
    else:
        cs = column_sizes()
        lines = [';'.join([f'{numbering[name]:x} {chk} {cs.get(name, "-")}'] + ops) for name, ops in histories]
    out = _run_sharded(lambda fi, fo: [DRIVER, mode, fi, fo], lines, f'model-{mode}-{prof}')
    return [parse_obs_line(l) for l in out]

# ------------------------------------------------------------------------------- extraction cross-check
def coq_uval(u):
    if isinstance(u, bool): return f'(UN {int(u)}%N)'
    if isinstance(u, int): return f'(UN {u}%N)'
    if u is None: return 'UNone'
    if isinstance(u, list): return '(UL [' + '; '.join(coq_uval(x) for x in u) + '])'
    if isinstance(u, tuple): return '(' + {'S': 'USome', 'O': 'UOk', 'E': 'UErr'}[u[0]] + ' ' + coq_uval(u[1]) + ')'
    raise ValueError(u)

def coq_op(op):
    k = op[0]; nats = lambda l: '[' + '; '.join(str(x) for x in l) + ']'
    b = lambda x: 'true' if x else 'false'
    if k == 'push': return f'(OPush {op[1]} {op[2]}%N {coq_uval(op[3])})'
    if k == 'trypush': return f'(OTryPush {op[1]} {op[2]}%N {coq_uval(op[3])})'
    if k == 'probe': return f'(OProbe {op[1]})'
    if k == 'probeo': return f'(OProbeOwned {op[1]})'
    if k == 'read': return f'(ORead {op[1]})'
    if k == 'clear': return f'(OClear {op[1]})'
    if k == 'merge': return f'(OMerge {op[1]} {nats(op[2])})'
    if k == 'clone': return f'(OClone {op[1]} {op[2]})'
    if k == 'clonefrom': return f'(OCloneFrom {op[1]} {op[2]})'
    if k == 'pushitem': return f'(OPushItem {op[1]} {op[2]} {op[3]} {b(op[4])})'
    if k == 'cloneonto': return f'(OCloneOnto {op[1]} {op[2]} {coq_uval(op[3])})'
    if k == 'resitems': return f'(OReserveItems {op[1]} [' + '; '.join(coq_uval(x) for x in op[2]) + '])'
    if k == 'resregs': return f'(OReserveRegions {op[1]} {nats(op[2])})'
    if k == 'heap': return f'(OHeap {op[1]})'
    if k == 'serde': return f'(OSerde {op[1]})'
    if k == 'allocs': return f'(OAllocs {op[1]})'
    if k == 'cmp': return f'(OCmp {op[1]} {op[2]} {b(op[3])} {op[4]} {op[5]} {b(op[6])})'
    raise ValueError(op)

def coq_obs(o, parse):
    if o.startswith('i='): return f'(BIdx {coq_uval(parse(o[2:]))})'
    if o.startswith('v='): return f'(BVal {coq_uval(parse(o[2:]))})'
    return {'P': 'BPanic', 'ILL': 'BIll', '-': 'BNone'}[o]

def vm_crosscheck(cases, model_obs, prof, numbering, parse, limit=25):
    """Re-evaluate a sample of histories INSIDE Coq (vm_compute on the same definitions the theorems are
    about) and compare with what the extracted OCaml driver printed: checks extraction + driver.
    Returns (checked, failures[])"""
    cs = column_sizes()
    chk = 'true' if prof == 'checked' else 'false'
    lines = ['From FC Require Import Base.Res Model.Wire Model.Machine Model.Catalogue Model.Extract.', 'Local Open Scope nat_scope.']
    picked = []
    for i, ((name, ops), mo) in enumerate(zip(cases, model_obs)):
        if len(picked) >= limit: break
        if sum(len(str(o)) for o in ops) > 1500: continue
        if any(g and g[0] in ('CRASH', 'unknown-entry') for g in mo): continue
        picked.append(i)
        sz = cs.get(name, '-')
        szs = '[' + '; '.join(f'{int(x, 16)}%N' for x in (sz.split(',') if sz != '-' else [])) + ']'
        exp = '[' + '; '.join('[' + '; '.join(coq_obs(o, parse) for o in g) + ']' for g in mo) + ']'
        lines.append(f'Goal run_entry {chk} {szs} {numbering[name]}%N [' + '; '.join(coq_op(o) for o in ops) + f'] = Some {exp}.')
        lines.append(f'Proof. vm_compute. first [reflexivity | idtac "MISMATCH {i}"]. Abort.')
    d = os.path.join(BUILD, 'audit'); os.makedirs(d, exist_ok=True)
    f = os.path.join(d, f'cases_{os.getpid()}.v')
    open(f, 'w').write('\n'.join(lines) + '\n')
    rc, out = sh(['timeout', '300', 'coqc', '-Q', COQ, 'FC', f], cwd=d)
    for ext in ('.v', '.vo', '.vok', '.vos', '.glob'):
        try: os.remove(f[:-2] + ext)
        except OSError: pass
    bad = [int(x) for x in re.findall(r'MISMATCH (\d+)', out)]
    if rc != 0 and not bad:
        return len(picked), [{'kind': 'vm_compute-crosscheck', 'detail': out[-1500:]}]
    return len(picked), [{'kind': 'vm_compute-crosscheck', 'case': cases[i][0], 'history': [str(o) for o in cases[i][1]][:50]} for i in bad]

# ------------------------------------------------------------------------------- proof audit
def theorems_of(vfile):
    txt = open(vfile).read()
    return re.findall(r'^\s*(?:Theorem|Corollary)\s+([A-Za-z0-9_\']+)', txt, flags=re.M)

def strip_comments(txt):
    out, depth, i = [], 0, 0
    while i < len(txt):
        if txt.startswith('(*', i): depth += 1; i += 2
        elif txt.startswith('*)', i) and depth > 0: depth -= 1; i += 2
        else:
            if depth == 0: out.append(txt[i])
            i += 1
    return ''.join(out)

def unlisted_sources():
    """every .v file under coq/ must be listed in _CoqProject (else a clean build would not check it)"""
    listed = set(l.strip() for l in open(os.path.join(COQ, '_CoqProject')) if l.strip().endswith('.v'))
    out = []
    for dp, _, fs in os.walk(COQ):
        for f in fs:
            if f.endswith('.v'):
                rel = os.path.relpath(os.path.join(dp, f), COQ)
                if rel not in listed: out.append(rel)
    return out

def grep_forbidden():
    bad = []
    for dp, _, fs in os.walk(COQ):
        for f in fs:
            if f.endswith('.v'):
                p = os.path.join(dp, f)
                body = strip_comments(open(p).read())
                for m in FORBIDDEN.finditer(body):
                    bad.append(f'{os.path.relpath(p, COQ)}: {m.group(0)}')
    return bad

def proof_step(prop, thorough=False):
    """Re-check the theorems of Properties/<prop>.v: full build, forbidden-word scan,
    Print Assumptions per theorem.  Returns dict(obligations, discharged, failed[], log, axioms{})"""
    vfile = os.path.join(COQ, 'Properties', f'{prop}.v')
    res = {'obligations': 0, 'discharged': 0, 'failed': [], 'axioms': {}, 'theorems': [], 'log': ''}
    if not os.path.exists(vfile):
        res['failed'].append(f'Properties/{prop}.v missing'); return res
    names = theorems_of(vfile)
    res['theorems'] = names
    res['obligations'] = len(names)
    ok, log = build_coq()
    res['log'] = log[-4000:]
    if not ok:
        # which theorem files failed?
        res['failed'].append('coq build failed: ' + '; '.join(re.findall(r'File "([^"]+)", line (\d+)', log)[:3].__repr__().split('\n')))
        return res
    ul = unlisted_sources()
    if ul:
        res['failed'].append('sources not listed in _CoqProject: ' + ', '.join(ul[:5]))
        return res
    bad = grep_forbidden()
    if bad:
        res['failed'].append('forbidden constructs: ' + ', '.join(bad[:5]))
        return res
    audit = os.path.join(BUILD, 'audit'); os.makedirs(audit, exist_ok=True)
    af = os.path.join(audit, f'Audit_{prop}.v')
    with open(af, 'w') as f:
        f.write(f'From FC Require Import Properties.{prop}.\n')
        for n in names:
            f.write(f'Goal True. idtac "BEGIN {n}". Abort.\nPrint Assumptions {n}.\n')
        f.write('Goal True. idtac "END". Abort.\n')
    rc, out = sh(['timeout', '600', 'coqc', '-Q', COQ, 'FC', af], cwd=audit)
    if rc != 0:
        res['failed'].append('audit failed: ' + out[-500:]); return res
    cur = None; blocks = {}
    for line in out.split('\n'):
        m = re.match(r'BEGIN (\S+)', line)
        if m: cur = m.group(1); blocks[cur] = []; continue
        if line.startswith('END'): cur = None; continue
        if cur: blocks[cur].append(line)
    for n in names:
        b = '\n'.join(blocks.get(n, []))
        if 'Closed under the global context' in b:
            res['axioms'][n] = []; res['discharged'] += 1
        else:
            ax = re.findall(r'^([A-Za-z0-9_.\']+)\s*:', b, flags=re.M)
            res['axioms'][n] = ax
            if ax and all(a in ALLOWED_AXIOMS or a.split('.')[-1] in ALLOWED_AXIOMS for a in ax):
                res['discharged'] += 1
            else:
                res['failed'].append(f'{n}: assumptions {ax or b[:200]}')
    if thorough:
        vo = os.path.join(COQ, 'Properties', f'{prop}.vo')
        rc, out = sh(['timeout', '1500', 'coqchk', '-silent', '-o', '-Q', COQ, 'FC', f'FC.Properties.{prop}'], cwd=COQ, timeout=1600)
        res['coqchk'] = out[-1500:]
        if rc != 0:
            res['failed'].append('coqchk failed')
    return res

TRUSTED_BASE = [
    'Coq 8.16.1 kernel (coqc; coqchk in the thorough tier); vm_compute in witness lemmas; no native_compute',
    'no axioms declared; Print Assumptions of every property theorem must be closed or within the stdlib allow-list',
    'hand-written Gallina model of the crate (coq/), tied to /repo by the correspondence run of this check',
    'extraction: ExtrOcamlBasic only (bool, option, unit, list, prod, sumbool as OCaml natives); no Extract Constant',
    'OCaml 4.13.1 driver (driver/main.ml), Rust harness (harness/), Python generators and comparators (tools/)',
    'rustc/std (Vec, BTreeMap, BinaryHeap, sort_by stability), serde/serde_json: modelled, not verified',
    'harness/src/state.rs (structure-preserving serde Serializer used for the state tie; nests the fields of tuple regions of arity >= 3), '
    'harness/src/run.rs flat_tuple_h! (flat tuple regions presented as the nested pairs of Region/TupleN.v), harness/src/span.rs (user-defined '
    'dense region; deterministic probes of D15-D17), harness/src/strspan.rs (user-defined sparse Storage<u8>)',
    'implementation-and-oracle-only batches (no model run, no correspondence claimed): span, strspan, probes, C18 large allocations, C17 histories '
    'longer than 2^10 pushes',
    'Section hypotheses only: std Vec growth contract (Resource/Alloc.v), inner byte region total (codec_region_ok); Huffman code lengths '
    '<= 57 is the mergeable premise, proved for statistics below 1 548 008 755 920 counted symbols',
]

# ------------------------------------------------------------------------------- evidence
def write_evidence(prop, tier, seed, coverage, wall, violations, assumptions=None):
    os.makedirs(os.path.join(OUT, 'evidence'), exist_ok=True)
    ev = {'property_id': prop, 'tier': tier, 'seed': seed, 'level': 'proof', 'coverage': coverage,
          'assumptions': assumptions or [], 'wall_s': round(wall, 2), 'violations': violations}
    with open(os.path.join(OUT, 'evidence', f'{prop}.json'), 'w') as f:
        json.dump(ev, f, indent=1)

def write_replay(prop, payload):
    d = os.path.join(OUT, 'replay'); os.makedirs(d, exist_ok=True)
    h = hashlib.sha1(json.dumps(payload, sort_keys=True).encode()).hexdigest()[:12]
    p = os.path.join(d, f'{prop}-{h}.json')
    with open(p, 'w') as f:
        json.dump(payload, f, indent=1)
    return p

def load_known():
    p = os.path.join(ROOT, 'known_findings.json')
    return json.load(open(p)) if os.path.exists(p) else {'known': [], 'fixed': []}
