#!/usr/bin/env python3
"""Regenerate the table at the end of DESIGN.md section 11 from seeded/RESULTS.json and the meta.json files."""
import json, os
ROOT = os.path.dirname(os.path.dirname(os.path.abspath(__file__)))
r = json.load(open(f'{ROOT}/seeded/RESULTS.json'))
out = ['| change | property | breaks (summary) | caught by (quick tier) | first failing observation |', '|---|---|---|---|---|']
def key(x): return (0 if x[0] == 'C' else int(x[1]), x)
for k in sorted(r, key=key):
    m = json.load(open(f'{ROOT}/seeded/{k}/meta.json'))
    if m.get('retired'): continue
    summ = m['summary'].replace('|', '/').replace('\n', ' ')
    summ = summ[:150] + ('…' if len(summ) > 150 else '')
    caught = [p for p, x in r[k].items() if x['exit'] == 1]
    missed = [p for p, x in r[k].items() if x['exit'] == 0]
    what = next((x['what'] for p, x in r[k].items() if x['exit'] == 1), '').replace('|', '/')
    what = what[:110] + ('…' if len(what) > 110 else '')
    c = ', '.join(caught) + (' (not by ' + ', '.join(missed) + ')' if missed else '')
    out.append(f'| {k} | {m["property"]} | {summ} | {c} | {what} |')
p = f'{ROOT}/DESIGN.md'; s = open(p).read()
i = s.index('| change | property | breaks (summary)')
open(p, 'w').write(s[:i] + '\n'.join(out) + '\n')
own = sum(1 for k, v in r.items() if json.load(open(f'{ROOT}/seeded/{k}/meta.json'))['property'] in v and v[json.load(open(f'{ROOT}/seeded/{k}/meta.json'))['property']]['exit'] == 1)
print(len(r), 'changes;', sum(1 for v in r.values() if any(x['exit'] == 1 for x in v.values())), 'caught;', own, 'by their own property')
