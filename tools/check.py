#!/usr/bin/env python3
"""python3 tools/check.py Cxx [--tier quick|thorough] [--replay FILE]

Decides one property: (a) re-checks its theorems (full make, forbidden-word scan, Print
Assumptions), (b) rebuilds the harness from /repo's working tree and evaluates the property's own
oracle on the implementation's observations, (c) compares implementation and model on the
observables the property speaks about.  See DESIGN.md section 5."""
import argparse, json, os, random, sys, time, traceback
sys.path.insert(0, os.path.dirname(os.path.abspath(__file__)))
import lib, gen, catalogue, props

def main():
    ap = argparse.ArgumentParser()
    ap.add_argument('prop')
    ap.add_argument('--tier', default=os.environ.get('VERIF_TIER', 'quick'))
    ap.add_argument('--replay')
    a = ap.parse_args()
    tier = a.tier if a.tier in ('quick', 'thorough') else 'quick'
    seed = int(os.environ.get('VERIF_SEED', '0') or 0)
    prop = a.prop
    t0 = time.time()
    if prop not in props.PROPS:
        print(f'unknown property {prop}'); return 2
    P = props.PROPS[prop]
    violations = []   # (replay payload, found_input: bool)
    known_lines = []
    try:
        # ---- (a) proof step
        proof = lib.proof_step(prop, thorough=(tier == 'thorough'))
        # ---- build step
        ok_d, log_d = lib.build_driver()
        ok_h, log_h = lib.build_harness()
        if not ok_d:
            print(log_d[-2000:]); print('model driver failed to build');
            proof['failed'].append('extracted driver does not build')
        ctx = props.Ctx(prop, tier, seed, a.replay)
        if not ok_h:
            # the crate no longer compiles against the harness: a broken correspondence
            res = props.Result()
            res.corr.append({'kind': 'harness-build', 'detail': log_h[-3000:]})
        elif not ok_d:
            res = props.Result()
        else:
            res = P(ctx)
        # ---- verdict
        for f in res.failures:
            if f.get('known'):
                known_lines.append(f)
            else:
                violations.append((f, True))
        if not violations:
            if res.corr:
                violations.append(({'kind': 'correspondence', 'property': prop,
                                    'clause': res.corr[0].get('kind'), 'first': res.corr[0],
                                    'count': len(res.corr),
                                    'note': 'model and implementation disagree on the observables of this property; '
                                            'the oracle found no failing input in the explored histories'}, False))
            elif proof['failed']:
                violations.append(({'kind': 'proof', 'property': prop, 'failed': proof['failed'],
                                    'log': proof['log'][-1500:],
                                    'note': 'a theorem of this property no longer checks; no failing input found'}, False))
        seen = set()
        for f in known_lines:
            key = f['known']
            if key in seen: continue
            seen.add(key)
            print(f'KNOWN-FINDING: property={prop} {key}')
        cov = {
            'obligations': proof['obligations'], 'discharged': proof['discharged'],
            'checker_cmd': 'make -C coq -j16 (coq_makefile, full .vo) + coqc Print Assumptions audit'
                           + (' + coqchk -o' if tier == 'thorough' else ''),
            'trusted_base': lib.TRUSTED_BASE + res.trusted,
            'theorems': proof['theorems'], 'axioms': proof['axioms'],
            'evaluations': res.evaluations, 'distinct_nontrivial': res.distinct_nontrivial(),
            'rule': res.rule, 'samples': res.samples[:6], 'tags': res.tags, 'runs_per_entry': res.per_entry,
            'per_profile': res.per_profile, 'exhaustive': res.exhaustive,
            'model_vs_impl_compared': res.compared, 'model_vs_impl_disagreements': len(res.corr),
            'known_findings_hit': sorted(seen), 'proof_failures': proof['failed'],
        }
        if 'coqchk' in proof: cov['coqchk_tail'] = proof['coqchk'][-600:]
        cov.update(res.extra)
        nviol = len(violations)
        lib.write_evidence(prop, tier, seed, cov, time.time() - t0, nviol, res.assumptions)
        if violations:
            payload, found = violations[0]
            payload = dict(payload, property=prop, seed=seed, tier=tier, others=len(violations) - 1)
            path = lib.write_replay(prop, payload)
            print(f'VIOLATION property={prop} replay={path}' + ('' if found else ' no-failing-input-found'))
            return 1
        print(f'OK {prop}: {proof["discharged"]}/{proof["obligations"]} theorems, {res.evaluations} evaluations, '
              f'{res.compared} model/impl comparisons, {time.time() - t0:.1f}s')
        return 0
    finally:
        lib.cleanup()

if __name__ == '__main__':
    try:
        sys.exit(main())
    except SystemExit:
        raise
    except Exception:
        traceback.print_exc()
        sys.exit(3)
