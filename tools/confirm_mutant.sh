#!/bin/bash
# confirm_mutant.sh SRC_DIR SEED_ID : confirm a seeded change in a scratch worktree, then keep it as /verif/seeded/SEED_ID
# (suite passes with the change; demo fails with it, passes without it)
set -u
SRC=$1; ID=$2; WT=/tmp/confirm_$ID
export CARGO_NET_OFFLINE=true CARGO_TARGET_DIR=/tmp/confirm_target
REL=""; grep -q '"profile": *"release' $SRC/meta.json && REL="--release"
git -C /repo worktree add -q --detach $WT HEAD || exit 2
cd $WT
cp $SRC/demo.rs tests/seed_demo.rs
base=$(cargo test --offline $REL --test seed_demo 2>&1 | grep -E "^test result:" | head -1)
git apply $SRC/patch.diff || { echo "patch does not apply"; git -C /repo worktree remove --force $WT; exit 2; }
rm tests/seed_demo.rs
suite=$(cargo test --offline 2>&1 | grep -E "^test result:" | tr '\n' ' ')
cp $SRC/demo.rs tests/seed_demo.rs
mut=$(cargo test --offline $REL --test seed_demo 2>&1 | grep -E "^test result:" | head -3 | tr '\n' ' ')
cd /; git -C /repo worktree remove --force $WT
echo "base: $base"; echo "suite-with-change: $suite"; echo "demo-with-change: $mut"
if echo "$base" | grep -q "ok\." && ! echo "$suite" | grep -q "FAILED" && echo "$mut" | grep -q "FAILED"; then
  mkdir -p /verif/seeded/$ID; cp $SRC/patch.diff /verif/seeded/$ID/; cp $SRC/demo.rs /verif/seeded/$ID/
  python3 - "$SRC" "$ID" "$base" "$suite" "$mut" "$REL" <<'PY'
import json,sys
src,id_,base,suite,mut,rel=sys.argv[1:7]
m=json.load(open(src+'/meta.json'))
m['confirmed']={'demo_on_unchanged':base,'suite_with_change':suite,'demo_with_change':mut,'ran':f'tools/confirm_mutant.sh in scratch worktree; cargo test --offline {rel}'.strip()}
json.dump(m,open(f'/verif/seeded/{id_}/meta.json','w'),indent=1)
PY
  echo "CONFIRMED $ID"
else
  echo "NOT CONFIRMED $ID"
fi
