#!/usr/bin/env python3
"""Regenerate MANIFEST.json from the table below (kept valid at all times)."""
import json, os, sys
ROOT = os.path.dirname(os.path.dirname(os.path.abspath(__file__)))
sys.path.insert(0, os.path.join(ROOT, 'tools'))
import props

TEXT = {
 'C06': ('Rocq theorems about the executable word-level model of the Huffman container: optimal code lengths for every count profile; create_from builds correct prefix-free tables for every statistics; encoder, bit iterator and decoder exact at every alignment; RegionOK instance (round trip, append-only, clear, merge, refusal) under the single hypothesis that merged code lengths are at most 57 bits; + correspondence of the model with the crate (bit ranges, decoded symbols, refusals, cost) in two build profiles',
         'hypothesis mergeable: code lengths <= 57 bits (the u64 encoder register; the crate concedes it), proved for fewer than 1 548 008 755 920 counted symbols; statistics counts < 2^63; defects D2, D3, D4, D11 repaired by fix: commits',
         'Rocq proof (word-level model, RegionOK instance) + model/impl differential'),
 'C13': ('Rocq theorems about slice and row read items in both representations: every accessor (len, is_empty, get, iteration, owned conversion) denotes the item\'s own elements, get(k) panics for every k >= len, and the slice iterators are exact-size state machines (the hint before every next is the number of items left) + correspondence on all positions 0..len+2 and usize::MAX-5..usize::MAX, ExactSizeIterator::len asked before every next',
         'defect D10 (slice iterators with the default size_hint) repaired by a fix: commit',
         'Rocq proof (read-item layer) + model/impl differential'),
 'C01': ('generic contract theorems (push_ok + per-combinator RegionOK instances = induction over all compositions, all values, all histories) + correspondence of the executable model with the crate on a 70-entry typed catalogue in two build profiles (tuple regions of arity 3 and 5 included: proved isomorphic to the nested pairs they are run as); catalogue_full: every catalogue entry (bar D8 and collapse-over-f64) provably meets the contract',
         'theorem over any region meeting RegionOK; D8 composition class excluded (Dense) and reported as known finding; floats under CollapseSequence up to IEEE ==',
         'Rocq contract proof + model/impl differential'),
 'C19': ('Rocq theorems about the executable model of Stride / IndexList / IndexOptimized: the documented cost rule for EVERY pushed sequence (io_cost_rule: heap bytes = spill charge of what the maximal stride-matching prefix leaves over; 4 bytes per entry up to the first value >= 2^32, 8 from there on), zero heap for strided-plus-repeats sequences, zero index bytes for a FlatStack over consecutive-pair and over columns regions for any number of items + correspondence of the model with the crate (exhaustive over the transition-covering alphabet)',
         'all N < 2^64; FlatStack clause below 2^64 items',
         'Rocq proof (index-container model) + model/impl differential'),
}
DEFAULT = ('Rocq theorems about the hand-written executable model (unbounded in sizes, histories and nesting) + correspondence check of that model against the crate',
           'see DESIGN.md section 8 (trusted base) and the property section',
           'Rocq proof + model/impl differential')

NOTES = {
 'C07': 'known findings reported by this check: D13 (refused non-first element in columns / consec-over-slice over a coded region), D15 (no free tag), D16 (nested dictionary codecs); defects D5, D6 repaired by fix: commits',
 'C10': 'known finding reported by this check: D17 (unchecked length sums with zero-sized elements, overflow-checked builds only)',
 'C12': 'known findings reported by this check: D8 (ConsecutiveIndexPairs over CollapseSequence), D8b (over a tuple of usize-indexed regions)',
 'C17': 'defects D9 (SliceRegion::merge_regions) and D12 (FlatStack::reserve_items) repaired by fix: commits; theorems under the std Vec growth contract (Section hypotheses)',
 'C18': 'known finding reported by this check: D14 (DictionaryCodec::heap_size is a stub); sizes are parameters measured on the crate',
}

def main():
    ids = [json.loads(l)['id'] for l in open(os.path.join(ROOT, 'properties.jsonl'))]
    checks, na = [], []
    for pid in ids:
        if pid in props.PROPS:
            text, note, tech = TEXT.get(pid, DEFAULT)
            if pid in NOTES: note = NOTES[pid]
            checks.append({
                'property_id': pid,
                'quick_cmd': f'python3 tools/check.py {pid} --tier quick',
                'thorough_cmd': f'python3 tools/check.py {pid} --tier thorough',
                'evidence_file': f'/verif/evidence/{pid}.json',
                'replay_cmd_template': f'python3 tools/check.py {pid} --replay {{path}}',
                'engine': 'rocq-model',
                'level_claimed': {'category': 'proof', 'text': text, 'design_ref': f'DESIGN.md section 7 ({pid})'},
                'level_note': note,
                'technique': tech,
            })
        else:
            na.append({'property_id': pid, 'reason': 'check under construction in this commit (not a judgement of applicability)'})
    m = {
        'version': 1,
        'setup_cmd': 'python3 tools/setup.py',
        'hooks': {'guard': 'flatcontainer_verif', 'enable': 'none needed: all observables are public API',
                  'baseline_off_cmd': 'cd /repo && cargo test --offline', 'source_commits': [], 'add_only': True},
        'engines': [{'name': 'rocq-model', 'path': '/verif/coq', 'serves_properties': [c['property_id'] for c in checks],
                     'kind_free_text': 'Coq 8.16.1 development: executable Gallina model of the crate + contract theorems; extracted to OCaml and run against the Rust crate by tools/check.py'}],
        'checks': checks,
        'notes': 'all checks: python3 tools/check.py Cxx --tier quick|thorough; see DESIGN.md',
        'not_applicable': na,
    }
    json.dump(m, open(os.path.join(ROOT, 'MANIFEST.json'), 'w'), indent=1)
    print(f'{len(checks)} checks, {len(na)} not yet claimed')
main()
