#!/usr/bin/env python3
"""Typed value generators and wire-value helpers.  Wire values in Python:
   int | list | None | ('S', x) | ('O', x) | ('E', x)      (see coq/Model/Wire.v)"""
import random

# ---------------------------------------------------------------- wire syntax
def show(u):
    if isinstance(u, bool): return '1' if u else '0'
    if isinstance(u, int): return format(u, 'x')
    if u is None: return 'N'
    if isinstance(u, list): return '[' + ','.join(show(x) for x in u) + ']'
    if isinstance(u, tuple): return f'{u[0]}({show(u[1])})'
    raise ValueError(u)

def parse(s):
    pos = [0]
    def go():
        c = s[pos[0]] if pos[0] < len(s) else ''
        if c == '[':
            pos[0] += 1; items = []
            if s[pos[0]] == ']': pos[0] += 1; return items
            while True:
                items.append(go())
                if s[pos[0]] == ',': pos[0] += 1
                elif s[pos[0]] == ']': pos[0] += 1; return items
                else: raise ValueError(s)
        if c == 'N': pos[0] += 1; return None
        if c in 'SOE':
            pos[0] += 2; x = go(); pos[0] += 1; return (c, x)
        st = pos[0]
        while pos[0] < len(s) and s[pos[0]] in '0123456789abcdef': pos[0] += 1
        return int(s[st:pos[0]], 16)
    v = go()
    if pos[0] != len(s): raise ValueError('trailing: ' + s)
    return v

# ---------------------------------------------------------------- pools
POOL = {
    'u8': [0, 1, 2, 97, 98, 127, 128, 255],
    'u16': [0, 1, 255, 256, 65535],
    'u32': [0, 1, 65536, 2**32 - 1],
    'u64': [0, 1, 7, 2**32 - 1, 2**32, 2**63, 2**64 - 1, 12345678901234],
    'usize': [0, 1, 2, 3, 7, 2**32 - 1, 2**32, 2**63, 2**64 - 1, 4, 6, 9],
    # f64 bit patterns: +0, -0, 1.0, -1.5, inf, two NaNs, subnormal
    'f64': [0, 0x8000000000000000, 0x3ff0000000000000, 0xbff8000000000000, 0x7ff0000000000000,
            0x7ff8000000000000, 0x7ff8000000000001, 1],
    # two's-complement bit patterns
    'i8': [0, 1, 0x7f, 0x80, 0xff, 0x81],
    'i64': [0, 1, 2**63 - 1, 2**63, 2**64 - 1, 2**32, 2**64 - 2**32],
    'u128': [0, 1, 2**64 - 1, 2**64, 2**127, 2**128 - 1, 2**100 + 12345],
    'i128': [0, 1, 2**127 - 1, 2**127, 2**128 - 1, 2**64],
    'wi32': [0, 1, 2**31 - 1, 2**31, 2**32 - 1],
    'bool': [0, 1],
    # scalar values: ASCII, 2-, 3-, 4-byte, NUL, the neighbours of the surrogate gap, the last one
    'char': [0x61, 0xe9, 0x20ac, 0x1f600, 0, 0xd7ff, 0xe000, 0x10ffff, 0x7f, 0x80],
    # f32 bit patterns: +0, -0, 1.0, -inf, NaN, another NaN, subnormal
    'f32': [0, 0x80000000, 0x3f800000, 0xff800000, 0x7fc00000, 0x7fc00001, 1],
}
STRINGS = ['', 'a', 'ab', 'abc', 'b', 'ü', '€x', '😀', 'é', 'ñandú', 'a\u0000b', 'zz' * 20,
           '߿ࠀ', '￿\U00010000', 'ß€😀']

def str_u(s): return list(s.encode('utf-8'))

def f64_is_nan(b): return ((b >> 52) & 0x7ff) == 0x7ff and (b & ((1 << 52) - 1)) != 0
def f64_eq(a, b):
    if f64_is_nan(a) or f64_is_nan(b): return False
    if (a & (2**63 - 1)) == 0 and (b & (2**63 - 1)) == 0: return True
    return a == b

class ValueGen:
    def __init__(self, rng, big=False):
        self.rng = rng; self.big = big
    def gen(self, shape, depth=0):
        r = self.rng; k = shape[0]
        if k == 'n':
            t = shape[1]
            if t == 'unit': return []
            if r.random() < 0.15 and t in ('u64', 'usize'): return r.randrange(2**64)
            if r.random() < 0.15 and t == 'u8': return r.randrange(256)
            return r.choice(POOL[t])
        if k == 'str':
            if r.random() < 0.1:
                return str_u(''.join(r.choice(['a', 'é', '€', '😀', 'z']) for _ in range(r.randrange(0, 12))))
            return str_u(r.choice(STRINGS))
        if k == 'list':
            lens = [0, 0, 1, 1, 2, 3, 3, 5, 9] if depth < 2 else [0, 1, 2, 3]
            n = r.choice(lens)
            if self.big and depth == 0 and r.random() < 0.03: n = r.choice([40, 300, 1100])
            return [self.gen(shape[1], depth + 1) for _ in range(n)]
        if k == 'opt':
            return None if r.random() < 0.3 else ('S', self.gen(shape[1], depth + 1))
        if k == 'res':
            return ('O', self.gen(shape[1], depth + 1)) if r.random() < 0.6 else ('E', self.gen(shape[2], depth + 1))
        if k == 'tup':
            return [self.gen(s, depth + 1) for s in shape[1]]
        raise ValueError(shape)

def values_equiv(shape, a, b, ieee):
    """equality of wire values of a shape; with ieee, f64 leaves compare by IEEE == (or bitwise)"""
    k = shape[0]
    if k == 'n':
        if shape[1] == 'f64' and ieee: return a == b or f64_eq(a, b)
        return a == b
    if k == 'str': return a == b
    if k == 'list':
        return isinstance(a, list) and isinstance(b, list) and len(a) == len(b) and \
            all(values_equiv(shape[1], x, y, ieee) for x, y in zip(a, b))
    if k == 'opt':
        if a is None or b is None: return a is None and b is None
        return values_equiv(shape[1], a[1], b[1], ieee)
    if k == 'res':
        if a[0] != b[0]: return False
        return values_equiv(shape[1] if a[0] == 'O' else shape[2], a[1], b[1], ieee)
    if k == 'tup':
        return all(values_equiv(s, x, y, ieee) for s, x, y in zip(shape[1], a, b))
    raise ValueError(shape)
