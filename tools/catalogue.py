#!/usr/bin/env python3
"""The catalogue of region compositions, and the code generators that pair each Rust type with
its Coq model term.  One table produces both harness/src/gen.rs and coq/Model/Catalogue.v, so a
Rust type can never be paired with the wrong model.

Type expressions are nested tuples:
  ('own', T) ('mir', T) ('vecr', T) ('str',) ('strof', X)
  ('sl', X, O) ('opt', X) ('res', X, Y) ('tup2', X, Y)
  ('col', X) ('con', X, O) ('cols', X, O)
with T in u8 u16 u32 u64 usize unit f64 and O in vec iopt ilist.
"""
import os, sys, hashlib

ELEM_BITS = {'u8': 8, 'u16': 16, 'u32': 32, 'u64': 64, 'usize': 64, 'u128': 128}
ELEM_SIZE = {'u8': 1, 'u16': 2, 'u32': 4, 'u64': 8, 'usize': 8, 'unit': 0, 'f64': 8,
             'u128': 16, 'i8': 1, 'i64': 8, 'i128': 16, 'bool': 1, 'char': 4, 'f32': 4, 'wi32': 4}
# element types beyond the unsigned words: how they appear in Rust and in the Coq model (Wire.v)
ELEM_RUST = {'unit': '()', 'wi32': 'std::num::Wrapping<i32>'}
ELEM_COQ = {'unit': 'e_unit', 'f64': 'e_f64', 'f32': 'e_f32', 'bool': 'e_bool', 'char': 'e_char',
            'i8': '(e_bits 8)', 'i64': '(e_bits 64)', 'i128': '(e_bits 128)', 'wi32': '(e_bits 32)'}
UNORDERED = ('f64', 'f32', 'i8', 'i64', 'i128', 'wi32')   # no order claimed by the model (IEEE / signed)

def own(t): return ('own', t)
def mir(t): return ('mir', t)
def vecr(t): return ('vecr', t)
STR = ('str',)
CDC = ('cdc',)
def huf(t): return ('huf', t)   # HuffmanContainer<t>   # CodecRegion<DictionaryCodec, OwnedRegion<u8>>
def strof(x): return ('strof', x)
def sl(x, o='vec'): return ('sl', x, o)
def opt(x): return ('opt', x)
def res(x, y): return ('res', x, y)
def tup2(x, y): return ('tup2', x, y)
def tupn(*xs):
    """the flat Rust tuple region of arity len(xs) >= 3 (TupleABCRegion, ...), MODELLED as right-nested pairs: the
    expression is a 'tup2' whose second component is a 'tup2', marked 'flat'; everything on the model / oracle
    side sees nested pairs, only the Rust type and the input-form glue see the flat tuple (harness: flat_tuple_h)"""
    if len(xs) == 2: return tup2(*xs)
    return ('tup2', xs[0], tupn(*xs[1:]), 'flat')
def flat_components(e):
    """components of the Rust tuple region a 'tup2' expression stands for"""
    if len(e) > 3 and e[3] == 'flat': return [e[1]] + flat_components(e[2])
    return [e[1], e[2]]
def col(x): return ('col', x)
def con(x, o='iopt'): return ('con', x, o)
def cols(x, o='iopt'): return ('cols', x, o)

# name -> expression
ENTRIES = [
    ('own_u8', own('u8')),
    ('own_u64', own('u64')),
    ('mir_u8', mir('u8')),
    ('mir_u64', mir('u64')),
    ('mir_unit', mir('unit')),
    ('mir_f64', mir('f64')),
    ('vecr_u64', vecr('u64')),
    ('str', STR),
    ('sl_str', sl(STR)),
    ('sl_own_u8', sl(own('u8'))),
    ('sl_mir_u64', sl(mir('u64'))),
    ('sl_mir_unit', sl(mir('unit'))),
    ('sl_mir_usize_iopt', sl(mir('usize'), 'iopt')),
    ('sl_mir_usize_ilist', sl(mir('usize'), 'ilist')),
    ('sl3_mir_u8', sl(sl(sl(mir('u8'))))),
    ('opt_str', opt(STR)),
    ('res_str_mir_u8', res(STR, mir('u8'))),
    ('tup2_str_sl_str', tup2(STR, sl(STR))),
    ('sl_opt_res', sl(opt(res(STR, mir('u16'))))),
    ('col_own_u8', col(own('u8'))),
    ('col_str', col(STR)),
    ('col_mir_f64', col(mir('f64'))),
    ('col_con_own_u64', col(con(own('u64'), 'vec'))),
    ('con_str_iopt', con(STR, 'iopt')),
    ('con_str_vec', con(STR, 'vec')),
    ('con_str_ilist', con(STR, 'ilist')),
    ('con_own_u64', con(own('u64'), 'iopt')),
    ('con_sl_str', con(sl(STR), 'iopt')),
    ('col_con_str', col(con(STR, 'iopt'))),
    ('con_col_own_u8', con(col(own('u8')), 'iopt')),          # known-bad composition (D8)
    ('sl_con_str_iopt', sl(con(STR, 'iopt'), 'iopt')),
    ('sl_col_con_str', sl(col(con(STR, 'iopt')), 'ilist')),
    ('cols_str', cols(STR, 'iopt')),
    ('cols_mir_u8_vec', cols(mir('u8'), 'vec')),
    ('cols_col_con_str', cols(col(con(STR, 'iopt')), 'iopt')),
    ('cols_sl_str_ilist', cols(sl(STR), 'ilist')),
    ('sl_cols_mir_u8', sl(cols(mir('u8'), 'iopt'), 'iopt')),
    ('tup2_col_str_opt_u64', tup2(col(STR), opt(mir('u64')))),
    ('res_sl_own_u8_cols', res(sl(own('u8')), cols(STR, 'vec'))),
    ('strof_con_own_u8', strof(con(own('u8'), 'iopt'))),
    ('strof_col_own_u8', strof(col(own('u8')))),
    ('cdc', CDC),
    ('strof_cdc', strof(CDC)),
    ('con_strof_cdc', con(strof(CDC), 'iopt')),
    ('sl_strof_cdc', sl(strof(CDC))),
    ('cols_cdc', cols(CDC, 'iopt')),
    ('col_cdc', col(CDC)),
    ('huf_u8', huf('u8')),
    ('huf_u16', huf('u16')),
    ('sl_huf_u8', sl(huf('u8'))),
    ('tup2_huf_str', tup2(huf('u8'), STR)),
    ('col_huf_u8', col(huf('u8'))),
    ('sl_vecr_u32', sl(vecr('u32'))),
    ('opt_vecr_u64', opt(vecr('u64'))),
    ('res_vecr_u8_vecr_u16', res(vecr('u8'), vecr('u16'))),
    # flat tuple regions of arity 3 and 5 (modelled as right-nested pairs, see tupn)
    ('tup3_str_mir_u64_sl_own_u8', tupn(STR, mir('u64'), sl(own('u8')))),
    ('sl_tup3_mir_u8_str_opt', sl(tupn(mir('u8'), STR, opt(mir('u16'))))),
    ('tup5_mir_str_own_opt_col', tupn(mir('u8'), STR, own('u16'), opt(STR), col(STR))),
    ('tup2_cdc_str', tup2(CDC, STR)),
    # the other primitive types MirrorRegion is implemented for (signed, 128-bit, bool, char, f32, Wrapping)
    ('mir_i8', mir('i8')), ('mir_i64', mir('i64')), ('mir_u128', mir('u128')), ('mir_i128', mir('i128')),
    ('mir_bool', mir('bool')), ('mir_char', mir('char')), ('mir_f32', mir('f32')), ('mir_wi32', mir('wi32')),
    ('sl_mir_i64', sl(mir('i64'))), ('opt_mir_char', opt(mir('char'))),
    ('con_sl_cdc', con(sl(CDC))),
]

# FlatStack<R, S> entries: name -> (region expression, index container)
FS_ENTRIES = [
    ('fs_str_vec', STR, 'vec'),
    ('fs_sl_str_vec', sl(STR), 'vec'),
    ('fs_mir_usize_vec', mir('usize'), 'vec'),
    ('fs_mir_usize_iopt', mir('usize'), 'iopt'),
    ('fs_mir_usize_ilist', mir('usize'), 'ilist'),
    ('fs_con_str_iopt', con(STR, 'iopt'), 'iopt'),
    ('fs_con_str_ilist', con(STR, 'vec'), 'ilist'),
    ('fs_con_str_vec', con(STR, 'iopt'), 'vec'),
    ('fs_cols_str_iopt', cols(STR, 'iopt'), 'iopt'),
    ('fs_cols_con_iopt', cols(col(con(STR, 'iopt')), 'iopt'), 'iopt'),
    ('fs_col_str_vec', col(STR), 'vec'),
    ('fs_vecr_u64_iopt', vecr('u64'), 'iopt'),
    ('fs_opt_str_vec', opt(STR), 'vec'),
    ('fs_con_sl_str_iopt', con(sl(STR), 'iopt'), 'iopt'),
    ('fs_strof_cdc_vec', strof(CDC), 'vec'),
    ('fs_con_strof_cdc_iopt', con(strof(CDC), 'iopt'), 'iopt'),
    ('fs_tup3_vec', tupn(STR, mir('u64'), sl(own('u8'))), 'vec'),
]

def by_name(): return dict(ENTRIES)

# ---------------------------------------------------------------- static attributes
def idx_kind(e):
    """shape of Region::Index: 'pair', 'usize', ('val', T), ('opt', k), ('res', a, b), ('tup', [..])"""
    k = e[0]
    if k in ('own', 'sl', 'cdc', 'huf'): return 'pair'
    if k == 'mir': return ('val', e[1])
    if k == 'vecr': return 'usize'
    if k == 'str': return 'pair'
    if k in ('strof', 'col'): return idx_kind(e[1])
    if k == 'opt': return ('opt', idx_kind(e[1]))
    if k == 'res': return ('res', idx_kind(e[1]), idx_kind(e[2]))
    if k == 'tup2': return ('tup', [idx_kind(e[1]), idx_kind(e[2])])
    if k in ('con', 'cols'): return 'usize'
    raise ValueError(e)

def shape(e):
    """shape of Region::Owned, for the value generators"""
    k = e[0]
    if k == 'own': return ('list', ('n', e[1]))
    if k == 'cdc': return ('list', ('n', 'u8'))
    if k == 'huf': return ('list', ('n', e[1]))
    if k in ('mir', 'vecr'): return ('n', e[1])
    if k in ('str', 'strof'): return ('str',)
    if k in ('sl', 'cols'): return ('list', shape(e[1]))
    if k == 'opt': return ('opt', shape(e[1]))
    if k == 'res': return ('res', shape(e[1]), shape(e[2]))
    if k == 'tup2': return ('tup', [shape(e[1]), shape(e[2])])
    if k in ('col', 'con'): return shape(e[1])
    raise ValueError(e)

def contains(e, kind):
    return e[0] == kind or any(isinstance(x, tuple) and contains(x, kind) for x in e[1:])

def caps(e):
    cd = contains(e, 'cdc'); hf = contains(e, 'huf')
    c = {'clone': not cd, 'serde': not cd and not hf, 'heap': not hf, 'reserve_regions': not hf,
         'reserve_items': not contains(e, 'col') and not contains(e, 'cols') and not cd and not hf, 'pushitem': True}
    return c

def is_known_bad(e):
    """ConsecutiveIndexPairs over a region that is not dense (D8): consec directly over collapse"""
    if e[0] == 'con' and strip_str(e[1])[0] == 'col': return True
    return any(isinstance(x, tuple) and is_known_bad(x) for x in e[1:])

def strip_str(e):
    return strip_str(e[1]) if e[0] == 'strof' else e

# ---------------------------------------------------------------- Rust
def rust_elem(t): return ELEM_RUST.get(t, t)

def rust_ic(o, idx_ty):
    return {'vec': f'Vec<{idx_ty}>', 'iopt': 'IndexOptimized', 'ilist': 'IndexList<Vec<u32>, Vec<u64>>'}[o]

def rust_type(e):
    k = e[0]
    if k == 'own': return f'OwnedRegion<{rust_elem(e[1])}>'
    if k == 'cdc': return 'CodecRegion<DictionaryCodec>'
    if k == 'huf': return f'HuffmanContainer<{rust_elem(e[1])}>'
    if k == 'mir': return f'MirrorRegion<{rust_elem(e[1])}>'
    if k == 'vecr': return f'Vec<{rust_elem(e[1])}>'
    if k == 'str': return 'StringRegion'
    if k == 'strof': return f'StringRegion<{rust_type(e[1])}>'
    if k == 'sl':
        x = rust_type(e[1]); return f'SliceRegion<{x}, {rust_ic(e[2], f"<{x} as Region>::Index")}>'
    if k == 'opt': return f'OptionRegion<{rust_type(e[1])}>'
    if k == 'res': return f'ResultRegion<{rust_type(e[1])}, {rust_type(e[2])}>'
    if k == 'tup2':
        cs = flat_components(e)
        return f'Tuple{"ABCDE"[:len(cs)]}Region<' + ', '.join(rust_type(c) for c in cs) + '>'
    if k == 'col': return f'CollapseSequence<{rust_type(e[1])}>'
    if k == 'con': return f'ConsecutiveIndexPairs<{rust_type(e[1])}, {rust_ic(e[2], "usize")}>'
    if k == 'cols': return f'ColumnsRegion<{rust_type(e[1])}, {rust_ic(e[2], "usize")}>'
    raise ValueError(e)

def item_kind(e):
    """kind of Region::ReadItem, for the PartialEq bound of CollapseSequence"""
    k = e[0]
    if k in ('own', 'cdc'): return 'slice'
    if k == 'huf': return 'wrapped'
    if k in ('str', 'strof'): return 'str'
    if k == 'mir': return 'val'
    if k == 'vecr': return 'ref'
    if k in ('col', 'con'): return item_kind(e[1])
    return k

def ref_ok(e):
    """does the region implement Push<&Owned> ?"""
    k = e[0]
    if k in ('own', 'str', 'mir', 'vecr'): return True
    if k == 'cdc': return False
    if k == 'huf': return True
    if k == 'strof': return True
    if k in ('sl', 'cols', 'opt', 'con'): return ref_ok(e[1])
    if k in ('res', 'tup2'): return ref_ok(e[1]) and ref_ok(e[2])
    if k == 'col': return ref_ok(e[1]) and item_kind(e[1]) in ('slice', 'str')
    raise ValueError(e)

def cmp_ok(e):
    """is the read item Ord (slices of comparable things, strings, integers)?"""
    k = e[0]
    if k == 'own': return e[1] not in UNORDERED
    if k in ('cdc', 'huf'): return True
    if k == 'mir': return e[1] not in UNORDERED
    if k == 'vecr': return e[1] not in UNORDERED
    if k in ('str', 'strof'): return True
    if k == 'sl': return cmp_ok(e[1])
    if k == 'cols': return False
    if k == 'opt': return cmp_ok(e[1])
    if k in ('res', 'tup2'): return cmp_ok(e[1]) and cmp_ok(e[2])
    if k in ('col', 'con'): return cmp_ok(e[1])
    raise ValueError(e)

def elem_views(e):
    """typed input forms: list of (name, f, nestable) where f(var) is a Rust expression that turns
    `var: &Owned` into a value the region's Push accepts; nestable = usable inside a closure"""
    k = e[0]
    P = lambda v: f'({v})'
    if k == 'own':
        return [('ref', lambda v: v, True), ('slice', lambda v: f'{P(v)}.as_slice()', True),
                ('owned', lambda v: f'{P(v)}.clone()', True),
                ('refslice', lambda v: f'&{P(v)}.as_slice()', False),
                ('iter', lambda v: f'PushIter({P(v)}.iter().copied())', True)]
    if k == 'cdc':
        return [('slice', lambda v: f'{P(v)}.as_slice()', True)]
    if k == 'huf':
        return [('ref', lambda v: v, True), ('slice', lambda v: f'{P(v)}.as_slice()', True),
                ('owned', lambda v: f'{P(v)}.clone()', True)]
    if k in ('mir', 'vecr'):
        return [('ref', lambda v: v, True), ('val', lambda v: f'*{P(v)}', True), ('refref', lambda v: f'&{P(v)}', False)]
    if k in ('str', 'strof'):
        return [('ref', lambda v: v, True), ('str', lambda v: f'{P(v)}.as_str()', True),
                ('owned', lambda v: f'{P(v)}.clone()', True), ('refstr', lambda v: f'&{P(v)}.as_str()', False)]
    if k in ('sl', 'cols'):
        out = []
        if ref_ok(e[1]):
            out += [('ref', lambda v: v, True), ('slice', lambda v: f'{P(v)}.as_slice()', True)]
            if k == 'sl': out.append(('refref', lambda v: f'&{P(v)}', False))
            if k == 'cols': out.append(('iter', lambda v: f'PushIter({P(v)}.iter())', True))
        for n, f, nest in elem_views(e[1])[:4]:
            if nest:
                out.append((f'vec_{n}', (lambda f: lambda v: f'{P(v)}.iter().map(|y| {f("y")}).collect::<Vec<_>>()')(f), True))
        return out
    if k == 'opt':
        out = [('ref', lambda v: v, True)] if ref_ok(e[1]) else []
        for n, f, nest in elem_views(e[1])[:4]:
            if nest:
                out.append((f'opt_{n}', (lambda f: lambda v: f'{P(v)}.as_ref().map(|y| {f("y")})')(f), True))
        return out
    if k == 'res':
        out = [('ref', lambda v: v, True)] if ref_ok(e) else []
        va = [x for x in elem_views(e[1]) if x[2]]; vb = [x for x in elem_views(e[2]) if x[2]]
        for i in range(min(4, max(len(va), len(vb)))):
            na, fa, _ = va[i % len(va)]; nb, fb, _ = vb[i % len(vb)]
            out.append((f'res_{na}_{nb}', (lambda fa, fb: lambda v: f'match {P(v)} {{ Ok(a) => Ok({fa("a")}), Err(b) => Err({fb("b")}) }}')(fa, fb), True))
        return out
    if k == 'tup2':
        out = [('ref', lambda v: v, True)] if ref_ok(e) else []
        vs = [[x for x in elem_views(c) if x[2]] for c in flat_components(e)]
        for i in range(min(4, max(len(v) for v in vs))):
            pick = [v[i % len(v)] for v in vs]
            out.append(('tup_' + '_'.join(p[0] for p in pick),
                        (lambda pick: lambda v: '(' + ', '.join(p[1](f'&{P(v)}.{j}') for j, p in enumerate(pick)) + ')')(pick), True))
        return out
    if k == 'con':
        return elem_views(e[1])
    if k == 'col':
        ik = item_kind(e[1])
        allow = {'slice': ('ref', 'slice', 'owned'), 'str': ('ref', 'str', 'owned'), 'val': ('val',)}.get(ik, ())
        return [x for x in elem_views(e[1]) if x[0] in allow]
    raise ValueError(e)

def res_views(e):
    """input forms for which the region implements ReserveItems: list of (name, f) where f(var) turns `var: &Owned`
    into a value of that form (usable inside a closure)"""
    k = e[0]
    P = lambda v: f'({v})'
    if k == 'own': return [('ref', lambda v: v), ('slice', lambda v: f'{P(v)}.as_slice()')]
    if k in ('mir', 'vecr'): return [('ref', lambda v: v), ('val', lambda v: f'*{P(v)}')]
    if k in ('str', 'strof'): return [('ref', lambda v: v), ('str', lambda v: f'{P(v)}.as_str()')]
    if k == 'sl': return [('ref', lambda v: v), ('slice', lambda v: f'{P(v)}.as_slice()')]
    if k == 'opt':
        return [('ref', lambda v: v)] + [(f'opt_{n}', (lambda f: lambda v: f'{P(v)}.as_ref().map(|y| {f("y")})')(f)) for n, f in res_views(e[1])]
    if k == 'res':
        va = res_views(e[1]); vb = res_views(e[2]); out = [('ref', lambda v: v)]
        for i in range(max(len(va), len(vb))):
            na, fa = va[i % len(va)]; nb, fb = vb[i % len(vb)]
            out.append((f'res_{na}_{nb}', (lambda fa, fb: lambda v: f'match {P(v)} {{ Ok(a) => Ok({fa("a")}), Err(b) => Err({fb("b")}) }}')(fa, fb)))
        return out
    if k == 'tup2':
        vs = [res_views(c) for c in flat_components(e)]; out = [('ref', lambda v: v)]
        for i in range(max(len(v) for v in vs)):
            pick = [v[i % len(v)] for v in vs]
            out.append(('tup_' + '_'.join(p[0] for p in pick),
                        (lambda pick: lambda v: '(' + ', '.join(p[1](f'&{P(v)}.{j}') for j, p in enumerate(pick)) + ')')(pick)))
        return out
    if k == 'con': return res_views(e[1])
    raise ValueError(e)

def reserve_forms(e):
    """statements calling reserve_items on `self` for `items: &[Self::Owned]`, one per input form (0 = by reference)"""
    out = []
    for n, f in res_views(e):
        if n == 'ref': out.append((n, 'self.reserve_items(items.iter());'))
        else: out.append((n, f'self.reserve_items(items.iter().map(|v| {f("v")}));'))
    if e[0] in ('str', 'strof'):
        out.append(('refstr', 'let tmp: Vec<&str> = items.iter().map(|v| v.as_str()).collect(); self.reserve_items(tmp.iter());'))
    return out

def forms(e):
    """the input forms offered for an entry: list of (name, rust expression over `self`, `v: &Owned`)"""
    fs = [('borrowed_item', 'push_borrowed(self, v)')]
    for n, f, _ in elem_views(e):
        fs.append((n, f'Push::push(self, {f("v")})'))
    fs += array_forms(e)
    if e[0] == 'cols' and ref_ok(e[1]):
        # a wrapped iterator over a read item of ANOTHER region: the row stored in a scratch SliceRegion and its
        # ReadSlice iterator pushed (that iterator's size_hint is the default (0, None))
        fs.append(('iter_of_read_slice', f'{{ let mut tmp = <SliceRegion<{rust_type(e[1])}>>::default(); let i = tmp.push(v); '
                   'let it = tmp.index(i); Push::push(self, PushIter(it.iter())) }'))
    return fs

def array_forms(e):
    """the array input forms ([T; N], &[T; N], &&[T; N]) of the top-level region, for values of length 1..3;
    other lengths fall back to the canonical form"""
    k = e[0]; out = []
    fallback = 'push_borrowed(self, v)'
    def arms(fmt):
        return 'match v.len() { ' + ' '.join(fmt.format(n=n) for n in (1, 2, 3)) + f' _ => {fallback} }}'
    if k == 'own' or (k in ('sl', 'cols') and ref_ok(e[1])) or k == 'huf':
        out.append(('array', arms('{n} => match <[_; {n}]>::try_from(v.clone()) {{ Ok(a) => Push::push(self, a), Err(_) => unreachable!() }},')))
        out.append(('ref_array', arms('{n} => Push::push(self, <&[_; {n}]>::try_from(v.as_slice()).unwrap()),')))
    if k == 'own' or (k == 'sl' and ref_ok(e[1])):
        out.append(('refref_array', arms('{n} => Push::push(self, &<&[_; {n}]>::try_from(v.as_slice()).unwrap()),')))
    return out

def size_slots(e, acc=None):
    """pre-order list of the Rust types whose size_of the model needs: for every SliceRegion with a
    Vec index container the child's Index type; for every ColumnsRegion the child region type and the
    child's Index type"""
    if acc is None: acc = []
    k = e[0]
    if k == 'sl' and e[2] == 'vec':
        acc.append(f'<{rust_type(e[1])} as Region>::Index')
    if k == 'cols':
        acc.append(rust_type(e[1])); acc.append(f'<{rust_type(e[1])} as Region>::Index')
    for x in e[1:]:
        if isinstance(x, tuple): size_slots(x, acc)
    return acc

def find_cols(e):
    if e[0] == 'cols': return e
    for x in e[1:]:
        if isinstance(x, tuple):
            r = find_cols(x)
            if r is not None: return r
    return None

def gen_rust():
    out = ['// GENERATED by tools/catalogue.py -- do not edit', '#![allow(unused_imports)]',
           'use crate::run::*;', 'use crate::wire::*;',
           'use flatcontainer::impls::deduplicate::{CollapseSequence, ConsecutiveIndexPairs};',
           'use flatcontainer::impls::codec::{CodecRegion, DictionaryCodec};',
           'use flatcontainer::impls::huffman_container::HuffmanContainer;',
           'use flatcontainer::impls::index::{IndexList, IndexOptimized};',
           'use flatcontainer::impls::tuple::*;', 'use flatcontainer::*;', '']
    seen = {}
    for name, e in ENTRIES:
        ty = rust_type(e)
        c = caps(e)
        if ty in seen: continue
        seen[ty] = name
        fs = forms(e)
        out.append(f'impl Caps for {ty} {{')
        out.append(f'    fn nforms() -> u32 {{ {len(fs)} }}')
        out.append('    fn push_form(&mut self, v: &Self::Owned, form: u32) -> Self::Index {')
        out.append('        match form {')
        for i, (fname, expr) in enumerate(fs):
            pat = '_' if i == 0 else str(i)
            if i > 0: out.append(f'            {pat} => {expr}, // {fname}')
        out.append(f'            _ => {fs[0][1]}, // {fs[0][0]}')
        out.append('        }')
        out.append('    }')
        out.append('    fn push_item(&mut self, src: &Self, i: Self::Index, owned: bool) -> Self::Index { push_item_generic(self, src, i, owned) }')
        if c['clone']:
            out.append('    fn try_clone(&self) -> Option<Self> { Some(self.clone()) }')
            out.append('    fn try_clone_from(&mut self, src: &Self) -> bool { self.clone_from(src); true }')
        if c['reserve_items'] and ref_ok(e):
            out.append('    fn try_reserve_items(&mut self, items: &[Self::Owned]) -> bool { self.reserve_items(items.iter()); true }')
            out.append('    fn try_fs_reserve_items<S: flatcontainer::impls::index::IndexContainer<Self::Index>>(fs: &mut FlatStack<Self, S>, items: &[Self::Owned]) -> bool { fs.reserve_items(items.iter()); true }')
            rf = reserve_forms(e)
            out.append('    fn try_reserve_items_form(&mut self, items: &[Self::Owned], form: u32) -> bool {')
            out.append('        match form {')
            for i, (fname, code) in enumerate(rf):
                if i > 0: out.append(f'            {i} => {{ {code} }} // {fname}')
            out.append(f'            _ => {{ {rf[0][1]} }} // {rf[0][0]}')
            out.append('        }')
            out.append('        true')
            out.append('    }')
        if c['serde']:
            out.append('    fn try_serde(&self) -> Option<Self> { Some(serde_generic(self)) }')
            out.append('    fn try_state(&self) -> Option<U> { Some(crate::state::state_u(self)) }')
        if cmp_ok(e):
            out.append('    fn try_cmp(&self, i: Self::Index, a: bool, other: &Self, j: Self::Index, b: bool) -> Option<U> { Some(cmp_generic(self, i, a, other, j, b)) }')
        out.append('}')
    out.append('')
    out.append('pub fn dispatch(name: &str, ops: &[Op]) -> Option<Vec<Vec<Obs>>> {')
    out.append('    Some(match name {')
    for name, e in ENTRIES:
        out.append(f'        "{name}" => run_entry::<{rust_type(e)}>(ops),')
    out.append('        _ => return None,')
    out.append('    })')
    out.append('}')
    out.append('')
    out.append('pub const NAMES: &[&str] = &[' + ', '.join(f'"{n}"' for n, _ in ENTRIES) + '];')
    out.append('')
    # Caps impls for regions that only occur under a FlatStack entry
    for name, e, o in FS_ENTRIES:
        ty = rust_type(e)
        if ty in seen: continue
        seen[ty] = name
        fs = forms(e)
        out.append(f'impl Caps for {ty} {{')
        out.append(f'    fn nforms() -> u32 {{ {len(fs)} }}')
        out.append('    fn push_form(&mut self, v: &Self::Owned, form: u32) -> Self::Index {')
        out.append('        match form {')
        for i, (fname, expr) in enumerate(fs):
            if i > 0: out.append(f'            {i} => {expr}, // {fname}')
        out.append(f'            _ => {fs[0][1]}, // {fs[0][0]}')
        out.append('        }')
        out.append('    }')
        out.append('    fn push_item(&mut self, src: &Self, i: Self::Index, owned: bool) -> Self::Index { push_item_generic(self, src, i, owned) }')
        if caps(e)['reserve_items'] and ref_ok(e):
            out.append('    fn try_fs_reserve_items<S: flatcontainer::impls::index::IndexContainer<Self::Index>>(fs: &mut FlatStack<Self, S>, items: &[Self::Owned]) -> bool { fs.reserve_items(items.iter()); true }')
        out.append('}')
    out.append('/// size_of of the types the model needs sizes for, per entry (see catalogue.size_slots)')
    out.append('pub fn entry_sizes() -> Vec<(&\'static str, Vec<usize>)> {')
    out.append('    vec![')
    for name, e in ENTRIES:
        ss = size_slots(e)
        out.append(f'        ("{name}", vec![' + ', '.join(f'std::mem::size_of::<{t}>()' for t in ss) + ']),')
    for name, e, o in FS_ENTRIES:
        ss = size_slots(e) + ([f'<{rust_type(e)} as Region>::Index'] if o == 'vec' else [])
        out.append(f'        ("{name}", vec![' + ', '.join(f'std::mem::size_of::<{t}>()' for t in ss) + ']),')
    out.append('    ]')
    out.append('}')
    out.append('pub fn dispatch_fs(name: &str, ops: &[crate::fs::FsOp]) -> Option<Vec<U>> {')
    out.append('    Some(match name {')
    for name, e, o in FS_ENTRIES:
        rt = rust_type(e)
        ict = rust_ic(o, f'<{rt} as Region>::Index')
        sd = f'Some(crate::fs::fs_serde::<{rt}, {ict}>)' if caps(e)['serde'] else 'None'
        cl = f'Some(crate::fs::fs_clone::<{rt}, {ict}>)' if caps(e)['clone'] else 'None'
        out.append(f'        "{name}" => crate::fs::run_fs::<{rt}, {ict}>(ops, {sd}, {cl}),')
    out.append('        _ => return None,')
    out.append('    })')
    out.append('}')
    return '\n'.join(out) + '\n'

# ---------------------------------------------------------------- Coq
def coq_elem(t):
    if t in ELEM_COQ: return ELEM_COQ[t]
    return f'(e_word {ELEM_BITS[t]})'

def idx_size(k):
    """size_of::<Index>() under the current rustc layout rules (used for heap accounting only)"""
    if k == 'pair': return 16
    if k == 'usize': return 8
    if k[0] == 'val': return ELEM_SIZE[k[1]]
    if k[0] == 'opt':
        return idx_size(k[1]) + 8
    if k[0] == 'res':
        return max(idx_size(k[1]), idx_size(k[2])) + 8
    if k[0] == 'tup':
        return sum(idx_size(x) for x in k[1])
    raise ValueError(k)

def coq_ic_nat(o):
    return {'vec': '(vec_ic nat 8)', 'iopt': '(ic_nat index_optimized)', 'ilist': '(ic_nat index_list)'}[o]

def coq_term(e, ctr=None):
    """ctr: running index into the entry's size slots (same pre-order as size_slots)"""
    if ctr is None: ctr = [0]
    def slot():
        i = ctr[0]; ctr[0] += 1; return f'(nth {i} szs 0%N)'
    k = e[0]
    if k == 'own': return f'(m_owned {coq_elem(e[1])})'
    if k == 'cdc': return 'm_codec'
    if k == 'huf': return f'(m_huffman {ELEM_BITS[e[1]]})'
    if k == 'mir': return f'(m_mirror {coq_elem(e[1])})'
    if k == 'vecr': return f'(m_vec {coq_elem(e[1])})'
    if k == 'str': return '(m_string str_wf (m_owned (e_word 8)))'
    if k == 'strof': return f'(m_string str_wf {coq_term(e[1], ctr)})'
    if k == 'sl':
        ik = idx_kind(e[1])
        if e[2] == 'vec':
            sz = slot(); x = coq_term(e[1], ctr)
            return f'(m_slice_vec {x} {sz})'
        x = coq_term(e[1], ctr)
        base = {'iopt': 'index_optimized', 'ilist': 'index_list'}[e[2]]
        if ik == 'usize': o = f'(ic_nat {base})'
        elif ik == ('val', 'usize') or ik == ('val', 'u64'): o = base
        else: raise ValueError(('index container needs usize indices', e))
        return f'(m_slice {x} {o})'
    if k == 'opt': return f'(m_option {coq_term(e[1], ctr)})'
    if k == 'res':
        a = coq_term(e[1], ctr); b = coq_term(e[2], ctr); return f'(m_result {a} {b})'
    if k == 'tup2':
        a = coq_term(e[1], ctr); b = coq_term(e[2], ctr); return f'(m_tuple2 {a} {b})'
    if k == 'col': return f'(m_collapse {coq_term(e[1], ctr)})'
    if k == 'con': return f'(m_consec {coq_term(e[1], ctr)} {coq_ic_nat(e[2])} chk)'
    if k == 'cols':
        csz = slot(); isz = slot(); x = coq_term(e[1], ctr)
        return f'(m_columns {x} {coq_ic_nat(e[2])} chk {csz} {isz})'
    raise ValueError(e)

def gen_coq():
    out = ['(* GENERATED by tools/catalogue.py -- do not edit *)',
           'From FC Require Import Base.Res Base.Utf8 Index.IC Index.Stride Region.Region Region.Owned Region.Simple',
           '  Region.Slice Region.Collapse Region.Consec Region.Columns Codec.Dictionary Huffman.Huffman Region.Items Model.Wire Model.Pairs Model.FSMachine.',
           'Set Implicit Arguments.', '',
           'Definition entry (chk : bool) (szs : list N) (n : N) : option MRegion :=',
           '  match n with']
    for i, (name, e) in enumerate(ENTRIES):
        out.append(f'  | {i}%N => Some {coq_term(e)}  (* {name} *)')
    out.append('  | _ => None')
    out.append('  end.')
    out.append('')
    out.append('Definition fs_entry (chk : bool) (szs : list N) (n : N) : option FSM :=')
    out.append('  match n with')
    for i, (name, e, o) in enumerate(FS_ENTRIES):
        ik = idx_kind(e)
        if o == 'vec': ic = f'(vec_ic _ (nth {len(size_slots(e))} szs 0%N))'
        else:
            base = {'iopt': 'index_optimized', 'ilist': 'index_list'}[o]
            ic = f'(ic_nat {base})' if ik == 'usize' else base
        out.append(f'  | {i}%N => Some (@Build_FSM {coq_term(e)} {ic} _)  (* {name} *)')
    out.append('  | _ => None')
    out.append('  end.')
    return '\n'.join(out) + '\n'

def write_if_changed(path, text):
    if os.path.exists(path) and open(path).read() == text:
        return False
    os.makedirs(os.path.dirname(path), exist_ok=True)
    open(path, 'w').write(text)
    return True

def main():
    root = os.path.dirname(os.path.dirname(os.path.abspath(__file__)))
    a = write_if_changed(os.path.join(root, 'harness/src/gen.rs'), gen_rust())
    b = write_if_changed(os.path.join(root, 'coq/Model/Catalogue.v'), gen_coq())
    print(f'catalogue: {len(ENTRIES)} entries; gen.rs {"written" if a else "unchanged"}; Catalogue.v {"written" if b else "unchanged"}')

if __name__ == '__main__':
    main()
