#!/usr/bin/env python3
"""Evaluate seeded changes against a SCRATCH WORKTREE of /repo instead of /repo itself (same checks, same
tools; VERIF_REPO / VERIF_BUILD / VERIF_OUT overrides of tools/lib.py).  Used while /repo is busy (a long
run is using it); the recorded procedure remains tools/run_mutants.py on /repo.
usage: wt_mutants.py ID [ID ...] [--props=C01,C02]"""
import json, os, subprocess, sys, time
ROOT = '/verif'; BASE = os.environ.get('WTM_DIR', '/tmp/wtm'); WT = BASE + '/repo'; BUILD = BASE + '/build'; OUT = BASE + '/out'
RESF = os.environ.get('WTM_RESULTS', f'{ROOT}/seeded/RESULTS.json')
def sh(cmd, **kw): return subprocess.run(cmd, shell=True, stdout=subprocess.PIPE, stderr=subprocess.STDOUT, text=True, **kw)
def main():
    args = [a for a in sys.argv[1:] if not a.startswith('--')]
    extra = [a.split('=', 1)[1].split(',') for a in sys.argv[1:] if a.startswith('--props=')]
    os.makedirs(BASE, exist_ok=True)
    if not os.path.exists(WT):
        r = sh(f'git -C /repo worktree add -q --detach {WT} HEAD'); assert r.returncode == 0, r.stdout
    env = dict(os.environ, VERIF_REPO=WT, VERIF_BUILD=BUILD, VERIF_OUT=OUT)
    resf = RESF
    results = json.load(open(resf)) if os.path.exists(resf) else {}
    for i in args:
        d = f'{ROOT}/seeded/{i}'
        meta = json.load(open(f'{d}/meta.json'))
        if meta.get('retired'): print(i, 'retired:', meta['retired'][:80]); results.pop(i, None); continue
        props = extra[0] if extra else [meta['property']] + meta.get('also_check', [])
        sh(f'git -C {WT} checkout -q -- . && git -C {WT} clean -fdq')
        r = sh(f'git -C {WT} apply {d}/patch.diff')
        if r.returncode != 0: print(i, 'patch does not apply', r.stdout); continue
        out = {}
        for p in props:
            t0 = time.time()
            c = sh(f'python3 tools/check.py {p} --tier quick', cwd=ROOT, env=env)
            lines = [l for l in c.stdout.split('\n') if l.startswith('VIOLATION') or l.startswith('OK')]
            what = ''
            if c.returncode == 1 and lines:
                rp = lines[0].split('replay=')[1].split()[0]
                try:
                    j = json.load(open(rp)); what = (j.get('what') or j.get('kind') or '')[:300]
                    what = f"{j.get('entry', '')} {j.get('profile', '')}: {what}"
                except Exception: pass
            out[p] = {'exit': c.returncode, 'line': lines[0] if lines else c.stdout[-300:], 'what': what, 's': round(time.time() - t0, 1), 'on': 'scratch worktree'}
            print(i, p, c.returncode, (lines[0] if lines else c.stdout[-200:])[:160], '|', what[:200], flush=True)
        sh(f'git -C {WT} checkout -q -- .')
        results[i] = out
        json.dump(results, open(resf, 'w'), indent=1)
main()
