(** C19, last clause, for [ColumnsRegion]: a FlatStack with the optimised index container over a columns
    region (whose row indices are dense, C12) spends ZERO heap bytes on its own indices, for any number of
    rows of any widths. *)
From FC Require Import Base.Res Index.IC Index.Stride Index.StrideOk Region.Region Region.Owned Region.Consec
  Region.Columns Stack.FlatStack Stack.FlatStackDense.
From Coq Require Import Lia.
Set Implicit Arguments.

Section ColumnsDense.
  Variable R : Region.
  Context `{RegionOK R}.
  Variable O : IC nat.
  Context `{ICOk _ O}.
  Variable chk : bool.
  Local Notation CR := (columns R O chk).
  Local Notation S := (ic_nat index_optimized).
  Local Notation cnt x := (length (ic_abs (snd (fst (snd x))))).

  Lemma columns_push_len (x : st CR) vs x' k : inv x -> push CR x vs = Ok (x', k) -> cnt x' = Datatypes.S (cnt x).
  Proof.
    destruct x as [cols rows]. intros (Hic & Hir & _) Hp. cbn [push columns fst snd] in Hp.
    destruct (push_cols R cols vs) as [[cols' is]|]; cbn [bind] in Hp; [|discriminate].
    destruct (push (consec (owned (idx R)) O chk) rows is) as [[rows' k']|] eqn:Er; cbn [bind] in Hp; [|discriminate].
    inversion Hp; subst. cbn [fst snd].
    exact (@consec_push_len (owned (idx R)) _ _ _ O _ chk rows is rows' k Hir Er).
  Qed.

  Lemma fs_columns_indices vs : forall (x x' : fs_st CR S) k, inv (fst x) ->
    cnt (fst x) = Datatypes.S k ->
    snd x = fold_left (ic_push S) (seq 0 k) (ic_default S) ->
    fs_extend x vs = Ok x' ->
    snd x' = fold_left (ic_push S) (seq 0 (k + length vs)) (ic_default S).
  Proof.
    induction vs as [|v vs IH]; intros x x' k Hi Hk Hx He; cbn [fs_extend] in He.
    - inversion He; subst. now rewrite Nat.add_0_r.
    - unfold fs_copy in He. destruct (push CR (fst x) v) as [[s1 i]|] eqn:Ep; cbn [bind] in He; [|discriminate].
      pose proof (@columns_push_index R _ _ O _ chk (fst x) v s1 i Hi Ep) as Hidx.
      pose proof (columns_push_len v Hi Ep) as Hlen.
      destruct (@push_safe CR _ (@columns_ok R _ _ O _ chk) (fst x) v s1 i Hi Ep) as (Hi1 & _).
      assert (Hik : i = k) by lia. subst i.
      rewrite (IH (s1, ic_push S (snd x) k) x' (Datatypes.S k)); cbn [fst snd]; try assumption.
      + replace (k + length (v :: vs)) with (Datatypes.S k + length vs) by (cbn [length]; lia). reflexivity.
      + lia.
      + rewrite Hx. rewrite seq_S, fold_left_app. reflexivity.
  Qed.

  Theorem fs_columns_index_free vs (x : fs_st CR S) : (N.of_nat (length vs) <= W)%N ->
    fs_extend (fs_default CR S) vs = Ok x -> ic_used S (snd x) = [0%N; 0%N].
  Proof.
    intros Hn He.
    assert (Hi0 : inv (fst (fs_default CR S))) by (apply (@inv_dflt CR _ (@columns_ok R _ _ O _ chk))).
    assert (Hk0 : cnt (fst (fs_default CR S)) = 1).
    { cbn [fs_default fst snd dflt columns consec]. rewrite abs_push, abs_default by apply inv_default. reflexivity. }
    pose proof (@fs_columns_indices vs (fs_default CR S) x 0 Hi0 Hk0 eq_refl He) as Hx.
    cbn [plus] in Hx. rewrite Hx, fold_io_nat, strides_one. set (n := length vs) in *.
    destruct n as [|[|n]]; [reflexivity|reflexivity|].
    pose proof (@io_stride_free 1 (Datatypes.S (Datatypes.S n)) 0 ltac:(lia)) as Hf.
    cbn [repeat] in Hf. rewrite app_nil_r in Hf. apply Hf. lia.
  Qed.
End ColumnsDense.
