(** [FlatStack<R, S>]: a region plus an index container holding the indices of the copied items. *)
From FC Require Import Base.Res Index.IC Region.Region.
Set Implicit Arguments.

Section FlatStack.
  Variable R : Region.
  Variable S : IC (idx R).

  Definition fs_st : Type := st R * ic_st S.
  Definition fs_default : fs_st := (dflt R, ic_default S).
  (** [copy]: push into the region, remember the index *)
  Definition fs_copy (x : fs_st) (v : val R) : res fs_st :=
    let* '(s', i) := push R (fst x) v in Ok (s', ic_push S (snd x) i).
  (** [extend] / [from_iter]: repeated [copy] *)
  Fixpoint fs_extend (x : fs_st) (vs : list (val R)) : res fs_st :=
    match vs with
    | [] => Ok x
    | v :: vs' => let* x' := fs_copy x v in fs_extend x' vs'
    end.
  Definition fs_from_iter (vs : list (val R)) : res fs_st := fs_extend fs_default vs.
  (** [get]: [self.region.index(self.indices.index(offset))] *)
  Definition fs_get (x : fs_st) (k : nat) : res (val R) :=
    let* i := ic_index S (snd x) k in read R (fst x) i.
  Definition fs_len (x : fs_st) : nat := ic_len S (snd x).
  Definition fs_is_empty (x : fs_st) : bool := ic_is_empty S (snd x).
  Definition fs_clear (x : fs_st) : fs_st := (clear R (fst x), ic_clear S (snd x)).
  (** [iter]: the index container's iterator mapped through the region *)
  Definition fs_iter (x : fs_st) : res (list (val R)) :=
    let* is := ic_iter S (snd x) in mapM (read R (fst x)) is.
  (** a cloned iterator after [k] steps yields the remaining suffix *)
  Definition fs_iter_from (x : fs_st) (k : nat) : res (list (val R)) :=
    let* is := ic_iter S (snd x) in mapM (read R (fst x)) (skipn k is).
End FlatStack.

(** * FlatStack refines an append-only list of values (C03) *)
Section FlatStackOK.
  Variable R : Region.
  Context `{RegionOK R}.
  Variable S : IC (idx R).
  Context `{ICOk _ S}.

  (** the invariant: both parts well formed, every stored index valid *)
  Definition fs_inv (x : fs_st R S) : Prop :=
    inv (fst x) /\ ic_inv (snd x) /\ Forall (valid (fst x)) (ic_abs (snd x)).
  (** the represented sequence *)
  Definition fs_abs (x : fs_st R S) (vs : list (val R)) : Prop :=
    mapM (read R (fst x)) (ic_abs (snd x)) = Ok vs.

  Lemma fs_default_ok : fs_inv (fs_default R S) /\ fs_abs (fs_default R S) [].
  Proof.
    unfold fs_inv, fs_abs, fs_default. cbn [fst snd]. rewrite abs_default.
    repeat split; [apply inv_dflt|apply inv_default|constructor].
  Qed.

  Lemma mapM_app {A B} (f : A -> res B) l1 l2 r1 r2 :
    mapM f l1 = Ok r1 -> mapM f l2 = Ok r2 -> mapM f (l1 ++ l2) = Ok (r1 ++ r2).
  Proof.
    revert r1. induction l1 as [|a l1 IH]; intros r1 H1 H2; cbn in *.
    - inversion H1; subst. exact H2.
    - destruct (f a); cbn in *; [|discriminate]. destruct (mapM f l1) eqn:E; cbn in *; [|discriminate].
      inversion H1; subst. rewrite (IH _ eq_refl H2). reflexivity.
  Qed.

  (** [copy] of a covered value succeeds and appends exactly that value *)
  Theorem fs_copy_spec x vs v : fs_inv x -> fs_abs x vs -> dom (fst x) v ->
    exists x', fs_copy x v = Ok x' /\ fs_inv x' /\ fs_abs x' (vs ++ [v]).
  Proof.
    intros (Hi & Ho & Hall) Ha Hd. destruct x as [s o]. cbn [fst snd] in *.
    destruct (push_ok s v Hi Hd) as (s' & i & Hp & Hr).
    destruct (push_safe s v Hi Hp) as (Hi' & Hv' & Hf & _).
    unfold fs_copy. cbn [fst snd]. rewrite Hp. cbn [bind]. eexists. split; [reflexivity|].
    unfold fs_inv, fs_abs. cbn [fst snd]. rewrite abs_push by assumption. split; [|].
    - split; [assumption|]. split; [apply inv_push; assumption|].
      apply Forall_app. split; [|constructor; [assumption|constructor]].
      rewrite Forall_forall in *. intros j Hj. apply Hf. auto.
    - apply mapM_app.
      + rewrite (@mapM_read_frame R _ s s' _ Hf Hall). exact Ha.
      + cbn. rewrite Hr. reflexivity.
  Qed.

  (** [extend] / [from_iter] are repeated [copy] (by definition) and append the whole batch *)
  Theorem fs_extend_spec ws : forall x vs, fs_inv x -> fs_abs x vs ->
    Forall (dom (fst x)) ws ->
    exists x', fs_extend x ws = Ok x' /\ fs_inv x' /\ fs_abs x' (vs ++ ws).
  Proof.
    induction ws as [|w ws IH]; intros x vs Hi Ha Hd; cbn [fs_extend].
    - exists x. rewrite app_nil_r. auto.
    - inversion Hd as [|? ? Hw Hws]; subst.
      destruct (@fs_copy_spec x vs w Hi Ha Hw) as (x1 & Hc & Hi1 & Ha1). rewrite Hc. cbn [bind].
      assert (Hd1 : Forall (dom (fst x1)) ws).
      { unfold fs_copy in Hc. destruct x as [s o]. cbn [fst snd] in *.
        destruct (push R s w) as [[s' i]|] eqn:Ep; cbn [bind] in Hc; [|discriminate]. inversion Hc; subst.
        destruct Hi as (Hi & _). destruct (push_safe s w Hi Ep) as (_ & _ & _ & Hds).
        cbn [fst]. rewrite Forall_forall in *. intros y Hy. apply Hds. auto. }
      destruct (IH x1 (vs ++ [w]) Hi1 Ha1 Hd1) as (x2 & He & Hi2 & Ha2).
      exists x2. rewrite <- app_assoc in Ha2. auto.
  Qed.

  (** observers agree with the represented sequence; [get] fails stop beyond the end *)
  Theorem fs_observers x vs : fs_inv x -> fs_abs x vs ->
    fs_len x = length vs /\
    fs_is_empty x = (match vs with [] => true | _ => false end) /\
    fs_iter x = Ok vs /\
    (forall k, fs_iter_from x k = Ok (skipn k vs)) /\
    (forall k v, nth_error vs k = Some v -> fs_get x k = Ok v) /\
    (forall k, length vs <= k -> fs_get x k = Panic).
  Proof.
    intros (Hi & Ho & Hall) Ha. destruct x as [s o]. unfold fs_abs in Ha. cbn [fst snd] in *.
    pose proof (mapM_length _ _ Ha) as Hl.
    unfold fs_len, fs_is_empty, fs_iter, fs_iter_from, fs_get. cbn [fst snd].
    rewrite abs_len, abs_is_empty, abs_iter by assumption. cbn [bind].
    split; [congruence|]. split; [destruct (ic_abs o), vs; cbn in Hl; try reflexivity; discriminate|].
    split; [assumption|]. split; [|split].
    - intros k. revert vs Ha Hl. generalize (ic_abs o) as l. intros l. revert k.
      induction l as [|a l IH]; intros k vs Ha Hl.
      + cbn in Ha. inversion Ha; subst. destruct k; reflexivity.
      + cbn in Ha. destruct (read R s a) as [w|] eqn:Ew; cbn in Ha; [|discriminate].
        destruct (mapM (read R s) l) as [ws|] eqn:Em; cbn in Ha; [|discriminate]. inversion Ha; subst.
        destruct k as [|k]; cbn [skipn].
        * cbn. rewrite Ew. cbn. rewrite Em. reflexivity.
        * apply IH; [reflexivity|]. apply mapM_length in Em. congruence.
    - intros k v Hk. rewrite abs_index by assumption.
      revert vs k Ha Hk Hl. generalize (ic_abs o) as l. induction l as [|a l IH]; intros vs k Ha Hk Hl.
      + cbn in Ha. inversion Ha; subst. destruct k; discriminate.
      + cbn in Ha. destruct (read R s a) as [w|] eqn:Ew; cbn in Ha; [|discriminate].
        destruct (mapM (read R s) l) as [ws|] eqn:Em; cbn in Ha; [|discriminate]. inversion Ha; subst.
        destruct k as [|k]; cbn in *.
        * inversion Hk; subst. exact Ew.
        * apply (IH ws k eq_refl Hk). apply mapM_length in Em. congruence.
    - intros k Hk. rewrite abs_index by assumption.
      destruct (nth_error (ic_abs o) k) eqn:E; [|reflexivity].
      assert (k < length (ic_abs o)) by (apply nth_error_Some; congruence). lia.
  Qed.

  (** [clear] empties the stack, whatever it held *)
  Theorem fs_clear_spec x : fs_inv x -> fs_inv (fs_clear x) /\ fs_abs (fs_clear x) [].
  Proof.
    intros (Hi & Ho & Hall). unfold fs_inv, fs_abs, fs_clear. cbn [fst snd]. rewrite abs_clear.
    repeat split; [apply clear_ok; assumption|apply inv_clear|constructor].
  Qed.
End FlatStackOK.
