(** C19, last clause: a FlatStack with the optimised index container over a dense-index region
    (ConsecutiveIndexPairs; the row index of a ColumnsRegion is one) spends ZERO heap bytes on its own
    indices, for any number of copied items: the region hands out 0, 1, 2, ... (C12) and
    [IndexOptimized] absorbs that sequence in its stride without spilling. *)
From FC Require Import Base.Res Index.IC Index.Stride Index.StrideOk Region.Region Region.Owned Region.Consec Stack.FlatStack.
From Coq Require Import Lia.
Set Implicit Arguments.

Section Dense.
  Variable R : Region.
  Context `{RegionOK R} {PI : PairIdx R} `{!Dense R}.
  Variable O : IC nat.
  Context `{ICOk _ O}.
  Variable chk : bool.
  Local Notation CR := (consec R O chk).
  Local Notation S := (ic_nat index_optimized).

  Lemma consec_push_len x v x' k : inv x -> push CR x v = Ok (x', k) ->
    length (ic_abs (snd (fst x'))) = Datatypes.S (length (ic_abs (snd (fst x)))).
  Proof.
    destruct x as [[s o] lst]. intros (Hs & Ho & _). cbn [fst snd push consec] in *.
    destruct (push R s v) as [[s1 i]|]; cbn [bind]; [|discriminate].
    destruct (chk && negb (fst (to_pair i) =? lst)); [discriminate|].
    intros Hq; inversion Hq; subst. cbn [fst snd]. rewrite abs_push by assumption. rewrite app_length. cbn. lia.
  Qed.

  (** the stack's index container after copying: the indices 0 .. k-1 pushed in order *)
  Lemma fs_dense_indices vs : forall (x x' : fs_st CR S) k, inv (fst x) ->
    length (ic_abs (snd (fst (fst x)))) = Datatypes.S k ->
    snd x = fold_left (ic_push S) (seq 0 k) (ic_default S) ->
    fs_extend x vs = Ok x' ->
    snd x' = fold_left (ic_push S) (seq 0 (k + length vs)) (ic_default S).
  Proof.
    induction vs as [|v vs IH]; intros x x' k Hi Hk Hx He; cbn [fs_extend] in He.
    - inversion He; subst. now rewrite Nat.add_0_r.
    - unfold fs_copy in He. destruct (push CR (fst x) v) as [[s1 i]|] eqn:Ep; cbn [bind] in He; [|discriminate].
      pose proof (@consec_push_index R _ _ PI _ O _ chk (fst x) v s1 i Hi Ep) as Hidx.
      pose proof (consec_push_len v Hi Ep) as Hlen.
      destruct (@push_safe CR _ (@consec_ok R _ _ PI _ O _ chk) (fst x) v s1 i Hi Ep) as (Hi1 & _).
      assert (Hik : i = k) by lia. subst i.
      rewrite (IH (s1, ic_push S (snd x) k) x' (Datatypes.S k)); cbn [fst snd]; try assumption.
      + replace (k + length (v :: vs)) with (Datatypes.S k + length vs) by (cbn [length]; lia). reflexivity.
      + lia.
      + rewrite Hx. rewrite seq_S, fold_left_app. reflexivity.
  Qed.

  Lemma fold_io_nat n s0 : fold_left (ic_push S) (seq 0 n) s0 = fold_left io_push (map N.of_nat (seq 0 n)) s0.
  Proof. revert s0. generalize 0. induction n as [|n IH]; intros a s0; cbn [seq map fold_left]; [reflexivity|]. apply IH. Qed.
  Lemma strides_one n : map N.of_nat (seq 0 n) = strides 1 n.
  Proof. unfold strides. apply map_ext. intros i. lia. Qed.

  (** ** zero index bytes, for ANY number of items below 2^64 *)
  Theorem fs_dense_index_free vs (x : fs_st CR S) : (N.of_nat (length vs) <= W)%N ->
    fs_extend (fs_default CR S) vs = Ok x -> ic_used S (snd x) = [0%N; 0%N].
  Proof.
    intros Hn He.
    assert (Hi0 : inv (fst (fs_default CR S))) by (apply (@inv_dflt CR _ (@consec_ok R _ _ PI _ O _ chk))).
    assert (Hk0 : length (ic_abs (snd (fst (fst (fs_default CR S))))) = 1).
    { cbn [fs_default fst snd dflt consec]. rewrite abs_push, abs_default by apply inv_default. reflexivity. }
    pose proof (@fs_dense_indices vs (fs_default CR S) x 0 Hi0 Hk0 eq_refl He) as Hx.
    cbn [plus] in Hx. rewrite Hx, fold_io_nat, strides_one. set (n := length vs) in *.
    destruct n as [|[|n]]; [reflexivity|reflexivity|].
    pose proof (@io_stride_free 1 (Datatypes.S (Datatypes.S n)) 0 ltac:(lia)) as Hf.
    cbn [repeat] in Hf. rewrite app_nil_r in Hf. apply Hf. lia.
  Qed.
End Dense.
