(** FlatStack machine for the correspondence check (C03, C19). *)
From FC Require Import Base.Res Index.IC Region.Region Region.Items Stack.FlatStack Resource.Res Model.Wire.
Set Implicit Arguments.

Inductive fsop :=
| FCopy (u : uval) | FExtend (us : list uval) | FFromIter (us : list uval) | FClear | FReserve (n : N)
| FClone | FObserve | FSerde
| FWithCap (n : N) | FMergeCap (k : nat) | FResRegs (us : list uval) | FResItems (us : list uval)
| FCloneFrom (us : list uval).

Record FSM := { fm : MRegion; fs_ic : IC (idx (mr fm)); fs_ics : ICSer fs_ic }.

Section FSMach.
  Variable F : FSM.
  Local Notation M := (fm F).
  Local Notation R := (mr M).
  Local Notation I := (mi M).
  Local Notation Wr := (mw M).
  Local Notation S := (fs_ic F).

  Definition fs_item (x : fs_st R S) (k : nat) : res uval :=
    let* i := ic_index S (snd x) k in let* it := index I (fst x) i in probe Wr it.

  Definition fs_observe (x : fs_st R S) : uval :=
    let n := fs_len x in
    let items := match ic_iter S (snd x) with
                 | Ok is => Some (map (fun i => ures (let* it := index I (fst x) i in probe Wr it)) is)
                 | Panic => None
                 end in
    UL [unat n; ubool (fs_is_empty x);
        UL (map (fun k => ures (fs_item x k)) (seq 0 n));
        UL (map (fun k => ures (fs_item x k)) [n; Datatypes.S n]);
        match items with Some l => USome (UL l) | None => UNone end;
        (* a cloned iterator after one step: the suffix *)
        match items with Some l => USome (UL (tl l)) | None => UNone end;
        (* index bytes used, per heap_size callback of the index container *)
        UL (map UN (ic_used S (snd x)));
        (* bytes the region accounts for, per heap_size callback (C18: every branch contributes) *)
        UL (map UN (r_used (m_res M) (fst x)))].

  Definition omap_vals (us : list uval) : option (list (val R)) := omap (of_u Wr) us.

  (** the observation list stops at the first panicking mutation / ill-typed input *)
  Fixpoint fs_run (x : fs_st R S) (ops : list fsop) : list uval :=
    match ops with
    | [] => []
    | FCopy u :: ops' =>
        match of_u Wr u with
        | None => [UL [UN 99]]
        | Some v => match fs_copy x v with Ok x' => UNone :: fs_run x' ops' | Panic => [UL [UN 98]] end
        end
    | FExtend us :: ops' =>
        match omap_vals us with
        | None => [UL [UN 99]]
        | Some vs => match fs_extend x vs with Ok x' => UNone :: fs_run x' ops' | Panic => [UL [UN 98]] end
        end
    | FFromIter us :: ops' =>
        match omap_vals us with
        | None => [UL [UN 99]]
        | Some vs => match fs_from_iter R S vs with Ok x' => UNone :: fs_run x' ops' | Panic => [UL [UN 98]] end
        end
    | FClear :: ops' => UNone :: fs_run (fs_clear x) ops'
    | FReserve _ :: ops' => UNone :: fs_run x ops'
    | FClone :: ops' => UNone :: fs_run x ops'
    | FObserve :: ops' => fs_observe x :: fs_run x ops'
    (* FlatStack::with_capacity: a fresh stack; merge_capacity over k references to the stack itself:
       no items, the region merged from k copies of the stack's region; reserve_regions: invisible *)
    | FWithCap _ :: ops' => UNone :: fs_run (fs_default R S) ops'
    | FMergeCap k :: ops' => UNone :: fs_run (merge R (repeat (fst x) k), ic_default S) ops'
    | FResRegs us :: ops' =>
        match omap_vals us with
        | None => [UL [UN 99]]
        | Some _ => UNone :: fs_run x ops'
        end
    (* FlatStack::reserve_items: invisible *)
    | FResItems us :: ops' =>
        match omap_vals us with
        | None => [UL [UN 99]]
        | Some _ => UNone :: fs_run x ops'
        end
    (* clone_from: a scratch destination holding [us] is overwritten by the stack and replaces it --
       the result is the source, whatever the destination held (CloneFromOK) *)
    | FCloneFrom us :: ops' =>
        match omap_vals us with
        | None => [UL [UN 99]]
        | Some _ => UNone :: fs_run x ops'
        end
    (* serde round trip of the whole stack: its serialised form before and after *)
    | FSerde :: ops' =>
        match m_ser M with
        | Some sr => let u := @fs_ser R S (fs_ics F) sr x in UL [u; u] :: fs_run x ops'
        | None => UNone :: fs_run x ops'
        end
    end.
  Definition fs_run0 (ops : list fsop) : list uval := fs_run (fs_default R S) ops.
End FSMach.
