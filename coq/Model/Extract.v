(** Extraction of the executable model for the correspondence driver. Only [ExtrOcamlBasic]. *)
From FC Require Import Base.Res Model.Wire Model.Machine Model.ICMachine Model.FSMachine Model.Catalogue.
Require Import Extraction ExtrOcamlBasic.

Definition run_entry (chk : bool) (szs : list N) (n : N) (ops : list op) : option (list (list obs)) :=
  match entry chk szs n with
  | Some M => Some (run0 M ops)
  | None => None
  end.

Definition run_fs_entry (chk : bool) (szs : list N) (n : N) (ops : list fsop) : option (list uval) :=
  match fs_entry chk szs n with
  | Some F => Some (fs_run0 F ops)
  | None => None
  end.

Extraction "model.ml" run_entry run_ic run_fs_entry.
