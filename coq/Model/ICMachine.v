(** Index-container machine for the correspondence check (C05, C19): one container driven by
    push / extend / clear, observed through len, is_empty, index(0..len+1), iteration and the
    used-bytes figures of heap_size.  [Stride] itself (not an IndexContainer: its push can refuse)
    has its own machine. *)
From FC Require Import Base.Res Index.IC Index.Stride Model.Wire.
Set Implicit Arguments.

Inductive icmop := MPush (x : N) | MExtend (l : list N) | MClear | MObserve | MSerde.

Definition ures_n (r : res N) : uval := match r with Ok v => USome (UN v) | Panic => UNone end.

Section ICM.
  Variable c : IC N.
  Context {CS : ICSer c}.
  Definition ic_observe (s : ic_st c) : uval :=
    let n := ic_len c s in
    UL [unat n; ubool (ic_is_empty c s);
        UL (map (fun i => ures_n (ic_index c s i)) (seq 0 n));
        UL (map (fun i => ures_n (ic_index c s i)) [n; S n]);
        match ic_iter c s with Ok l => USome (UL (map UN l)) | Panic => UNone end;
        UL (map UN (ic_used c s))].
  Fixpoint ic_run (s : ic_st c) (ops : list icmop) : list uval :=
    match ops with
    | [] => []
    | MPush x :: ops' => UNone :: ic_run (ic_push c s x) ops'
    | MExtend l :: ops' => UNone :: ic_run (ic_extend c s l) ops'
    | MClear :: ops' => UNone :: ic_run (ic_clear c s) ops'
    | MObserve :: ops' => ic_observe s :: ic_run s ops'
    (* serde round trip: the serialised form before and after (the model's round trip is the identity) *)
    | MSerde :: ops' => UL [ic_ser UN s; ic_ser UN s] :: ic_run s ops'
    end.
End ICM.

Definition stride_u (st : stride) : uval :=
  match st with
  | SEmpty => UL [UN 0]
  | SZero => UL [UN 1]
  | SStriding s c => UL [UN 2; UN s; unat c]
  | SSaturated s c r => UL [UN 3; UN s; unat c; unat r]
  end.

(** Stride machine: [MPush x] is [Stride::push] (observing acceptance and the resulting public
    enum value), [MObserve] reads len / is_empty / index(0..len-1) / iteration *)
Fixpoint stride_run (st : stride) (ops : list icmop) : list uval :=
  match ops with
  | [] => []
  | MPush x :: ops' => let '(ok, st') := stride_push st x in UL [ubool ok; stride_u st'] :: stride_run st' ops'
  | MExtend _ :: ops' => UNone :: stride_run st ops'
  | MClear :: ops' => UNone :: stride_run SEmpty ops'
  | MSerde :: ops' => UL [stride_ser st; stride_ser st] :: stride_run st ops'
  | MObserve :: ops' =>
      let n := stride_len st in
      UL [unat n; ubool (stride_is_empty st);
          UL (map (fun i => ures_n (stride_index st i)) (seq 0 n));
          match stride_iter st with Ok l => USome (UL (map UN l)) | Panic => UNone end] :: stride_run st ops'
  end.

(** container kinds: 0 Vec<usize>, 1 IndexList<Vec<u32>,Vec<u64>>, 2 IndexOptimized, 3 Stride *)
Definition run_ic (kind : N) (ops : list icmop) : list uval :=
  match kind with
  | 0%N => @ic_run (vec_ic N 8) _ (ic_default (vec_ic N 8)) ops
  | 1%N => @ic_run index_list _ (ic_default index_list) ops
  | 2%N => @ic_run index_optimized _ (ic_default index_optimized) ops
  | _ => stride_run SEmpty ops
  end.
