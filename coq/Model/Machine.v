(** The history machine: a few region slots of one catalogue entry driven by untyped operations,
    producing the observations the correspondence check compares with the implementation's. *)
From FC Require Import Base.Res Index.IC Region.Region Region.Items Region.Compare Resource.Res Model.Wire.
Set Implicit Arguments.

Inductive op :=
| OPush (k : nat) (f : N) (u : uval)          (* slot, input form, value *)
| OTryPush (k : nat) (form : N) (u : uval) (* a push that may be REFUSED (panic): the history goes on, state untouched *)
| OProbe (k : nat)                             (* every index issued since the last clear, all accessors *)
| ORead (k : nat)                              (* ... owned value only *)
| OProbeOwned (k : nat)                        (* ... probe of borrow_as(&into_owned(item)) *)
| OClear (k : nat)
| OMerge (d : nat) (ks : list nat)             (* slot d := merge_regions(slots ks) *)
| OClone (d k : nat)                           (* slot d := slot k .clone() *)
| OCloneFrom (d k : nat)                       (* slot d .clone_from(slot k) *)
| OPushItem (d k j : nat) (owned : bool)       (* push the j-th item of slot k into slot d *)
| OCloneOnto (k j : nat) (u : uval)            (* clone_onto(item j of slot k, target u) *)
| OReserveItems (k : nat) (us : list uval)
| OReserveRegions (k : nat) (ks : list nat)
| OHeap (k : nat)                              (* heap_size pairs; the model does not predict them here *)
| OSerde (k : nat)
| OAllocs (k : nat)
| OCmp (k i : nat) (a : bool) (l j : nat) (b : bool). (* item i of slot k vs item j of slot l; a/b: owned-borrowed *)                           (* allocator calls: the implementation's only *)                            (* slot k := deserialize(serialize(slot k)) *)

Inductive obs :=
| BIdx (i : uval) | BVal (v : uval) | BPanic | BIll | BNone.

Section Machine.
  Variable M : MRegion.
  Local Notation R := (mr M).
  Local Notation I := (mi M).
  Local Notation Wr := (mw M).

  Record slot := { s_st : st R; s_log : list (idx R) }.
  Definition slot0 : slot := {| s_st := dflt R; s_log := [] |}.

  Definition get_slot (sl : list slot) (k : nat) : slot := nth k sl slot0.
  Fixpoint set_slot (sl : list slot) (k : nat) (x : slot) : list slot :=
    match sl, k with
    | [], _ => []
    | _ :: sl', 0 => x :: sl'
    | y :: sl', S k' => y :: set_slot sl' k' x
    end.

  Definition obs_res (r : res uval) : obs := match r with Ok v => BVal v | Panic => BPanic end.

  (** one step: the observations it emits and the next state ([None]: the history stops here,
      after a panicking mutation or an ill-typed input) *)
  Definition step (sl : list slot) (o : op) : list obs * option (list slot) :=
    match o with
    | OPush k f u =>
        match of_u Wr u with
        | None => ([BIll], None)
        | Some v =>
            let x := get_slot sl k in
            match push R (s_st x) v with
            | Ok (s', i) => ([BIdx (idx_u Wr i)], Some (set_slot sl k {| s_st := s'; s_log := s_log x ++ [i] |}))
            | Panic => ([BPanic], None)
            end
        end
    | OTryPush k f u =>
        match of_u Wr u with
        | None => ([BIll], None)
        | Some v =>
            let x := get_slot sl k in
            match push R (s_st x) v with
            | Ok (s', i) => ([BIdx (idx_u Wr i)], Some (set_slot sl k {| s_st := s'; s_log := s_log x ++ [i] |}))
            | Panic => ([BPanic], Some sl)
            end
        end
    | OProbe k =>
        let x := get_slot sl k in
        (map (fun i => obs_res (let* it := index I (s_st x) i in probe Wr it)) (s_log x), Some sl)
    | OProbeOwned k =>
        let x := get_slot sl k in
        (map (fun i => obs_res (let* it := index I (s_st x) i in let* v := own I it in probe Wr (borrow I v))) (s_log x), Some sl)
    | ORead k =>
        let x := get_slot sl k in
        (map (fun i => obs_res (let* v := read R (s_st x) i in Ok (to_u Wr v))) (s_log x), Some sl)
    | OClear k =>
        let x := get_slot sl k in
        ([BNone], Some (set_slot sl k {| s_st := clear R (s_st x); s_log := [] |}))
    | OMerge d ks =>
        (* the observation is what merge_regions sizes the new region for: the sources' used bytes *)
        ([BVal (UL (map UN (fold_left padd (map (fun k => r_used (m_res M) (s_st (get_slot sl k))) ks) [])))], Some (set_slot sl d {| s_st := merge R (map (fun k => s_st (get_slot sl k)) ks); s_log := [] |}))
    | OClone d k =>
        ([BNone], Some (set_slot sl d (get_slot sl k)))
    | OCloneFrom d k =>
        (* slot d .clone_from(slot k): field by field, as the Rust impls do (Region/CloneFrom.v) *)
        let src := get_slot sl k in
        match m_clone M with
        | Some C => ([BNone], Some (set_slot sl d {| s_st := r_clone_from C (s_st (get_slot sl d)) (s_st src); s_log := s_log src |}))
        | None => ([BNone], Some (set_slot sl d src))
        end
    | OPushItem d k j owned =>
        let src := get_slot sl k in
        let dst := get_slot sl d in
        match nth_error (s_log src) j with
        | None => ([BIll], None)
        | Some i =>
            let r := let* it := index I (s_st src) i in
                     let* it' := (if owned then let* v := own I it in Ok (borrow I v) else Ok it) in
                     push_item I (s_st dst) it' in
            match r with
            | Ok (s', i') => ([BIdx (idx_u Wr i')], Some (set_slot sl d {| s_st := s'; s_log := s_log dst ++ [i'] |}))
            | Panic => ([BPanic], None)
            end
        end
    | OCloneOnto k j u =>
        let src := get_slot sl k in
        match nth_error (s_log src) j, of_u Wr u with
        | Some i, Some t =>
            ([obs_res (let* it := index I (s_st src) i in let* t' := clone_onto I it t in Ok (to_u Wr t'))], Some sl)
        | _, _ => ([BIll], None)
        end
    | OReserveItems k us =>
        (* bytes each backing vector must be able to hold afterwards: used + announced *)
        match omap (of_u Wr) us with
        | None => ([BIll], None)
        | Some vs => ([BVal (UL (map UN (padd (r_used (m_res M) (s_st (get_slot sl k))) (r_items (m_res M) vs))))], Some sl)
        end
    | OReserveRegions k ks =>
        ([BVal (UL (map UN (fold_left padd (map (fun j => r_used (m_res M) (s_st (get_slot sl j))) ks)
                                       (r_used (m_res M) (s_st (get_slot sl k))))))], Some sl)
    | OHeap k => ([BVal (UL (map UN (r_used (m_res M) (s_st (get_slot sl k)))))], Some sl)
    | OSerde k =>
        (* the serialised state before the round trip and of the deserialised value: the model's round
           trip is the identity, so both are the state's own serialised form *)
        match m_ser M with
        | Some sr => let u := r_ser sr (s_st (get_slot sl k)) in ([BVal (UL [u; u])], Some sl)
        | None => ([BNone], Some sl)
        end
    | OAllocs k => ([BNone], Some sl)
    | OCmp k i a l j b =>
        let fetch (x : slot) (n : nat) (owned : bool) : option (res (item I)) :=
          match nth_error (s_log x) n with
          | None => None
          | Some ix => Some (let* it := index I (s_st x) ix in
                             if owned then let* v := own I it in Ok (borrow I v) else Ok it)
          end in
        match m_ord M, fetch (get_slot sl k) i a, fetch (get_slot sl l) j b with
        | Some C, Some rx, Some ry =>
            let ord_u (c : comparison) := UN (match c with Lt => 0 | Eq => 1 | Gt => 2 end)%N in
            ([obs_res (let* x := rx in let* y := ry in let* c := icmp C x y in
                       Ok (UL [ubool (match c with Eq => true | _ => false end); USome (ord_u c); ord_u c]))], Some sl)
        | _, _, _ => ([BIll], None)
        end
    end.

  Fixpoint run (sl : list slot) (ops : list op) : list (list obs) :=
    match ops with
    | [] => []
    | o :: ops' =>
        let '(b, next) := step sl o in
        match next with
        | Some sl' => b :: run sl' ops'
        | None => [b]
        end
    end.

  Definition run0 (ops : list op) : list (list obs) := run [slot0; slot0; slot0; slot0] ops.
End Machine.
