(** The tie between the theorems and the terms the correspondence runs: EVERY region of the
    catalogue -- the very [entry] function that is extracted to OCaml and run against the crate --
    meets the region contract [RegionOK] (so C01/C02/C08/C10 and the history theorems hold for it),
    with two exceptions that are stated, not hidden:
    - entry 29, ConsecutiveIndexPairs directly over CollapseSequence (known finding D8), and
    - entry 21, CollapseSequence over f64 (IEEE [==] is not equality: +0.0 == -0.0; its contract
      is C11's [collapse_push_spec], which assumes nothing about the comparison). *)
From FC Require Import Base.Res Base.Utf8 Index.IC Index.Stride Index.StrideOk Region.Region Region.Owned Region.Simple
  Region.Slice Region.Collapse Region.Consec Region.Columns Codec.Dictionary Codec.DictionaryOk
  Huffman.Huffman Huffman.HuffRegion Region.Items Model.Wire Model.Pairs Model.FSMachine Model.Catalogue.
From Coq Require Import Lia.
Set Implicit Arguments.

Definition ROK (R : Region) : Prop := exists SP : RSpec R, @RegionOK R SP.
Definition DOK (R : Region) (PI : PairIdx R) : Prop :=
  exists SP : RSpec R, @RegionOK R SP /\ inhabited (@Dense R SP PI).

Lemma dok_rok R PI : @DOK R PI -> ROK R.
Proof. intros (SP & H & _). exists SP. exact H. Qed.

(** * every combinator preserves the contract *)
Lemma rok_owned T : ROK (owned T).
Proof. eexists. apply owned_ok. Qed.
Lemma rok_mirror T : ROK (mirror T).
Proof. eexists. apply mirror_ok. Qed.
Lemma rok_vec T : ROK (vec_region T).
Proof. eexists. apply vec_region_ok. Qed.
Lemma rok_string R : ROK R -> ROK (string_region R).
Proof. intros (SP & H). exists (@string_spec R (fun _ => True) SP). apply string_ok. exact H. Qed.
Lemma rok_option R : ROK R -> ROK (option_region R).
Proof. intros (SP & H). eexists. apply (@option_ok R SP H). Qed.
Lemma rok_result A B : ROK A -> ROK B -> ROK (result_region A B).
Proof. intros (SA & HA) (SB & HB). eexists. apply (@result_ok A B SA HA SB HB). Qed.
Lemma rok_tuple2 A B : ROK A -> ROK B -> ROK (tuple2 A B).
Proof. intros (SA & HA) (SB & HB). eexists. apply (@tuple2_ok A B SA HA SB HB). Qed.
Lemma rok_slice R (O : IC (idx R)) : ROK R -> ICOk O -> ROK (slice R O).
Proof. intros (SP & H) HO. eexists. apply (@slice_ok R O SP H HO). Qed.
Lemma rok_collapse R veq : ROK R -> (forall v w, veq v w = true -> v = w) -> ROK (collapse R veq).
Proof. intros (SP & H) Hs. eexists. apply (@collapse_ok R veq SP H Hs). Qed.
Lemma rok_consec R PI (O : IC nat) chk : @DOK R PI -> ICOk O -> ROK (@consec R PI O chk).
Proof. intros (SP & H & [D]) HO. eexists. apply (@consec_ok R SP H PI D O HO chk). Qed.
Lemma rok_columns R (O : IC nat) chk : ROK R -> ICOk O -> ROK (columns R O chk).
Proof. intros (SP & H) HO. eexists. apply (@columns_ok R SP H O HO chk). Qed.
Lemma rok_codec : ROK codec_owned.
Proof.
  eexists. unfold codec_owned.
  apply (@codec_region_ok (owned N) (owned_spec N) (owned_ok N) (fun v : list N => v) (fun v : list N => v)).
  - reflexivity.
  - intros s w. exact I.
Qed.
Lemma rok_huffman : ROK huffman_region.
Proof. eexists. apply huffman_ok. Qed.

(** * dense pair indices (what [ConsecutiveIndexPairs] needs of its inner region) *)
Lemma dok_owned T : @DOK (owned T) (owned_pair T).
Proof. exists (owned_spec T). split; [apply owned_ok|constructor; apply owned_dense]. Qed.

Lemma dok_string R PI : @DOK R PI -> @DOK (string_region R) (@string_pair R PI).
Proof.
  intros (SP & H & [D]). exists (@string_spec R (fun _ => True) SP). split; [apply string_ok; exact H|]. constructor.
  refine (@Build_Dense (string_region R) (@string_spec R (fun _ => True) SP) (@string_pair R PI) (@extent R SP PI D) _ _ _ _ _ _).
  - apply (@of_to R SP PI D).
  - apply (@extent_dflt R SP PI D).
  - apply (@extent_clear R SP PI D).
  - apply (@extent_merge R SP PI D).
  - apply (@extent_sim R SP PI D).
  - apply (@dense_push R SP PI D).
Qed.

Lemma dok_slice R (O : IC (idx R)) : ROK R -> ICOk O -> @DOK (slice R O) (slice_pair R O).
Proof.
  intros (SP & H) HO. exists (@slice_spec R O SP HO). split; [apply (@slice_ok R O SP H HO)|]. constructor.
  refine (@Build_Dense (slice R O) (@slice_spec R O SP HO) (slice_pair R O)
            (fun x : ic_st O * st R => length (ic_abs (fst x))) _ _ _ _ _ _).
  - intros [a b]. reflexivity.
  - cbn. now rewrite abs_default.
  - intros [so sr]. cbn. now rewrite abs_clear.
  - intros l. cbn. now rewrite abs_default.
  - intros [so sr] [to tr] [Habs _]. cbn in *. now rewrite Habs.
  - intros [so sr] v [so' sr'] i (Hio & Hi & _) Hp. cbn [push slice fst snd] in Hp.
    destruct (push_all R sr v) as [[sr1 is]|]; cbn [bind] in Hp; [|discriminate]. inversion Hp; subst.
    destruct (@push_all_ic _ O HO is so Hio) as [Hio' _].
    cbn [to_pair slice_pair fst snd]. now rewrite !abs_len by assumption.
Qed.

Lemma dok_codec : @DOK codec_owned codec_pair.
Proof.
  assert (E : forall x : list N, (fun v : list N => v) ((fun v : list N => v) x) = x) by reflexivity.
  assert (T : forall (s : st (owned N)) (w : val (owned N)), dom s w) by (intros; exact I).
  exists (@codec_region_spec (owned N) (owned_spec N) (fun v : list N => v) (fun v : list N => v)).
  split; [apply (@codec_region_ok (owned N) (owned_spec N) (owned_ok N) _ _ E T)|]. constructor.
  refine (@Build_Dense codec_owned _ codec_pair (fun x : list N * codec => length (fst x)) _ _ _ _ _ _).
  - intros [a b]. reflexivity.
  - reflexivity.
  - intros [s c]. reflexivity.
  - intros l. reflexivity.
  - intros [s c] [t d] [Hs _]. cbn in *. now rewrite Hs.
  - intros [s c] v [s' c'] i _ Hp. cbn [push codec_owned codec_region fst snd] in Hp.
    destruct (stored_form c v) as [sf|]; cbn [bind] in Hp; [|discriminate].
    cbn [push owned] in Hp. inversion Hp; subst. cbn. now rewrite app_length.
Qed.

(** * the comparisons [CollapseSequence] uses are sound for every payload but f64 *)
Lemma list_eqb_sound {A} (eqb : A -> A -> bool) : (forall a b, eqb a b = true -> a = b) ->
  forall l m, list_eqb eqb l m = true -> l = m.
Proof.
  intros Hs. induction l as [|x l IH]; intros [|y m] H; cbn in H; try discriminate; [reflexivity|].
  apply andb_prop in H. destruct H as [H1 H2]. f_equal; [apply Hs; exact H1|apply IH; exact H2].
Qed.
Lemma neqb_sound a b : N.eqb a b = true -> a = b.
Proof. apply N.eqb_eq. Qed.

Ltac veq_sound := cbn; first [apply list_eqb_sound; veq_sound | exact neqb_sound].

Ltac rok :=
  cbn [mr m_owned m_mirror m_vec m_string m_option m_result m_tuple2 m_codec m_huffman m_slice m_slice_vec
       m_collapse m_consec m_columns];
  repeat first
    [ apply rok_owned | apply rok_mirror | apply rok_vec | apply rok_codec | apply rok_huffman
    | apply rok_string | apply rok_option | apply rok_result | apply rok_tuple2
    | apply rok_slice | apply rok_columns | apply rok_consec
    | (apply rok_collapse; [|solve [veq_sound]])
    | apply dok_owned | apply dok_codec | apply dok_string | apply dok_slice
    | apply vec_ic_ok | apply index_list_ok | apply index_optimized_ok | apply ic_nat_ok ].

Theorem catalogue_contract chk szs n e : entry chk szs n = Some e -> n <> 21%N -> n <> 29%N -> ROK (mr e).
Proof.
  intros He H21 H29. unfold entry in He.
  destruct n as [|p]; [inversion He; subst; rok|].
  repeat (destruct p as [p|p|]; try discriminate He);
    try (exfalso; apply H21; reflexivity); try (exfalso; apply H29; reflexivity);
    inversion He; subst; clear He; rok.
Qed.

(** the two exceptions are exactly what is claimed: the catalogue does contain them *)
Example catalogue_exceptions chk szs : exists a b, entry chk szs 21 = Some a /\ entry chk szs 29 = Some b.
Proof. eexists _, _. split; reflexivity. Qed.

(** every FlatStack of the catalogue: its region meets the contract and its index container is a
    faithful sequence ([ICOk]) -- the two hypotheses of the FlatStack refinement theorems (C03) *)
Theorem fs_catalogue_contract chk szs n F : fs_entry chk szs n = Some F -> ROK (mr (fm F)) /\ inhabited (ICOk (fs_ic F)).
Proof.
  intros He. unfold fs_entry in He.
  destruct n as [|p]; [inversion He; subst; cbn [fm fs_ic]; split; [|constructor]; rok|].
  repeat (destruct p as [p|p|]; try discriminate He); inversion He; subst; clear He; cbn [fm fs_ic]; (split; [|constructor]); rok.
Qed.

(** * the read-item layer and the ordering, for every catalogue entry
    [MOKw M SP IS]: the packed region [M] meets the region contract, its read items meet the
    item laws (C13/C14/C20: index denotes read, borrow, clone_onto, push_item = push) and, where the
    Rust type has an [Ord], comparing items is comparing the owned values under a total order (C15). *)
From FC Require Import Region.ItemsOk Region.Compare Region.ItemsCodec Resource.Res Resource.ResOk Resource.ResMono.

Record MOKw (M : MRegion) (SP : RSpec (mr M)) (IS : ISpec (mi M)) : Prop := {
  mok_region : @RegionOK (mr M) SP;
  mok_items : @ItemsOK (mr M) SP (mi M) IS;
  mok_ord : forall C, m_ord M = Some C -> @ItemOrdOK (mr M) SP (mi M) IS C;
  mok_res : @ResMono (mr M) SP (m_res M);   (* C18: the used bytes never decrease on push *)
}.
Definition MOK (M : MRegion) : Prop := exists SP IS, @MOKw M SP IS.
Definition MDOK (M : MRegion) (PI : PairIdx (mr M)) : Prop :=
  exists SP IS, @MOKw M SP IS /\ inhabited (@Dense (mr M) SP PI).
Lemma mdok_mok M PI : @MDOK M PI -> MOK M.
Proof. intros (SP & IS & H & _). exists SP, IS. exact H. Qed.

Definition ecmp_ok (E : Elem) : Prop := forall c, e_cmp E = Some c -> TotalCmp c.
Lemma ecmp_word bits : ecmp_ok (e_word bits).
Proof. intros c Hc. inversion Hc; subst. apply N_cmp_total. Qed.
Lemma ecmp_unit : ecmp_ok e_unit.
Proof. intros c Hc. inversion Hc; subst. apply unit_cmp_total. Qed.
Lemma ecmp_f64 : ecmp_ok e_f64.
Proof. intros c Hc. discriminate. Qed.
Lemma ecmp_bits bits : ecmp_ok (e_bits bits).
Proof. intros c Hc. discriminate. Qed.
Lemma ecmp_f32 : ecmp_ok e_f32.
Proof. intros c Hc. discriminate. Qed.
Lemma ecmp_bool : ecmp_ok e_bool.
Proof. intros c Hc. inversion Hc; subst. apply N_cmp_total. Qed.
Lemma ecmp_char : ecmp_ok e_char.
Proof. intros c Hc. inversion Hc; subst. apply N_cmp_total. Qed.

Lemma option_map_some {A B} (f : A -> B) o y : option_map f o = Some y -> exists x, o = Some x /\ y = f x.
Proof. destruct o as [x|]; cbn; [|discriminate]. intros H. inversion H. eauto. Qed.

Lemma mok_owned E : ecmp_ok E -> MOK (m_owned E).
Proof.
  intros HE. exists (owned_spec (e_ty E)), (owned_ispec (e_ty E)). constructor.
  - apply owned_ok.
  - apply owned_items_ok.
  - intros C HC. cbn [m_ord m_owned] in HC. apply option_map_some in HC. destruct HC as (c & Hc & ->).
    apply (@owned_ord_ok (e_ty E) c (HE c Hc)).
  - apply (@resok_mono (owned (e_ty E)) _ (owned_ok (e_ty E)) _ (owned_res_ok (e_ty E) (e_sz E))).
Qed.
Lemma mdok_owned E : ecmp_ok E -> @MDOK (m_owned E) (owned_pair (e_ty E)).
Proof.
  intros HE. destruct (mok_owned HE) as (SP & IS & H).
  exists (owned_spec (e_ty E)), (owned_ispec (e_ty E)). split; [|constructor; apply owned_dense].
  constructor; [apply owned_ok|apply owned_items_ok| |].
  - intros C HC. cbn [m_ord m_owned] in HC. apply option_map_some in HC. destruct HC as (c & Hc & ->).
    apply (@owned_ord_ok (e_ty E) c (HE c Hc)).
  - apply (@resok_mono (owned (e_ty E)) _ (owned_ok (e_ty E)) _ (owned_res_ok (e_ty E) (e_sz E))).
Qed.
Lemma mok_mirror E : ecmp_ok E -> MOK (m_mirror E).
Proof.
  intros HE. exists (mirror_spec (e_ty E)), (mirror_ispec (e_ty E)). constructor.
  - apply mirror_ok.
  - apply mirror_items_ok.
  - intros C HC. cbn [m_ord m_mirror] in HC. apply option_map_some in HC. destruct HC as (c & Hc & ->).
    apply (@mirror_ord_ok (e_ty E) c (HE c Hc)).
  - apply mirror_res_mono.
Qed.
Lemma mok_vec E : ecmp_ok E -> MOK (m_vec E).
Proof.
  intros HE. exists (vec_region_spec (e_ty E)), (vec_region_ispec (e_ty E)). constructor.
  - apply vec_region_ok.
  - apply vec_region_items_ok.
  - intros C HC. cbn [m_ord m_vec] in HC. apply option_map_some in HC. destruct HC as (c & Hc & ->).
    apply (@vec_region_ord_ok (e_ty E) c (HE c Hc)).
  - apply (@resok_mono (vec_region (e_ty E)) _ (vec_region_ok (e_ty E)) _ (vec_region_res_ok (e_ty E) (e_sz E))).
Qed.

Lemma mokw_string wf M SP IS : @MOKw M SP IS ->
  @MOKw (m_string wf M) (@string_spec (mr M) (fun _ => True) SP) (@string_ispec (mr M) (mi M) IS).
Proof.
  intros [HR HI HO HV]. constructor.
  - apply string_ok. exact HR.
  - apply (@string_items_ok (mr M) (fun _ => True) SP (mi M) IS HI).
  - intros C HC. cbn [m_ord m_string] in HC. apply option_map_some in HC. destruct HC as (c & Hc & ->).
    apply (@string_ord_ok (mr M) (fun _ => True) SP (mi M) IS c (HO c Hc)).
  - apply (@string_res_mono (mr M) (fun _ => True) SP (m_res M) HV).
Qed.
Lemma mok_string wf M : MOK M -> MOK (m_string wf M).
Proof. intros (SP & IS & H). eexists _, _. apply mokw_string. exact H. Qed.
Lemma mdok_string wf M PI : @MDOK M PI -> @MDOK (m_string wf M) (@string_pair (mr M) PI).
Proof.
  intros (SP & IS & H & [D]). eexists _, _. split; [apply mokw_string; exact H|]. constructor.
  refine (@Build_Dense (string_region (mr M)) (@string_spec (mr M) (fun _ => True) SP) (@string_pair (mr M) PI) (@extent (mr M) SP PI D) _ _ _ _ _ _).
  - apply (@of_to (mr M) SP PI D).
  - apply (@extent_dflt (mr M) SP PI D).
  - apply (@extent_clear (mr M) SP PI D).
  - apply (@extent_merge (mr M) SP PI D).
  - apply (@extent_sim (mr M) SP PI D).
  - apply (@dense_push (mr M) SP PI D).
Qed.

Lemma mok_option M : MOK M -> MOK (m_option M).
Proof.
  intros (SP & IS & [HR HI HO HV]). exists (@option_spec (mr M) SP), (@option_ispec (mr M) (mi M) IS). constructor.
  - apply (@option_ok (mr M) SP HR).
  - apply (@option_items_ok (mr M) SP (mi M) IS HI).
  - intros C HC. cbn [m_ord m_option] in HC. apply option_map_some in HC. destruct HC as (c & Hc & ->).
    apply (@option_ord_ok (mr M) SP (mi M) IS c HI (HO c Hc)).
  - apply (@option_res_mono (mr M) SP HR (m_res M) HV).
Qed.
Lemma mok_result A B : MOK A -> MOK B -> MOK (m_result A B).
Proof.
  intros (SA & IA & [HRA HIA HOA HVA]) (SB & IB & [HRB HIB HOB HVB]).
  exists (@result_spec (mr A) (mr B) SA SB), (@result_ispec (mr A) (mr B) (mi A) (mi B) IA IB). constructor.
  - apply (@result_ok (mr A) (mr B) SA HRA SB HRB).
  - apply (@result_items_ok (mr A) (mr B) SA SB (mi A) (mi B) IA IB HIA HIB).
  - intros C HC. cbn [m_ord m_result] in HC.
    destruct (m_ord A) as [ca|]; [|discriminate]. destruct (m_ord B) as [cb|]; [|discriminate]. inversion HC; subst.
    apply (@result_ord_ok (mr A) (mr B) SA SB (mi A) (mi B) IA IB ca cb (HOA ca eq_refl) (HOB cb eq_refl)).
  - apply (@result_res_mono (mr A) (mr B) SA HRA SB HRB (m_res A) (m_res B) HVA HVB).
Qed.
Lemma mok_tuple2 A B : MOK A -> MOK B -> MOK (m_tuple2 A B).
Proof.
  intros (SA & IA & [HRA HIA HOA HVA]) (SB & IB & [HRB HIB HOB HVB]).
  exists (@tuple2_spec (mr A) (mr B) SA SB), (@tuple2_ispec (mr A) (mr B) (mi A) (mi B) IA IB). constructor.
  - apply (@tuple2_ok (mr A) (mr B) SA HRA SB HRB).
  - apply (@tuple2_items_ok (mr A) (mr B) SA SB (mi A) (mi B) IA IB HIA HIB).
  - intros C HC. cbn [m_ord m_tuple2] in HC.
    destruct (m_ord A) as [ca|]; [|discriminate]. destruct (m_ord B) as [cb|]; [|discriminate]. inversion HC; subst.
    apply (@tuple2_ord_ok (mr A) (mr B) SA SB (mi A) (mi B) IA IB ca cb (HOA ca eq_refl) (HOB cb eq_refl)).
  - apply (@tuple2_res_mono (mr A) (mr B) SA HRA SB HRB (m_res A) (m_res B) HVA HVB).
Qed.

Lemma mokw_slice M (O : IC (idx (mr M))) {OS : ICSer O} SP IS (HO : ICOk O) (HU : ICUsedMono O) : @MOKw M SP IS ->
  @MOKw (m_slice M O) (@slice_spec (mr M) O SP HO) (@slice_ispec (mr M) SP O HO (mi M)).
Proof.
  intros [HR HI HOr HV]. constructor.
  - apply (@slice_ok (mr M) O SP HR HO).
  - apply (@slice_items_ok (mr M) SP HR O HO (mi M) IS HI).
  - intros C HC. cbn [m_ord m_slice] in HC. apply option_map_some in HC. destruct HC as (c & Hc & ->).
    apply (@slice_ord_ok (mr M) SP HR O HO (mi M) IS HI c (HOr c Hc)).
  - apply (@slice_res_mono (mr M) O SP HR HO HU 0%N (m_res M) HV).
Qed.
Lemma mok_slice M (O : IC (idx (mr M))) {OS : ICSer O} : MOK M -> ICOk O -> ICUsedMono O -> MOK (m_slice M O).
Proof. intros (SP & IS & H) HO HU. eexists _, _. apply (@mokw_slice M O OS SP IS HO HU H). Qed.
Lemma mokw_slice_vec M isz SP IS : @MOKw M SP IS ->
  @MOKw (m_slice_vec M isz) (@slice_spec (mr M) (vec_ic (idx (mr M)) isz) SP (vec_ic_ok _ _))
        (@slice_ispec (mr M) SP (vec_ic (idx (mr M)) isz) (vec_ic_ok _ _) (mi M)).
Proof.
  intros HM. pose proof HM as [HR0 _ _ HV0].
  destruct (@mokw_slice M (vec_ic (idx (mr M)) isz) _ SP IS (vec_ic_ok _ _) (@vec_ic_used_mono _ _) HM) as [HR HI HO _].
  constructor; [exact HR|exact HI|exact HO|].
  apply (@slice_vec_res_mono (mr M) SP HR0 isz (m_res M) HV0).
Qed.
Lemma mok_slice_vec M isz : MOK M -> MOK (m_slice_vec M isz).
Proof. intros (SP & IS & H). eexists _, _. apply (@mokw_slice_vec M isz SP IS H). Qed.

Lemma slice_dense_inst (R : Region) (O : IC (idx R)) SP (HR : @RegionOK R SP) (HO : ICOk O) :
  @Dense (slice R O) (@slice_spec R O SP HO) (slice_pair R O).
Proof.
  refine (@Build_Dense (slice R O) (@slice_spec R O SP HO) (slice_pair R O)
            (fun x : ic_st O * st R => length (ic_abs (fst x))) _ _ _ _ _ _).
  - intros [a b]. reflexivity.
  - cbn. now rewrite abs_default.
  - intros [so sr]. cbn. now rewrite abs_clear.
  - intros l. cbn. now rewrite abs_default.
  - intros [so sr] [to tr] [Habs _]. cbn in *. now rewrite Habs.
  - intros [so sr] v [so' sr'] i (Hio & Hi & _) Hp. cbn [push slice fst snd] in Hp.
    destruct (push_all R sr v) as [[sr1 is]|]; cbn [bind] in Hp; [|discriminate]. inversion Hp; subst.
    destruct (@push_all_ic _ O HO is so Hio) as [Hio' _].
    cbn [to_pair slice_pair fst snd]. now rewrite !abs_len by assumption.
Qed.
Lemma mdok_slice M (O : IC (idx (mr M))) {OS : ICSer O} : MOK M -> ICOk O -> ICUsedMono O -> @MDOK (m_slice M O) (slice_pair (mr M) O).
Proof.
  intros (SP & IS & H) HO HU. eexists _, _. split; [apply (@mokw_slice M O OS SP IS HO HU H)|]. constructor.
  destruct H as [HR _ _ _]. apply (slice_dense_inst HR HO).
Qed.
Lemma mdok_slice_vec M isz : MOK M -> @MDOK (m_slice_vec M isz) (slice_pair (mr M) (vec_ic (idx (mr M)) isz)).
Proof.
  intros (SP & IS & H). eexists _, _. split; [apply (@mokw_slice_vec M isz SP IS H)|]. constructor.
  destruct H as [HR _ _ _]. apply (slice_dense_inst HR (vec_ic_ok _ _)).
Qed.

Lemma mok_collapse M : MOK M -> (forall v w, m_veq M v w = true -> v = w) -> MOK (m_collapse M).
Proof.
  intros (SP & IS & [HR HI HO HV]) Hs.
  exists (@collapse_spec (mr M) (m_veq M) SP), (@collapse_ispec (mr M) (m_veq M) (mi M) IS). constructor.
  - apply (@collapse_ok (mr M) (m_veq M) SP HR Hs).
  - apply (@collapse_items_ok (mr M) (m_veq M) SP (mi M) IS HI).
  - intros C HC. cbn [m_ord m_collapse] in HC. apply option_map_some in HC. destruct HC as (c & Hc & ->).
    apply (@collapse_ord_ok (mr M) (m_veq M) SP (mi M) IS c (HO c Hc)).
  - apply (@collapse_res_mono (mr M) (m_veq M) SP HR (m_res M) HV).
Qed.

Lemma mok_consec M PI (O : IC nat) {OS : ICSer O} chk : @MDOK M PI -> ICOk O -> ICUsedMono O -> MOK (@m_consec M PI O OS chk).
Proof.
  intros (SP & IS & [HR HI HOr HV] & [D]) HO HU.
  exists (@consec_spec (mr M) SP PI D O HO chk), (@consec_ispec (mr M) PI O chk (mi M) IS). constructor.
  - apply (@consec_ok (mr M) SP HR PI D O HO chk).
  - apply (@consec_items_ok (mr M) SP HR PI D O HO chk (mi M) IS HI).
  - intros C HC. cbn [m_ord m_consec] in HC. apply option_map_some in HC. destruct HC as (c & Hc & ->).
    apply (@consec_ord_ok (mr M) SP HR PI D O HO chk (mi M) IS c (HOr c Hc)).
  - apply (@consec_res_mono (mr M) SP HR PI D O HO HU chk (m_res M) HV).
Qed.

Lemma mok_columns M (O : IC nat) {OS : ICSer O} chk csz isz : MOK M -> ICOk O -> ICUsedMono O -> MOK (m_columns M O chk csz isz).
Proof.
  intros (SP & IS & [HR HI HOr HV]) HO HU.
  exists (@columns_spec (mr M) SP O HO chk), (@columns_ispec (mr M) SP O chk (mi M)). constructor.
  - apply (@columns_ok (mr M) SP HR O HO chk).
  - apply (@columns_items_ok (mr M) SP HR O HO chk (mi M) IS HI).
  - intros C HC. discriminate HC.
  - apply (@columns_res_mono (mr M) SP O HO HU chk (m_res M) HV csz isz).
Qed.

Lemma codec_E : forall x : list N, (fun v : list N => v) ((fun v : list N => v) x) = x.
Proof. reflexivity. Qed.
Lemma codec_T : forall (s : st (owned N)) (w : val (owned N)), dom s w.
Proof. intros; exact I. Qed.

Lemma mokw_codec : @MOKw m_codec (@codec_region_spec (owned N) (owned_spec N) (fun v : list N => v) (fun v : list N => v))
                      (@codec_ispec (owned N) (fun v : list N => v) (fun v : list N => v)).
Proof.
  constructor.
  - apply (@codec_region_ok (owned N) (owned_spec N) (owned_ok N) _ _ codec_E codec_T).
  - apply (@codec_items_ok (owned N) (owned_spec N) (owned_ok N) _ _ codec_E codec_T).
  - intros C HC. cbn [m_ord m_codec] in HC. inversion HC; subst.
    apply (@codec_ord_ok (owned N) (owned_spec N) (fun v : list N => v) (fun v : list N => v) N.compare N_cmp_total).
  - (* the inner byte region only ever grows *)
    intros [s c] v [s' c'] i _ Hp. cbn [mr m_codec m_res] in *. unfold codec_owned in Hp. cbn [push codec_region fst snd] in Hp.
    destruct (stored_form c v) as [sf|]; cbn [bind] in Hp; [|discriminate]. cbn [push owned] in Hp. inversion Hp; subst.
    cbn [r_used fst total fold_right]. rewrite app_length. lia.
Qed.
Lemma mok_codec : MOK m_codec.
Proof. eexists _, _. exact mokw_codec. Qed.
Lemma mdok_codec : @MDOK m_codec codec_pair.
Proof.
  eexists _, _. split; [exact mokw_codec|]. constructor.
  refine (@Build_Dense codec_owned _ codec_pair (fun x : list N * codec => length (fst x)) _ _ _ _ _ _).
  - intros [a b]. reflexivity.
  - reflexivity.
  - intros [s c]. reflexivity.
  - intros l. reflexivity.
  - intros [s c] [t d] [Hs _]. cbn in *. now rewrite Hs.
  - intros [s c] v [s' c'] i _ Hp. cbn [push codec_owned codec_region fst snd] in Hp.
    destruct (stored_form c v) as [sf|]; cbn [bind] in Hp; [|discriminate].
    cbn [push owned] in Hp. inversion Hp; subst. cbn. now rewrite app_length.
Qed.
Lemma mok_huffman bits : MOK (m_huffman bits).
Proof.
  exists huffman_spec, huffman_ispec. constructor.
  - apply huffman_ok.
  - apply huffman_items_ok.
  - intros C HC. cbn [m_ord m_huffman] in HC. inversion HC; subst. apply (@huffman_ord_ok N.compare N_cmp_total).
  - intros s v s' i _ _. cbn. lia.
Qed.

Lemma mdok_str_owned wf bits : @MDOK (m_string wf (m_owned (e_word bits))) (owned_pair N).
Proof. exact (@mdok_string wf (m_owned (e_word bits)) (owned_pair N) (mdok_owned (@ecmp_word bits))). Qed.
Lemma mdok_str_codec wf : @MDOK (m_string wf m_codec) codec_pair.
Proof. exact (@mdok_string wf m_codec codec_pair mdok_codec). Qed.

Ltac mok :=
  repeat first
    [ apply mdok_str_owned | apply mdok_str_codec | apply mok_codec | apply mok_huffman | apply mdok_codec
    | (apply mok_owned; first [apply ecmp_word | apply ecmp_unit | apply ecmp_f64 | apply ecmp_bits | apply ecmp_f32 | apply ecmp_bool | apply ecmp_char])
    | (apply mdok_owned; first [apply ecmp_word | apply ecmp_unit | apply ecmp_f64 | apply ecmp_bits | apply ecmp_f32 | apply ecmp_bool | apply ecmp_char])
    | (apply mok_mirror; first [apply ecmp_word | apply ecmp_unit | apply ecmp_f64 | apply ecmp_bits | apply ecmp_f32 | apply ecmp_bool | apply ecmp_char])
    | (apply mok_vec; first [apply ecmp_word | apply ecmp_unit | apply ecmp_f64 | apply ecmp_bits | apply ecmp_f32 | apply ecmp_bool | apply ecmp_char])
    | apply mok_string | apply mdok_string | apply mok_option | apply mok_result | apply mok_tuple2
    | apply mok_slice_vec | apply mdok_slice_vec | apply mok_slice | apply mdok_slice
    | apply mok_columns | apply mok_consec
    | (apply mok_collapse; [|solve [veq_sound]])
    | apply vec_ic_ok | apply index_list_ok | apply index_optimized_ok | apply ic_nat_ok
    | apply vec_ic_used_mono | apply index_list_used_mono | apply index_optimized_used_mono | apply ic_nat_used_mono ].

(** EVERY region of the catalogue (except the two stated exceptions): region contract, read-item
    laws and -- where the Rust type is ordered -- the ordering law. *)
Theorem catalogue_full chk szs n e : entry chk szs n = Some e -> n <> 21%N -> n <> 29%N ->
  exists (SP : RSpec (mr e)) (IS : ISpec (mi e)),
    @RegionOK (mr e) SP /\ @ItemsOK (mr e) SP (mi e) IS /\
    (forall C, m_ord e = Some C -> @ItemOrdOK (mr e) SP (mi e) IS C) /\
    @ResMono (mr e) SP (m_res e).
Proof.
  intros He H21 H29.
  assert (HM : MOK e).
  { unfold entry in He.
    destruct n as [|p]; [inversion He; subst; mok|].
    repeat (destruct p as [p|p|]; try discriminate He);
      try (exfalso; apply H21; reflexivity); try (exfalso; apply H29; reflexivity);
      inversion He; subst; clear He; mok. }
  destruct HM as (SP & IS & [HR HI HO HV]). exists SP, IS. auto.
Qed.

(** * the serialised form (C16): for every catalogue entry whose Rust type derives Serialize, the
    name-free tree the model computes from its state determines the state (and the index) *)
Definition SOK (M : MRegion) : Prop := forall S, m_ser M = Some S -> SerInj S.
Definition eto_inj (E : Elem) : Prop := injective (e_to E).
Lemma eto_word bits : eto_inj (e_word bits).
Proof. intros x y H. cbn in H. inversion H. reflexivity. Qed.
Lemma eto_unit : eto_inj e_unit.
Proof. intros [] [] _. reflexivity. Qed.
Lemma eto_f64 : eto_inj e_f64.
Proof. intros x y H. cbn in H. inversion H. reflexivity. Qed.
Lemma eto_bits bits : eto_inj (e_bits bits).
Proof. intros x y H. cbn in H. inversion H. reflexivity. Qed.
Lemma eto_f32 : eto_inj e_f32.
Proof. intros x y H. cbn in H. inversion H. reflexivity. Qed.
Lemma eto_bool : eto_inj e_bool.
Proof. intros x y H. cbn in H. inversion H. reflexivity. Qed.
Lemma eto_char : eto_inj e_char.
Proof. intros x y H. cbn in H. inversion H. reflexivity. Qed.

Lemma sok_owned E : eto_inj E -> SOK (m_owned E).
Proof. intros HE S HS. cbn in HS. inversion HS; subst. apply owned_ser_inj. exact HE. Qed.
Lemma sok_mirror E : eto_inj E -> SOK (m_mirror E).
Proof. intros HE S HS. cbn in HS. inversion HS; subst. apply mirror_ser_inj. exact HE. Qed.
Lemma sok_vec E : eto_inj E -> SOK (m_vec E).
Proof. intros HE S HS. cbn in HS. inversion HS; subst. apply vec_region_ser_inj. exact HE. Qed.
Lemma sok_string wf M : SOK M -> SOK (m_string wf M).
Proof. intros HM S HS. cbn [m_ser m_string] in HS. apply option_map_some in HS. destruct HS as (s & Hs & ->). apply (@string_ser_inj _ s (HM s Hs)). Qed.
Lemma sok_option M : SOK M -> SOK (m_option M).
Proof. intros HM S HS. cbn [m_ser m_option] in HS. apply option_map_some in HS. destruct HS as (s & Hs & ->). apply (@option_ser_inj _ s (HM s Hs)). Qed.
Lemma sok_result A B : SOK A -> SOK B -> SOK (m_result A B).
Proof.
  intros HA HB S HS. cbn [m_ser m_result] in HS.
  destruct (m_ser A) as [a|] eqn:Ea; [|discriminate]. destruct (m_ser B) as [b|] eqn:Eb; [|discriminate].
  inversion HS; subst. apply (@result_ser_inj _ _ a b (HA a Ea) (HB b Eb)).
Qed.
Lemma sok_tuple2 A B : SOK A -> SOK B -> SOK (m_tuple2 A B).
Proof.
  intros HA HB S HS. cbn [m_ser m_tuple2] in HS.
  destruct (m_ser A) as [a|] eqn:Ea; [|discriminate]. destruct (m_ser B) as [b|] eqn:Eb; [|discriminate].
  inversion HS; subst. apply (@tuple2_ser_inj _ _ a b (HA a Ea) (HB b Eb)).
Qed.
Lemma sok_slice M (O : IC (idx (mr M))) {OS : ICSer O} : SOK M -> ICSerInj O -> SOK (m_slice M O).
Proof.
  intros HM HO S HS. cbn [m_ser m_slice] in HS. apply option_map_some in HS. destruct HS as (s & Hs & ->).
  apply (@slice_ser_inj (mr M) O OS HO s (HM s Hs)).
Qed.
Lemma sok_slice_vec M isz : SOK M -> SOK (m_slice_vec M isz).
Proof. intros HM S HS. exact (@sok_slice M (vec_ic (idx (mr M)) isz) _ HM (@vec_ic_ser_inj (idx (mr M)) isz) S HS). Qed.
Lemma sok_collapse M : SOK M -> SOK (m_collapse M).
Proof.
  intros HM S HS. cbn [m_ser m_collapse] in HS. apply option_map_some in HS. destruct HS as (s & Hs & ->).
  apply (@collapse_ser_inj (mr M) (m_veq M) s (HM s Hs)).
Qed.
Lemma sok_consec M PI (O : IC nat) {OS : ICSer O} chk : SOK M -> ICSerInj O -> SOK (@m_consec M PI O OS chk).
Proof.
  intros HM HO S HS. cbn [m_ser m_consec] in HS. apply option_map_some in HS. destruct HS as (s & Hs & ->).
  apply (@consec_ser_inj (mr M) PI O OS HO chk s (HM s Hs)).
Qed.
Lemma sok_columns M (O : IC nat) {OS : ICSer O} chk csz isz : SOK M -> ICSerInj O -> SOK (m_columns M O chk csz isz).
Proof.
  intros HM HO S HS. cbn [m_ser m_columns] in HS. apply option_map_some in HS. destruct HS as (s & Hs & ->).
  apply (@columns_ser_inj (mr M) O OS HO chk s (HM s Hs)).
Qed.
Lemma sok_codec : SOK m_codec.
Proof. intros S HS. discriminate HS. Qed.
Lemma sok_huffman bits : SOK (m_huffman bits).
Proof. intros S HS. discriminate HS. Qed.

Ltac sok :=
  repeat first
    [ apply sok_codec | apply sok_huffman
    | (apply sok_owned; first [apply eto_word | apply eto_unit | apply eto_f64 | apply eto_bits | apply eto_f32 | apply eto_bool | apply eto_char])
    | (apply sok_mirror; first [apply eto_word | apply eto_unit | apply eto_f64 | apply eto_bits | apply eto_f32 | apply eto_bool | apply eto_char])
    | (apply sok_vec; first [apply eto_word | apply eto_unit | apply eto_f64 | apply eto_bits | apply eto_f32 | apply eto_bool | apply eto_char])
    | apply sok_string | apply sok_option | apply sok_result | apply sok_tuple2
    | apply sok_slice_vec | apply sok_slice | apply sok_columns | apply sok_consec | apply sok_collapse
    | apply vec_ic_ser_inj | apply index_list_ser_inj | apply index_optimized_ser_inj | apply ic_nat_ser_inj ].

Theorem catalogue_ser_inj chk szs n e : entry chk szs n = Some e -> forall S, m_ser e = Some S -> SerInj S.
Proof.
  intros He. change (SOK e). unfold entry in He.
  destruct n as [|p]; [inversion He; subst; sok|].
  repeat (destruct p as [p|p|]; try discriminate He); inversion He; subst; clear He; sok.
Qed.

(** * clone_from (C09): for every catalogue entry whose Rust type is Clone, the field-by-field
    [clone_from] of the model returns the source whatever the destination held *)
Definition COK (M : MRegion) : Prop := forall C, m_clone M = Some C -> CloneFromOK C.
Lemma cok_owned E : COK (m_owned E).
Proof. intros C HC. cbn in HC. inversion HC; subst. apply owned_clone_ok. Qed.
Lemma cok_mirror E : COK (m_mirror E).
Proof. intros C HC. cbn in HC. inversion HC; subst. apply mirror_clone_ok. Qed.
Lemma cok_vec E : COK (m_vec E).
Proof. intros C HC. cbn in HC. inversion HC; subst. apply vec_region_clone_ok. Qed.
Lemma cok_string wf M : COK M -> COK (m_string wf M).
Proof. intros HM C HC. cbn [m_clone m_string] in HC. apply option_map_some in HC. destruct HC as (c & Hc & ->). apply (@string_clone_ok _ c (HM c Hc)). Qed.
Lemma cok_option M : COK M -> COK (m_option M).
Proof. intros HM C HC. cbn [m_clone m_option] in HC. apply option_map_some in HC. destruct HC as (c & Hc & ->). apply (@option_clone_ok _ c (HM c Hc)). Qed.
Lemma cok_result A B : COK A -> COK B -> COK (m_result A B).
Proof.
  intros HA HB C HC. cbn [m_clone m_result] in HC.
  destruct (m_clone A) as [a|] eqn:Ea; [|discriminate]. destruct (m_clone B) as [b|] eqn:Eb; [|discriminate].
  inversion HC; subst. apply (@result_clone_ok _ _ a b (HA a Ea) (HB b Eb)).
Qed.
Lemma cok_tuple2 A B : COK A -> COK B -> COK (m_tuple2 A B).
Proof.
  intros HA HB C HC. cbn [m_clone m_tuple2] in HC.
  destruct (m_clone A) as [a|] eqn:Ea; [|discriminate]. destruct (m_clone B) as [b|] eqn:Eb; [|discriminate].
  inversion HC; subst. apply (@tuple2_clone_ok _ _ a b (HA a Ea) (HB b Eb)).
Qed.
Lemma cok_slice M (O : IC (idx (mr M))) {OS : ICSer O} : COK M -> COK (m_slice M O).
Proof. intros HM C HC. cbn [m_clone m_slice] in HC. apply option_map_some in HC. destruct HC as (c & Hc & ->). apply (@slice_clone_ok _ O c (HM c Hc)). Qed.
Lemma cok_slice_vec M isz : COK M -> COK (m_slice_vec M isz).
Proof. intros HM C HC. exact (@cok_slice M (vec_ic (idx (mr M)) isz) _ HM C HC). Qed.
Lemma cok_collapse M : COK M -> COK (m_collapse M).
Proof. intros HM C HC. cbn [m_clone m_collapse] in HC. apply option_map_some in HC. destruct HC as (c & Hc & ->). apply (@collapse_clone_ok _ (m_veq M) c (HM c Hc)). Qed.
Lemma cok_consec M PI (O : IC nat) {OS : ICSer O} chk : COK M -> COK (@m_consec M PI O OS chk).
Proof. intros HM C HC. cbn [m_clone m_consec] in HC. apply option_map_some in HC. destruct HC as (c & Hc & ->). apply (@consec_clone_ok _ PI O chk c (HM c Hc)). Qed.
Lemma cok_columns M (O : IC nat) {OS : ICSer O} chk csz isz : COK M -> COK (m_columns M O chk csz isz).
Proof. intros HM C HC. cbn [m_clone m_columns] in HC. apply option_map_some in HC. destruct HC as (c & Hc & ->). apply (@columns_clone_ok _ O chk c (HM c Hc)). Qed.
Lemma cok_codec : COK m_codec.
Proof. intros C HC. discriminate HC. Qed.
Lemma cok_huffman bits : COK (m_huffman bits).
Proof. intros C HC. cbn in HC. inversion HC; subst. intros d s. reflexivity. Qed.

Ltac cok :=
  repeat first
    [ apply cok_codec | apply cok_huffman | apply cok_owned | apply cok_mirror | apply cok_vec
    | apply cok_string | apply cok_option | apply cok_result | apply cok_tuple2
    | apply cok_slice_vec | apply cok_slice | apply cok_columns | apply cok_consec | apply cok_collapse ].

Theorem catalogue_clone_from chk szs n e : entry chk szs n = Some e ->
  forall C, m_clone e = Some C -> forall d s, r_clone_from C d s = s.
Proof.
  intros He. change (COK e). unfold entry in He.
  destruct n as [|p]; [inversion He; subst; cok|].
  repeat (destruct p as [p|p|]; try discriminate He); inversion He; subst; clear He; cok.
Qed.

(** * merged regions are fresh (C10): for every NON-CODED catalogue entry, a region obtained by
    merge_regions from any well-formed regions is observationally a default region (the coded
    entries start empty but carry a dictionary / code table: their statements are C06, C07) *)
Definition FOK (R : Region) : Prop := exists SP : RSpec R, @RegionOK R SP /\ @MergeFresh R SP.
Definition FDOK (R : Region) (PI : PairIdx R) : Prop :=
  exists SP : RSpec R, @RegionOK R SP /\ @MergeFresh R SP /\ inhabited (@Dense R SP PI).
Lemma fdok_fok R PI : @FDOK R PI -> FOK R.
Proof. intros (SP & H & F & _). exists SP. auto. Qed.
Lemma fok_owned T : FOK (owned T).
Proof. exists (owned_spec T). split; [apply owned_ok|apply owned_merge_fresh]. Qed.
Lemma fdok_owned T : @FDOK (owned T) (owned_pair T).
Proof. exists (owned_spec T). split; [apply owned_ok|]. split; [apply owned_merge_fresh|constructor; apply owned_dense]. Qed.
Lemma fok_mirror T : FOK (mirror T).
Proof. exists (mirror_spec T). split; [apply mirror_ok|apply mirror_merge_fresh]. Qed.
Lemma fok_vec T : FOK (vec_region T).
Proof. exists (vec_region_spec T). split; [apply vec_region_ok|apply vec_region_merge_fresh]. Qed.
Lemma fok_string R : FOK R -> FOK (string_region R).
Proof. intros (SP & H & F). exists (@string_spec R (fun _ => True) SP). split; [apply string_ok; exact H|apply (@string_merge_fresh R (fun _ => True) SP F)]. Qed.
Lemma fdok_string R PI : @FDOK R PI -> @FDOK (string_region R) (@string_pair R PI).
Proof.
  intros (SP & H & F & [D]). exists (@string_spec R (fun _ => True) SP).
  split; [apply string_ok; exact H|]. split; [apply (@string_merge_fresh R (fun _ => True) SP F)|]. constructor.
  refine (@Build_Dense (string_region R) (@string_spec R (fun _ => True) SP) (@string_pair R PI) (@extent R SP PI D) _ _ _ _ _ _).
  - apply (@of_to R SP PI D).
  - apply (@extent_dflt R SP PI D).
  - apply (@extent_clear R SP PI D).
  - apply (@extent_merge R SP PI D).
  - apply (@extent_sim R SP PI D).
  - apply (@dense_push R SP PI D).
Qed.
Lemma fok_option R : FOK R -> FOK (option_region R).
Proof. intros (SP & H & F). exists (@option_spec R SP). split; [apply (@option_ok R SP H)|apply (@option_merge_fresh R SP H F)]. Qed.
Lemma fok_result A B : FOK A -> FOK B -> FOK (result_region A B).
Proof.
  intros (SA & HA & FA) (SB & HB & FB). exists (@result_spec A B SA SB).
  split; [apply (@result_ok A B SA HA SB HB)|apply (@result_merge_fresh A B SA HA SB HB FA FB)].
Qed.
Lemma fok_tuple2 A B : FOK A -> FOK B -> FOK (tuple2 A B).
Proof.
  intros (SA & HA & FA) (SB & HB & FB). exists (@tuple2_spec A B SA SB).
  split; [apply (@tuple2_ok A B SA HA SB HB)|apply (@tuple2_merge_fresh A B SA HA SB HB FA FB)].
Qed.
Lemma fok_slice R (O : IC (idx R)) : FOK R -> ICOk O -> FOK (slice R O).
Proof. intros (SP & H & F) HO. exists (@slice_spec R O SP HO). split; [apply (@slice_ok R O SP H HO)|apply (@slice_merge_fresh R O SP H F HO)]. Qed.
Lemma fdok_slice R (O : IC (idx R)) : FOK R -> ICOk O -> @FDOK (slice R O) (slice_pair R O).
Proof.
  intros (SP & H & F) HO. exists (@slice_spec R O SP HO). split; [apply (@slice_ok R O SP H HO)|].
  split; [apply (@slice_merge_fresh R O SP H F HO)|constructor; apply (slice_dense_inst H HO)].
Qed.
Lemma fok_collapse R veq : FOK R -> (forall v w, veq v w = true -> v = w) -> FOK (collapse R veq).
Proof.
  intros (SP & H & F) Hs. exists (@collapse_spec R veq SP).
  split; [apply (@collapse_ok R veq SP H Hs)|apply (@collapse_merge_fresh R veq SP H F)].
Qed.
Lemma fok_consec R PI (O : IC nat) chk : @FDOK R PI -> ICOk O -> FOK (@consec R PI O chk).
Proof.
  intros (SP & H & F & [D]) HO. exists (@consec_spec R SP PI D O HO chk).
  split; [apply (@consec_ok R SP H PI D O HO chk)|apply (@consec_merge_fresh R SP H PI D F O HO chk)].
Qed.
Lemma fok_columns R (O : IC nat) chk : FOK R -> ICOk O -> FOK (columns R O chk).
Proof.
  intros (SP & H & F) HO. exists (@columns_spec R SP O HO chk).
  split; [apply (@columns_ok R SP H O HO chk)|apply (@columns_merge_fresh R SP H F O HO chk)].
Qed.

Ltac fok :=
  cbn [mr m_owned m_mirror m_vec m_string m_option m_result m_tuple2 m_slice m_slice_vec m_collapse m_consec m_columns];
  repeat first
    [ apply fok_owned | apply fok_mirror | apply fok_vec
    | apply fok_string | apply fok_option | apply fok_result | apply fok_tuple2
    | apply fok_slice | apply fok_columns | apply fok_consec
    | (apply fok_collapse; [|solve [veq_sound]])
    | apply fdok_owned | apply fdok_string | apply fdok_slice
    | apply vec_ic_ok | apply index_list_ok | apply index_optimized_ok | apply ic_nat_ok ].

(** the coded entries (dictionary / Huffman inside) and the two stated exceptions are excluded *)
Definition structural (n : N) : bool :=
  negb (N.eqb n 21 || N.eqb n 29 || ((41 <=? n) && (n <=? 51)) || N.eqb n 58 || N.eqb n 69)%N.

Theorem catalogue_merge_fresh chk szs n e : entry chk szs n = Some e -> structural n = true ->
  exists SP : RSpec (mr e), @RegionOK (mr e) SP /\
    forall l, Forall (@inv _ SP) l -> @sim _ SP (merge (mr e) l) (dflt (mr e)).
Proof.
  intros He Hn.
  assert (HF : FOK (mr e)).
  { unfold entry in He.
    destruct n as [|p]; [inversion He; subst; fok|].
    repeat (destruct p as [p|p|]; try discriminate He); try discriminate Hn;
      inversion He; subst; clear He; fok. }
  destruct HF as (SP & H & F). exists SP. split; [exact H|exact F].
Qed.
