(** The tie between the theorems and the terms the correspondence runs: EVERY region of the
    catalogue -- the very [entry] function that is extracted to OCaml and run against the crate --
    meets the region contract [RegionOK] (so C01/C02/C08/C10 and the history theorems hold for it),
    with two exceptions that are stated, not hidden:
    - entry 29, ConsecutiveIndexPairs directly over CollapseSequence (known finding D8), and
    - entry 21, CollapseSequence over f64 (IEEE [==] is not equality: +0.0 == -0.0; its contract
      is C11's [collapse_push_spec], which assumes nothing about the comparison). *)
From FC Require Import Base.Res Base.Utf8 Index.IC Index.Stride Index.StrideOk Region.Region Region.Owned Region.Simple
  Region.Slice Region.Collapse Region.Consec Region.Columns Codec.Dictionary Codec.DictionaryOk
  Huffman.Huffman Huffman.HuffRegion Region.Items Model.Wire Model.Pairs Model.FSMachine Model.Catalogue.
From Coq Require Import Lia.
Set Implicit Arguments.

Definition ROK (R : Region) : Prop := exists SP : RSpec R, @RegionOK R SP.
Definition DOK (R : Region) (PI : PairIdx R) : Prop :=
  exists SP : RSpec R, @RegionOK R SP /\ inhabited (@Dense R SP PI).

Lemma dok_rok R PI : @DOK R PI -> ROK R.
Proof. intros (SP & H & _). exists SP. exact H. Qed.

(** * every combinator preserves the contract *)
Lemma rok_owned T : ROK (owned T).
Proof. eexists. apply owned_ok. Qed.
Lemma rok_mirror T : ROK (mirror T).
Proof. eexists. apply mirror_ok. Qed.
Lemma rok_vec T : ROK (vec_region T).
Proof. eexists. apply vec_region_ok. Qed.
Lemma rok_string R : ROK R -> ROK (string_region R).
Proof. intros (SP & H). exists (@string_spec R (fun _ => True) SP). apply string_ok. exact H. Qed.
Lemma rok_option R : ROK R -> ROK (option_region R).
Proof. intros (SP & H). eexists. apply (@option_ok R SP H). Qed.
Lemma rok_result A B : ROK A -> ROK B -> ROK (result_region A B).
Proof. intros (SA & HA) (SB & HB). eexists. apply (@result_ok A B SA HA SB HB). Qed.
Lemma rok_tuple2 A B : ROK A -> ROK B -> ROK (tuple2 A B).
Proof. intros (SA & HA) (SB & HB). eexists. apply (@tuple2_ok A B SA HA SB HB). Qed.
Lemma rok_slice R (O : IC (idx R)) : ROK R -> ICOk O -> ROK (slice R O).
Proof. intros (SP & H) HO. eexists. apply (@slice_ok R O SP H HO). Qed.
Lemma rok_collapse R veq : ROK R -> (forall v w, veq v w = true -> v = w) -> ROK (collapse R veq).
Proof. intros (SP & H) Hs. eexists. apply (@collapse_ok R veq SP H Hs). Qed.
Lemma rok_consec R PI (O : IC nat) chk : @DOK R PI -> ICOk O -> ROK (@consec R PI O chk).
Proof. intros (SP & H & [D]) HO. eexists. apply (@consec_ok R SP H PI D O HO chk). Qed.
Lemma rok_columns R (O : IC nat) chk : ROK R -> ICOk O -> ROK (columns R O chk).
Proof. intros (SP & H) HO. eexists. apply (@columns_ok R SP H O HO chk). Qed.
Lemma rok_codec : ROK codec_owned.
Proof.
  eexists. unfold codec_owned.
  apply (@codec_region_ok (owned N) (owned_spec N) (owned_ok N) (fun v : list N => v) (fun v : list N => v)).
  - reflexivity.
  - intros s w. exact I.
Qed.
Lemma rok_huffman : ROK huffman_region.
Proof. eexists. apply huffman_ok. Qed.

(** * dense pair indices (what [ConsecutiveIndexPairs] needs of its inner region) *)
Lemma dok_owned T : @DOK (owned T) (owned_pair T).
Proof. exists (owned_spec T). split; [apply owned_ok|constructor; apply owned_dense]. Qed.

Lemma dok_string R PI : @DOK R PI -> @DOK (string_region R) (@string_pair R PI).
Proof.
  intros (SP & H & [D]). exists (@string_spec R (fun _ => True) SP). split; [apply string_ok; exact H|]. constructor.
  refine (@Build_Dense (string_region R) (@string_spec R (fun _ => True) SP) (@string_pair R PI) (@extent R SP PI D) _ _ _ _ _ _).
  - apply (@of_to R SP PI D).
  - apply (@extent_dflt R SP PI D).
  - apply (@extent_clear R SP PI D).
  - apply (@extent_merge R SP PI D).
  - apply (@extent_sim R SP PI D).
  - apply (@dense_push R SP PI D).
Qed.

Lemma dok_slice R (O : IC (idx R)) : ROK R -> ICOk O -> @DOK (slice R O) (slice_pair R O).
Proof.
  intros (SP & H) HO. exists (@slice_spec R O SP HO). split; [apply (@slice_ok R O SP H HO)|]. constructor.
  refine (@Build_Dense (slice R O) (@slice_spec R O SP HO) (slice_pair R O)
            (fun x : ic_st O * st R => length (ic_abs (fst x))) _ _ _ _ _ _).
  - intros [a b]. reflexivity.
  - cbn. now rewrite abs_default.
  - intros [so sr]. cbn. now rewrite abs_clear.
  - intros l. cbn. now rewrite abs_default.
  - intros [so sr] [to tr] [Habs _]. cbn in *. now rewrite Habs.
  - intros [so sr] v [so' sr'] i (Hio & Hi & _) Hp. cbn [push slice fst snd] in Hp.
    destruct (push_all R sr v) as [[sr1 is]|]; cbn [bind] in Hp; [|discriminate]. inversion Hp; subst.
    destruct (@push_all_ic _ O HO is so Hio) as [Hio' _].
    cbn [to_pair slice_pair fst snd]. now rewrite !abs_len by assumption.
Qed.

Lemma dok_codec : @DOK codec_owned codec_pair.
Proof.
  assert (E : forall x : list N, (fun v : list N => v) ((fun v : list N => v) x) = x) by reflexivity.
  assert (T : forall (s : st (owned N)) (w : val (owned N)), dom s w) by (intros; exact I).
  exists (@codec_region_spec (owned N) (owned_spec N) (fun v : list N => v) (fun v : list N => v)).
  split; [apply (@codec_region_ok (owned N) (owned_spec N) (owned_ok N) _ _ E T)|]. constructor.
  refine (@Build_Dense codec_owned _ codec_pair (fun x : list N * codec => length (fst x)) _ _ _ _ _ _).
  - intros [a b]. reflexivity.
  - reflexivity.
  - intros [s c]. reflexivity.
  - intros l. reflexivity.
  - intros [s c] [t d] [Hs _]. cbn in *. now rewrite Hs.
  - intros [s c] v [s' c'] i _ Hp. cbn [push codec_owned codec_region fst snd] in Hp.
    destruct (stored_form c v) as [sf|]; cbn [bind] in Hp; [|discriminate].
    cbn [push owned] in Hp. inversion Hp; subst. cbn. now rewrite app_length.
Qed.

(** * the comparisons [CollapseSequence] uses are sound for every payload but f64 *)
Lemma list_eqb_sound {A} (eqb : A -> A -> bool) : (forall a b, eqb a b = true -> a = b) ->
  forall l m, list_eqb eqb l m = true -> l = m.
Proof.
  intros Hs. induction l as [|x l IH]; intros [|y m] H; cbn in H; try discriminate; [reflexivity|].
  apply andb_prop in H. destruct H as [H1 H2]. f_equal; [apply Hs; exact H1|apply IH; exact H2].
Qed.
Lemma neqb_sound a b : N.eqb a b = true -> a = b.
Proof. apply N.eqb_eq. Qed.

Ltac veq_sound := cbn; first [apply list_eqb_sound; veq_sound | exact neqb_sound].

Ltac rok :=
  cbn [mr m_owned m_mirror m_vec m_string m_option m_result m_tuple2 m_codec m_huffman m_slice m_slice_vec
       m_collapse m_consec m_columns];
  repeat first
    [ apply rok_owned | apply rok_mirror | apply rok_vec | apply rok_codec | apply rok_huffman
    | apply rok_string | apply rok_option | apply rok_result | apply rok_tuple2
    | apply rok_slice | apply rok_columns | apply rok_consec
    | (apply rok_collapse; [|solve [veq_sound]])
    | apply dok_owned | apply dok_codec | apply dok_string | apply dok_slice
    | apply vec_ic_ok | apply index_list_ok | apply index_optimized_ok | apply ic_nat_ok ].

Theorem catalogue_contract chk szs n e : entry chk szs n = Some e -> n <> 21%N -> n <> 29%N -> ROK (mr e).
Proof.
  intros He H21 H29. unfold entry in He.
  destruct n as [|p]; [inversion He; subst; rok|].
  repeat (destruct p as [p|p|]; try discriminate He);
    try (exfalso; apply H21; reflexivity); try (exfalso; apply H29; reflexivity);
    inversion He; subst; clear He; rok.
Qed.

(** the two exceptions are exactly what is claimed: the catalogue does contain them *)
Example catalogue_exceptions chk szs : exists a b, entry chk szs 21 = Some a /\ entry chk szs 29 = Some b.
Proof. eexists _, _. split; reflexivity. Qed.

(** every FlatStack of the catalogue: its region meets the contract and its index container is a
    faithful sequence ([ICOk]) -- the two hypotheses of the FlatStack refinement theorems (C03) *)
Theorem fs_catalogue_contract chk szs n F : fs_entry chk szs n = Some F -> ROK (mr (fm F)) /\ inhabited (ICOk (fs_ic F)).
Proof.
  intros He. unfold fs_entry in He.
  destruct n as [|p]; [inversion He; subst; cbn [fm fs_ic]; split; [|constructor]; rok|].
  repeat (destruct p as [p|p|]; try discriminate He); inversion He; subst; clear He; cbn [fm fs_ic]; (split; [|constructor]); rok.
Qed.
