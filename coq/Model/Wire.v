(** Universal wire values and the typed/untyped boundary of the executable model.

    The correspondence driver is untyped: histories arrive as S-expressions of [uval].  Every
    catalogue entry packs a typed model region ([MRegion]) with conversions to and from [uval] and
    a [probe] that renders a read item through all of its accessors. *)
From FC Require Import Base.Res Index.IC Index.Stride Region.Region Region.Owned Region.Simple
  Region.Slice Region.Collapse Region.Consec Region.Columns Codec.Dictionary Huffman.Huffman Region.Items Region.ItemsOk Region.Compare Resource.Res.
From FC Require Export Base.UVal Serde.Ser Region.CloneFrom.
Set Implicit Arguments.

Record Wire (R : Region) (I : Items R) := {
  of_u : uval -> option (val R);          (* None: ill-typed input *)
  to_u : val R -> uval;
  idx_u : idx R -> uval;
  probe : item I -> res uval;             (* the item seen through all of its accessors *)
}.

(** A leaf probe is the owned value. *)
Definition leaf_probe (R : Region) (I : Items R) (to_u : val R -> uval) (x : item I) : res uval :=
  let* v := own I x in Ok (to_u v).

(** * element types *)
Record Elem := { e_ty : Type; e_of : uval -> option e_ty; e_to : e_ty -> uval; e_eqb : e_ty -> e_ty -> bool;
                 e_sz : N (* size_of *); e_cmp : option (e_ty -> e_ty -> comparison) (* Ord, if any *) }.
(** unsigned integers below [2^bits] (u8 .. u64, usize); [f64] travels as its bit pattern and is
    compared with IEEE [==] by [f64_eqb] *)
Definition e_word (bits : N) : Elem := {|
  e_ty := N;
  e_of := fun u => match u with UN n => if (n <? 2 ^ bits)%N then Some n else None | _ => None end;
  e_to := UN; e_eqb := N.eqb; e_sz := (bits / 8)%N; e_cmp := Some N.compare |}.
Definition e_unit : Elem := {|
  e_ty := unit; e_of := fun u => match u with UL [] => Some tt | _ => None end;
  e_to := fun _ => UL []; e_eqb := fun _ _ => true; e_sz := 0%N; e_cmp := Some (fun _ _ => Eq) |}.

(** IEEE-754 binary64 [==] on bit patterns: NaN is unequal to everything, +0 == -0. *)
Definition f64_is_nan (b : N) : bool :=
  let e := N.land (N.shiftr b 52) 2047 in let m := N.land b (2 ^ 52 - 1) in
  (e =? 2047)%N && negb (m =? 0)%N.
Definition f64_eqb (a b : N) : bool :=
  if f64_is_nan a || f64_is_nan b then false
  else if (N.land a (2 ^ 63 - 1) =? 0)%N && (N.land b (2 ^ 63 - 1) =? 0)%N then true
  else (a =? b)%N.
Definition e_f64 : Elem := {|
  e_ty := N;
  e_of := fun u => match u with UN n => if (n <? 2 ^ 64)%N then Some n else None | _ => None end;
  e_to := UN; e_eqb := f64_eqb; e_sz := 8%N; e_cmp := None |}.

(** two's-complement integers (i8 .. i128, isize, Wrapping<_>): they travel as their bit pattern; Rust orders them
    by the signed value, not by the pattern, so the model claims no order for them *)
Definition e_bits (bits : N) : Elem := {|
  e_ty := N;
  e_of := fun u => match u with UN n => if (n <? 2 ^ bits)%N then Some n else None | _ => None end;
  e_to := UN; e_eqb := N.eqb; e_sz := (bits / 8)%N; e_cmp := None |}.
Definition e_bool : Elem := {|
  e_ty := N;
  e_of := fun u => match u with UN n => if (n <? 2)%N then Some n else None | _ => None end;
  e_to := UN; e_eqb := N.eqb; e_sz := 1%N; e_cmp := Some N.compare |}.
(** [char]: Unicode scalar values, ordered by code point *)
Definition e_char : Elem := {|
  e_ty := N;
  e_of := fun u => match u with
                   | UN n => if ((n <? 1114112) && negb ((55296 <=? n) && (n <=? 57343)))%N then Some n else None
                   | _ => None end;
  e_to := UN; e_eqb := N.eqb; e_sz := 4%N; e_cmp := Some N.compare |}.
(** IEEE-754 binary32 [==] on bit patterns *)
Definition f32_eqb (a b : N) : bool :=
  let nan x := ((N.land (N.shiftr x 23) 255 =? 255) && negb (N.land x (2 ^ 23 - 1) =? 0))%N in
  if nan a || nan b then false
  else if (N.land a (2 ^ 31 - 1) =? 0)%N && (N.land b (2 ^ 31 - 1) =? 0)%N then true
  else (a =? b)%N.
Definition e_f32 : Elem := {|
  e_ty := N;
  e_of := fun u => match u with UN n => if (n <? 2 ^ 32)%N then Some n else None | _ => None end;
  e_to := UN; e_eqb := f32_eqb; e_sz := 4%N; e_cmp := None |}.

Definition list_eqb {A} (eqb : A -> A -> bool) : list A -> list A -> bool :=
  fix go l m := match l, m with
                | [], [] => true
                | x :: l', y :: m' => eqb x y && go l' m'
                | _, _ => false
                end.

(** * packed model regions *)
Record MRegion := {
  mr : Region;
  mi : Items mr;
  mw : Wire mi;
  m_veq : val mr -> val mr -> bool;       (* [PartialEq] between a pushed value and a read item *)
  m_res : Res mr;                         (* used bytes per heap_size callback, announced bytes *)
  m_ord : option (ItemOrd mi);            (* Ord of the read items, where the Rust type has one *)
  m_ser : option (RSer mr);               (* the serialised form, where the Rust type derives Serialize *)
  m_clone : option (RClone mr);           (* clone_from, where the Rust type implements Clone *)
}.

Definition m_owned (E : Elem) : MRegion := {|
  mr := owned (e_ty E); mi := owned_items (e_ty E);
  mw := @Build_Wire (owned (e_ty E)) (owned_items (e_ty E))
          (fun u => match u with UL l => omap (e_of E) l | _ => None end)
          (fun v => UL (map (e_to E) v))
          (fun i : nat * nat => upair (fst i) (snd i))
          (fun x : list (e_ty E) => Ok (UL (map (e_to E) x)));
  m_veq := list_eqb (e_eqb E); m_res := owned_res (e_ty E) (e_sz E);
  m_ord := option_map (@owned_ord (e_ty E)) (e_cmp E); m_ser := Some (owned_ser (e_to E)); m_clone := Some (owned_clone (e_ty E)) |}.

Definition m_mirror (E : Elem) : MRegion := {|
  mr := mirror (e_ty E); mi := mirror_items (e_ty E);
  mw := @Build_Wire (mirror (e_ty E)) (mirror_items (e_ty E))
          (e_of E) (e_to E) (e_to E) (fun x : e_ty E => Ok (e_to E x));
  m_veq := e_eqb E; m_res := mirror_res (e_ty E); m_ord := option_map (@mirror_ord (e_ty E)) (e_cmp E);
  m_ser := Some (mirror_ser (e_to E)); m_clone := Some (mirror_clone (e_ty E)) |}.

Definition m_vec (E : Elem) : MRegion := {|
  mr := vec_region (e_ty E); mi := vec_region_items (e_ty E);
  mw := @Build_Wire (vec_region (e_ty E)) (vec_region_items (e_ty E))
          (e_of E) (e_to E) (fun i : nat => unat i) (fun x : e_ty E => Ok (e_to E x));
  m_veq := e_eqb E; m_res := vec_region_res (e_ty E) (e_sz E);
  m_ord := option_map (@vec_region_ord (e_ty E)) (e_cmp E); m_ser := Some (vec_region_ser (e_to E)); m_clone := Some (vec_region_clone (e_ty E)) |}.

(** [StringRegion<R>] over a byte region; strings travel as byte lists. The [Push] impls only
    take string types, so an input that is not valid UTF-8 is ill-typed ([utf8_valid] lives in
    Base/Utf8.v and is applied by the catalogue entry's [of_u]). *)
Definition m_string (wf : uval -> bool) (M : MRegion) : MRegion := {|
  mr := string_region (mr M); mi := string_items (mi M);
  mw := @Build_Wire (string_region (mr M)) (string_items (mi M))
          (fun u => if wf u then of_u (mw M) u else None)
          (to_u (mw M)) (idx_u (mw M)) (probe (mw M));
  m_veq := m_veq M; m_res := string_res (m_res M);
  m_ord := option_map (@string_ord (mr M) (mi M)) (m_ord M); m_ser := option_map (@string_ser (mr M)) (m_ser M);
  m_clone := option_map (@string_clone (mr M)) (m_clone M) |}.

Definition m_option (M : MRegion) : MRegion := {|
  mr := option_region (mr M); mi := option_items (mi M);
  mw := @Build_Wire (option_region (mr M)) (option_items (mi M))
          (fun u => match u with
                    | UNone => Some None
                    | USome x => match of_u (mw M) x with Some y => Some (Some y) | None => None end
                    | _ => None
                    end)
          (fun v : option (val (mr M)) => match v with None => UNone | Some x => USome (to_u (mw M) x) end)
          (fun i : option (idx (mr M)) => match i with None => UNone | Some j => USome (idx_u (mw M) j) end)
          (fun x : option (item (mi M)) =>
             match x with None => Ok UNone | Some y => let* p := probe (mw M) y in Ok (USome p) end);
  m_veq := fun a b => match a, b with
                      | None, None => true
                      | Some x, Some y => m_veq M x y
                      | _, _ => false
                      end;
  m_res := option_res (m_res M); m_ord := option_map (@option_ord (mr M) (mi M)) (m_ord M);
  m_ser := option_map (@option_ser (mr M)) (m_ser M); m_clone := option_map (@option_clone (mr M)) (m_clone M) |}.

Definition m_result (A B : MRegion) : MRegion := {|
  mr := result_region (mr A) (mr B); mi := result_items (mi A) (mi B);
  mw := @Build_Wire (result_region (mr A) (mr B)) (result_items (mi A) (mi B))
          (fun u => match u with
                    | UOk x => match of_u (mw A) x with Some y => Some (inl y) | None => None end
                    | UErr x => match of_u (mw B) x with Some y => Some (inr y) | None => None end
                    | _ => None
                    end)
          (fun v : val (mr A) + val (mr B) =>
             match v with inl x => UOk (to_u (mw A) x) | inr y => UErr (to_u (mw B) y) end)
          (fun i : idx (mr A) + idx (mr B) =>
             match i with inl x => UOk (idx_u (mw A) x) | inr y => UErr (idx_u (mw B) y) end)
          (fun x : item (mi A) + item (mi B) =>
             match x with
             | inl a => let* p := probe (mw A) a in Ok (UOk p)
             | inr b => let* p := probe (mw B) b in Ok (UErr p)
             end);
  m_veq := fun a b => match a, b with
                      | inl x, inl y => m_veq A x y
                      | inr x, inr y => m_veq B x y
                      | _, _ => false
                      end;
  m_res := result_res (m_res A) (m_res B);
  m_ord := match m_ord A, m_ord B with Some a, Some b => Some (result_ord a b) | _, _ => None end;
  m_ser := match m_ser A, m_ser B with Some a, Some b => Some (result_ser a b) | _, _ => None end;
  m_clone := match m_clone A, m_clone B with Some a, Some b => Some (result_clone a b) | _, _ => None end |}.

Definition m_tuple2 (A B : MRegion) : MRegion := {|
  mr := tuple2 (mr A) (mr B); mi := tuple2_items (mi A) (mi B);
  mw := @Build_Wire (tuple2 (mr A) (mr B)) (tuple2_items (mi A) (mi B))
          (fun u => match u with
                    | UL [x; y] => match of_u (mw A) x, of_u (mw B) y with
                                   | Some a, Some b => Some (a, b) | _, _ => None end
                    | _ => None
                    end)
          (fun v : val (mr A) * val (mr B) => UL [to_u (mw A) (fst v); to_u (mw B) (snd v)])
          (fun i : idx (mr A) * idx (mr B) => UL [idx_u (mw A) (fst i); idx_u (mw B) (snd i)])
          (fun x : item (mi A) * item (mi B) =>
             let* p := probe (mw A) (fst x) in let* q := probe (mw B) (snd x) in Ok (UL [p; q]));
  m_veq := fun a b => m_veq A (fst a) (fst b) && m_veq B (snd a) (snd b);
  m_res := tuple2_res (m_res A) (m_res B);
  m_ord := match m_ord A, m_ord B with Some a, Some b => Some (tuple2_ord a b) | _, _ => None end;
  m_ser := match m_ser A, m_ser B with Some a, Some b => Some (tuple2_ser a b) | _, _ => None end;
  m_clone := match m_clone A, m_clone B with Some a, Some b => Some (tuple2_clone a b) | _, _ => None end |}.

(** [CodecRegion<DictionaryCodec, OwnedRegion<u8>>] *)
Definition bytes_of_u (u : uval) : option (list N) :=
  match u with
  | UL l => omap (fun x => match x with UN n => if (n <? 256)%N then Some n else None | _ => None end) l
  | _ => None
  end.
Definition codec_owned : Region := codec_region (owned N) (fun v : list N => v) (fun v : list N => v).
Definition m_codec : MRegion := {|
  mr := codec_owned; mi := codec_items (owned N) (fun v : list N => v) (fun v : list N => v);
  mw := @Build_Wire codec_owned (codec_items (owned N) (fun v : list N => v) (fun v : list N => v))
          bytes_of_u (fun v : list N => UL (map UN v)) (fun i : nat * nat => upair (fst i) (snd i))
          (fun x : list N => Ok (UL (map UN x)));
  m_veq := list_eqb N.eqb;
  m_res := @Build_Res codec_owned (fun x : list N * codec => [N.of_nat (length (fst x))])
                      (fun _ => [0%N]);
  m_ord := Some (@Build_ItemOrd codec_owned (codec_items (owned N) (fun v : list N => v) (fun v : list N => v))
                   (fun x y : list N => Ok (lex_cmp N.compare x y)) (lex_cmp N.compare));
  m_ser := None; m_clone := None |}.

(** [HuffmanContainer<B>], B an unsigned integer type of [bits] bits *)
Definition m_huffman (bits : N) : MRegion := {|
  mr := huffman_region; mi := huffman_items;
  mw := @Build_Wire huffman_region huffman_items
          (fun u => match u with
                    | UL l => omap (fun x => match x with UN n => if (n <? 2 ^ bits)%N then Some n else None | _ => None end) l
                    | _ => None
                    end)
          (fun v : list N => UL (map UN v)) (fun i : nat * nat => upair (fst i) (snd i))
          (fun x : list N => Ok (UL (map UN x)));
  m_veq := list_eqb N.eqb;
  m_res := @Build_Res huffman_region (fun _ => []) (fun _ => []);
  m_ord := Some (@Build_ItemOrd huffman_region huffman_items
                   (fun x y : list N => Ok (lex_cmp N.compare x y)) (lex_cmp N.compare));
  m_ser := None; m_clone := Some (@Build_RClone huffman_region (fun _ s => s)) |}.

(** the report of a sequence-like read item: len, is_empty, get(0 .. len+1), iteration, owned *)
Section SeqProbe.
  Variable R : Region.
  Variable I : Items R.
  Variable W : Wire I.
  Variable T : Type.
  Variables (len : T -> res nat) (is_empty : T -> res bool) (get : T -> nat -> res (item I))
            (iter : T -> res (list (item I))) (own_seq : T -> res (list (val R))).
  Definition seq_probe (x : T) : res uval :=
    let* n := len x in
    let* e := is_empty x in
    let gets := map (fun k => ures (let* y := get x k in probe W y)) (seq 0 (n + 2)) in
    let* its := iter x in
    let* ps := mapM (probe W) its in
    let* o := own_seq x in
    (* positions usize::MAX - j, j < 6: not computable with unary positions; the model's answer
       for them is the theorem C13 ([get k] panics for EVERY k >= len) *)
    let far := repeat UNone 6 in
    Ok (UL [unat n; ubool e; UL gets; UL far; UL ps; UL (map (to_u W) o)]).
End SeqProbe.

Definition m_slice (M : MRegion) (O : IC (idx (mr M))) {OS : ICSer O} : MRegion := {|
  mr := slice (mr M) O; mi := slice_items O (mi M);
  mw := @Build_Wire (slice (mr M) O) (slice_items O (mi M))
          (fun u => match u with UL l => omap (of_u (mw M)) l | _ => None end)
          (fun v : list (val (mr M)) => UL (map (to_u (mw M)) v))
          (fun i : nat * nat => upair (fst i) (snd i))
          (fun x : rslice (mr M) O =>
             seq_probe (mw M) (rs_len (O := O)) (rs_is_empty (O := O)) (rs_get (mi M))
                       (rs_iter (mi M)) (own (slice_items O (mi M))) x);
  m_veq := list_eqb (m_veq M); m_res := slice_res O 0 (m_res M);
  m_ord := option_map (@slice_ord (mr M) O (mi M)) (m_ord M); m_ser := option_map (@slice_ser (mr M) O OS) (m_ser M);
  m_clone := option_map (@slice_clone (mr M) O) (m_clone M) |}.

Arguments m_slice M O {OS}.

(** [SliceRegion<R, Vec<R::Index>>]: the same region with the announced index bytes known *)
Definition m_slice_vec (M : MRegion) (isz : N) : MRegion :=
  let S := m_slice M (vec_ic (idx (mr M)) isz) in
  {| mr := mr S; mi := mi S; mw := mw S; m_veq := m_veq S; m_res := slice_vec_res isz (m_res M); m_ord := m_ord S; m_ser := m_ser S; m_clone := m_clone S |}.

Definition m_collapse (M : MRegion) : MRegion := {|
  mr := collapse (mr M) (m_veq M); mi := collapse_items (m_veq M) (mi M);
  mw := @Build_Wire (collapse (mr M) (m_veq M)) (collapse_items (m_veq M) (mi M))
          (of_u (mw M)) (to_u (mw M)) (idx_u (mw M)) (probe (mw M));
  m_veq := m_veq M; m_res := collapse_res (m_veq M) (m_res M);
  m_ord := option_map (@collapse_ord (mr M) (m_veq M) (mi M)) (m_ord M);
  m_ser := option_map (@collapse_ser (mr M) (m_veq M)) (m_ser M);
  m_clone := option_map (@collapse_clone (mr M) (m_veq M)) (m_clone M) |}.

Definition m_consec (M : MRegion) {PI : PairIdx (mr M)} (O : IC nat) {OS : ICSer O} (chk : bool) : MRegion := {|
  mr := consec (mr M) O chk; mi := consec_items O chk (mi M);
  mw := @Build_Wire (consec (mr M) O chk) (consec_items O chk (mi M))
          (of_u (mw M)) (to_u (mw M)) (fun k : nat => unat k) (probe (mw M));
  m_veq := m_veq M; m_res := consec_res O chk (m_res M);
  m_ord := option_map (@consec_ord (mr M) PI O chk (mi M)) (m_ord M);
  m_ser := option_map (@consec_ser (mr M) PI O OS chk) (m_ser M);
  m_clone := option_map (@consec_clone (mr M) PI O chk) (m_clone M) |}.

Arguments m_consec M {PI} O {OS} chk.

Definition m_columns (M : MRegion) (O : IC nat) {OS : ICSer O} (chk : bool) (csz isz : N) : MRegion := {|
  mr := columns (mr M) O chk; mi := columns_items O chk (mi M);
  mw := @Build_Wire (columns (mr M) O chk) (columns_items O chk (mi M))
          (fun u => match u with UL l => omap (of_u (mw M)) l | _ => None end)
          (fun v : list (val (mr M)) => UL (map (to_u (mw M)) v))
          (fun k : nat => unat k)
          (fun x : rcols (mr M) =>
             seq_probe (mw M) (fun y => Ok (rc_len y)) (fun y => Ok (rc_is_empty y)) (rc_get (mi M))
                       (rc_iter (mi M)) (own (columns_items O chk (mi M))) x);
  m_veq := list_eqb (m_veq M); m_res := columns_res O chk csz isz (m_res M); m_ord := None;
  m_ser := option_map (@columns_ser (mr M) O OS chk) (m_ser M);
  m_clone := option_map (@columns_clone (mr M) O chk) (m_clone M) |}.
Arguments m_columns M O {OS} chk csz isz.
