(** [PairIdx] instances for the regions whose index is a pair of offsets, and the string
    well-formedness check used at the wire boundary. *)
From FC Require Import Base.Res Base.Utf8 Index.IC Region.Region Region.Owned Region.Simple Region.Slice
  Region.Collapse Region.Consec Model.Wire.
Set Implicit Arguments.

#[export] Instance string_pair R {PI : PairIdx R} : PairIdx (string_region R) :=
  @Build_PairIdx (string_region R) (@to_pair R PI) (@of_pair R PI).
#[export] Instance slice_pair R (O : IC (idx R)) : PairIdx (slice R O) :=
  @Build_PairIdx (slice R O) (fun i : nat * nat => i) (fun i : nat * nat => i).
#[export] Instance collapse_pair R veq {PI : PairIdx R} : PairIdx (collapse R veq) :=
  @Build_PairIdx (collapse R veq) (@to_pair R PI) (@of_pair R PI).

#[export] Instance codec_pair : PairIdx codec_owned :=
  @Build_PairIdx codec_owned (fun i : nat * nat => i) (fun i : nat * nat => i).

(** a wire value is a string iff it is a list of bytes forming valid UTF-8 *)
Definition str_wf (u : uval) : bool :=
  match u with
  | UL l => match omap (fun x => match x with UN n => if (n <? 256)%N then Some n else None | _ => None end) l with
            | Some bs => utf8_valid bs
            | None => false
            end
  | _ => false
  end.
