(** Laws of the resource layer, proved per combinator for the vector-backed structural regions
    (C17: pushing announced items grows every backing vector by at most what was announced;
     C18: used bytes never decrease on push, account for the whole payload, vanish on clear). *)
From FC Require Import Base.Res Index.IC Region.Region Region.Owned Region.Simple Region.Slice
  Region.Collapse Region.Consec Region.Columns Resource.Res.
Set Implicit Arguments.
Local Open Scope N_scope.

Lemma ple_padd_r a : forall b, length a = length b -> ple a (padd a b).
Proof.
  induction a as [|x a IH]; intros [|y b] Hl; cbn [length ple padd] in *; try discriminate; auto.
  split; [lia|apply IH; congruence].
Qed.

Lemma len_mul a b sz : N.of_nat (a + b) * sz = N.of_nat a * sz + N.of_nat b * sz.
Proof. rewrite Nat2N.inj_add. apply N.mul_add_distr_r. Qed.

Definition zeros (l : list N) : Prop := Forall (fun x => x = 0) l.
Lemma padd_zeros a : forall z, zeros z -> length a = length z -> padd a z = a.
Proof.
  induction a as [|x a IH]; intros [|y z] Hz Hl; cbn [length padd] in *; try discriminate; auto.
  inversion Hz; subst. rewrite IH by (assumption || congruence). f_equal. lia.
Qed.
Lemma self_padd_zeros a : a = padd a a -> zeros a.
Proof.
  induction a as [|x a IH]; cbn [padd]; intros H; constructor.
  - inversion H. lia.
  - apply IH. inversion H. congruence.
Qed.

Section Generic.
  Variable R : Region.
  Context `{RegionOK R}.
  Variable V : Res R.
  Context `{!ResOK R V}.

  Lemma items_nil : zeros (r_items V []).
  Proof. apply self_padd_zeros. apply (@items_app R _ V _ [] []). Qed.

  Lemma items_cons v vs : r_items V (v :: vs) = padd (r_items V [v]) (r_items V vs).
  Proof. apply (@items_app R _ V _ [v] vs). Qed.

  (** pushing a batch grows every callback by at most what the batch announces (C17 core) *)
  Lemma push_all_used vs : forall s s' is, inv s -> push_all R s vs = Ok (s', is) ->
    ple (r_used V s') (padd (r_used V s) (r_items V vs)) /\ ple (r_used V s) (r_used V s').
  Proof.
    induction vs as [|v vs IH]; intros s s' is Hs Hp; cbn [push_all] in Hp.
    - inversion Hp; subst. split; [|apply ple_refl].
      rewrite padd_zeros; [apply ple_refl|apply items_nil|symmetry; apply items_len; assumption].
    - destruct (push R s v) as [[s1 i]|] eqn:E1; cbn [bind] in Hp; [|discriminate].
      destruct (push_all R s1 vs) as [[s2 is2]|] eqn:E2; cbn [bind] in Hp; [|discriminate].
      inversion Hp; subst.
      destruct (@used_push_le R _ V _ s v s1 i Hs E1) as [H1 M1].
      destruct (push_safe s v Hs E1) as (Hi1 & _).
      destruct (IH s1 s' is2 Hi1 E2) as [H2 M2]. split; [|eapply ple_trans; eauto].
      rewrite items_cons, <- padd_assoc.
      eapply ple_trans; [exact H2|]. apply ple_padd_mono; [exact H1|apply ple_refl].
  Qed.
End Generic.

(** * leaves *)
#[export] Instance owned_res_ok T sz : ResOK (owned T) (owned_res T sz).
Proof.
  constructor.
  - intros s v s' i _ Hp. cbn in Hp. inversion Hp; subst. cbn [r_used r_items owned_res padd ple concat].
    rewrite app_nil_r, app_length, len_mul. split; (split; [lia|exact Logic.I]).
  - intros a b. cbn [r_items owned_res padd]. rewrite concat_app, app_length, len_mul. reflexivity.
  - reflexivity.
Qed.
#[export] Instance owned_res_exact T sz : ResExact (owned T) (owned_res T sz).
Proof.
  intros s v s' i _ Hp. cbn in Hp. inversion Hp; subst. cbn [r_used r_items owned_res padd concat].
  rewrite app_nil_r, app_length, len_mul. reflexivity.
Qed.

#[export] Instance mirror_res_ok T : ResOK (mirror T) (mirror_res T).
Proof. constructor; cbn; auto. Qed.
#[export] Instance mirror_res_exact T : ResExact (mirror T) (mirror_res T).
Proof. intros s v s' i _ _. reflexivity. Qed.

#[export] Instance vec_region_res_ok T sz : ResOK (vec_region T) (vec_region_res T sz).
Proof.
  constructor.
  - intros s v s' i _ Hp. cbn in Hp. inversion Hp; subst. cbn [r_used r_items vec_region_res padd ple length].
    rewrite app_length, len_mul. cbn [length]. split; (split; [lia|exact Logic.I]).
  - intros a b. cbn [r_items vec_region_res padd]. rewrite app_length, len_mul. reflexivity.
  - reflexivity.
Qed.
#[export] Instance vec_region_res_exact T sz : ResExact (vec_region T) (vec_region_res T sz).
Proof.
  intros s v s' i _ Hp. cbn in Hp. inversion Hp; subst. cbn [r_used r_items vec_region_res padd length].
  rewrite app_length, len_mul. reflexivity.
Qed.

(** * StringRegion *)
#[export] Instance string_res_ok R wf `{RSpec R} (V : Res R) `{!ResOK R V} :
  @ResOK (string_region R) (@string_spec R wf _) (string_res V).
Proof.
  constructor; cbn.
  - apply (@used_push_le R _ V _).
  - apply (@items_app R _ V _).
  - apply (@items_len R _ V _).
Qed.
#[export] Instance string_res_exact R wf `{RSpec R} (V : Res R) `{!ResExact R V} :
  @ResExact (string_region R) (@string_spec R wf _) (string_res V).
Proof. intros s v s' i Hs Hp. apply (@used_push_eq R _ V _ s v s' i Hs Hp). Qed.

(** * OptionRegion *)
Lemma somes_app {A} (a b : list (option A)) : somes (a ++ b) = somes a ++ somes b.
Proof. unfold somes. apply flat_map_app. Qed.
#[export] Instance option_res_ok R `{RegionOK R} (V : Res R) `{!ResOK R V} : ResOK (option_region R) (option_res V).
Proof.
  constructor.
  - intros s [v|] s' i Hs Hp; cbn in Hp.
    + destruct (push R s v) as [[s1 j]|] eqn:E; cbn in Hp; [|discriminate]. inversion Hp; subst.
      cbn. apply (@used_push_le R _ V _ s v s' j Hs E).
    + inversion Hp; subst. cbn. split; [|apply ple_refl].
      rewrite padd_zeros; [apply ple_refl|apply (@items_nil R _ V _)|symmetry; apply items_len; exact Hs].
  - intros a b. cbn. rewrite (@somes_app (val R) a b). apply (@items_app R _ V _).
  - intros s a Hs. cbn. apply (@items_len R _ V _ s _ Hs).
Qed.

(** * ResultRegion / tuples *)
Lemma lefts_app {A B} (a b : list (A + B)) : lefts (a ++ b) = lefts a ++ lefts b.
Proof. unfold lefts. apply flat_map_app. Qed.
Lemma rights_app {A B} (a b : list (A + B)) : rights (a ++ b) = rights a ++ rights b.
Proof. unfold rights. apply flat_map_app. Qed.

#[export] Instance result_res_ok A B `{RegionOK A} `{RegionOK B} (VA : Res A) (VB : Res B)
  `{!ResOK A VA} `{!ResOK B VB} : ResOK (result_region A B) (result_res VA VB).
Proof.
  constructor.
  - intros [sa sb] [v|v] [sa' sb'] i [Ha Hb] Hp; cbn in Hp.
    + destruct (push A sa v) as [[s1 j]|] eqn:E; cbn in Hp; [|discriminate]. inversion Hp; subst.
      cbn [r_used r_items result_res fst snd lefts rights flat_map app].
      destruct (@used_push_le A _ VA _ sa v sa' j Ha E) as [L M].
      rewrite padd_app by (symmetry; apply items_len; assumption). split.
      * apply ple_app; [exact L|].
        rewrite padd_zeros; [apply ple_refl|apply (@items_nil B _ VB _)|symmetry; apply items_len; assumption].
      * apply ple_app; [exact M|apply ple_refl].
    + destruct (push B sb v) as [[s1 j]|] eqn:E; cbn in Hp; [|discriminate]. inversion Hp; subst.
      cbn [r_used r_items result_res fst snd lefts rights flat_map app].
      destruct (@used_push_le B _ VB _ sb v sb' j Hb E) as [L M].
      rewrite padd_app by (symmetry; apply items_len; assumption). split.
      * apply ple_app; [|exact L].
        rewrite padd_zeros; [apply ple_refl|apply (@items_nil A _ VA _)|symmetry; apply items_len; assumption].
      * apply ple_app; [apply ple_refl|exact M].
  - intros a b. cbn [r_items result_res val result_region]. rewrite (@lefts_app (val A) (val B) a b), (@rights_app (val A) (val B) a b).
    rewrite (@items_app A _ VA _), (@items_app B _ VB _).
    rewrite padd_app; [reflexivity|].
    rewrite (@items_len A _ VA _ (dflt A) _ inv_dflt), (@items_len A _ VA _ (dflt A) _ inv_dflt). reflexivity.
  - intros [sa sb] a [Ha Hb]. cbn [r_items r_used result_res fst snd]. rewrite !app_length.
    rewrite (@items_len A _ VA _ sa _ Ha), (@items_len B _ VB _ sb _ Hb). reflexivity.
Qed.

#[export] Instance tuple2_res_ok A B `{RegionOK A} `{RegionOK B} (VA : Res A) (VB : Res B)
  `{!ResOK A VA} `{!ResOK B VB} : ResOK (tuple2 A B) (tuple2_res VA VB).
Proof.
  constructor.
  - intros [sa sb] [va vb] [sa' sb'] i [Ha Hb] Hp; cbn in Hp.
    destruct (push A sa va) as [[s1 j]|] eqn:E1; cbn in Hp; [|discriminate].
    destruct (push B sb vb) as [[s2 k]|] eqn:E2; cbn in Hp; [|discriminate]. inversion Hp; subst.
    cbn [r_used r_items tuple2_res fst snd map].
    destruct (@used_push_le A _ VA _ sa va sa' j Ha E1) as [L1 M1].
    destruct (@used_push_le B _ VB _ sb vb sb' k Hb E2) as [L2 M2].
    rewrite padd_app by (symmetry; apply items_len; assumption).
    split; apply ple_app; assumption.
  - intros a b. cbn [r_items tuple2_res val tuple2]. rewrite (@map_app _ _ fst a b), (@map_app _ _ snd a b).
    rewrite (@items_app A _ VA _), (@items_app B _ VB _).
    rewrite padd_app; [reflexivity|].
    rewrite (@items_len A _ VA _ (dflt A) _ inv_dflt), (@items_len A _ VA _ (dflt A) _ inv_dflt). reflexivity.
  - intros [sa sb] a [Ha Hb]. cbn [r_items r_used tuple2_res fst snd]. rewrite !app_length.
    rewrite (@items_len A _ VA _ sa _ Ha), (@items_len B _ VB _ sb _ Hb). reflexivity.
Qed.

(** * SliceRegion over a Vec index container *)
#[export] Instance slice_vec_res_ok R `{RegionOK R} (isz : N) (V : Res R) `{!ResOK R V} :
  ResOK (slice R (vec_ic (idx R) isz)) (slice_vec_res isz V).
Proof.
  constructor.
  - intros [so sr] vs [so' sr'] i (Hio & Hi & Hall) Hp. cbn [push slice fst snd] in Hp.
    destruct (push_all R sr vs) as [[sr1 is]|] eqn:E; cbn [bind] in Hp; [|discriminate].
    inversion Hp; subst. clear Hp.
    destruct (@push_all_safe R _ _ vs sr _ _ Hi E) as (_ & _ & _ & _ & Hlen).
    destruct (@push_all_used R _ _ V _ vs sr sr' is Hi E) as [L M].
    assert (Hso : forall so : list (idx R), fold_left (fun s x => s ++ [x]) is so = so ++ is).
    { clear. induction is as [|j is IH]; intros so; cbn [fold_left]; [now rewrite app_nil_r|].
      rewrite IH, <- app_assoc. reflexivity. }
    cbn [r_used r_items slice_vec_res fst snd concat app padd ple ic_push vec_ic]. rewrite Hso.
    rewrite app_nil_r, app_length, Hlen, len_mul. split.
    + split; [lia|exact L].
    + split; [lia|exact M].
  - intros a b. cbn [r_items slice_vec_res app padd]. rewrite concat_app, app_length, len_mul.
    rewrite (@items_app R _ V _). reflexivity.
  - intros [so sr] a (_ & Hi & _). cbn [r_items r_used slice_vec_res fst snd app length].
    rewrite (@items_len R _ V _ sr _ Hi). reflexivity.
Qed.

(** * CollapseSequence: a collapsed push stores nothing, a stored one what the inner region stores *)
#[export] Instance collapse_res_ok R veq `{RegionOK R} (V : Res R) `{!ResOK R V} :
  ResOK (collapse R veq) (collapse_res veq V).
Proof.
  constructor.
  - intros [s l] v [s' l'] i [Hs Hl] Hp. cbn [push collapse fst snd] in Hp.
    cbn [r_used r_items collapse_res fst].
    assert (Fresh : forall s1 j, push R s v = Ok (s1, j) ->
              ple (r_used V s1) (padd (r_used V s) (r_items V [v])) /\ ple (r_used V s) (r_used V s1)).
    { intros s1 j E. apply (@used_push_le R _ V _ s v s1 j Hs E). }
    destruct l as [j|].
    + destruct (read R s j) as [w|]; cbn [bind] in Hp; [|discriminate].
      destruct (veq v w).
      * inversion Hp; subst. split; [|apply ple_refl].
        apply ple_padd_r. symmetry. apply items_len. assumption.
      * destruct (push R s v) as [[s1 k]|] eqn:E; cbn [bind] in Hp; [|discriminate]. inversion Hp; subst.
        apply (Fresh _ _ eq_refl).
    + destruct (push R s v) as [[s1 k]|] eqn:E; cbn [bind] in Hp; [|discriminate]. inversion Hp; subst.
      apply (Fresh _ _ eq_refl).
  - apply (@items_app R _ V _).
  - intros [s l] a [Hs _]. cbn. apply (@items_len R _ V _ s _ Hs).
Qed.

(** * C18: clear leaves no pushed payload accounted *)
Lemma owned_clear_used T sz s : r_used (owned_res T sz) (clear (owned T) s) = [0].
Proof. reflexivity. Qed.
