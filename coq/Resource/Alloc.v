(** C17: pre-sizing.  The crate's regions store into std [Vec]s; what std documents about them is
    taken as SECTION HYPOTHESES over an abstract growth policy (never as axioms): [reserve n]
    leaves a capacity of at least len + n and changes nothing when that already holds; a vector
    only reallocates when its length would exceed its capacity.  Under that contract, the theorem
    says: if the capacities reported after a reservation cover the used bytes plus what the
    announced items add ([r_items], exactly the sums the crate's reserve_items / reserve_regions /
    merge_regions bodies compute), then pushing any prefix of the announced items never makes a
    backing vector exceed its capacity -- no reallocation. *)
From FC Require Import Base.Res Index.IC Region.Region Resource.Res Resource.ResOk.
Set Implicit Arguments.
Local Open Scope N_scope.

Section VecContract.
  (** the new capacity std picks when [need] exceeds [cap]: any policy that satisfies the request *)
  Variable grow : N -> N -> N.
  Hypothesis grow_ok : forall cap need, need <= grow cap need.
  (** [Vec::reserve] / the growth check in [push], [extend_from_slice], ...: no change when it fits *)
  Definition ensure (cap need : N) : N := if need <=? cap then cap else grow cap need.

  Lemma ensure_fits cap need : need <= cap -> ensure cap need = cap.
  Proof. unfold ensure. intros H. destruct (N.leb_spec need cap); [reflexivity|lia]. Qed.
  Lemma ensure_covers cap need : need <= ensure cap need.
  Proof. unfold ensure. destruct (N.leb_spec need cap); [assumption|apply grow_ok]. Qed.

  (** one vector: after [reserve n] at length [len], growing to any length up to [len + n] leaves
      the capacity unchanged *)
  Theorem vec_reserve_no_realloc len cap n k : k <= n ->
    ensure (ensure cap (len + n)) (len + k) = ensure cap (len + n).
  Proof. intros Hk. apply ensure_fits. pose proof (ensure_covers cap (len + n)). lia. Qed.
End VecContract.

Section Presize.
  Variable R : Region.
  Context `{RegionOK R}.
  Variable V : Res R.
  Context `{!ResOK R V}.

  Lemma items_prefix_le k vs s : inv s -> ple (r_items V (firstn k vs)) (r_items V vs).
  Proof.
    intros Hs. rewrite <- (firstn_skipn k vs) at 2. rewrite (@items_app R _ V _).
    apply ple_padd_r. rewrite !(@items_len R _ V _ s _ Hs). reflexivity.
  Qed.

  (** whole region: capacities [caps] that cover used + announced keep covering the used bytes
      after pushing ANY prefix of the announced items (in particular all of them) *)
  Theorem presize_no_growth s vs caps : inv s ->
    ple (padd (r_used V s) (r_items V vs)) caps ->
    forall k s' is, push_all R s (firstn k vs) = Ok (s', is) -> ple (r_used V s') caps.
  Proof.
    intros Hs Hc k s' is Hp.
    destruct (@push_all_used R _ _ V _ (firstn k vs) s s' is Hs Hp) as [L _].
    eapply ple_trans; [exact L|]. eapply ple_trans; [|exact Hc].
    apply ple_padd_mono; [apply ple_refl|apply (@items_prefix_le k vs s Hs)].
  Qed.

  (** ... hence every backing vector's capacity is left alone by [ensure] *)
  Corollary presize_caps_constant (grow : N -> N -> N) s vs caps : inv s ->
    ple (padd (r_used V s) (r_items V vs)) caps ->
    forall k s' is, push_all R s (firstn k vs) = Ok (s', is) ->
    Forall2 (fun u c => ensure grow c u = c) (r_used V s') caps.
  Proof.
    intros Hs Hc k s' is Hp. pose proof (@presize_no_growth s vs caps Hs Hc k s' is Hp) as Hle.
    clear Hc Hp Hs. revert caps Hle. generalize (r_used V s') as us. clear.
    induction us as [|u us IH]; intros [|c caps]; cbn [ple]; try tauto; [constructor|].
    intros [H1 H2]. constructor; [apply ensure_fits; assumption|apply IH; assumption].
  Qed.
End Presize.

(** reserve_regions / merge_regions size by the source regions' lengths; for the structural
    regions these are exactly what the sources' contents announce *)
Section Regions.
  Variable R : Region.
  Context `{RegionOK R}.
  Variable V : Res R.
  Context `{!ResOK R V} `{!ResExact R V}.

  Theorem contents_exact vs : forall s s' is, inv s -> push_all R s vs = Ok (s', is) ->
    r_used V s' = padd (r_used V s) (r_items V vs).
  Proof.
    induction vs as [|v vs IH]; intros s s' is Hs Hp; cbn [push_all] in Hp.
    - inversion Hp; subst. symmetry. apply padd_zeros; [apply (@items_nil R _ V _)|].
      symmetry. apply items_len. assumption.
    - destruct (push R s v) as [[s1 i]|] eqn:E1; cbn [bind] in Hp; [|discriminate].
      destruct (push_all R s1 vs) as [[s2 is2]|] eqn:E2; cbn [bind] in Hp; [|discriminate].
      inversion Hp; subst. destruct (push_safe s v Hs E1) as (Hi1 & _).
      rewrite (IH s1 s' is2 Hi1 E2), (@used_push_eq R _ V _ s v s1 i Hs E1).
      rewrite (@items_cons R _ V _ v vs), padd_assoc. reflexivity.
  Qed.
End Regions.

(** * without pre-sizing: logarithmically many reallocations per backing vector
    std's amortised growth ("at least doubles") as a second hypothesis on the abstract policy.  A backing
    vector that is asked to hold [needs] = the successive lengths (any sequence of positive
    requests) reallocates at most log2(final capacity) + 1 times -- never once per item. *)
Section LogGrowth.
  Variable grow : N -> N -> N.
  Hypothesis grow_ok : forall cap need, need <= grow cap need.
  Hypothesis grow_doubles : forall cap need, 2 * cap <= grow cap need.

  (** final capacity and number of reallocations *)
  Fixpoint reallocs (cap : N) (needs : list N) : N * nat :=
    match needs with
    | [] => (cap, 0%nat)
    | n :: ns => if n <=? cap then reallocs cap ns
                 else let r := reallocs (grow cap n) ns in (fst r, S (snd r))
    end.

  Lemma reallocs_spec : forall needs cap, Forall (fun n => 1 <= n) needs ->
    let r := reallocs cap needs in
    cap <= fst r /\ (1 <= cap -> 2 ^ N.of_nat (snd r) * cap <= fst r) /\
    ((1 <= snd r)%nat -> 2 ^ N.of_nat (snd r - 1) <= fst r).
  Proof.
    induction needs as [|n ns IH]; intros cap HF; cbn [reallocs].
    - cbn [fst snd]. split; [lia|]. split; [intros _; change (N.of_nat 0) with 0; rewrite N.pow_0_r; lia|intros Hk; lia].
    - inversion HF as [|? ? Hn HF']; subst.
      destruct (N.leb_spec n cap) as [Hle|Hgt]; [apply IH; assumption|].
      specialize (IH (grow cap n) HF'). cbv zeta in IH. destruct IH as (H1 & H2 & H3).
      pose proof (grow_ok cap n) as G1. pose proof (grow_doubles cap n) as G2.
      set (r := reallocs (grow cap n) ns) in *. cbn [fst snd].
      assert (Hc1 : 1 <= grow cap n) by lia. specialize (H2 Hc1).
      split; [lia|]. split.
      + intros Hcap. rewrite Nat2N.inj_succ, N.pow_succ_r'. nia.
      + intros _. replace (S (snd r) - 1)%nat with (snd r) by lia.
        assert (0 < 2 ^ N.of_nat (snd r)) by (apply N.neq_0_lt_0, N.pow_nonzero; lia). nia.
  Qed.

  Theorem log_reallocs needs cap : Forall (fun n => 1 <= n) needs ->
    (snd (reallocs cap needs) <= N.to_nat (N.log2 (fst (reallocs cap needs))) + 1)%nat.
  Proof.
    intros HF. destruct (reallocs_spec cap HF) as (_ & _ & H3).
    destruct (snd (reallocs cap needs)) as [|k] eqn:E; [lia|].
    specialize (H3 ltac:(lia)). replace (S k - 1)%nat with k in H3 by lia.
    assert (Hk : N.of_nat k <= N.log2 (fst (reallocs cap needs))).
    { apply N.log2_le_pow2; [|exact H3].
      assert (0 < 2 ^ N.of_nat k) by (apply N.neq_0_lt_0, N.pow_nonzero; lia). lia. }
    lia.
  Qed.
End LogGrowth.
