(** The resource layer: what [heap_size] reports as USED bytes, per callback and in callback order,
    and how many bytes announced items add to each backing vector (C17, C18).  Capacities are the
    implementation's (std's [Vec]); the model only ever speaks about lengths. Element and index
    sizes ([size_of]) are parameters. *)
From FC Require Import Base.Res Index.IC Region.Region Region.Owned Region.Simple Region.Slice
  Region.Collapse Region.Consec Region.Columns.
Set Implicit Arguments.
Local Open Scope N_scope.

Definition total (l : list N) : N := fold_right N.add 0 l.

(** pointwise sum of two callback lists (the longer tail is kept: a region may gain callbacks) *)
Fixpoint padd (a b : list N) : list N :=
  match a, b with
  | x :: a', y :: b' => (x + y) :: padd a' b'
  | [], l | l, [] => l
  end.
Fixpoint ple (a b : list N) : Prop :=
  match a, b with
  | x :: a', y :: b' => x <= y /\ ple a' b'
  | [], [] => True
  | _, _ => False
  end.

Lemma total_cons x a : total (x :: a) = x + total a.
Proof. reflexivity. Qed.
Lemma total_app a b : total (a ++ b) = total a + total b.
Proof. induction a as [|x a IH]; cbn [app]; [reflexivity|]. rewrite !total_cons, IH. lia. Qed.
Lemma total_padd a : forall b, total (padd a b) = total a + total b.
Proof.
  induction a as [|x a IH]; intros [|y b]; cbn [padd]; rewrite ?total_cons; try (cbn [total fold_right]; lia).
  rewrite IH. lia.
Qed.
Lemma ple_refl a : ple a a.
Proof. induction a; cbn [ple]; auto. split; [lia|assumption]. Qed.
Lemma ple_total a : forall b, ple a b -> total a <= total b.
Proof.
  induction a as [|x a IH]; intros [|y b]; cbn [ple]; try tauto; [intros _; cbn; lia|].
  intros [H1 H2]. specialize (IH b H2). rewrite !total_cons. lia.
Qed.
Lemma padd_app a1 b1 a2 b2 : length a1 = length b1 ->
  padd (a1 ++ a2) (b1 ++ b2) = padd a1 b1 ++ padd a2 b2.
Proof.
  revert b1. induction a1 as [|x a1 IH]; intros [|y b1] Hl; cbn [length app padd] in *; try discriminate; [reflexivity|].
  rewrite IH by congruence. reflexivity.
Qed.
Lemma padd_length a : forall b, length a = length b -> length (padd a b) = length a.
Proof.
  induction a as [|x a IH]; intros [|y b] Hl; cbn [length padd] in *; try discriminate; [reflexivity|].
  rewrite IH; congruence.
Qed.
Lemma ple_app a1 b1 a2 b2 : ple a1 b1 -> ple a2 b2 -> ple (a1 ++ a2) (b1 ++ b2).
Proof.
  revert b1. induction a1 as [|x a1 IH]; intros [|y b1]; cbn [ple app]; try tauto.
  intros [H1 H2] H3. split; [assumption|apply IH; assumption].
Qed.
Lemma ple_length a : forall b, ple a b -> length a = length b.
Proof. induction a as [|x a IH]; intros [|y b]; cbn [ple length]; try tauto. intros [_ H]. f_equal. auto. Qed.
Lemma ple_trans a : forall b c, ple a b -> ple b c -> ple a c.
Proof.
  induction a as [|x a IH]; intros [|y b] [|z c]; cbn [ple]; try tauto.
  intros [H1 H2] [H3 H4]. split; [lia|eapply IH; eauto].
Qed.
Lemma padd_nil_r a : padd a [] = a.
Proof. destruct a; reflexivity. Qed.
Lemma padd_assoc a : forall b c, padd (padd a b) c = padd a (padd b c).
Proof.
  induction a as [|x a IH]; intros [|y b] [|z c]; cbn [padd]; try reflexivity.
  rewrite IH. f_equal. lia.
Qed.
Lemma ple_padd_mono a : forall b c d, ple a b -> ple c d -> ple (padd a c) (padd b d).
Proof.
  induction a as [|x a IH]; intros [|y b] [|z c] [|w d]; cbn [ple padd]; try tauto.
  intros [H1 H2] [H3 H4]. split; [lia|apply IH; assumption].
Qed.

Record Res (R : Region) := {
  r_used : st R -> list N;              (* used bytes per heap_size callback *)
  r_items : list (val R) -> list N;     (* bytes the announced items add, per callback *)
}.

(** every successful push adds at most what the item announces, to the callbacks it announces
    (deduplication may store less); structural regions add exactly that *)
Class ResOK (R : Region) {SP : RSpec R} (V : Res R) : Prop := {
  used_push_le : forall s v s' i, inv s -> push R s v = Ok (s', i) ->
     ple (r_used V s') (padd (r_used V s) (r_items V [v])) /\ ple (r_used V s) (r_used V s');
  items_app : forall a b, r_items V (a ++ b) = padd (r_items V a) (r_items V b);
  items_len : forall s a, inv s -> length (r_items V a) = length (r_used V s);
}.
Arguments ResOK R {SP} V.
Class ResExact (R : Region) {SP : RSpec R} (V : Res R) : Prop :=
  used_push_eq : forall s v s' i, inv s -> push R s v = Ok (s', i) ->
     r_used V s' = padd (r_used V s) (r_items V [v]).
Arguments ResExact R {SP} V.

(** * leaves *)
Definition owned_res T (sz : N) : Res (owned T) :=
  @Build_Res (owned T) (fun s : list T => [N.of_nat (length s) * sz])
             (fun vs : list (list T) => [N.of_nat (length (concat vs)) * sz]).
Definition mirror_res T : Res (mirror T) := @Build_Res (mirror T) (fun _ => []) (fun _ => []).
Definition vec_region_res T (sz : N) : Res (vec_region T) :=
  @Build_Res (vec_region T) (fun s : list T => [N.of_nat (length s) * sz])
             (fun vs : list T => [N.of_nat (length vs) * sz]).
Definition string_res R (V : Res R) : Res (string_region R) :=
  @Build_Res (string_region R) (r_used V) (r_items V).

(** * fan-out *)
Definition somes {A} (l : list (option A)) : list A :=
  flat_map (fun o => match o with Some x => [x] | None => [] end) l.
Definition option_res R (V : Res R) : Res (option_region R) :=
  @Build_Res (option_region R) (r_used V) (fun vs : list (option (val R)) => r_items V (somes vs)).
Definition lefts {A B} (l : list (A + B)) : list A := flat_map (fun o => match o with inl x => [x] | inr _ => [] end) l.
Definition rights {A B} (l : list (A + B)) : list B := flat_map (fun o => match o with inr x => [x] | inl _ => [] end) l.
Definition result_res A B (VA : Res A) (VB : Res B) : Res (result_region A B) :=
  @Build_Res (result_region A B) (fun s : st A * st B => r_used VA (fst s) ++ r_used VB (snd s))
             (fun vs : list (val A + val B) => r_items VA (lefts vs) ++ r_items VB (rights vs)).
Definition tuple2_res A B (VA : Res A) (VB : Res B) : Res (tuple2 A B) :=
  @Build_Res (tuple2 A B) (fun s : st A * st B => r_used VA (fst s) ++ r_used VB (snd s))
             (fun vs : list (val A * val B) => r_items VA (map fst vs) ++ r_items VB (map snd vs)).
(** [SliceRegion<R, Vec<_>>]: one index entry of [isz] bytes per element, then the inner region.
    For the compressed containers the announced index bytes are 0 (their reserve is conditional). *)
Definition slice_res R (O : IC (idx R)) (isz : N) (V : Res R) : Res (slice R O) :=
  @Build_Res (slice R O) (fun x : ic_st O * st R => ic_used O (fst x) ++ r_used V (snd x))
             (fun vs : list (list (val R)) => map (fun _ => 0) (ic_used O (ic_default O)) ++ r_items V (concat vs)).
Definition slice_vec_res R (isz : N) (V : Res R) : Res (slice R (vec_ic (idx R) isz)) :=
  @Build_Res (slice R (vec_ic (idx R) isz))
             (fun x : list (idx R) * st R => [N.of_nat (length (fst x)) * isz] ++ r_used V (snd x))
             (fun vs : list (list (val R)) => [N.of_nat (length (concat vs)) * isz] ++ r_items V (concat vs)).

(** * wrappers *)
Definition collapse_res R veq (V : Res R) : Res (collapse R veq) :=
  @Build_Res (collapse R veq) (fun x : st R * option (idx R) => r_used V (fst x)) (r_items V).
Definition consec_res R {PI : PairIdx R} (O : IC nat) chk (V : Res R) : Res (consec R O chk) :=
  @Build_Res (consec R O chk) (fun x : st R * ic_st O * nat => ic_used O (snd (fst x)) ++ r_used V (fst (fst x)))
             (fun vs => map (fun _ => 0) (ic_used O (ic_default O)) ++ r_items V vs).
(** [ColumnsRegion]: the vector of column regions ([csz] = size_of::<R>() each), every column, then
    the row index store (a consecutive-pairs region over an owned region of inner indices) *)
Definition columns_res R (O : IC nat) chk (csz isz : N) (V : Res R) : Res (columns R O chk) :=
  @Build_Res (columns R O chk)
     (fun x : list (st R) * st (consec (owned (idx R)) O chk) =>
        [N.of_nat (length (fst x)) * csz] ++ flat_map (r_used V) (fst x) ++
        r_used (consec_res O chk (owned_res (idx R) isz)) (snd x))
     (fun _ => []).
