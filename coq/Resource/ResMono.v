(** C18, "used bytes never decrease on push", for EVERY combinator -- including the ones whose number of
    heap_size callbacks can grow (columns) and the ones with compressed index containers, where the
    pointwise statement of [ResOK] does not apply: the SUM of the used bytes over all callbacks is
    monotone under push. *)
From FC Require Import Base.Res Index.IC Index.Stride Region.Region Region.Owned Region.Simple Region.Slice
  Region.Collapse Region.Consec Region.Columns Resource.Res Resource.ResOk.
From Coq Require Import Lia.
Set Implicit Arguments.
Local Open Scope N_scope.

Class ResMono (R : Region) {SP : RSpec R} (V : Res R) : Prop :=
  total_mono : forall s v s' i, inv s -> push R s v = Ok (s', i) -> total (r_used V s) <= total (r_used V s').
Arguments ResMono R {SP} V.

Lemma resok_mono R `{RegionOK R} (V : Res R) `{!ResOK R V} : ResMono R V.
Proof. intros s v s' i Hs Hp. apply ple_total. exact (proj2 (@used_push_le R _ V _ s v s' i Hs Hp)). Qed.

(** index containers: pushing never lowers the used bytes *)
Class ICUsedMono T (c : IC T) : Prop :=
  ic_used_mono : forall s x, total (ic_used c s) <= total (ic_used c (ic_push c s x)).
#[export] Instance vec_ic_used_mono T sz : ICUsedMono (vec_ic T sz).
Proof. intros s x. cbn. rewrite app_length. cbn [length]. nia. Qed.
#[export] Instance index_list_used_mono : ICUsedMono index_list.
Proof.
  intros [sm ch] x. cbn [ic_used ic_push index_list]. unfold il_push, il_used. cbn [smol chonk].
  destruct ch as [|c ch]; [destruct (x <? W32)|]; cbn [smol chonk total fold_right]; rewrite ?app_length; cbn [length]; lia.
Qed.
#[export] Instance index_optimized_used_mono : ICUsedMono index_optimized.
Proof.
  intros [st sp] x. cbn [ic_used ic_push index_optimized]. unfold io_push. cbn [strided spilled].
  destruct (il_is_empty sp); [destruct (stride_push st x) as [ok st']; destruct ok|]; cbn [spilled]; try lia;
    apply (@ic_used_mono _ index_list index_list_used_mono sp x).
Qed.
#[export] Instance ic_nat_used_mono (c : IC N) `{!ICUsedMono c} : ICUsedMono (ic_nat c).
Proof. intros s x. apply (@ic_used_mono N c _ s (N.of_nat x)). Qed.

Lemma ic_fold_used_mono T (c : IC T) `{!ICUsedMono c} l : forall s, total (ic_used c s) <= total (ic_used c (fold_left (ic_push c) l s)).
Proof.
  induction l as [|x l IH]; intros s; cbn [fold_left]; [lia|].
  eapply N.le_trans; [apply (@ic_used_mono T c _ s x)|apply IH].
Qed.

Section Generic.
  Variable R : Region.
  Context `{RegionOK R}.
  Variable V : Res R.
  Context `{!ResMono R V}.
  Lemma push_all_total vs : forall s s' is, inv s -> push_all R s vs = Ok (s', is) -> total (r_used V s) <= total (r_used V s').
  Proof.
    induction vs as [|v vs IH]; intros s s' is Hs Hp; cbn [push_all] in Hp; [inversion Hp; subst; lia|].
    destruct (push R s v) as [[s1 i]|] eqn:E1; cbn [bind] in Hp; [|discriminate].
    destruct (push_all R s1 vs) as [[s2 is2]|] eqn:E2; cbn [bind] in Hp; [|discriminate]. inversion Hp; subst.
    destruct (push_safe s v Hs E1) as (Hi1 & _).
    eapply N.le_trans; [apply (@total_mono R _ V _ s v s1 i Hs E1)|apply (IH s1 s' is2 Hi1 E2)].
  Qed.
End Generic.

(** * per combinator *)
#[export] Instance mirror_res_mono T : ResMono (mirror T) (mirror_res T).
Proof. intros s v s' i _ _. cbn. lia. Qed.
#[export] Instance string_res_mono R wf `{RSpec R} (V : Res R) `{!ResMono R V} :
  @ResMono (string_region R) (@string_spec R wf _) (string_res V).
Proof. intros s v s' i Hs Hp. apply (@total_mono R _ V _ s v s' i Hs Hp). Qed.
#[export] Instance option_res_mono R `{RegionOK R} (V : Res R) `{!ResMono R V} : ResMono (option_region R) (option_res V).
Proof.
  intros s [x|] s' i Hs Hp; cbn [push option_region] in Hp.
  - destruct (push R s x) as [[s1 j]|] eqn:E; cbn [bind] in Hp; [|discriminate]. inversion Hp; subst.
    apply (@total_mono R _ V _ s x s' j Hs E).
  - inversion Hp; subst. cbn. lia.
Qed.
#[export] Instance result_res_mono A B `{RegionOK A} `{RegionOK B} (VA : Res A) (VB : Res B) `{!ResMono A VA} `{!ResMono B VB} :
  ResMono (result_region A B) (result_res VA VB).
Proof.
  intros [a b] [x|y] [a' b'] i [Ha Hb] Hp; cbn [push result_region fst snd r_used result_res] in *; rewrite !total_app.
  - destruct (push A a x) as [[a1 j]|] eqn:E; cbn [bind] in Hp; [|discriminate]. inversion Hp; subst.
    pose proof (@total_mono A _ VA _ a x a' j Ha E). lia.
  - destruct (push B b y) as [[b1 j]|] eqn:E; cbn [bind] in Hp; [|discriminate]. inversion Hp; subst.
    pose proof (@total_mono B _ VB _ b y b' j Hb E). lia.
Qed.
#[export] Instance tuple2_res_mono A B `{RegionOK A} `{RegionOK B} (VA : Res A) (VB : Res B) `{!ResMono A VA} `{!ResMono B VB} :
  ResMono (tuple2 A B) (tuple2_res VA VB).
Proof.
  intros [a b] [x y] [a' b'] [i j] [Ha Hb] Hp; cbn [push tuple2 fst snd r_used tuple2_res] in *; rewrite !total_app.
  destruct (push A a x) as [[a1 i1]|] eqn:E1; cbn [bind] in Hp; [|discriminate].
  destruct (push B b y) as [[b1 j1]|] eqn:E2; cbn [bind] in Hp; [|discriminate]. inversion Hp; subst.
  pose proof (@total_mono A _ VA _ a x a' i Ha E1). pose proof (@total_mono B _ VB _ b y b' j Hb E2). lia.
Qed.
#[export] Instance slice_res_mono R (O : IC (idx R)) `{RegionOK R} `{ICOk _ O} `{!ICUsedMono O} isz (V : Res R) `{!ResMono R V} :
  ResMono (slice R O) (slice_res O isz V).
Proof.
  intros [so sr] vs [so' sr'] i (Hio & Hi & _) Hp. cbn [push slice fst snd r_used slice_res] in *. rewrite !total_app.
  destruct (push_all R sr vs) as [[sr1 is]|] eqn:E; cbn [bind] in Hp; [|discriminate]. inversion Hp; subst.
  pose proof (@push_all_total R _ _ V _ vs sr sr' is Hi E). pose proof (@ic_fold_used_mono _ O _ is so). lia.
Qed.
#[export] Instance collapse_res_mono R veq `{RegionOK R} (V : Res R) `{!ResMono R V} : ResMono (collapse R veq) (collapse_res veq V).
Proof.
  intros [s last] v [s' last'] i [Hs Hl] Hp. cbn [fst snd r_used collapse_res inv collapse_spec] in *.
  pose proof (@collapse_push_spec R veq _ _ s last v Hs Hl) as Hspec. cbv zeta in Hspec.
  assert (Hfresh : (let* '(s1, i1) := push R s v in Ok ((s1, Some i1), i1)) = Ok ((s', last'), i) -> total (r_used V s) <= total (r_used V s')).
  { destruct (push R s v) as [[s1 i1]|] eqn:E; cbn [bind]; [|discriminate]. intros Hq. inversion Hq; subst.
    apply (@total_mono R _ V _ s v s' i Hs E). }
  destruct last as [j|].
  - destruct Hspec as (w & _ & Hspec). rewrite Hspec in Hp. destruct (veq v w); [inversion Hp; subst; lia|apply Hfresh; exact Hp].
  - rewrite Hspec in Hp. apply Hfresh. exact Hp.
Qed.
#[export] Instance consec_res_mono R `{RegionOK R} {PI : PairIdx R} `{!Dense R} (O : IC nat) `{ICOk _ O} `{!ICUsedMono O} chk
  (V : Res R) `{!ResMono R V} : ResMono (consec R O chk) (consec_res O chk V).
Proof.
  intros [[s o] lst] v [[s' o'] lst'] k (Hs & _) Hp. cbn [push consec fst snd r_used consec_res] in *. rewrite !total_app.
  destruct (push R s v) as [[s1 i]|] eqn:E; cbn [bind] in Hp; [|discriminate].
  destruct (chk && negb (fst (to_pair i) =? lst)%nat); [discriminate|]. inversion Hp; subst.
  pose proof (@total_mono R _ V _ s v s' i Hs E). pose proof (@ic_used_mono _ O _ o (snd (to_pair i))). lia.
Qed.

Section ColumnsMono.
  Variable R : Region.
  Context `{RegionOK R}.
  Variable O : IC nat.
  Context `{ICOk _ O} `{!ICUsedMono O}.
  Variable chk : bool.
  Variable V : Res R.
  Context `{!ResMono R V}.

  Lemma push_cols_total vs : forall cols cols' is, (forall j, inv (coln R cols j)) -> push_cols R cols vs = Ok (cols', is) ->
    total (flat_map (r_used V) cols) <= total (flat_map (r_used V) cols') /\ (length cols <= length cols')%nat.
  Proof.
    induction vs as [|v vs IH]; intros cols cols' is Hinv Hp; cbn [push_cols] in Hp; [inversion Hp; subst; split; lia|].
    destruct (push R (hd (dflt R) cols) v) as [[c' i]|] eqn:E1; cbn [bind] in Hp; [|discriminate].
    destruct (push_cols R (tl cols) vs) as [[rest' is']|] eqn:E2; cbn [bind] in Hp; [|discriminate]. inversion Hp; subst.
    assert (Hhd : inv (hd (dflt R) cols)) by (rewrite <- (coln_0 R); apply Hinv).
    assert (Htl : forall j, inv (coln R (tl cols) j)) by (intros j; rewrite <- (coln_S R); apply Hinv).
    destruct (IH (tl cols) rest' is' Htl E2) as [IH1 IH2].
    pose proof (@total_mono R _ V _ _ v c' i Hhd E1) as Hm.
    destruct cols as [|c rest]; cbn [flat_map hd tl length] in *; rewrite ?total_app in *; split; lia.
  Qed.

  #[export] Instance columns_res_mono csz isz : ResMono (columns R O chk) (columns_res O chk csz isz V).
  Proof.
    intros [cols rows] vs [cols' rows'] k (Hic & Hir & _) Hp. cbn [push columns fst snd] in Hp.
    destruct (push_cols R cols vs) as [[cols1 is]|] eqn:E1; cbn [bind] in Hp; [|discriminate].
    destruct (push (consec (owned (idx R)) O chk) rows is) as [[rows1 k1]|] eqn:E2; cbn [bind] in Hp; [|discriminate].
    inversion Hp; subst. destruct (push_cols_total vs cols Hic E1) as [H1 H2].
    pose proof (@consec_res_mono (owned (idx R)) _ (owned_ok (idx R)) _ _ O _ _ chk (owned_res (idx R) isz)
                  (@resok_mono (owned (idx R)) _ (owned_ok (idx R)) (owned_res (idx R) isz) (owned_res_ok (idx R) isz))) as HR.
    pose proof (HR rows is rows' k Hir E2) as H3.
    cbn [r_used columns_res fst snd]. rewrite !total_app. cbn [total fold_right]. nia.
  Qed.
End ColumnsMono.

#[export] Instance slice_vec_res_mono R `{RegionOK R} isz (V : Res R) `{!ResMono R V} :
  ResMono (slice R (vec_ic (idx R) isz)) (slice_vec_res isz V).
Proof.
  intros [so sr] vs [so' sr'] i (Hio & Hi & _) Hp. cbn [push slice fst snd r_used slice_vec_res] in *. rewrite !total_app.
  destruct (push_all R sr vs) as [[sr1 is]|] eqn:E; cbn [bind] in Hp; [|discriminate]. inversion Hp; subst.
  pose proof (@push_all_total R _ _ V _ vs sr sr' is Hi E) as H1.
  pose proof (@ic_fold_used_mono _ (vec_ic (idx R) isz) _ is so) as H2.
  exact (N.add_le_mono _ _ _ _ H2 H1).
Qed.
