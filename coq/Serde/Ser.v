(** The serialised form of every serde-enabled region, index container and FlatStack (C16), as the
    name-free tree that the derives emit: a struct is the list of its fields in declaration order,
    a sequence the list of its elements, [PhantomData] / unit the empty list, [Option] is
    [UNone] / [USome], variant [k] of an enum is [UOk (UL (UN k :: payload))].

    One definition per Rust [#[derive(Serialize)]]; the harness renders the crate's own
    [Serialize] output in the same shape (harness/src/state.rs), so equality of the two trees after
    every operation is equality of the implementation's complete internal state with the model's.
    [SerInj]: the tree determines the model state (nothing that matters is left out). *)
From FC Require Import Base.Res Base.UVal Index.IC Index.Stride Region.Region Region.Owned Region.Simple
  Region.Slice Region.Collapse Region.Consec Region.Columns Stack.FlatStack.
From Coq Require Import Lia.
Set Implicit Arguments.

(** * index containers *)
Class ICSer T (c : IC T) := { ic_ser : (T -> uval) -> ic_st c -> uval }.
Arguments ic_ser {T c _} f s.

#[export] Instance vec_ic_ser T sz : ICSer (vec_ic T sz) := @Build_ICSer T (vec_ic T sz) (fun f (s : list T) => UL (map f s)).

(** [Stride]: Empty = 0, Zero = 1, Striding(stride, count) = 2, Saturated(stride, count, reps) = 3 *)
Definition stride_ser (s : stride) : uval :=
  match s with
  | SEmpty => UOk (UL [UN 0])
  | SZero => UOk (UL [UN 1])
  | SStriding s c => UOk (UL [UN 2; UN s; unat c])
  | SSaturated s c r => UOk (UL [UN 3; UN s; unat c; unat r])
  end.
(** [IndexList { smol, chonk }] *)
Definition il_ser (f : N -> uval) (l : ilist) : uval := UL [UL (map f (smol l)); UL (map f (chonk l))].
#[export] Instance index_list_ser : ICSer index_list := @Build_ICSer N index_list il_ser.
(** [IndexOptimized { strided, spilled }] *)
#[export] Instance index_optimized_ser : ICSer index_optimized :=
  @Build_ICSer N index_optimized (fun f (o : iopt) => UL [stride_ser (strided o); il_ser f (spilled o)]).
#[export] Instance ic_via_ser A B (f : B -> A) (g : A -> B) (c : IC A) `{ICSer A c} : ICSer (ic_via f g c) :=
  @Build_ICSer B (ic_via f g c) (fun h (s : ic_st c) => ic_ser (fun a => h (g a)) s).
#[export] Instance ic_nat_ser (c : IC N) `{ICSer N c} : ICSer (ic_nat c) := @ic_via_ser N nat N.of_nat N.to_nat c _.

(** * regions *)
Record RSer (R : Region) := {
  r_ser : st R -> uval;          (* the region's own [Serialize] *)
  r_iser : idx R -> uval;        (* [R::Index: Serialize] *)
}.

Definition upair_ser (i : nat * nat) : uval := UL [unat (fst i); unat (snd i)].

(** [OwnedRegion { slices, _marker: PhantomData }] *)
Definition owned_ser T (et : T -> uval) : RSer (owned T) :=
  @Build_RSer (owned T) (fun s : list T => UL [UL (map et s); UL []]) upair_ser.
(** [MirrorRegion(PhantomData)]: a newtype struct around a unit struct *)
Definition mirror_ser T (et : T -> uval) : RSer (mirror T) :=
  @Build_RSer (mirror T) (fun _ => UL []) et.
(** [Vec<T>] as a region *)
Definition vec_region_ser T (et : T -> uval) : RSer (vec_region T) :=
  @Build_RSer (vec_region T) (fun s : list T => UL (map et s)) unat.
(** [StringRegion { inner }], [OptionRegion { inner }] *)
Definition string_ser R (S : RSer R) : RSer (string_region R) :=
  @Build_RSer (string_region R) (fun s : st R => UL [r_ser S s]) (r_iser S).
Definition option_ser R (S : RSer R) : RSer (option_region R) :=
  @Build_RSer (option_region R) (fun s : st R => UL [r_ser S s])
    (fun i : option (idx R) => match i with None => UNone | Some j => USome (r_iser S j) end).
(** [ResultRegion { oks, errs }]; [Result<_, _>]: Ok = variant 0, Err = variant 1 *)
Definition result_ser A B (SA : RSer A) (SB : RSer B) : RSer (result_region A B) :=
  @Build_RSer (result_region A B) (fun s : st A * st B => UL [r_ser SA (fst s); r_ser SB (snd s)])
    (fun i : idx A + idx B => match i with inl j => UOk (UL [UN 0; r_iser SA j]) | inr j => UOk (UL [UN 1; r_iser SB j]) end).
(** [TupleABRegion { container0, container1 }] *)
Definition tuple2_ser A B (SA : RSer A) (SB : RSer B) : RSer (tuple2 A B) :=
  @Build_RSer (tuple2 A B) (fun s : st A * st B => UL [r_ser SA (fst s); r_ser SB (snd s)])
    (fun i : idx A * idx B => UL [r_iser SA (fst i); r_iser SB (snd i)]).
(** [SliceRegion { slices, inner }] *)
Definition slice_ser R (O : IC (idx R)) {OS : ICSer O} (S : RSer R) : RSer (slice R O) :=
  @Build_RSer (slice R O) (fun x : ic_st O * st R => UL [ic_ser (r_iser S) (fst x); r_ser S (snd x)]) upair_ser.
(** [CollapseSequence { inner, last_index: Option<Index> }] *)
Definition collapse_ser R veq (S : RSer R) : RSer (collapse R veq) :=
  @Build_RSer (collapse R veq)
    (fun x : st R * option (idx R) =>
       UL [r_ser S (fst x); match snd x with None => UNone | Some j => USome (r_iser S j) end])
    (r_iser S).
(** [ConsecutiveIndexPairs { inner, indices, last_index }] *)
Definition consec_ser R {PI : PairIdx R} (O : IC nat) {OS : ICSer O} chk (S : RSer R) : RSer (consec R O chk) :=
  @Build_RSer (consec R O chk)
    (fun x : st R * ic_st O * nat => UL [r_ser S (fst (fst x)); ic_ser unat (snd (fst x)); unat (snd x)])
    unat.
(** [ColumnsRegion { indices: ConsecutiveIndexPairs<OwnedRegion<R::Index>, O>, inner: Vec<R> }] *)
Definition columns_ser R (O : IC nat) {OS : ICSer O} chk (S : RSer R) : RSer (columns R O chk) :=
  @Build_RSer (columns R O chk)
    (fun x : list (st R) * st (consec (owned (idx R)) O chk) =>
       UL [r_ser (@consec_ser (owned (idx R)) _ O OS chk (owned_ser (r_iser S))) (snd x); UL (map (r_ser S) (fst x))])
    unat.

(** [FlatStack { indices, region }] *)
Definition fs_ser R (O : IC (idx R)) {OS : ICSer O} (S : RSer R) (x : fs_st R O) : uval :=
  UL [ic_ser (r_iser S) (snd x); r_ser S (fst x)].

(** * the serialised form determines the state *)
Definition injective {A B} (f : A -> B) : Prop := forall x y, f x = f y -> x = y.

Lemma map_inj {A B} (f : A -> B) : injective f -> injective (map f).
Proof.
  intros Hf x. induction x as [|a x IH]; intros [|b y] H; cbn in H; try discriminate; [reflexivity|].
  inversion H. f_equal; [apply Hf; assumption|apply IH; assumption].
Qed.
Lemma unat_inj : injective unat.
Proof. intros x y H. unfold unat in H. inversion H. lia. Qed.
Lemma upair_ser_inj : injective upair_ser.
Proof. intros [a b] [c d] H. unfold upair_ser in H. cbn in H. inversion H as [[H1 H2]]. f_equal; lia. Qed.

Class ICSerInj T (c : IC T) {S : ICSer c} : Prop :=
  ic_ser_inj : forall f, injective f -> injective (@ic_ser T c S f).
Arguments ICSerInj {T} c {S}.

#[export] Instance vec_ic_ser_inj T sz : ICSerInj (vec_ic T sz).
Proof. intros f Hf x y H. cbn in H. inversion H. apply (map_inj Hf). assumption. Qed.

Lemma stride_ser_inj : injective stride_ser.
Proof.
  intros [| |s c|s c r] [| |s' c'|s' c' r'] H; cbn in H; try discriminate; try reflexivity;
    inversion H; repeat match goal with Hn : N.of_nat _ = N.of_nat _ |- _ => apply Nat2N.inj in Hn end; subst; reflexivity.
Qed.
Lemma il_ser_inj f : injective f -> injective (il_ser f).
Proof.
  intros Hf [s1 c1] [s2 c2] H. unfold il_ser in H. cbn in H. inversion H as [[H1 H2]].
  apply (map_inj Hf) in H1. apply (map_inj Hf) in H2. subst. reflexivity.
Qed.
#[export] Instance index_list_ser_inj : ICSerInj index_list.
Proof. intros f Hf. apply il_ser_inj. exact Hf. Qed.
#[export] Instance index_optimized_ser_inj : ICSerInj index_optimized.
Proof.
  intros f Hf [st1 sp1] [st2 sp2] H. cbn in H. inversion H as [[H1 H2]].
  apply stride_ser_inj in H1. assert (H3 : il_ser f sp1 = il_ser f sp2) by (unfold il_ser; congruence).
  apply (il_ser_inj Hf) in H3. subst. reflexivity.
Qed.
#[export] Instance ic_nat_ser_inj (c : IC N) {S : ICSer c} `{!ICSerInj c} : ICSerInj (ic_nat c).
Proof.
  intros f Hf x y H. cbn in H. revert H. apply (@ic_ser_inj N c S _ (fun a : N => f (N.to_nat a))).
  intros a b Hab. apply Hf in Hab. lia.
Qed.

Class SerInj R (S : RSer R) : Prop := {
  ser_inj : injective (r_ser S);
  iser_inj : injective (r_iser S);
}.

#[export] Instance owned_ser_inj T (et : T -> uval) : injective et -> SerInj (owned_ser et).
Proof.
  intros He. constructor; [|apply upair_ser_inj].
  intros x y H. cbn in H. inversion H. apply (map_inj He). assumption.
Qed.
#[export] Instance mirror_ser_inj T (et : T -> uval) : injective et -> SerInj (mirror_ser et).
Proof. intros He. constructor; [intros [] [] _; reflexivity|exact He]. Qed.
#[export] Instance vec_region_ser_inj T (et : T -> uval) : injective et -> SerInj (vec_region_ser et).
Proof.
  intros He. constructor; [|apply unat_inj]. intros x y H. cbn in H. inversion H. apply (map_inj He). assumption.
Qed.
#[export] Instance string_ser_inj R (S : RSer R) `{!SerInj S} : SerInj (string_ser S).
Proof.
  constructor; [|exact (@iser_inj R S _)]. intros x y H. cbn in H. inversion H as [H1]. exact (@ser_inj R S _ x y H1).
Qed.
#[export] Instance option_ser_inj R (S : RSer R) `{!SerInj S} : SerInj (option_ser S).
Proof.
  constructor.
  - intros x y H. cbn in H. inversion H as [H1]. exact (@ser_inj R S _ x y H1).
  - intros [i|] [j|] H; cbn in H; try discriminate; [|reflexivity]. inversion H as [H1]. f_equal. exact (@iser_inj R S _ i j H1).
Qed.
#[export] Instance result_ser_inj A B (SA : RSer A) (SB : RSer B) `{!SerInj SA} `{!SerInj SB} : SerInj (result_ser SA SB).
Proof.
  constructor.
  - intros [a b] [c d] H. cbn in H. inversion H as [[H1 H2]].
    apply (@ser_inj A SA _) in H1. apply (@ser_inj B SB _) in H2. congruence.
  - intros [i|i] [j|j] H; cbn in H; try discriminate; inversion H as [H1].
    + apply (@iser_inj A SA _) in H1. congruence.
    + apply (@iser_inj B SB _) in H1. congruence.
Qed.
#[export] Instance tuple2_ser_inj A B (SA : RSer A) (SB : RSer B) `{!SerInj SA} `{!SerInj SB} : SerInj (tuple2_ser SA SB).
Proof.
  constructor.
  - intros [a b] [c d] H. cbn in H. inversion H as [[H1 H2]].
    apply (@ser_inj A SA _) in H1. apply (@ser_inj B SB _) in H2. congruence.
  - intros [a b] [c d] H. cbn in H. inversion H as [[H1 H2]].
    apply (@iser_inj A SA _) in H1. apply (@iser_inj B SB _) in H2. congruence.
Qed.
#[export] Instance slice_ser_inj R (O : IC (idx R)) {OS : ICSer O} `{!ICSerInj O} (S : RSer R) `{!SerInj S} : SerInj (@slice_ser R O OS S).
Proof.
  constructor; [|apply upair_ser_inj].
  intros [a b] [c d] H. cbn in H. inversion H as [[H1 H2]].
  apply (@ic_ser_inj _ O OS _ (r_iser S) (@iser_inj R S _)) in H1. apply (@ser_inj R S _) in H2. congruence.
Qed.
#[export] Instance collapse_ser_inj R veq (S : RSer R) `{!SerInj S} : SerInj (collapse_ser veq S).
Proof.
  constructor; [|exact (@iser_inj R S _)].
  intros [a [i|]] [c [j|]] H; cbn in H; try discriminate.
  - inversion H as [[H1 H2]]. apply (@ser_inj R S _) in H1. apply (@iser_inj R S _) in H2. congruence.
  - inversion H as [H1]. apply (@ser_inj R S _) in H1. congruence.
Qed.
#[export] Instance consec_ser_inj R {PI : PairIdx R} (O : IC nat) {OS : ICSer O} `{!ICSerInj O} chk (S : RSer R) `{!SerInj S} :
  SerInj (@consec_ser R PI O OS chk S).
Proof.
  constructor; [|apply unat_inj].
  intros [[a o] l] [[c p] m] H. cbn in H. inversion H as [[H1 H2 H3]].
  apply (@ser_inj R S _) in H1. apply (@ic_ser_inj _ O OS _ unat unat_inj) in H2. apply Nat2N.inj in H3. congruence.
Qed.
#[export] Instance columns_ser_inj R (O : IC nat) {OS : ICSer O} `{!ICSerInj O} chk (S : RSer R) `{!SerInj S} :
  SerInj (@columns_ser R O OS chk S).
Proof.
  constructor; [|apply unat_inj].
  pose proof (@consec_ser_inj (owned (idx R)) _ O OS _ chk (owned_ser (r_iser S)) (owned_ser_inj (@iser_inj R S _))) as HI.
  intros [cols rows] [cols' rows'] H. unfold columns_ser in H. cbn [r_ser fst snd] in H.
  set (rs := @consec_ser (owned (idx R)) _ O OS chk (owned_ser (r_iser S))) in *. clearbody rs.
  assert (H1 : r_ser rs rows = r_ser rs rows') by (injection H; auto).
  assert (H2 : map (r_ser S) cols = map (r_ser S) cols') by (injection H; auto).
  apply (map_inj (@ser_inj R S _)) in H2. apply (@ser_inj _ rs HI) in H1. congruence.
Qed.
