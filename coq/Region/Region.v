(** The core region model and its contract.

    [Region] mirrors the Rust traits [Region] + [Push]: one Coq combinator per generic Rust
    [impl] block.  [read] is [Region::index] followed by [IntoOwned::into_owned]; read items
    themselves live in the [RegionItems] layer.

    The contract is split: [RSpec] is data (instances are transparent definitions written with
    projections), [RegionOK] is laws (a proposition). *)
From FC Require Import Base.Res.
Set Implicit Arguments.

Record Region := {
  val : Type;                               (* Region::Owned, the logical value *)
  idx : Type;                               (* Region::Index *)
  st : Type;                                (* Self *)
  dflt : st;                                (* Default::default *)
  push : st -> val -> res (st * idx);       (* Push::push, canonical form *)
  read : st -> idx -> res val;              (* index(..).into_owned() *)
  clear : st -> st;                         (* Region::clear *)
  merge : list st -> st;                    (* Region::merge_regions *)
}.

Class RSpec (R : Region) := {
  inv : st R -> Prop;                       (* representation invariant *)
  valid : st R -> idx R -> Prop;            (* indices the guarantees apply to *)
  dom : st R -> val R -> Prop;              (* values covered by the round trip *)
  sim : st R -> st R -> Prop;               (* observational equivalence *)
  mergeable : list (st R) -> Prop;          (* source lists [merge_regions] is specified for *)
}.

Definition frame (R : Region) (SP : RSpec R) (s s' : st R) : Prop :=
  forall j, valid s j -> valid s' j /\ read R s' j = read R s j.
Definition dom_same (R : Region) (SP : RSpec R) (s s' : st R) : Prop :=
  forall w, dom s w <-> dom s' w.
Arguments frame R {SP} s s'.
Arguments dom_same R {SP} s s'.

Class RegionOK (R : Region) (SP : RSpec R) : Prop := {
  inv_dflt : inv (dflt R);
  (* every successful push, whatever the value: invariant, validity, C02 frame *)
  push_safe : forall s v s' i, inv s -> push R s v = Ok (s', i) ->
     inv s' /\ valid s' i /\ frame R s s' /\ dom_same R s s';
  (* C01 round trip for the values the region covers *)
  push_ok : forall s v, inv s -> dom s v ->
     exists s' i, push R s v = Ok (s', i) /\ read R s' i = Ok v;
  valid_reads : forall s j, inv s -> valid s j -> exists w, read R s j = Ok w;
  (* C08 *)
  clear_ok : forall s, inv s -> inv (clear R s) /\ sim (clear R s) (dflt R);
  (* C10, first half: a merged region is well formed (freshness is [MergeFresh]) *)
  merge_inv : forall l, Forall inv l -> mergeable l -> inv (merge R l);
  sim_refl : forall s, sim s s;
  sim_sym : forall s t, sim s t -> sim t s;
  sim_trans : forall s t u, sim s t -> sim t u -> sim s u;
  sim_dom : forall s t, sim s t -> dom_same R s t;
  sim_push : forall s t v s' i, inv s -> inv t -> sim s t -> push R s v = Ok (s', i) ->
     exists t', push R t v = Ok (t', i) /\ sim s' t';
  sim_read : forall s t i, inv s -> inv t -> sim s t -> valid s i ->
     valid t i /\ read R t i = read R s i;
}.
Arguments RegionOK R {SP}.

(** Regions whose [merge_regions] result is observationally a default region (all but codecs). *)
Class MergeFresh (R : Region) (SP : RSpec R) : Prop :=
  merge_fresh : forall l, Forall inv l -> sim (merge R l) (dflt R).
Arguments MergeFresh R {SP}.

Section Basics.
  Context (R : Region) `{RegionOK R}.

  Lemma frame_refl s : frame R s s.
  Proof. intros j Hj; auto. Qed.
  Lemma frame_trans s t u : frame R s t -> frame R t u -> frame R s u.
  Proof.
    intros H1 H2 j Hj. destruct (H1 j Hj) as [Hv Hr]. destruct (H2 j Hv) as [Hv' Hr'].
    split; [assumption|congruence].
  Qed.
  Lemma dom_same_refl s : dom_same R s s.
  Proof. intros w; reflexivity. Qed.
  Lemma dom_same_trans s t u : dom_same R s t -> dom_same R t u -> dom_same R s u.
  Proof. intros H1 H2 w. rewrite (H1 w). apply H2. Qed.

  (** Pushing a list of values: the helper every fan-out region uses. *)
  Fixpoint push_all (s : st R) (vs : list (val R)) : res (st R * list (idx R)) :=
    match vs with
    | [] => Ok (s, [])
    | v :: vs => let* '(s1, i) := push R s v in
                 let* '(s2, is) := push_all s1 vs in Ok (s2, i :: is)
    end.

  Lemma push_all_safe vs : forall s s' is, inv s -> push_all s vs = Ok (s', is) ->
    inv s' /\ Forall (valid s') is /\ frame R s s' /\ dom_same R s s' /\ length is = length vs.
  Proof.
    induction vs as [|v vs IH]; intros s s' is Hs; simpl; intros Hp.
    - inversion Hp; subst. split; [assumption|]. split; [constructor|].
      split; [apply frame_refl|]. split; [apply dom_same_refl|reflexivity].
    - destruct (push R s v) as [[s1 i]|] eqn:E1; simpl in Hp; [|discriminate].
      destruct (push_all s1 vs) as [[s2 is2]|] eqn:E2; simpl in Hp; [|discriminate].
      inversion Hp; subst.
      destruct (push_safe s v Hs E1) as (Hi1 & Hv1 & Hf1 & Hd1).
      destruct (IH s1 s' is2 Hi1 E2) as (Hi2 & Hv2 & Hf2 & Hd2 & Hl).
      split; [assumption|]. split; [constructor; [apply Hf2; assumption|assumption]|].
      split; [eapply frame_trans; eauto|]. split; [eapply dom_same_trans; eauto|simpl; congruence].
  Qed.

  Lemma push_all_ok vs : forall s, inv s -> Forall (dom s) vs ->
    exists s' is, push_all s vs = Ok (s', is) /\ mapM (read R s') is = Ok vs.
  Proof.
    induction vs as [|v vs IH]; intros s Hs Hd; simpl.
    - exists s, []. split; reflexivity.
    - inversion Hd as [|? ? Hv Hvs]; subst.
      destruct (push_ok s v Hs Hv) as (s1 & i & Hp & Hr1).
      destruct (push_safe s v Hs Hp) as (Hi1 & Hv1 & Hf1 & Hd1).
      assert (Hd' : Forall (dom s1) vs).
      { rewrite Forall_forall in *. intros w Hw. apply Hd1. auto. }
      destruct (IH s1 Hi1 Hd') as (s2 & is & Hp2 & Hr2).
      destruct (push_all_safe vs s1 Hi1 Hp2) as (_ & _ & Hf2 & _).
      exists s2, (i :: is). rewrite Hp; simpl. rewrite Hp2; simpl.
      split; [reflexivity|]. simpl.
      destruct (Hf2 i Hv1) as [_ Hri]. rewrite Hri, Hr1. simpl. rewrite Hr2. reflexivity.
  Qed.

  Lemma push_all_sim vs : forall s t s' is, inv s -> inv t -> sim s t ->
    push_all s vs = Ok (s', is) -> exists t', push_all t vs = Ok (t', is) /\ sim s' t'.
  Proof.
    induction vs as [|v vs IH]; intros s t s' is Hs Ht Hst; simpl; intros Hp.
    - inversion Hp; subst. eauto.
    - destruct (push R s v) as [[s1 i]|] eqn:E1; simpl in Hp; [|discriminate].
      destruct (push_all s1 vs) as [[s2 is2]|] eqn:E2; simpl in Hp; [|discriminate].
      inversion Hp; subst.
      destruct (@sim_push R _ _ s t v s1 i Hs Ht Hst E1) as (t1 & Hq1 & Hs1).
      destruct (push_safe s v Hs E1) as (Hi1 & _).
      destruct (push_safe t v Ht Hq1) as (Hti1 & _).
      destruct (IH s1 t1 _ _ Hi1 Hti1 Hs1 E2) as (t2 & Hq2 & Hs2).
      exists t2. rewrite Hq1; simpl. rewrite Hq2; simpl. auto.
  Qed.

  Lemma mapM_read_frame s s' l :
    frame R s s' -> Forall (valid s) l -> mapM (read R s') l = mapM (read R s) l.
  Proof.
    intros Hf Hl. apply mapM_ext_in. intros x Hx. rewrite Forall_forall in Hl. apply Hf; auto.
  Qed.

  Lemma mapM_read_ok s l : inv s -> Forall (valid s) l -> exists vs, mapM (read R s) l = Ok vs.
  Proof.
    intros Hs Hl. apply mapM_ok. intros x Hx. rewrite Forall_forall in Hl.
    apply valid_reads; auto.
  Qed.
End Basics.
