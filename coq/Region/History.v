(** Histories: the statements of C01 / C02 / C08 / C10 for every reachable state, generic in the
    region.  Instantiation at a concrete composition is by type-class resolution. *)
From FC Require Import Base.Res Region.Region.
Set Implicit Arguments.

Section History.
  Variable R : Region.
  Context `{RegionOK R}.

  Inductive op := OPush (v : val R) | OClear.

  (** state; log of (index, value) issued since the last clear; trace of all returned indices *)
  Fixpoint run (ops : list op) (s : st R) (log : list (idx R * val R)) (tr : list (idx R))
    : res (st R * list (idx R * val R) * list (idx R)) :=
    match ops with
    | [] => Ok (s, log, tr)
    | OPush v :: ops => let* '(s', i) := push R s v in run ops s' (log ++ [(i, v)]) (tr ++ [i])
    | OClear :: ops => run ops (clear R s) [] tr
    end.

  (** every pushed value is covered by the region at the moment it is pushed *)
  Fixpoint covered (ops : list op) (s : st R) : Prop :=
    match ops with
    | [] => True
    | OPush v :: ops => dom s v /\ forall s' i, push R s v = Ok (s', i) -> covered ops s'
    | OClear :: ops => covered ops (clear R s)
    end.

  Definition log_ok (s : st R) (log : list (idx R * val R)) : Prop :=
    Forall (fun iv => valid s (fst iv) /\ read R s (fst iv) = Ok (snd iv)) log.

  (** C01 + C02: a covered history never panics, and in every state it reaches every index issued
      since the last clear is valid and still reads the value it was issued for. *)
  Theorem run_ok ops : forall s log tr, inv s -> log_ok s log -> covered ops s ->
    exists s' log' tr', run ops s log tr = Ok (s', log', tr') /\ inv s' /\ log_ok s' log'.
  Proof.
    induction ops as [|o ops IH]; intros s log tr Hs Hl Hc; simpl.
    - exists s, log, tr. auto.
    - destruct o as [v|]; simpl in Hc.
      + destruct Hc as [Hd Hc].
        destruct (push_ok s v Hs Hd) as (s1 & i & Hp & Hr1).
        destruct (push_safe s v Hs Hp) as (Hi1 & Hv1 & Hf1 & _).
        rewrite Hp. simpl.
        apply IH; [assumption| |apply (Hc s1 i Hp)]. apply Forall_app. split.
        * unfold log_ok in *. rewrite Forall_forall in *. intros iv Hin. destruct (Hl iv Hin) as [Hv Hr].
          destruct (Hf1 _ Hv) as [Hv' Hr']. split; [assumption|congruence].
        * constructor; [|constructor]. simpl. auto.
      + apply IH; [apply clear_ok; assumption|constructor|assumption].
  Qed.

  Corollary reachable_ok ops : covered ops (dflt R) ->
    exists s log tr, run ops (dflt R) [] [] = Ok (s, log, tr) /\ inv s /\ log_ok s log.
  Proof. intros Hc. apply run_ok; [apply inv_dflt|constructor|assumption]. Qed.

  (** sim is a congruence for whole histories: same returned indices, same logs, sim end states. *)
  Lemma run_sim ops : forall s t log tr s' log' tr', inv s -> inv t -> sim s t ->
    run ops s log tr = Ok (s', log', tr') ->
    exists t', run ops t log tr = Ok (t', log', tr') /\ sim s' t' /\ inv s' /\ inv t'.
  Proof.
    induction ops as [|o ops IH]; intros s t log tr s' log' tr' Hs Ht Hst; simpl; intros Hr.
    - inversion Hr; subst. exists t. auto.
    - destruct o as [v|].
      + destruct (push R s v) as [[s1 i]|] eqn:Ep; simpl in Hr; [|discriminate].
        destruct (@sim_push R _ _ s t v s1 i Hs Ht Hst Ep) as (t1 & Hq & Hs1).
        destruct (push_safe s v Hs Ep) as (Hi1 & _).
        destruct (push_safe t v Ht Hq) as (Hti1 & _).
        rewrite Hq. simpl. eapply IH; [exact Hi1|exact Hti1|exact Hs1|exact Hr].
      + eapply IH; [| |  |exact Hr]; try (apply clear_ok; assumption).
        destruct (clear_ok s Hs) as [_ H1]. destruct (clear_ok t Ht) as [_ H2].
        eapply sim_trans; [exact H1|]. apply sim_sym. exact H2.
  Qed.

  (** sim states read alike at every logged index *)
  Lemma sim_log s t log : inv s -> inv t -> sim s t -> log_ok s log -> log_ok t log.
  Proof.
    intros Hs Ht Hst Hl. unfold log_ok in *. rewrite Forall_forall in *. intros iv Hin.
    destruct (Hl iv Hin) as [Hv Hr]. destruct (@sim_read R _ _ s t (fst iv) Hs Ht Hst Hv) as [Hv' Hr'].
    split; [assumption|congruence].
  Qed.

  (** C08: after [clear], whatever came before, every continuation returns the indices and ends in
      a state observationally equal to what it would on a default region. *)
  Theorem clear_fresh h1 h2 s1 log1 tr1 : covered h1 (dflt R) ->
    run h1 (dflt R) [] [] = Ok (s1, log1, tr1) ->
    forall s2 log2 tr2, run h2 (clear R s1) [] [] = Ok (s2, log2, tr2) ->
    exists s2', run h2 (dflt R) [] [] = Ok (s2', log2, tr2) /\ sim s2 s2'.
  Proof.
    intros Hc H1 s2 log2 tr2 H2.
    destruct (@run_ok h1 (dflt R) [] [] inv_dflt) as (s1' & l1' & t1' & Hr & Hi & _); [constructor|assumption|].
    rewrite H1 in Hr. inversion Hr; subst.
    destruct (clear_ok s1' Hi) as [Hci Hcs].
    destruct (@run_sim h2 (clear R s1') (dflt R) [] [] s2 log2 tr2 Hci inv_dflt Hcs H2) as (t' & Hq & Hs & _).
    eauto.
  Qed.

  (** C10 (second half): a region obtained by [merge_regions] from any well-formed regions behaves
      like a default region (for regions with [MergeFresh], i.e. all but the codecs). *)
  Theorem merge_fresh_history `{!MergeFresh R} l h s log tr : Forall inv l -> mergeable l ->
    run h (merge R l) [] [] = Ok (s, log, tr) ->
    exists s', run h (dflt R) [] [] = Ok (s', log, tr) /\ sim s s'.
  Proof.
    intros Hl Hm Hr.
    destruct (@run_sim h (merge R l) (dflt R) [] [] s log tr (merge_inv Hl Hm) inv_dflt (@merge_fresh R _ _ l Hl) Hr)
      as (t' & Hq & Hs & _). eauto.
  Qed.
End History.
