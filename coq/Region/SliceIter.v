(** [ReadSliceIter] / [ReadSliceIterInner] as the state machines they are (a range over the region, or a
    slice iterator over an owned vector), with the [size_hint] they report (exact: the length of the
    underlying range / slice -- D10 was the default hint [(0, None)] under an [ExactSizeIterator] impl).

    [ri_run] drains an iterator, recording the hint reported BEFORE every [next]; the theorem says that
    for a well-formed slice read item the items produced are exactly [rs_iter]'s (the list every other
    accessor of C13 is specified against) and the hints count down len, len-1, .., 1, and 0 once
    exhausted: [ExactSizeIterator::len] is the number of items left at every step. *)
From FC Require Import Base.Res Index.IC Region.Region Region.Slice Region.Items Region.ItemsOk.
From Coq Require Import Lia.
Set Implicit Arguments.

Section SliceIter.
  Variable R : Region.
  Variable O : IC (idx R).
  Variable I : Items R.
  Local Notation SR := (slice R O).

  Inductive rsit :=
  | RI_region (s : st SR) (a b : nat)        (* ReadSliceIterInner(region, start..end) *)
  | RI_owned (l : list (val R)).             (* std::slice::Iter over the owned items *)

  Definition rs_into_iter (x : rslice R O) : rsit :=
    match x with RS_region s a b => RI_region s a b | RS_owned l => RI_owned l end.

  (** both halves of [size_hint] (lower = upper): [Range::size_hint] / [slice::Iter::size_hint] *)
  Definition ri_size_hint (it : rsit) : nat :=
    match it with RI_region _ a b => b - a | RI_owned l => length l end.

  Definition ri_next (it : rsit) : res (option (item I * rsit)) :=
    match it with
    | RI_region s a b =>
        if a <? b then
          let* i := ic_index O (fst s) a in
          let* x := index I (snd s) i in Ok (Some (x, RI_region s (S a) b))
        else Ok None
    | RI_owned [] => Ok None
    | RI_owned (v :: l) => Ok (Some (borrow I v, RI_owned l))
    end.

  (** drain with fuel: (hint before each successful next, item), and the hint when next returned None
      (or when the fuel ran out) *)
  Fixpoint ri_run (fuel : nat) (it : rsit) : res (list (nat * item I) * nat) :=
    match fuel with
    | 0 => Ok ([], ri_size_hint it)
    | S f =>
        let* r := ri_next it in
        match r with
        | None => Ok ([], ri_size_hint it)
        | Some (x, it') => let* '(l, h) := ri_run f it' in Ok ((ri_size_hint it, x) :: l, h)
        end
    end.

  Definition countdown (n : nat) : list nat := rev (seq 1 n).
  Lemma countdown_S n : countdown (S n) = S n :: countdown n.
  Proof. unfold countdown. rewrite seq_S, rev_app_distr. reflexivity. Qed.

  Lemma ri_run_region s : forall n a b xs, b = a + n -> rs_iter_region I s a n = Ok xs ->
    ri_run (S n) (RI_region s a b) = Ok (combine (countdown n) xs, 0).
  Proof.
    induction n as [|n IH]; intros a b xs Hb Hit.
    - cbn [rs_iter_region] in Hit. inversion Hit; subst xs. cbn [ri_run ri_next].
      replace (a <? b) with false by (symmetry; apply Nat.ltb_ge; lia).
      cbn [bind ri_size_hint]. replace (b - a) with 0 by lia. reflexivity.
    - cbn [rs_iter_region] in Hit.
      change (ri_run (S (S n)) (RI_region s a b)) with
        (let* r := ri_next (RI_region s a b) in
         match r with
         | None => Ok ([], ri_size_hint (RI_region s a b))
         | Some (x, it') => let* '(l, h) := ri_run (S n) it' in Ok ((ri_size_hint (RI_region s a b), x) :: l, h)
         end).
      cbn [ri_next]. replace (a <? b) with true by (symmetry; apply Nat.ltb_lt; lia).
      destruct (ic_index O (fst s) a) as [i|]; cbn [bind] in *; [|discriminate].
      destruct (index I (snd s) i) as [x|]; cbn [bind] in *; [|discriminate].
      destruct (rs_iter_region I s (S a) n) as [xs'|] eqn:Er; cbn [bind] in Hit; [|discriminate].
      inversion Hit; subst xs. rewrite (IH (S a) b xs' ltac:(lia) Er). cbn [bind ri_size_hint].
      rewrite countdown_S. cbn [combine]. replace (b - a) with (S n) by lia. reflexivity.
  Qed.

  Lemma ri_run_owned : forall l,
    ri_run (S (length l)) (RI_owned l) = Ok (combine (countdown (length l)) (map (borrow I) l), 0).
  Proof.
    induction l as [|v l IH].
    - reflexivity.
    - change (ri_run (S (length (v :: l))) (RI_owned (v :: l))) with
        (let* '(l', h) := ri_run (S (length l)) (RI_owned l) in Ok ((ri_size_hint (RI_owned (v :: l)), borrow I v) :: l', h)).
      rewrite IH. cbn [bind ri_size_hint length map]. rewrite countdown_S. reflexivity.
  Qed.
End SliceIter.

Section SliceIterOK.
  Variable R : Region.
  Context `{RegionOK R}.
  Variable O : IC (idx R).
  Context `{ICOk _ O}.
  Variable I : Items R.
  Context {IS : ISpec I} `{!ItemsOK R I}.

  (** C13 (iteration, D10): the iterator of a well-formed slice read item yields exactly the items all
      other accessors are specified against, and reports the exact number of items left before every
      [next] -- len, len-1, .., 1 -- and 0 when it is exhausted. *)
  Theorem rs_iterator_exact (x : rslice R O) : rs_wf x ->
    exists xs, rs_iter I x = Ok xs /\
      rs_len x = Ok (length xs) /\
      ri_run I (S (length xs)) (rs_into_iter x) = Ok (combine (countdown (length xs)) xs, 0).
  Proof.
    intros Hwf. destruct (@rs_accessors R _ _ O _ I IS _ x Hwf) as (xs & vs & Hit & Hd & _ & Hlen & _).
    exists xs. split; [exact Hit|].
    pose proof (denote_length Hd) as Hl.
    split; [rewrite Hl; exact Hlen|].
    destruct x as [s a b|l]; cbn [rs_into_iter rs_iter rs_wf] in *.
    - destruct Hwf as (_ & Hab & _).
      assert (Hn : length xs = b - a).
      { cbn [rs_len] in Hlen. destruct (b <? a) eqn:E; [discriminate|]. inversion Hlen. lia. }
      rewrite Hn. apply ri_run_region; [lia|exact Hit].
    - inversion Hit; subst xs. rewrite map_length. apply ri_run_owned.
  Qed.
End SliceIterOK.
