(** Equality and ordering of read items (C15): [PartialEq] / [Ord] of [ReadSlice] are
    [Iterator::eq] / [Iterator::cmp] over the items, i.e. lexicographic comparison of read items
    in whatever representation each side is in.  The law: comparing two well-formed items gives
    the comparison of the values they denote. *)
From FC Require Import Base.Res Index.IC Region.Region Region.Owned Region.Simple Region.Slice
  Region.Collapse Region.Consec Region.Items Region.ItemsOk.
Set Implicit Arguments.

Section Lex.
  Variable A : Type.
  Variable cmp : A -> A -> comparison.
  Fixpoint lex_cmp (l m : list A) : comparison :=
    match l, m with
    | [], [] => Eq
    | [], _ :: _ => Lt
    | _ :: _, [] => Gt
    | x :: l', y :: m' => match cmp x y with Eq => lex_cmp l' m' | c => c end
    end.
End Lex.

(** a total order given by a three-way comparison *)
Class TotalCmp A (cmp : A -> A -> comparison) : Prop := {
  cmp_eq_iff : forall x y, cmp x y = Eq <-> x = y;
  cmp_antisym : forall x y, cmp y x = CompOpp (cmp x y);
  cmp_trans : forall x y z, cmp x y = Lt -> cmp y z = Lt -> cmp x z = Lt;
}.

Lemma cmp_refl A cmp `{TotalCmp A cmp} x : cmp x x = Eq.
Proof. apply cmp_eq_iff. reflexivity. Qed.

#[export] Instance lex_total A cmp `{TotalCmp A cmp} : TotalCmp (lex_cmp cmp).
Proof.
  constructor.
  - induction x as [|a x IH]; intros [|b y]; cbn; split; try discriminate; try reflexivity.
    + destruct (cmp a b) eqn:E; try discriminate. intros Hl. apply cmp_eq_iff in E. apply IH in Hl. congruence.
    + intros Heq. inversion Heq; subst. rewrite (cmp_refl b). apply IH. reflexivity.
  - induction x as [|a x IH]; intros [|b y]; cbn; try reflexivity.
    rewrite (cmp_antisym a b). destruct (cmp a b); cbn; auto.
  - induction x as [|a x IH]; intros [|b y] [|c z]; cbn; try discriminate; try reflexivity.
    destruct (cmp a b) eqn:E1; try discriminate.
    + apply cmp_eq_iff in E1. subst b. destruct (cmp a c); try discriminate; auto. apply IH.
    + intros _. destruct (cmp b c) eqn:E2; try discriminate.
      * apply cmp_eq_iff in E2. subst c. rewrite E1. reflexivity.
      * intros _. rewrite (cmp_trans a b c E1 E2). reflexivity.
Qed.

(** * item comparison *)
Record ItemOrd (R : Region) (I : Items R) := {
  icmp : item I -> item I -> res comparison;      (* Ord::cmp (= partial_cmp for these types) *)
  vcmp : val R -> val R -> comparison;            (* the order of the owned values *)
}.
Class ItemOrdOK (R : Region) {SP : RSpec R} (I : Items R) {IS : ISpec I} (C : ItemOrd I) : Prop := {
  icmp_ok : forall x y v w, iwf x -> iwf y -> own I x = Ok v -> own I y = Ok w ->
     icmp C x y = Ok (vcmp C v w);
  vcmp_total : TotalCmp (vcmp C);
}.
Arguments ItemOrdOK R {SP} I {IS} C.

(** leaves: slices of elements with a total order compare lexicographically *)
Definition owned_ord T (ecmp : T -> T -> comparison) : ItemOrd (owned_items T) :=
  @Build_ItemOrd (owned T) (owned_items T) (fun x y : list T => Ok (lex_cmp ecmp x y)) (lex_cmp ecmp).
#[export] Instance owned_ord_ok T ecmp `{TotalCmp T ecmp} : ItemOrdOK (owned T) (owned_items T) (owned_ord ecmp).
Proof.
  constructor; [|cbn; apply (@lex_total _ _ _)].
  intros x y v w _ _ Hx Hy. cbn in *. inversion Hx; inversion Hy; subst. reflexivity.
Qed.
Definition mirror_ord T (ecmp : T -> T -> comparison) : ItemOrd (mirror_items T) :=
  @Build_ItemOrd (mirror T) (mirror_items T) (fun x y : T => Ok (ecmp x y)) ecmp.
#[export] Instance mirror_ord_ok T ecmp `{TotalCmp T ecmp} : ItemOrdOK (mirror T) (mirror_items T) (mirror_ord ecmp).
Proof.
  constructor; [|cbn; assumption].
  intros x y v w _ _ Hx Hy. cbn in *. inversion Hx; inversion Hy; subst. reflexivity.
Qed.
Definition vec_region_ord T (ecmp : T -> T -> comparison) : ItemOrd (vec_region_items T) :=
  @Build_ItemOrd (vec_region T) (vec_region_items T) (fun x y : T => Ok (ecmp x y)) ecmp.
#[export] Instance vec_region_ord_ok T ecmp `{TotalCmp T ecmp} :
  ItemOrdOK (vec_region T) (vec_region_items T) (vec_region_ord ecmp).
Proof.
  constructor; [|cbn; assumption].
  intros x y v w _ _ Hx Hy. cbn in *. inversion Hx; inversion Hy; subst. reflexivity.
Qed.

(** wrappers that keep the inner region's items *)
Definition string_ord R (I : Items R) (C : ItemOrd I) : ItemOrd (string_items I) :=
  @Build_ItemOrd (string_region R) (string_items I) (icmp C) (vcmp C).
#[export] Instance string_ord_ok R wf `{RSpec R} (I : Items R) {IS : ISpec I} (C : ItemOrd I) `{!ItemOrdOK R I C} :
  @ItemOrdOK (string_region R) (@string_spec R wf _) (string_items I) _ (string_ord C).
Proof. constructor; cbn; [apply (@icmp_ok R _ I _ C _)|apply (@vcmp_total R _ I _ C _)]. Qed.
Definition collapse_ord R veq (I : Items R) (C : ItemOrd I) : ItemOrd (collapse_items veq I) :=
  @Build_ItemOrd (collapse R veq) (collapse_items veq I) (icmp C) (vcmp C).
#[export] Instance collapse_ord_ok R veq `{RSpec R} (I : Items R) {IS : ISpec I} (C : ItemOrd I) `{!ItemOrdOK R I C} :
  ItemOrdOK (collapse R veq) (collapse_items veq I) (collapse_ord veq C).
Proof. constructor; cbn; [apply (@icmp_ok R _ I _ C _)|apply (@vcmp_total R _ I _ C _)]. Qed.
Definition consec_ord R {PI : PairIdx R} (O : IC nat) chk (I : Items R) (C : ItemOrd I) : ItemOrd (consec_items O chk I) :=
  @Build_ItemOrd (consec R O chk) (consec_items O chk I) (icmp C) (vcmp C).

(** Option: None < Some; Result: Ok < Err; tuples: lexicographic (the derived orders) *)
Definition opt_cmp {A} (c : A -> A -> comparison) (x y : option A) : comparison :=
  match x, y with None, None => Eq | None, Some _ => Lt | Some _, None => Gt | Some a, Some b => c a b end.
Definition option_ord R (I : Items R) (C : ItemOrd I) : ItemOrd (option_items I) :=
  @Build_ItemOrd (option_region R) (option_items I)
    (fun x y : option (item I) =>
       match x, y with
       | None, None => Ok Eq | None, Some _ => Ok Lt | Some _, None => Ok Gt
       | Some a, Some b => icmp C a b
       end)
    (opt_cmp (vcmp C)).
#[export] Instance opt_cmp_total A c `{TotalCmp A c} : TotalCmp (opt_cmp c).
Proof.
  constructor.
  - intros [x|] [y|]; cbn; split; try discriminate; try reflexivity.
    + intros E. apply cmp_eq_iff in E. congruence.
    + intros E. inversion E; subst. apply cmp_eq_iff. reflexivity.
  - intros [x|] [y|]; cbn; try reflexivity. apply cmp_antisym.
  - intros [x|] [y|] [z|]; cbn; try discriminate; try reflexivity. apply cmp_trans.
Qed.
#[export] Instance option_ord_ok R `{RSpec R} (I : Items R) {IS : ISpec I} (C : ItemOrd I) `{!ItemsOK R I} `{!ItemOrdOK R I C} :
  ItemOrdOK (option_region R) (option_items I) (option_ord C).
Proof.
  constructor; [|cbn; apply (@opt_cmp_total _ _ (@vcmp_total R _ I _ C _))].
  intros [x|] [y|] v w Hx Hy Ox Oy; cbn in *.
  - destruct (own I x) as [a|] eqn:Ea; cbn in Ox; [|discriminate].
    destruct (own I y) as [b|] eqn:Eb; cbn in Oy; [|discriminate]. inversion Ox; inversion Oy; subst.
    cbn. apply (@icmp_ok R _ I _ C _ x y a b Hx Hy Ea Eb).
  - destruct (own I x) as [a|]; cbn in Ox; [|discriminate]. inversion Ox; inversion Oy; subst. reflexivity.
  - destruct (own I y) as [b|]; cbn in Oy; [|discriminate]. inversion Ox; inversion Oy; subst. reflexivity.
  - inversion Ox; inversion Oy; subst. reflexivity.
Qed.

Definition sum_cmp {A B} (ca : A -> A -> comparison) (cb : B -> B -> comparison) (x y : A + B) : comparison :=
  match x, y with inl a, inl b => ca a b | inl _, inr _ => Lt | inr _, inl _ => Gt | inr a, inr b => cb a b end.
#[export] Instance sum_cmp_total A B ca cb `{TotalCmp A ca} `{TotalCmp B cb} : TotalCmp (sum_cmp ca cb).
Proof.
  constructor.
  - intros [x|x] [y|y]; cbn; split; try discriminate; try reflexivity; intros E.
    + apply cmp_eq_iff in E. congruence.
    + inversion E; subst. apply cmp_eq_iff. reflexivity.
    + apply cmp_eq_iff in E. congruence.
    + inversion E; subst. apply cmp_eq_iff. reflexivity.
  - intros [x|x] [y|y]; cbn; try reflexivity; apply cmp_antisym.
  - intros [x|x] [y|y] [z|z]; cbn; try discriminate; try reflexivity; apply cmp_trans.
Qed.
Definition result_ord A B (IA : Items A) (IB : Items B) (CA : ItemOrd IA) (CB : ItemOrd IB) : ItemOrd (result_items IA IB) :=
  @Build_ItemOrd (result_region A B) (result_items IA IB)
    (fun x y : item IA + item IB =>
       match x, y with
       | inl a, inl b => icmp CA a b | inl _, inr _ => Ok Lt | inr _, inl _ => Ok Gt | inr a, inr b => icmp CB a b
       end)
    (sum_cmp (vcmp CA) (vcmp CB)).
#[export] Instance result_ord_ok A B `{RSpec A} `{RSpec B} (IA : Items A) (IB : Items B) {SA : ISpec IA} {SB : ISpec IB}
  (CA : ItemOrd IA) (CB : ItemOrd IB) `{!ItemOrdOK A IA CA} `{!ItemOrdOK B IB CB} :
  ItemOrdOK (result_region A B) (result_items IA IB) (result_ord CA CB).
Proof.
  constructor; [|cbn; apply (@sum_cmp_total _ _ _ _ (@vcmp_total A _ IA _ CA _) (@vcmp_total B _ IB _ CB _))].
  intros [x|x] [y|y] v w Hx Hy Ox Oy; cbn in *.
  - destruct (own IA x) as [a|] eqn:Ea; cbn in Ox; [|discriminate].
    destruct (own IA y) as [b|] eqn:Eb; cbn in Oy; [|discriminate]. inversion Ox; inversion Oy; subst.
    cbn. apply (@icmp_ok A _ IA _ CA _ x y a b Hx Hy Ea Eb).
  - destruct (own IA x) as [a|]; cbn in Ox; [|discriminate].
    destruct (own IB y) as [b|]; cbn in Oy; [|discriminate]. inversion Ox; inversion Oy; subst. reflexivity.
  - destruct (own IB x) as [a|]; cbn in Ox; [|discriminate].
    destruct (own IA y) as [b|]; cbn in Oy; [|discriminate]. inversion Ox; inversion Oy; subst. reflexivity.
  - destruct (own IB x) as [a|] eqn:Ea; cbn in Ox; [|discriminate].
    destruct (own IB y) as [b|] eqn:Eb; cbn in Oy; [|discriminate]. inversion Ox; inversion Oy; subst.
    cbn. apply (@icmp_ok B _ IB _ CB _ x y a b Hx Hy Ea Eb).
Qed.

Definition pair_cmp {A B} (ca : A -> A -> comparison) (cb : B -> B -> comparison) (x y : A * B) : comparison :=
  match ca (fst x) (fst y) with Eq => cb (snd x) (snd y) | c => c end.
#[export] Instance pair_cmp_total A B ca cb `{TotalCmp A ca} `{TotalCmp B cb} : TotalCmp (pair_cmp ca cb).
Proof.
  constructor; unfold pair_cmp.
  - intros [a b] [c d]; cbn; split.
    + destruct (ca a c) eqn:E; try discriminate. intros E2. apply cmp_eq_iff in E, E2. congruence.
    + intros E. inversion E; subst. rewrite (cmp_refl c). apply cmp_eq_iff. reflexivity.
  - intros [a b] [c d]; cbn. rewrite (cmp_antisym a c). destruct (ca a c); cbn; auto. apply cmp_antisym.
  - intros [a b] [c d] [e f]; cbn.
    destruct (ca a c) eqn:E1; try discriminate.
    + apply cmp_eq_iff in E1. subst c. destruct (ca a e); try discriminate; auto. apply cmp_trans.
    + intros _. destruct (ca c e) eqn:E2; try discriminate.
      * apply cmp_eq_iff in E2. subst e. rewrite E1. reflexivity.
      * intros _. rewrite (cmp_trans a c e E1 E2). reflexivity.
Qed.
Definition tuple2_ord A B (IA : Items A) (IB : Items B) (CA : ItemOrd IA) (CB : ItemOrd IB) : ItemOrd (tuple2_items IA IB) :=
  @Build_ItemOrd (tuple2 A B) (tuple2_items IA IB)
    (fun x y : item IA * item IB =>
       let* c := icmp CA (fst x) (fst y) in
       match c with Eq => icmp CB (snd x) (snd y) | _ => Ok c end)
    (pair_cmp (vcmp CA) (vcmp CB)).
#[export] Instance tuple2_ord_ok A B `{RSpec A} `{RSpec B} (IA : Items A) (IB : Items B) {SA : ISpec IA} {SB : ISpec IB}
  (CA : ItemOrd IA) (CB : ItemOrd IB) `{!ItemOrdOK A IA CA} `{!ItemOrdOK B IB CB} :
  ItemOrdOK (tuple2 A B) (tuple2_items IA IB) (tuple2_ord CA CB).
Proof.
  constructor; [|cbn; apply (@pair_cmp_total _ _ _ _ (@vcmp_total A _ IA _ CA _) (@vcmp_total B _ IB _ CB _))].
  intros [x1 x2] [y1 y2] v w [Hx1 Hx2] [Hy1 Hy2] Ox Oy; cbn in *.
  destruct (own IA x1) as [a1|] eqn:E1; cbn in Ox; [|discriminate].
  destruct (own IB x2) as [a2|] eqn:E2; cbn in Ox; [|discriminate].
  destruct (own IA y1) as [b1|] eqn:E3; cbn in Oy; [|discriminate].
  destruct (own IB y2) as [b2|] eqn:E4; cbn in Oy; [|discriminate]. inversion Ox; inversion Oy; subst.
  rewrite (@icmp_ok A _ IA _ CA _ x1 y1 a1 b1 Hx1 Hy1 E1 E3). cbn [bind]. unfold pair_cmp. cbn [fst snd].
  destruct (vcmp CA a1 b1); try reflexivity.
  apply (@icmp_ok B _ IB _ CB _ x2 y2 a2 b2 Hx2 Hy2 E2 E4).
Qed.

(** * ReadSlice: Iterator::cmp over the two item sequences, whatever their representations *)
Section SliceOrd.
  Variable R : Region.
  Variable O : IC (idx R).
  Variable I : Items R.
  Variable C : ItemOrd I.
  Fixpoint lex_icmp (xs ys : list (item I)) : res comparison :=
    match xs, ys with
    | [], [] => Ok Eq
    | [], _ :: _ => Ok Lt
    | _ :: _, [] => Ok Gt
    | x :: xs', y :: ys' => let* c := icmp C x y in match c with Eq => lex_icmp xs' ys' | _ => Ok c end
    end.
  Definition rs_cmp (x y : rslice R O) : res comparison :=
    let* xs := rs_iter I x in let* ys := rs_iter I y in lex_icmp xs ys.
  Definition slice_ord : ItemOrd (slice_items O I) :=
    @Build_ItemOrd (slice R O) (slice_items O I) rs_cmp (lex_cmp (vcmp C)).
End SliceOrd.

Section SliceOrdOK.
  Variable R : Region.
  Context `{RegionOK R}.
  Variable O : IC (idx R).
  Context `{ICOk _ O}.
  Variable I : Items R.
  Context {IS : ISpec I} `{!ItemsOK R I}.
  Variable C : ItemOrd I.
  Context `{!ItemOrdOK R I C}.

  Lemma lex_icmp_spec xs vs : denote xs vs -> forall ys ws, denote ys ws ->
    lex_icmp C xs ys = Ok (lex_cmp (vcmp C) vs ws).
  Proof.
    induction 1 as [|x v xs vs [Hwx Hox] _ IH]; intros ys ws Hd; destruct Hd as [|y w ys ws [Hwy Hoy] Hd']; cbn; try reflexivity.
    rewrite (@icmp_ok R _ I _ C _ x y v w Hwx Hwy Hox Hoy). cbn [bind].
    destruct (vcmp C v w); try reflexivity. apply IH. exact Hd'.
  Qed.

  (** C15: comparing two slice items -- region-backed or owned-borrowed, from the same or from
      different regions -- is the lexicographic comparison of their owned values *)
  #[export] Instance slice_ord_ok : ItemOrdOK (slice R O) (slice_items O I) (slice_ord O C).
  Proof.
    constructor; [|cbn; apply (@lex_total _ _ (@vcmp_total R _ I _ C _))].
    intros x y v w Hx Hy Ox Oy.
    destruct (@rs_accessors R _ _ O _ I _ _ x Hx) as (xs & vs & Hix & Hdx & Hox & _).
    destruct (@rs_accessors R _ _ O _ I _ _ y Hy) as (ys & ws & Hiy & Hdy & Hoy & _).
    rewrite Ox in Hox. rewrite Oy in Hoy. inversion Hox; inversion Hoy; subst.
    cbn [icmp vcmp slice_ord]. unfold rs_cmp. rewrite Hix, Hiy. cbn [bind].
    apply (lex_icmp_spec Hdx Hdy).
  Qed.
End SliceOrdOK.

(** natural numbers (machine words) and unit *)
#[export] Instance N_cmp_total : TotalCmp N.compare.
Proof.
  constructor.
  - intros x y. apply N.compare_eq_iff.
  - intros x y. apply N.compare_antisym.
  - intros x y z. rewrite !N.compare_lt_iff. lia.
Qed.
#[export] Instance unit_cmp_total : TotalCmp (fun _ _ : unit => Eq).
Proof. constructor; [intros [] []; tauto|reflexivity|discriminate]. Qed.
