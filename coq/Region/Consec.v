(** [ConsecutiveIndexPairs<R, O>]: stores only the end offset of each inner (start, end) index and
    hands out 0, 1, 2, ...  It relies on the inner region returning dense pairs; [Dense] states
    that requirement.  [CollapseSequence] does not meet it (known finding D8). *)
From FC Require Import Base.Res Index.IC Region.Region Region.Owned.
Set Implicit Arguments.

(** The iso between the inner index type and pairs of offsets is data ([PairIdx]); that the inner
    region really hands out dense pairs is a law ([Dense]). [consec] only needs the data, so the
    composition over a collapsing region can be written down (and its failure exhibited). *)
Class PairIdx (R : Region) := {
  to_pair : idx R -> nat * nat;
  of_pair : nat * nat -> idx R;
}.
Arguments to_pair {R _}. Arguments of_pair {R _}.

Class Dense (R : Region) (SP : RSpec R) (PI : PairIdx R) := {
  extent : st R -> nat;
  of_to : forall i, of_pair (to_pair i) = i;
  extent_dflt : extent (dflt R) = 0;
  extent_clear : forall s, extent (clear R s) = 0;
  extent_merge : forall l, extent (merge R l) = 0;
  extent_sim : forall s t, sim s t -> extent s = extent t;
  dense_push : forall s v s' i, inv s -> push R s v = Ok (s', i) -> to_pair i = (extent s, extent s');
}.
Arguments Dense R {SP PI}.
Arguments extent {R SP PI _}.

Section Consec.
  Variable R : Region.
  Context {PI : PairIdx R}.
  Variable O : IC nat.
  (** [chk]: debug assertions enabled (the [debug_assert_eq!] in [push]). *)
  Variable chk : bool.

  (** state: inner region, offsets (always starting with 0), most recent end *)
  Definition consec : Region := {|
    val := val R; idx := nat; st := st R * ic_st O * nat;
    dflt := (dflt R, ic_push O (ic_default O) 0, 0);
    push := fun x v =>
      let '(s, o, last) := x in
      let* '(s', i) := push R s v in
      let p := to_pair i in
      if chk && negb (fst p =? last) then Panic
      else let o' := ic_push O o (snd p) in Ok ((s', o', snd p), ic_len O o' - 2);
    read := fun x k =>
      let '(s, o, _) := x in
      let* a := ic_index O o k in
      let* b := ic_index O o (S k) in
      read R s (of_pair (a, b));
    clear := fun x => let '(s, o, _) := x in (clear R s, ic_push O (ic_clear O o) 0, 0);
    merge := fun l => (merge R (map (fun x => fst (fst x)) l), ic_push O (ic_default O) 0, 0);
  |}.
End Consec.
Arguments consec R {PI} O chk.

#[export] Instance owned_pair T : PairIdx (owned T) :=
  @Build_PairIdx (owned T) (fun i : nat * nat => i) (fun i : nat * nat => i).
#[export] Instance owned_dense T : Dense (owned T).
Proof.
  refine (@Build_Dense (owned T) _ _ (@length T) _ _ _ _ _ _); simpl; auto.
  - intros s t ->. reflexivity.
  - intros s v s' i _ H. inversion H; subst. rewrite app_length. reflexivity.
Defined.

#[export] Instance consec_spec R `{Dense R} (O : IC nat) `{ICOk _ O} chk : RSpec (consec R O chk) :=
  @Build_RSpec (consec R O chk)
    (fun x : st R * ic_st O * nat =>
       let s := fst (fst x) in let o := snd (fst x) in
       inv s /\ ic_inv o /\ snd x = extent s /\
       exists offs, ic_abs o = 0 :: offs /\ last (0 :: offs) 0 = extent s /\
         forall k a b, nth_error (0 :: offs) k = Some a -> nth_error (0 :: offs) (S k) = Some b ->
                       valid s (of_pair (a, b)))
    (fun (x : st R * ic_st O * nat) (k : nat) => S k < length (ic_abs (snd (fst x))))
    (fun (x : st R * ic_st O * nat) (v : val R) => dom (fst (fst x)) v)
    (fun x y : st R * ic_st O * nat =>
       sim (fst (fst x)) (fst (fst y)) /\ ic_abs (snd (fst x)) = ic_abs (snd (fst y)) /\ snd x = snd y)
    (fun l : list (st R * ic_st O * nat) => mergeable (map (fun x => fst (fst x)) l)).

Lemma nth_snoc {A} (l : list A) x k :
  nth_error (l ++ [x]) k = if k <? length l then nth_error l k else if k =? length l then Some x else None.
Proof.
  destruct (Nat.ltb_spec k (length l)).
  - apply nth_error_app1; assumption.
  - rewrite nth_error_app2 by assumption.
    destruct (Nat.eqb_spec k (length l)).
    + subst. rewrite Nat.sub_diag. reflexivity.
    + destruct (k - length l) eqn:E; [lia|]. simpl. destruct n0; reflexivity.
Qed.

(** C12 for the wrapper: the k-th push since creation / merge / clear returns k. *)
Lemma consec_push_index R `{RegionOK R} {PI : PairIdx R} `{!Dense R} (O : IC nat) `{ICOk _ O} chk x v x' k :
  inv x -> push (consec R O chk) x v = Ok (x', k) -> S k = length (ic_abs (snd (fst x))).
Proof.
  destruct x as [[s o] lst]. intros (Hs & Ho & Hlst & offs & Hoffs & _).
  cbn [fst snd push consec] in *.
  destruct (push R s v) as [[s1 i]|] eqn:Ep; cbn [bind]; [|discriminate].
  destruct (chk && negb (fst (to_pair i) =? lst)); [discriminate|].
  intros Hq; inversion Hq; subst.
  rewrite abs_len, abs_push by (try apply inv_push; assumption).
  rewrite app_length. simpl. rewrite Hoffs. simpl. lia.
Qed.

#[export] Instance consec_ok R `{RegionOK R} {PI : PairIdx R} `{!Dense R} (O : IC nat) `{ICOk _ O} chk : RegionOK (consec R O chk).
Proof.
  constructor.
  - cbn. split; [apply inv_dflt|]. split; [apply inv_push, inv_default|]. split; [symmetry; apply extent_dflt|].
    exists []. rewrite abs_push, abs_default by apply inv_default. cbn.
    split; [reflexivity|]. split; [symmetry; apply extent_dflt|].
    intros k a b Ha Hb. destruct k; cbn in *; [discriminate|destruct k; discriminate].
  - (* push_safe *)
    intros [[s o] lst] v [[s' o'] lst'] k (Hs & Ho & Hlst & offs & Hoffs & Hlast & Hall).
    cbn [fst snd push consec] in *.
    destruct (push R s v) as [[s1 i]|] eqn:Ep; cbn [bind]; [|discriminate].
    pose proof (@dense_push R _ _ _ s v s1 i Hs Ep) as Hd.
    destruct (chk && negb (fst (to_pair i) =? lst)); [discriminate|].
    intros Hq; inversion Hq; subst. clear Hq.
    destruct (push_safe s v Hs Ep) as (Hi1 & Hv1 & Hf1 & Hd1).
    rewrite Hd in *. cbn [fst snd] in *.
    assert (Ho' : ic_abs (ic_push O o (extent s')) = (0 :: offs) ++ [extent s']).
    { rewrite abs_push, Hoffs by assumption. reflexivity. }
    assert (Hlastnth : nth_error (0 :: offs) (length offs) = Some (extent s)).
    { rewrite <- Hlast. apply nth_error_last. }
    split; [|split; [|split]].
    + cbn [inv consec_spec fst snd].
      split; [assumption|]. split; [apply inv_push; assumption|]. split; [reflexivity|].
      exists (offs ++ [extent s']). split; [exact Ho'|]. split.
      * change (last ((0 :: offs) ++ [extent s']) 0 = extent s'). apply last_last.
      * intros k a b Ha Hb.
        change (0 :: offs ++ [extent s']) with ((0 :: offs) ++ [extent s']) in Ha, Hb.
        rewrite nth_snoc in Ha, Hb.
        destruct (Nat.ltb_spec (S k) (length (0 :: offs))).
        -- destruct (Nat.ltb_spec k (length (0 :: offs))); [|lia].
           apply Hf1. eapply Hall; eauto.
        -- destruct (Nat.eqb_spec (S k) (length (0 :: offs))); [|discriminate].
           destruct (Nat.ltb_spec k (length (0 :: offs))); [|lia].
           inversion Hb; subst b.
           assert (k = length offs) by (simpl in *; lia). subst k.
           rewrite Hlastnth in Ha. inversion Ha; subst a.
           rewrite <- Hd, of_to. assumption.
    + cbn [valid consec_spec fst snd]. rewrite abs_len, Ho' by (apply inv_push; assumption).
      rewrite app_length. simpl. lia.
    + intros j Hj. cbn [valid consec_spec fst snd read consec] in *. rewrite Hoffs in Hj. rewrite Ho'.
      split; [rewrite app_length; simpl in *; lia|].
      rewrite !abs_index, Ho', Hoffs, !nth_snoc by (try apply inv_push; assumption).
      destruct (Nat.ltb_spec j (length (0 :: offs))); [|simpl in *; lia].
      destruct (Nat.ltb_spec (S j) (length (0 :: offs))); [|simpl in *; lia].
      destruct (nth_error (0 :: offs) j) as [a|] eqn:Ea; [|reflexivity].
      destruct (nth_error (0 :: offs) (S j)) as [b|] eqn:Eb; [|reflexivity].
      cbn [bind]. apply Hf1. eapply Hall; eauto.
    + intros w. cbn [dom consec_spec fst snd]. apply Hd1.
  - (* push_ok *)
    intros [[s o] lst] v (Hs & Ho & Hlst & offs & Hoffs & Hlast & Hall) Hdom.
    cbn [fst snd dom consec_spec push consec] in *.
    destruct (push_ok s v Hs Hdom) as (s1 & i & Hp & Hr1). rewrite Hp. cbn [bind].
    pose proof (@dense_push R _ _ _ s v s1 i Hs Hp) as Hd. rewrite Hd. cbn [fst snd].
    rewrite Hlst, Nat.eqb_refl, andb_false_r.
    eexists _, _. split; [reflexivity|]. cbn [read consec].
    assert (Ho' : ic_abs (ic_push O o (extent s1)) = (0 :: offs) ++ [extent s1]).
    { rewrite abs_push, Hoffs by assumption. reflexivity. }
    assert (Hlastnth : nth_error (0 :: offs) (length offs) = Some (extent s)).
    { rewrite <- Hlast. apply nth_error_last. }
    rewrite abs_len, Ho' by (apply inv_push; assumption). rewrite app_length. simpl length.
    replace (S (length offs) + 1 - 2) with (length offs) by lia.
    rewrite !abs_index, Ho', !nth_snoc by (apply inv_push; assumption).
    destruct (Nat.ltb_spec (length offs) (length (0 :: offs))); [|simpl in *; lia].
    rewrite Hlastnth. cbn [bind].
    destruct (Nat.ltb_spec (S (length offs)) (length (0 :: offs))); [simpl in *; lia|].
    destruct (Nat.eqb_spec (S (length offs)) (length (0 :: offs))); [|simpl in *; lia].
    cbn [bind]. rewrite <- Hd, of_to. assumption.
  - intros [[s o] lst] k (Hs & Ho & Hlst & offs & Hoffs & Hlast & Hall) Hk.
    cbn [fst snd valid consec_spec read consec] in *.
    rewrite !abs_index by assumption.
    destruct (nth_error (ic_abs o) k) as [a|] eqn:Ea; [|apply nth_error_None in Ea; lia].
    destruct (nth_error (ic_abs o) (S k)) as [b|] eqn:Eb; [|apply nth_error_None in Eb; lia].
    cbn [bind]. apply (@valid_reads R _ _); [assumption|]. rewrite Hoffs in *. eapply Hall; eauto.
  - intros [[s o] lst] (Hs & Ho & Hlst & offs & Hoffs & Hlast & Hall).
    cbn [fst snd inv sim consec_spec clear consec dflt] in *. split.
    + split; [apply clear_ok; assumption|]. split; [apply inv_push, inv_clear|].
      split; [symmetry; apply extent_clear|].
      exists []. rewrite abs_push, abs_clear by apply inv_clear. cbn.
      split; [reflexivity|]. split; [symmetry; apply extent_clear|].
      intros k a b Ha Hb. destruct k; cbn in *; [discriminate|destruct k; discriminate].
    + split; [apply clear_ok; assumption|]. split; [|reflexivity].
      rewrite !abs_push, abs_clear, abs_default by (apply inv_clear || apply inv_default). reflexivity.
  - intros l Hl Hm. cbn [inv consec_spec merge consec fst snd].
    split.
    { apply merge_inv; [|exact Hm]. rewrite Forall_forall in *. intros y Hy. apply in_map_iff in Hy.
      destruct Hy as (x & <- & Hx). apply (Hl x Hx). }
    split; [apply inv_push, inv_default|]. split; [symmetry; apply extent_merge|].
    exists []. rewrite abs_push, abs_default by apply inv_default. cbn.
    split; [reflexivity|]. split; [symmetry; apply extent_merge|].
    intros k a b Ha Hb. destruct k; cbn in *; [discriminate|destruct k; discriminate].
  - intros [[s o] lst]. cbn. split; [apply sim_refl|]. split; reflexivity.
  - intros [[s o] l1] [[t p] l2] (H3 & H4 & H5). cbn in *. split; [apply sim_sym; assumption|]. split; congruence.
  - intros [[s o] l1] [[t p] l2] [[u q] l3] (H3 & H4 & H5) (H6 & H7 & H8). cbn in *.
    split; [eapply sim_trans; eauto|]. split; congruence.
  - intros [[s o] l1] [[t p] l2] (H3 & _) w. cbn in *. apply (@sim_dom R _ _ s t H3 w).
  - (* sim_push *)
    intros [[s o] l1] [[t p] l2] v [[s' o'] l'] k (Hs & Ho & _) (Ht & Hp & _) (Hsim & Habs & Hl).
    cbn [fst snd sim consec_spec push consec] in *. subst l2.
    destruct (push R s v) as [[s1 i]|] eqn:Ep; cbn [bind]; [|discriminate].
    destruct (@sim_push R _ _ s t v s1 i Hs Ht Hsim Ep) as (t1 & Hq1 & Hs1).
    rewrite Hq1. cbn [bind].
    destruct (chk && negb (fst (to_pair i) =? l1)); [discriminate|].
    intros Hq; inversion Hq; subst. eexists. split.
    + rewrite !abs_len, !abs_push, Habs by (try apply inv_push; assumption). reflexivity.
    + cbn [fst snd]. split; [assumption|]. split; [|reflexivity].
      rewrite !abs_push, Habs by assumption. reflexivity.
  - intros [[s o] l1] [[t p] l2] k (Hs & Ho & Hlst & offs & Hoffs & Hlast & Hall) (Ht & Hp & _) (Hsim & Habs & Hl) Hk.
    cbn [fst snd valid sim consec_spec read consec] in *.
    split; [rewrite <- Habs; assumption|].
    rewrite !abs_index, <- Habs by assumption.
    destruct (nth_error (ic_abs o) k) as [a|] eqn:Ea; [|reflexivity].
    destruct (nth_error (ic_abs o) (S k)) as [b|] eqn:Eb; [|reflexivity].
    cbn [bind]. apply (@sim_read R _ _); auto. rewrite Hoffs in *. eapply Hall; eauto.
Qed.

(** Facts about the valid indices of a consecutive-pairs region that fan-out regions built on top
    of it (columns) need: a push makes exactly one new index valid, and fresh regions have none. *)
Lemma consec_valid_push R `{RegionOK R} {PI : PairIdx R} `{!Dense R} (O : IC nat) `{ICOk _ O} chk x v x' k :
  inv x -> push (consec R O chk) x v = Ok (x', k) ->
  forall j, valid x' j -> valid x j \/ j = k.
Proof.
  intros Hx Hp j Hj.
  pose proof (@consec_push_index R _ _ _ _ O _ chk x v x' k Hx Hp) as Hk.
  destruct x as [[s o] lst]. destruct Hx as (Hs & Ho & _).
  cbn [fst snd push consec valid consec_spec] in *.
  destruct (push R s v) as [[s1 i]|] eqn:Ep; cbn [bind] in Hp; [|discriminate].
  destruct (chk && negb (fst (to_pair i) =? lst)); [discriminate|].
  inversion Hp; subst. cbn [fst snd] in *.
  rewrite abs_push, app_length in Hj by assumption. simpl in Hj. lia.
Qed.

Lemma consec_no_valid_dflt R `{RegionOK R} {PI : PairIdx R} `{!Dense R} (O : IC nat) `{ICOk _ O} chk j :
  ~ valid (dflt (consec R O chk)) j.
Proof. cbn. rewrite abs_push, abs_default by apply inv_default. simpl. lia. Qed.

Lemma consec_no_valid_clear R `{RegionOK R} {PI : PairIdx R} `{!Dense R} (O : IC nat) `{ICOk _ O} chk x j :
  ~ valid (clear (consec R O chk) x) j.
Proof. destruct x as [[s o] l]. cbn. rewrite abs_push, abs_clear by apply inv_clear. simpl. lia. Qed.

Lemma consec_no_valid_merge R `{RegionOK R} {PI : PairIdx R} `{!Dense R} (O : IC nat) `{ICOk _ O} chk l j :
  ~ valid (merge (consec R O chk) l) j.
Proof. cbn. rewrite abs_push, abs_default by apply inv_default. simpl. lia. Qed.

#[export] Instance consec_merge_fresh R `{RegionOK R} {PI : PairIdx R} `{!Dense R} `{!MergeFresh R} (O : IC nat) `{ICOk _ O} chk :
  MergeFresh (consec R O chk).
Proof.
  intros l Hl. cbn. split; [|split; reflexivity]. apply merge_fresh.
  rewrite Forall_forall in *. intros y Hy. apply in_map_iff in Hy.
  destruct Hy as (x & <- & Hx). destruct (Hl x Hx) as [Hi _]. exact Hi.
Qed.
