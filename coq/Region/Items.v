(** Read items as first-class values: [Region::index], [IntoOwned] and [Push<ReadItem>].

    The core [Region] record only has [read = index ; into_owned].  Properties C13-C15 and C20 are
    about the read items themselves (region-backed versus borrowed from an owned value, positional
    accessors, clone_onto, region-to-region copies), so this layer models them, one definition per
    Rust [impl] block, and ties them back to the core with [own_index]. *)
From FC Require Import Base.Res Index.IC Region.Region Region.Owned Region.Simple Region.Slice
  Region.Collapse Region.Consec Region.Columns Codec.Dictionary Huffman.Huffman.
Set Implicit Arguments.

Record Items (R : Region) := {
  item : Type;                                         (* Region::ReadItem<'_> *)
  index : st R -> idx R -> res item;                   (* Region::index *)
  own : item -> res (val R);                           (* IntoOwned::into_owned *)
  borrow : val R -> item;                              (* IntoOwned::borrow_as *)
  clone_onto : item -> val R -> res (val R);           (* IntoOwned::clone_onto: new target *)
  push_item : st R -> item -> res (st R * idx R);      (* Push<ReadItem> *)
}.

(** * leaves *)
Definition owned_items T : Items (owned T) :=
  @Build_Items (owned T) (list T)
    (fun (s : list T) (i : nat * nat) => sub s (fst i) (snd i))
    (fun x => Ok x) (fun v => v)
    (fun x _ => Ok x)                                   (* [T]::clone_into *)
    (fun s x => push (owned T) s x).

Definition mirror_items T : Items (mirror T) :=
  @Build_Items (mirror T) T (fun _ (i : T) => Ok i) (fun x => Ok x) (fun v => v)
    (fun x _ => Ok x) (fun s x => push (mirror T) s x).

Definition vec_region_items T : Items (vec_region T) :=
  @Build_Items (vec_region T) T
    (fun (s : list T) (i : nat) => match nth_error s i with Some x => Ok x | None => Panic end)
    (fun x => Ok x) (fun v => v) (fun x _ => Ok x) (fun s x => push (vec_region T) s x).

Section StringI.
  Variable R : Region.
  Variable I : Items R.
  Definition string_items : Items (string_region R) :=
    @Build_Items (string_region R) (item I) (index I) (own I) (borrow I) (clone_onto I) (push_item I).
End StringI.

(** * Option, Result, tuples: structural *)
Section OptionI.
  Variable R : Region.
  Variable I : Items R.
  Definition option_items : Items (option_region R) :=
    @Build_Items (option_region R) (option (item I))
    (fun (s : st R) (i : option (idx R)) =>
       match i with None => Ok None | Some j => let* x := index I s j in Ok (Some x) end)
    (fun x => match x with None => Ok None | Some y => let* v := own I y in Ok (Some v) end)
    (fun v : option (val R) => option_map (borrow I) v)
    (fun x (t : option (val R)) =>
      match x, t with
      | Some y, Some u => let* u' := clone_onto I y u in Ok (Some u')
      | Some y, None => let* v := own I y in Ok (Some v)
      | None, _ => Ok None
      end)
    (fun (s : st R) x =>
      match x with
      | None => Ok (s, None)
      | Some y => let* '(s', i) := push_item I s y in Ok (s', Some i)
      end).
End OptionI.

Section ResultI.
  Variables A B : Region.
  Variable IA : Items A.
  Variable IB : Items B.
  Definition result_items : Items (result_region A B) :=
    @Build_Items (result_region A B) (item IA + item IB)%type
    (fun (s : st A * st B) (i : idx A + idx B) =>
       match i with
       | inl j => let* x := index IA (fst s) j in Ok (inl x)
       | inr j => let* y := index IB (snd s) j in Ok (inr y)
       end)
    (fun x => match x with
              | inl a => let* v := own IA a in Ok (inl v)
              | inr b => let* v := own IB b in Ok (inr v)
              end)
    (fun v : val A + val B => match v with inl a => inl (borrow IA a) | inr b => inr (borrow IB b) end)
    (fun x (t : val A + val B) =>
      match x, t with
      | inl a, inl u => let* u' := clone_onto IA a u in Ok (inl u')
      | inr b, inr u => let* u' := clone_onto IB b u in Ok (inr u')
      | inl a, _ => let* v := own IA a in Ok (inl v)
      | inr b, _ => let* v := own IB b in Ok (inr v)
      end)
    (fun (s : st A * st B) x =>
      match x with
      | inl a => let* '(a', i) := push_item IA (fst s) a in Ok ((a', snd s), inl i)
      | inr b => let* '(b', i) := push_item IB (snd s) b in Ok ((fst s, b'), inr i)
      end).
End ResultI.

Section Tuple2I.
  Variables A B : Region.
  Variable IA : Items A.
  Variable IB : Items B.
  Definition tuple2_items : Items (tuple2 A B) :=
    @Build_Items (tuple2 A B) (item IA * item IB)%type
    (fun (s : st A * st B) (i : idx A * idx B) =>
       let* x := index IA (fst s) (fst i) in let* y := index IB (snd s) (snd i) in Ok (x, y))
    (fun x => let* a := own IA (fst x) in let* b := own IB (snd x) in Ok (a, b))
    (fun v : val A * val B => (borrow IA (fst v), borrow IB (snd v)))
    (fun x (t : val A * val B) =>
      let* a := clone_onto IA (fst x) (fst t) in let* b := clone_onto IB (snd x) (snd t) in Ok (a, b))
    (fun (s : st A * st B) x =>
      let* '(a', i) := push_item IA (fst s) (fst x) in
      let* '(b', j) := push_item IB (snd s) (snd x) in Ok ((a', b'), (i, j))).
End Tuple2I.

(** * the shared [clone_onto] of sequence-like read items ([ReadSlice], [ReadColumns]):
    overwrite the common prefix element-wise, extend with owned copies, truncate *)
Section SeqCloneOnto.
  Variable R : Region.
  Variable I : Items R.
  Fixpoint zip_clone_onto (xs : list (item I)) (ts : list (val R)) : res (list (val R)) :=
    match xs, ts with
    | x :: xs', t :: ts' => let* t' := clone_onto I x t in let* r := zip_clone_onto xs' ts' in Ok (t' :: r)
    | _, _ => Ok []
    end.
  Definition seq_clone_onto (xs : list (item I)) (ts : list (val R)) : res (list (val R)) :=
    let r := Nat.min (length xs) (length ts) in
    let* pre := zip_clone_onto xs ts in
    (* [other] keeps its own tail beyond the zipped prefix until the truncate *)
    let kept := pre ++ skipn r ts in
    let* ext := mapM (own I) (skipn r xs) in
    Ok (firstn (length xs) (kept ++ ext)).
End SeqCloneOnto.

(** * SliceRegion *)
Section SliceI.
  Variable R : Region.
  Variable O : IC (idx R).
  Variable I : Items R.
  Local Notation SR := (slice R O).

  Inductive rslice :=
  | RS_region (s : st SR) (a b : nat)        (* ReadSliceInner { region, start, end } *)
  | RS_owned (l : list (val R)).             (* borrowed from an owned Vec *)

  (** [end - start] on [usize] *)
  Definition rs_len (x : rslice) : res nat :=
    match x with
    | RS_region _ a b => if b <? a then Panic else Ok (b - a)
    | RS_owned l => Ok (length l)
    end.
  Definition rs_is_empty (x : rslice) : res bool :=
    match x with
    | RS_region _ a b => Ok (a =? b)
    | RS_owned l => Ok (match l with [] => true | _ => false end)
    end.
  (** [ReadSlice::get]: the assertion [index < end - start], then one lookup *)
  Definition rs_get (x : rslice) (k : nat) : res (item I) :=
    match x with
    | RS_region s a b =>
        if b <? a then Panic
        else if k <? b - a then let* i := ic_index O (fst s) (a + k) in index I (snd s) i
        else Panic
    | RS_owned l => match nth_error l k with Some v => Ok (borrow I v) | None => Panic end
    end.
  (** [ReadSliceIter]: the range [start..end], each position looked up *)
  Fixpoint rs_iter_region (s : st SR) (a n : nat) : res (list (item I)) :=
    match n with
    | 0 => Ok []
    | S n => let* i := ic_index O (fst s) a in
             let* x := index I (snd s) i in
             let* xs := rs_iter_region s (S a) n in Ok (x :: xs)
    end.
  Definition rs_iter (x : rslice) : res (list (item I)) :=
    match x with
    | RS_region s a b => rs_iter_region s a (b - a)
    | RS_owned l => Ok (map (borrow I) l)
    end.

  (** [Push<ReadSlice>]: element by element into the inner region and the index container *)
  Fixpoint push_items_each (x : st SR) (its : list (item I)) : res (st SR) :=
    match its with
    | [] => Ok x
    | it :: its' =>
        let* '(sr', j) := push_item I (snd x) it in
        push_items_each (ic_push O (fst x) j, sr') its'
    end.
  (** region-backed source: each element is fetched from the source region as it is pushed *)
  Fixpoint push_from_region (x : st SR) (src : st SR) (a n : nat) : res (st SR) :=
    match n with
    | 0 => Ok x
    | S n =>
        let* i := ic_index O (fst src) a in
        let* it := index I (snd src) i in
        let* '(sr', j) := push_item I (snd x) it in
        push_from_region (ic_push O (fst x) j, sr') src (S a) n
    end.

  Definition slice_items : Items SR :=
    @Build_Items SR rslice
    (fun (s : st SR) (i : nat * nat) => Ok (RS_region s (fst i) (snd i)))
    (fun x => let* xs := rs_iter x in mapM (own I) xs)
    (fun v : list (val R) => RS_owned v)
    (fun x (t : list (val R)) => let* xs := rs_iter x in seq_clone_onto I xs t)
    (fun (x : st SR) it =>
      let start := ic_len O (fst x) in
      let* x' := match it with
                 | RS_region src a b => push_from_region x src a (b - a)
                 | RS_owned l => push_items_each x (map (borrow I) l)
                 end in
      Ok (x', (start, ic_len O (fst x')))).
End SliceI.
Arguments RS_region {R O} s a b.
Arguments RS_owned {R O} l.

(** * CollapseSequence: read items are the inner region's.  Pushing a read item compares it with
    the item at the last index; equality of read items is equality of what they denote. *)
Section CollapseI.
  Variable R : Region.
  Variable veq : val R -> val R -> bool.
  Variable I : Items R.
  Definition collapse_items : Items (collapse R veq) :=
    @Build_Items (collapse R veq) (item I)
    (fun (x : st R * option (idx R)) (i : idx R) => index I (fst x) i) (own I) (borrow I)
    (clone_onto I)
    (fun (x : st R * option (idx R)) it =>
      let fresh := let* '(s', i) := push_item I (fst x) it in Ok ((s', Some i), i) in
      match snd x with
      | Some j => let* w := read R (fst x) j in let* v := own I it in
                  if veq v w then Ok (x, j) else fresh
      | None => fresh
      end).
End CollapseI.

(** * ConsecutiveIndexPairs *)
Section ConsecI.
  Variable R : Region.
  Context {PI : PairIdx R}.
  Variable O : IC nat.
  Variable chk : bool.
  Variable I : Items R.
  Definition consec_items : Items (consec R O chk) :=
    @Build_Items (consec R O chk) (item I)
    (fun (x : st R * ic_st O * nat) (k : nat) =>
      let '(s, o, _) := x in
      let* a := ic_index O o k in let* b := ic_index O o (S k) in index I s (of_pair (a, b)))
    (own I) (borrow I) (clone_onto I)
    (fun (x : st R * ic_st O * nat) it =>
      let '(s, o, last) := x in
      let* '(s', i) := push_item I s it in
      let p := to_pair i in
      if chk && negb (fst p =? last) then Panic
      else let o' := ic_push O o (snd p) in Ok ((s', o', snd p), ic_len O o' - 2)).
End ConsecI.

(** * ColumnsRegion *)
Section ColumnsI.
  Variable R : Region.
  Variable O : IC nat.
  Variable chk : bool.
  Variable I : Items R.
  Local Notation CR := (columns R O chk).
  Local Notation rowsR := (consec (owned (idx R)) O chk).

  Inductive rcols :=
  | RC_region (cols : list (st R)) (is : list (idx R))   (* ReadColumnsInner { columns, index } *)
  | RC_owned (l : list (val R)).

  Definition rc_len (x : rcols) : nat := match x with RC_region _ is => length is | RC_owned l => length l end.
  Definition rc_is_empty (x : rcols) : bool :=
    match x with RC_region _ [] | RC_owned [] => true | _ => false end.
  (** [self.columns[offset].index(self.index[offset])] *)
  Definition rc_get (x : rcols) (k : nat) : res (item I) :=
    match x with
    | RC_region cols is =>
        match nth_error cols k, nth_error is k with
        | Some c, Some i => index I c i
        | _, _ => Panic
        end
    | RC_owned l => match nth_error l k with Some v => Ok (borrow I v) | None => Panic end
    end.
  (** [index.iter().zip(columns.iter())] *)
  Fixpoint rc_zip (cols : list (st R)) (is : list (idx R)) : res (list (item I)) :=
    match is, cols with
    | i :: is', c :: cols' => let* x := index I c i in let* xs := rc_zip cols' is' in Ok (x :: xs)
    | _, _ => Ok []
    end.
  Definition rc_iter (x : rcols) : res (list (item I)) :=
    match x with RC_region cols is => rc_zip cols is | RC_owned l => Ok (map (borrow I) l) end.

  (** [Push<ReadColumns>]: grow to the item's length, then zip the item's cells with the columns *)
  Fixpoint push_cols_items (cols : list (st R)) (its : list (item I)) : res (list (st R) * list (idx R)) :=
    match its with
    | [] => Ok (cols, [])
    | it :: its' =>
      let* '(c', i) := push_item I (hd (dflt R) cols) it in
      let* '(rest', is) := push_cols_items (tl cols) its' in
      Ok (c' :: rest', i :: is)
    end.
  Definition pad_cols (cols : list (st R)) (n : nat) : list (st R) :=
    cols ++ repeat (dflt R) (n - length cols).

  Definition columns_items : Items CR :=
    @Build_Items CR rcols
    (fun (x : st CR) (k : nat) => let* is := read rowsR (snd x) k in Ok (RC_region (fst x) is))
    (fun x => let* xs := rc_iter x in mapM (own I) xs)
    (fun v : list (val R) => RC_owned v)
    (fun x (t : list (val R)) => let* xs := rc_iter x in seq_clone_onto I xs t)
    (fun (x : st CR) it =>
      let cols := pad_cols (fst x) (rc_len it) in
      let* its := rc_iter it in
      let* '(cols', is) := push_cols_items cols its in
      let* '(rows', k) := push rowsR (snd x) is in
      Ok ((cols', rows'), k)).
End ColumnsI.
Arguments RC_region {R} cols is.
Arguments RC_owned {R} l.

(** * CodecRegion<DictionaryCodec, R>: read items are decoded byte slices *)
Section CodecI.
  Variable R : Region.
  Variable to_b : val R -> bytes.
  Variable of_b : bytes -> val R.
  Definition codec_items : Items (codec_region R to_b of_b) :=
    @Build_Items (codec_region R to_b of_b) bytes
      (fun x i => read (codec_region R to_b of_b) x i)
      (fun x => Ok x) (fun v => v) (fun x _ => Ok x)
      (fun s x => push (codec_region R to_b of_b) s x).
End CodecI.

(** * HuffmanContainer: a read item ([Wrapped]) is a lazily decoded symbol sequence; the model
    decodes it when it is created *)
Definition huffman_items : Items huffman_region :=
  @Build_Items huffman_region (list sym)
    (fun x i => read huffman_region x i)
    (fun x => Ok x) (fun v => v) (fun x _ => Ok x)
    (fun s x => push huffman_region s x).
