(** [CollapseSequence<R>]: returns the previous index when the pushed item equals the last one. *)
From FC Require Import Base.Res Region.Region.
Set Implicit Arguments.

Section Collapse.
  Variable R : Region.
  (** [T: PartialEq<R::ReadItem>]; no law is assumed for the specification lemma. *)
  Variable veq : val R -> val R -> bool.

  Definition collapse : Region := {|
    val := val R; idx := idx R; st := st R * option (idx R);
    dflt := (dflt R, None);
    push := fun x v =>
      let fresh := let* '(s', i) := push R (fst x) v in Ok ((s', Some i), i) in
      match snd x with
      | Some j => let* w := read R (fst x) j in if veq v w then Ok (x, j) else fresh
      | None => fresh
      end;
    read := fun x i => read R (fst x) i;
    clear := fun x => (clear R (fst x), None);
    merge := fun l => (merge R (map fst l), None);
  |}.
End Collapse.

#[export] Instance collapse_spec R veq `{RSpec R} : RSpec (collapse R veq) :=
  @Build_RSpec (collapse R veq)
    (fun x : st R * option (idx R) => inv (fst x) /\ forall j, snd x = Some j -> valid (fst x) j)
    (fun (x : st R * option (idx R)) (i : idx R) => valid (fst x) i)
    (fun (x : st R * option (idx R)) (v : val R) => dom (fst x) v)
    (fun x y : st R * option (idx R) => sim (fst x) (fst y) /\ snd x = snd y)
    (fun l : list (st R * option (idx R)) => mergeable (map fst l)).

(** C11: what a push does, for an arbitrary comparison [veq]. *)
Lemma collapse_push_spec R veq `{RegionOK R} (s : st R) (last : option (idx R)) (v : val R) :
  inv s -> (forall j, last = Some j -> valid s j) ->
  let x : st (collapse R veq) := (s, last) in
  let fresh : res (st (collapse R veq) * idx R) := (let* '(s', i) := push R s v in Ok ((s', Some i), i)) in
  match last with
  | Some j => exists w, read R s j = Ok w /\
      push (collapse R veq) x v = if veq v w then Ok (x, j) else fresh
  | None => push (collapse R veq) x v = fresh
  end.
Proof.
  intros Hs Hl x fresh. destruct last as [j|]; [|reflexivity].
  destruct (valid_reads s j Hs (Hl j eq_refl)) as (w & Hw). exists w. split; [assumption|].
  subst x fresh. cbn [push collapse fst snd]. rewrite Hw. cbn [bind]. destruct (veq v w); reflexivity.
Qed.

#[export] Instance collapse_ok R veq `{RegionOK R}
  (veq_sound : forall v w, veq v w = true -> v = w) : RegionOK (collapse R veq).
Proof.
  constructor.
  - cbn. split; [apply inv_dflt|discriminate].
  - (* push_safe *)
    intros [s last] v [s' last'] i [Hs Hl]. cbn [fst snd inv collapse_spec] in Hs, Hl.
    pose proof (@collapse_push_spec R veq _ _ s last v Hs Hl) as Hspec.
    assert (Hfresh : (let* '(s1, i1) := push R s v in Ok ((s1, Some i1), i1)) = Ok ((s', last'), i) ->
      (inv s' /\ (forall j, last' = Some j -> valid s' j)) /\ valid s' i /\
      frame (collapse R veq) (s, last) (s', last') /\ dom_same (collapse R veq) (s, last) (s', last')).
    { destruct (push R s v) as [[s1 i1]|] eqn:Ep; cbn [bind]; [|discriminate].
      intros Hq; inversion Hq; subst.
      destruct (push_safe s v Hs Ep) as (Hi1 & Hv1 & Hf1 & Hd1).
      split; [split; [assumption|intros j Hj; inversion Hj; subst; assumption]|].
      split; [assumption|]. split; [|exact Hd1].
      intros j Hj. cbn [fst valid collapse_spec read collapse] in *. apply Hf1; assumption. }
    destruct last as [j|].
    + destruct Hspec as (w & Hw & Hif). cbv zeta in Hif. rewrite Hif. destruct (veq v w) eqn:Ev.
      * intros Hq; inversion Hq; subst.
        cbn [fst snd inv valid collapse_spec]. split; [split; assumption|].
        split; [apply Hl; reflexivity|]. split; [intros k Hk; auto|intros u; reflexivity].
      * exact Hfresh.
    + cbv zeta in Hspec. rewrite Hspec. exact Hfresh.
  - (* push_ok *)
    intros [s last] v [Hs Hl] Hd. cbn [fst snd inv dom collapse_spec] in Hs, Hl, Hd.
    pose proof (@collapse_push_spec R veq _ _ s last v Hs Hl) as Hspec.
    destruct (push_ok s v Hs Hd) as (s1 & i & Hp & Hr1).
    assert (Hfresh : exists s' i0, (let* '(s0, i1) := push R s v in Ok ((s0, Some i1), i1)) = Ok (s', i0) /\
                                   read (collapse R veq) s' i0 = Ok v).
    { rewrite Hp. cbn [bind]. exists (s1, Some i), i. split; [reflexivity|exact Hr1]. }
    destruct last as [j|].
    + destruct Hspec as (w & Hw & Hif). cbv zeta in Hif. rewrite Hif. destruct (veq v w) eqn:Ev.
      * exists (s, Some j), j. split; [reflexivity|].
        cbn [read collapse fst]. rewrite Hw. f_equal. symmetry. apply veq_sound; assumption.
      * exact Hfresh.
    + cbv zeta in Hspec. rewrite Hspec. exact Hfresh.
  - intros [s last] j [Hs Hl] Hj. cbn in *. eapply valid_reads; eauto.
  - intros [s last] [Hs Hl]. cbn in *. split.
    + split; [apply clear_ok; assumption|discriminate].
    + split; [apply clear_ok; assumption|reflexivity].
  - intros l Hl Hm. cbn. split; [|discriminate].
    apply merge_inv; [|exact Hm]. rewrite Forall_forall in *. intros y Hy. apply in_map_iff in Hy.
    destruct Hy as (x & <- & Hx). apply (Hl x Hx).
  - intros [s l]. cbn. split; [apply sim_refl|reflexivity].
  - intros [s l] [t m] [H1 H2]. cbn in *. split; [apply sim_sym; assumption|congruence].
  - intros [s l] [t m] [u n] [H1 H2] [H3 H4]. cbn in *. split; [eapply sim_trans; eauto|congruence].
  - intros [s l] [t m] [H1 H2] w. cbn in *. apply (@sim_dom R _ _ s t H1 w).
  - (* sim_push *)
    intros [s l] [t m] v [s' l'] i [Hs Hl] [Ht Hm] [Hsim Heq]. cbn [fst snd inv sim collapse_spec] in *. subst m.
    pose proof (@collapse_push_spec R veq _ _ s l v Hs Hl) as Hspec_s.
    pose proof (@collapse_push_spec R veq _ _ t l v Ht Hm) as Hspec_t.
    assert (Hfresh : (let* '(s0, i1) := push R s v in Ok ((s0, Some i1), i1)) = Ok ((s', l'), i) ->
       exists t', (let* '(s0, i1) := push R t v in Ok ((s0, Some i1), i1)) = Ok (t', i) /\
                  (sim s' (fst t') /\ l' = snd t')).
    { destruct (push R s v) as [[s1 i1]|] eqn:Ep; cbn [bind]; [|discriminate].
      intros Hq; inversion Hq; subst.
      destruct (@sim_push R _ _ s t v s' i Hs Ht Hsim Ep) as (t1 & Hq1 & Hs1).
      rewrite Hq1. cbn [bind]. exists (t1, Some i). auto. }
    destruct l as [j|].
    + destruct Hspec_s as (w & Hw & Hifs). destruct Hspec_t as (w' & Hw' & Hift).
      destruct (@sim_read R _ _ s t j Hs Ht Hsim (Hl j eq_refl)) as [_ Hrt].
      assert (w' = w) by congruence. subst w'.
      cbv zeta in Hifs, Hift. rewrite Hifs, Hift.
      destruct (veq v w).
      * intros Hq; inversion Hq; subst. exists (t, Some i). auto.
      * exact Hfresh.
    + cbv zeta in Hspec_s, Hspec_t. rewrite Hspec_s, Hspec_t. exact Hfresh.
  - intros [s l] [t m] i [Hs Hl] [Ht Hm] [Hsim Heq] Hv. cbn in *. apply sim_read; auto.
Qed.

#[export] Instance collapse_merge_fresh R veq `{RegionOK R} `{!MergeFresh R} : MergeFresh (collapse R veq).
Proof.
  intros l Hl. cbn. split; [|reflexivity]. apply merge_fresh.
  rewrite Forall_forall in *. intros y Hy. apply in_map_iff in Hy.
  destruct Hy as (x & <- & Hx). apply (Hl x Hx).
Qed.
