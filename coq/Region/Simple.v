(** The small regions: [MirrorRegion<T>], [Vec<T>] as a region, [StringRegion<R>],
    [OptionRegion<R>], [ResultRegion<T, E>], two-field tuples. *)
From FC Require Import Base.Res Region.Region.
Set Implicit Arguments.

(** * MirrorRegion: the index is the value *)
Definition mirror (T : Type) : Region := {|
  val := T; idx := T; st := unit; dflt := tt;
  push := fun s v => Ok (s, v); read := fun _ i => Ok i;
  clear := fun s => s; merge := fun _ => tt |}.

#[export] Instance mirror_spec T : RSpec (mirror T) :=
  @Build_RSpec (mirror T) (fun _ => True) (fun _ _ => True) (fun _ _ => True) (fun _ _ => True) (fun _ => True).

#[export] Instance mirror_ok T : RegionOK (mirror T).
Proof.
  constructor; cbn.
  - exact I.
  - intros s v s' i _ Hp. inversion Hp; subst.
    split; [exact I|]. split; [exact I|]. split; [intros j _; split; [exact I|reflexivity]|intros w; reflexivity].
  - intros s v _ _. eexists _, _. split; reflexivity.
  - intros s j _ _. eauto.
  - intros s _. split; exact I.
  - intros l _ _. exact I.
  - intros s. exact I.
  - intros s t _. exact I.
  - intros s t u _ _. exact I.
  - intros s t _ w. reflexivity.
  - intros s t v s' i _ _ _ Hp. inversion Hp; subst. destruct t. eexists. split; [reflexivity|exact I].
  - intros s t i _ _ _ _. split; [exact I|reflexivity].
Qed.
#[export] Instance mirror_merge_fresh T : MergeFresh (mirror T).
Proof. intros l _. exact I. Qed.

(** * Vec<T> as a region: index = position *)
Definition vec_region (T : Type) : Region := {|
  val := T; idx := nat; st := list T; dflt := [];
  push := fun s v => Ok (s ++ [v], length s);
  read := fun s i => match nth_error s i with Some x => Ok x | None => Panic end;
  clear := fun _ => []; merge := fun _ => [] |}.

#[export] Instance vec_region_spec T : RSpec (vec_region T) :=
  @Build_RSpec (vec_region T) (fun _ => True) (fun (s : list T) (i : nat) => i < length s) (fun _ _ => True) eq (fun _ => True).

#[export] Instance vec_region_ok T : RegionOK (vec_region T).
Proof.
  constructor; cbn.
  - exact I.
  - intros s v s' i _ Hp. inversion Hp; subst. split; [exact I|].
    split; [rewrite app_length; simpl; lia|]. split; [|intros w; reflexivity].
    intros j Hj. cbn in *. split; [rewrite app_length; lia|]. now rewrite nth_error_app1.
  - intros s v _ _. eexists _, _. split; [reflexivity|].
    rewrite nth_error_app2, Nat.sub_diag by lia. reflexivity.
  - intros s j _ Hj. destruct (nth_error s j) eqn:E; [eauto|]. apply nth_error_None in E. lia.
  - intros s _. split; [exact I|reflexivity].
  - intros l _ _. exact I.
  - intros s. reflexivity.
  - intros s t Hst. symmetry. exact Hst.
  - intros s t u H1 H2. congruence.
  - intros s t -> w. reflexivity.
  - intros s t v s' i _ _ -> Hp. eauto.
  - intros s t i _ _ -> Hv. auto.
Qed.
#[export] Instance vec_region_merge_fresh T : MergeFresh (vec_region T).
Proof. intros l _. reflexivity. Qed.

(** * StringRegion<R>: a byte region whose write half only accepts valid UTF-8.
    [wf] is the validity predicate ([utf8_valid] in the development); the model of [index]
    performs no check, exactly like [from_utf8_unchecked]. *)
Section StringR.
  Variable R : Region.
  Variable wf : val R -> Prop.
  Definition string_region : Region := {|
    val := val R; idx := idx R; st := st R; dflt := dflt R;
    push := push R; read := read R; clear := clear R; merge := merge R |}.
End StringR.

#[export] Instance string_spec R wf `{RSpec R} : RSpec (string_region R) :=
  @Build_RSpec (string_region R) (@inv R _) (@valid R _) (fun (s : st R) (v : val R) => @dom R _ s v /\ wf v) (@sim R _) (@mergeable R _).

#[export] Instance string_ok R wf `{RegionOK R} : @RegionOK (string_region R) (@string_spec R wf _).
Proof.
  constructor; cbn.
  - apply inv_dflt.
  - intros s v s' i Hs Hp. destruct (@push_safe R _ _ s v s' i Hs Hp) as (H1 & H2 & H3 & H4).
    split; [assumption|]. split; [assumption|]. split; [exact H3|].
    intros w. cbn. rewrite (H4 w). reflexivity.
  - intros s v Hs [Hd _]. apply (@push_ok R _ _ s v Hs Hd).
  - apply (@valid_reads R _ _).
  - apply (@clear_ok R _ _).
  - apply (@merge_inv R _ _).
  - apply (@sim_refl R _ _).
  - apply (@sim_sym R _ _).
  - apply (@sim_trans R _ _).
  - intros s t Hst w. cbn. rewrite (@sim_dom R _ _ s t Hst w). reflexivity.
  - apply (@sim_push R _ _).
  - apply (@sim_read R _ _).
Qed.

#[export] Instance string_merge_fresh R wf `{RSpec R} `{!MergeFresh R} : @MergeFresh (string_region R) (@string_spec R wf _).
Proof. intros l Hl. apply (@merge_fresh R _ _ l Hl). Qed.

(** C04: every string read at a valid index is a string that was pushed, hence well formed. *)
Lemma string_read_wf R wf `{RegionOK R} s v :
  @inv _ (@string_spec R wf _) s -> @dom _ (@string_spec R wf _) s v ->
  exists s' i, push (string_region R) s v = Ok (s', i) /\ read (string_region R) s' i = Ok v /\ wf v.
Proof.
  intros Hs [Hd Hw]. destruct (@push_ok R _ _ s v Hs Hd) as (s' & i & Hp & Hr). eauto.
Qed.

(** * OptionRegion<R> *)
Section OptionR.
  Variable R : Region.
  Definition option_region : Region := {|
    val := option (val R); idx := option (idx R); st := st R; dflt := dflt R;
    push := fun s v => match v with
                       | None => Ok (s, None)
                       | Some x => let* '(s', i) := push R s x in Ok (s', Some i)
                       end;
    read := fun s i => match i with
                       | None => Ok None
                       | Some j => let* x := read R s j in Ok (Some x)
                       end;
    clear := clear R; merge := merge R |}.
End OptionR.

#[export] Instance option_spec R `{RSpec R} : RSpec (option_region R) :=
  @Build_RSpec (option_region R) (@inv R _)
    (fun (s : st R) (i : option (idx R)) => match i with None => True | Some j => valid s j end)
    (fun (s : st R) (v : option (val R)) => match v with None => True | Some x => dom s x end)
    (@sim R _) (@mergeable R _).

#[export] Instance option_ok R `{RegionOK R} : RegionOK (option_region R).
Proof.
  constructor; cbn.
  - apply inv_dflt.
  - intros s [x|] s' i Hs Hp.
    + destruct (push R s x) as [[s1 j]|] eqn:E; cbn in Hp; [|discriminate]. inversion Hp; subst.
      destruct (@push_safe R _ _ s x s' j Hs E) as (H1 & H2 & H3 & H4).
      split; [assumption|]. split; [assumption|]. split.
      * intros [k|] Hk; cbn in *; [|auto]. destruct (H3 k Hk) as [Hv Hr]. split; [assumption|]. now rewrite Hr.
      * intros [w|]; cbn; [apply H4|reflexivity].
    + inversion Hp; subst. split; [assumption|]. split; [exact I|]. split.
      * intros k Hk; auto.
      * intros w; reflexivity.
  - intros s [x|] Hs Hd.
    + destruct (@push_ok R _ _ s x Hs Hd) as (s' & i & Hp & Hr). rewrite Hp. cbn.
      eexists _, _. split; [reflexivity|]. cbn. rewrite Hr. reflexivity.
    + eexists _, _. split; reflexivity.
  - intros s [j|] Hs Hj; [|eauto]. destruct (@valid_reads R _ _ s j Hs Hj) as (w & ->). cbn. eauto.
  - apply (@clear_ok R _ _).
  - apply (@merge_inv R _ _).
  - apply (@sim_refl R _ _).
  - apply (@sim_sym R _ _).
  - apply (@sim_trans R _ _).
  - intros s t Hst [w|]; cbn; [apply (@sim_dom R _ _ s t Hst w)|reflexivity].
  - intros s t [x|] s' i Hs Ht Hst Hp.
    + destruct (push R s x) as [[s1 j]|] eqn:E; cbn in Hp; [|discriminate]. inversion Hp; subst.
      destruct (@sim_push R _ _ s t x s' j Hs Ht Hst E) as (t' & Hq & Hs'). rewrite Hq. cbn. eauto.
    + inversion Hp; subst. eauto.
  - intros s t [j|] Hs Ht Hst Hv; [|auto].
    destruct (@sim_read R _ _ s t j Hs Ht Hst Hv) as [H1 H2]. split; [assumption|]. now rewrite H2.
Qed.
#[export] Instance option_merge_fresh R `{RegionOK R} `{!MergeFresh R} : MergeFresh (option_region R).
Proof. intros l Hl. apply (@merge_fresh R _ _ l Hl). Qed.

(** * ResultRegion<T, E> *)
Section ResultR.
  Variables A B : Region.
  Definition result_region : Region := {|
    val := val A + val B; idx := idx A + idx B; st := st A * st B;
    dflt := (dflt A, dflt B);
    push := fun s v => match v with
                       | inl x => let* '(a', i) := push A (fst s) x in Ok ((a', snd s), inl i)
                       | inr y => let* '(b', i) := push B (snd s) y in Ok ((fst s, b'), inr i)
                       end;
    read := fun s i => match i with
                       | inl j => let* x := read A (fst s) j in Ok (inl x)
                       | inr j => let* y := read B (snd s) j in Ok (inr y)
                       end;
    clear := fun s => (clear A (fst s), clear B (snd s));
    merge := fun l => (merge A (map fst l), merge B (map snd l)) |}.
End ResultR.

#[export] Instance result_spec A B `{RSpec A} `{RSpec B} : RSpec (result_region A B) :=
  @Build_RSpec (result_region A B)
    (fun s : st A * st B => inv (fst s) /\ inv (snd s))
    (fun (s : st A * st B) (i : idx A + idx B) => match i with inl j => valid (fst s) j | inr j => valid (snd s) j end)
    (fun (s : st A * st B) (v : val A + val B) => match v with inl x => dom (fst s) x | inr y => dom (snd s) y end)
    (fun s t : st A * st B => sim (fst s) (fst t) /\ sim (snd s) (snd t))
    (fun l : list (st A * st B) => mergeable (map fst l) /\ mergeable (map snd l)).

Lemma Forall_map_proj {X Y} (P : Y -> Prop) (Q : X -> Prop) (f : X -> Y) l :
  (forall x, Q x -> P (f x)) -> Forall Q l -> Forall P (map f l).
Proof. intros H HQ. induction HQ; simpl; constructor; auto. Qed.

#[export] Instance result_ok A B `{RegionOK A} `{RegionOK B} : RegionOK (result_region A B).
Proof.
  constructor.
  - cbn. split; apply inv_dflt.
  - intros [a b] [x|y] [a' b'] i [Ha Hb] Hp; cbn [fst snd push result_region inv result_spec] in *.
    + destruct (push A a x) as [[a1 j]|] eqn:E; cbn in Hp; [|discriminate]. inversion Hp; subst.
      destruct (@push_safe A _ _ a x a' j Ha E) as (H3 & H4 & H5 & H6).
      split; [split; assumption|]. split; [exact H4|]. split.
      * intros [k|k] Hk; cbn in *; [|auto]. destruct (H5 k Hk) as [Hv Hr]. split; [assumption|]. now rewrite Hr.
      * intros [w|w]; cbn; [apply H6|reflexivity].
    + destruct (push B b y) as [[b1 j]|] eqn:E; cbn in Hp; [|discriminate]. inversion Hp; subst.
      destruct (@push_safe B _ _ b y b' j Hb E) as (H3 & H4 & H5 & H6).
      split; [split; assumption|]. split; [exact H4|]. split.
      * intros [k|k] Hk; cbn in *; [auto|]. destruct (H5 k Hk) as [Hv Hr]. split; [assumption|]. now rewrite Hr.
      * intros [w|w]; cbn; [reflexivity|apply H6].
  - intros [a b] [x|y] [Ha Hb] Hd; cbn [fst snd push result_region inv dom result_spec] in *.
    + destruct (@push_ok A _ _ a x Ha Hd) as (a' & i & Hp & Hr). rewrite Hp. cbn.
      eexists _, _. split; [reflexivity|]. cbn. rewrite Hr. reflexivity.
    + destruct (@push_ok B _ _ b y Hb Hd) as (b' & i & Hp & Hr). rewrite Hp. cbn.
      eexists _, _. split; [reflexivity|]. cbn. rewrite Hr. reflexivity.
  - intros [a b] [j|j] [Ha Hb] Hj; cbn in *.
    + destruct (@valid_reads A _ _ a j Ha Hj) as (w & ->). cbn. eauto.
    + destruct (@valid_reads B _ _ b j Hb Hj) as (w & ->). cbn. eauto.
  - intros [a b] [Ha Hb]. cbn in *.
    destruct (@clear_ok A _ _ a Ha), (@clear_ok B _ _ b Hb). auto.
  - intros l Hl [Hm1 Hm2]. cbn. split; (apply merge_inv; [|assumption]).
    + eapply Forall_map_proj; [|exact Hl]. intros x [Hx _]. exact Hx.
    + eapply Forall_map_proj; [|exact Hl]. intros x [_ Hx]. exact Hx.
  - intros [a b]. cbn. split; apply sim_refl.
  - intros [a b] [c d] [H3 H4]. cbn in *. split; apply sim_sym; assumption.
  - intros [a b] [c d] [e f] [H3 H4] [H5 H6]. cbn in *. split; eapply sim_trans; eauto.
  - intros [a b] [c d] [H3 H4] [w|w]; cbn in *;
      [apply (@sim_dom A _ _ a c H3 w)|apply (@sim_dom B _ _ b d H4 w)].
  - intros [a b] [c d] [x|y] [a' b'] i [Ha Hb] [Hc Hd] [H3 H4] Hp; cbn [fst snd push result_region] in *.
    + destruct (push A a x) as [[a1 j]|] eqn:E; cbn in Hp; [|discriminate]. inversion Hp; subst.
      destruct (@sim_push A _ _ a c x a' j Ha Hc H3 E) as (c' & Hq & Hs'). rewrite Hq. cbn.
      eexists. split; [reflexivity|]. cbn. auto.
    + destruct (push B b y) as [[b1 j]|] eqn:E; cbn in Hp; [|discriminate]. inversion Hp; subst.
      destruct (@sim_push B _ _ b d y b' j Hb Hd H4 E) as (d' & Hq & Hs'). rewrite Hq. cbn.
      eexists. split; [reflexivity|]. cbn. auto.
  - intros [a b] [c d] [j|j] [Ha Hb] [Hc Hd] [H3 H4] Hv; cbn in *.
    + destruct (@sim_read A _ _ a c j Ha Hc H3 Hv) as [H5 H6]. split; [assumption|]. now rewrite H6.
    + destruct (@sim_read B _ _ b d j Hb Hd H4 Hv) as [H5 H6]. split; [assumption|]. now rewrite H6.
Qed.

#[export] Instance result_merge_fresh A B `{RegionOK A} `{RegionOK B} `{!MergeFresh A} `{!MergeFresh B} :
  MergeFresh (result_region A B).
Proof.
  intros l Hl. cbn. split; apply merge_fresh.
  - eapply Forall_map_proj; [|exact Hl]. intros x [Hx _]. exact Hx.
  - eapply Forall_map_proj; [|exact Hl]. intros x [_ Hx]. exact Hx.
Qed.

(** * Two-field tuple region (the [tuple_flatcontainer!] macro at arity 2) *)
Section Tuple2.
  Variables A B : Region.
  Definition tuple2 : Region := {|
    val := val A * val B; idx := idx A * idx B; st := st A * st B;
    dflt := (dflt A, dflt B);
    push := fun s v =>
      let* '(a', i) := push A (fst s) (fst v) in
      let* '(b', j) := push B (snd s) (snd v) in Ok ((a', b'), (i, j));
    read := fun s i =>
      let* x := read A (fst s) (fst i) in
      let* y := read B (snd s) (snd i) in Ok (x, y);
    clear := fun s => (clear A (fst s), clear B (snd s));
    merge := fun l => (merge A (map fst l), merge B (map snd l)) |}.
End Tuple2.

#[export] Instance tuple2_spec A B `{RSpec A} `{RSpec B} : RSpec (tuple2 A B) :=
  @Build_RSpec (tuple2 A B)
    (fun s : st A * st B => inv (fst s) /\ inv (snd s))
    (fun (s : st A * st B) (i : idx A * idx B) => valid (fst s) (fst i) /\ valid (snd s) (snd i))
    (fun (s : st A * st B) (v : val A * val B) => dom (fst s) (fst v) /\ dom (snd s) (snd v))
    (fun s t : st A * st B => sim (fst s) (fst t) /\ sim (snd s) (snd t))
    (fun l : list (st A * st B) => mergeable (map fst l) /\ mergeable (map snd l)).

#[export] Instance tuple2_ok A B `{RegionOK A} `{RegionOK B} : RegionOK (tuple2 A B).
Proof.
  constructor.
  - cbn. split; apply inv_dflt.
  - intros [a b] [x y] [a' b'] [i j] [Ha Hb] Hp; cbn [fst snd push tuple2 inv tuple2_spec] in *.
    destruct (push A a x) as [[a1 i1]|] eqn:E1; cbn in Hp; [|discriminate].
    destruct (push B b y) as [[b1 j1]|] eqn:E2; cbn in Hp; [|discriminate]. inversion Hp; subst.
    destruct (@push_safe A _ _ a x a' i Ha E1) as (H3 & H4 & H5 & H6).
    destruct (@push_safe B _ _ b y b' j Hb E2) as (H7 & H8 & H9 & H10).
    split; [split; assumption|]. split; [split; assumption|]. split.
    + intros [k l] [Hk Hl]; cbn in *. destruct (H5 k Hk) as [Hv Hr]. destruct (H9 l Hl) as [Hv' Hr'].
      split; [split; assumption|]. now rewrite Hr, Hr'.
    + intros [w z]; cbn. rewrite (H6 w), (H10 z). reflexivity.
  - intros [a b] [x y] [Ha Hb] [Hdx Hdy]; cbn [fst snd push tuple2 inv dom tuple2_spec] in *.
    destruct (@push_ok A _ _ a x Ha Hdx) as (a' & i & Hp & Hr). rewrite Hp. cbn.
    destruct (@push_ok B _ _ b y Hb Hdy) as (b' & j & Hq & Hr'). rewrite Hq. cbn.
    eexists _, _. split; [reflexivity|]. cbn. rewrite Hr, Hr'. reflexivity.
  - intros [a b] [i j] [Ha Hb] [Hi Hj]; cbn in *.
    destruct (@valid_reads A _ _ a i Ha Hi) as (w & ->). destruct (@valid_reads B _ _ b j Hb Hj) as (z & ->). cbn. eauto.
  - intros [a b] [Ha Hb]. cbn in *.
    destruct (@clear_ok A _ _ a Ha), (@clear_ok B _ _ b Hb). auto.
  - intros l Hl [Hm1 Hm2]. cbn. split; (apply merge_inv; [|assumption]).
    + eapply Forall_map_proj; [|exact Hl]. intros x [Hx _]. exact Hx.
    + eapply Forall_map_proj; [|exact Hl]. intros x [_ Hx]. exact Hx.
  - intros [a b]. cbn. split; apply sim_refl.
  - intros [a b] [c d] [H3 H4]. cbn in *. split; apply sim_sym; assumption.
  - intros [a b] [c d] [e f] [H3 H4] [H5 H6]. cbn in *. split; eapply sim_trans; eauto.
  - intros [a b] [c d] [H3 H4] [w z]; cbn in *.
    rewrite (@sim_dom A _ _ a c H3 w), (@sim_dom B _ _ b d H4 z). reflexivity.
  - intros [a b] [c d] [x y] [a' b'] [i j] [Ha Hb] [Hc Hd] [H3 H4] Hp; cbn [fst snd push tuple2] in *.
    destruct (push A a x) as [[a1 i1]|] eqn:E1; cbn in Hp; [|discriminate].
    destruct (push B b y) as [[b1 j1]|] eqn:E2; cbn in Hp; [|discriminate]. inversion Hp; subst.
    destruct (@sim_push A _ _ a c x a' i Ha Hc H3 E1) as (c' & Hq & Hs'). rewrite Hq. cbn.
    destruct (@sim_push B _ _ b d y b' j Hb Hd H4 E2) as (d' & Hq' & Hs''). rewrite Hq'. cbn.
    eexists. split; [reflexivity|]. cbn. auto.
  - intros [a b] [c d] [i j] [Ha Hb] [Hc Hd] [H3 H4] [Hi Hj]; cbn in *.
    destruct (@sim_read A _ _ a c i Ha Hc H3 Hi) as [H5 H6].
    destruct (@sim_read B _ _ b d j Hb Hd H4 Hj) as [H7 H8].
    split; [split; assumption|]. now rewrite H6, H8.
Qed.

#[export] Instance tuple2_merge_fresh A B `{RegionOK A} `{RegionOK B} `{!MergeFresh A} `{!MergeFresh B} :
  MergeFresh (tuple2 A B).
Proof.
  intros l Hl. cbn. split; apply merge_fresh.
  - eapply Forall_map_proj; [|exact Hl]. intros x [Hx _]. exact Hx.
  - eapply Forall_map_proj; [|exact Hl]. intros x [_ Hx]. exact Hx.
Qed.
