(** Read-item laws (C13/C14/C15/C20) for the two coded regions and the ordering of
    ConsecutiveIndexPairs items: their read items are the decoded values, so the laws reduce to the
    regions' own contracts ([codec_region_ok], [huffman_ok]). *)
From FC Require Import Base.Res Index.IC Region.Region Region.Owned Region.Simple Region.Slice
  Region.Collapse Region.Consec Region.Columns Region.Items Region.ItemsOk Region.Compare
  Codec.Dictionary Codec.DictionaryOk Huffman.Huffman Huffman.HuffRegion.
Set Implicit Arguments.

Section CodecItems.
  Variable R : Region.
  Context `{RegionOK R}.
  Variable to_b : val R -> bytes.
  Variable of_b : bytes -> val R.
  Hypothesis tb_ob : forall x, to_b (of_b x) = x.
  Hypothesis inner_total : forall (s : st R) (w : val R), dom s w.
  Local Notation CR := (codec_region R to_b of_b).

  #[export] Instance codec_ispec : ISpec (codec_items R to_b of_b) :=
    @Build_ISpec CR (codec_items R to_b of_b) (fun _ => True).

  #[export] Instance codec_items_ok : @ItemsOK CR (@codec_region_spec R _ to_b of_b) (codec_items R to_b of_b) _.
  Proof.
    pose proof (@codec_region_ok R _ _ to_b of_b tb_ob inner_total) as HC.
    constructor; cbn [index own borrow clone_onto push_item codec_items iwf codec_ispec].
    - intros s i Hs Hv. destruct (@valid_reads CR _ HC s i Hs Hv) as (w & Hw). exists w. rewrite Hw. auto.
    - auto.
    - intros x _. eauto.
    - intros x v t _ Hx. exact Hx.
    - intros s x v _ Hx. inversion Hx; reflexivity.
  Qed.

  #[export] Instance codec_ord_ok (ecmp : N -> N -> comparison) `{!TotalCmp ecmp} :
    @ItemOrdOK CR (@codec_region_spec R _ to_b of_b) (codec_items R to_b of_b) _
      (@Build_ItemOrd CR (codec_items R to_b of_b) (fun x y : list N => Ok (lex_cmp ecmp x y)) (lex_cmp ecmp)).
  Proof.
    constructor; [|cbn; apply (@lex_total _ _ _)].
    intros x y v w _ _ Hx Hy. cbn in *. inversion Hx; inversion Hy; subst. reflexivity.
  Qed.
End CodecItems.

#[export] Instance huffman_ispec : ISpec huffman_items := @Build_ISpec huffman_region huffman_items (fun _ => True).
#[export] Instance huffman_items_ok : ItemsOK huffman_region huffman_items.
Proof.
  constructor; cbn [index own borrow clone_onto push_item huffman_items iwf huffman_ispec].
  - intros s i Hs Hv. destruct (@valid_reads huffman_region _ huffman_ok s i Hs Hv) as (w & Hw). exists w. rewrite Hw. auto.
  - auto.
  - intros x _. eauto.
  - intros x v t _ Hx. exact Hx.
  - intros s x v _ Hx. inversion Hx; reflexivity.
Qed.
#[export] Instance huffman_ord_ok (ecmp : N -> N -> comparison) `{!TotalCmp ecmp} :
  ItemOrdOK huffman_region huffman_items
    (@Build_ItemOrd huffman_region huffman_items (fun x y : list N => Ok (lex_cmp ecmp x y)) (lex_cmp ecmp)).
Proof.
  constructor; [|cbn; apply (@lex_total _ _ _)].
  intros x y v w _ _ Hx Hy. cbn in *. inversion Hx; inversion Hy; subst. reflexivity.
Qed.

#[export] Instance consec_ord_ok R `{RegionOK R} {PI : PairIdx R} `{!Dense R} (O : IC nat) `{ICOk _ O} chk
  (I : Items R) {IS : ISpec I} (C : ItemOrd I) `{!ItemOrdOK R I C} :
  ItemOrdOK (consec R O chk) (consec_items O chk I) (consec_ord O chk C).
Proof. constructor; cbn; [apply (@icmp_ok R _ I _ C _)|apply (@vcmp_total R _ I _ C _)]. Qed.
