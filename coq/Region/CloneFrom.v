(** [Clone::clone_from] (C09), one definition per hand-written Rust impl: every impl assigns its
    fields one by one from the source (delegating to the field's own [clone_from]); the leaves are
    std's [Vec::clone_from] / [Copy] assignments, whose result is the source value.  [CloneFromOK]:
    whatever the destination held, the result is the source -- no field is forgotten, for every
    composition.  (A forgotten field, e.g. [last_index], makes the lemma for that combinator false.) *)
From FC Require Import Base.Res Index.IC Region.Region Region.Owned Region.Simple Region.Slice
  Region.Collapse Region.Consec Region.Columns.
Set Implicit Arguments.

Record RClone (R : Region) := { r_clone_from : st R -> st R -> st R }.   (* destination, source *)
Class CloneFromOK R (C : RClone R) : Prop := clone_from_ok : forall d s, r_clone_from C d s = s.

(** std: [Vec<T>::clone_from(&mut d, &s)] leaves [d == s]; index containers derive Clone (the default
    [clone_from] is [*d = s.clone()]) *)
Definition vec_clone_from {T} (d s : list T) : list T := s.
Definition ic_clone_from T (c : IC T) (d s : ic_st c) : ic_st c := s.

Definition owned_clone T : RClone (owned T) := @Build_RClone (owned T) (@vec_clone_from T).
Definition mirror_clone T : RClone (mirror T) := @Build_RClone (mirror T) (fun _ s => s).
Definition vec_region_clone T : RClone (vec_region T) := @Build_RClone (vec_region T) (@vec_clone_from T).
(** [self.inner.clone_from(&source.inner)] *)
Definition string_clone R (C : RClone R) : RClone (string_region R) := @Build_RClone (string_region R) (r_clone_from C).
Definition option_clone R (C : RClone R) : RClone (option_region R) := @Build_RClone (option_region R) (r_clone_from C).
(** [oks.clone_from; errs.clone_from] / one per tuple field *)
Definition result_clone A B (CA : RClone A) (CB : RClone B) : RClone (result_region A B) :=
  @Build_RClone (result_region A B) (fun d s : st A * st B => (r_clone_from CA (fst d) (fst s), r_clone_from CB (snd d) (snd s))).
Definition tuple2_clone A B (CA : RClone A) (CB : RClone B) : RClone (tuple2 A B) :=
  @Build_RClone (tuple2 A B) (fun d s : st A * st B => (r_clone_from CA (fst d) (fst s), r_clone_from CB (snd d) (snd s))).
(** [slices.clone_from; inner.clone_from] *)
Definition slice_clone R (O : IC (idx R)) (C : RClone R) : RClone (slice R O) :=
  @Build_RClone (slice R O) (fun d s : ic_st O * st R => (ic_clone_from O (fst d) (fst s), r_clone_from C (snd d) (snd s))).
(** [inner.clone_from; last_index = source.last_index] *)
Definition collapse_clone R veq (C : RClone R) : RClone (collapse R veq) :=
  @Build_RClone (collapse R veq) (fun d s : st R * option (idx R) => (r_clone_from C (fst d) (fst s), snd s)).
(** [inner.clone_from; indices.clone_from; last_index = source.last_index] *)
Definition consec_clone R {PI : PairIdx R} (O : IC nat) chk (C : RClone R) : RClone (consec R O chk) :=
  @Build_RClone (consec R O chk)
    (fun d s : st R * ic_st O * nat => (r_clone_from C (fst (fst d)) (fst (fst s)), ic_clone_from O (snd (fst d)) (snd (fst s)), snd s)).
(** [indices.clone_from; inner.clone_from] where [inner : Vec<R>]: [Vec::clone_from] truncates to the
    source's length, [clone_from]s the common prefix element-wise and clones the rest *)
Fixpoint cols_clone_from R (C : RClone R) (d s : list (st R)) : list (st R) :=
  match s, d with
  | [], _ => []
  | x :: s', [] => x :: s'
  | x :: s', y :: d' => r_clone_from C y x :: cols_clone_from C d' s'
  end.
Definition columns_clone R (O : IC nat) chk (C : RClone R) : RClone (columns R O chk) :=
  @Build_RClone (columns R O chk)
    (fun d s : list (st R) * st (consec (owned (idx R)) O chk) =>
       (cols_clone_from C (fst d) (fst s), r_clone_from (consec_clone O chk (owned_clone (idx R))) (snd d) (snd s))).

#[export] Instance owned_clone_ok T : CloneFromOK (owned_clone T).
Proof. intros d s. reflexivity. Qed.
#[export] Instance mirror_clone_ok T : CloneFromOK (mirror_clone T).
Proof. intros d s. reflexivity. Qed.
#[export] Instance vec_region_clone_ok T : CloneFromOK (vec_region_clone T).
Proof. intros d s. reflexivity. Qed.
#[export] Instance string_clone_ok R (C : RClone R) `{!CloneFromOK C} : CloneFromOK (string_clone C).
Proof. intros d s. apply (@clone_from_ok R C _). Qed.
#[export] Instance option_clone_ok R (C : RClone R) `{!CloneFromOK C} : CloneFromOK (option_clone C).
Proof. intros d s. apply (@clone_from_ok R C _). Qed.
#[export] Instance result_clone_ok A B (CA : RClone A) (CB : RClone B) `{!CloneFromOK CA} `{!CloneFromOK CB} : CloneFromOK (result_clone CA CB).
Proof. intros [d1 d2] [s1 s2]. cbn. now rewrite (@clone_from_ok A CA _), (@clone_from_ok B CB _). Qed.
#[export] Instance tuple2_clone_ok A B (CA : RClone A) (CB : RClone B) `{!CloneFromOK CA} `{!CloneFromOK CB} : CloneFromOK (tuple2_clone CA CB).
Proof. intros [d1 d2] [s1 s2]. cbn. now rewrite (@clone_from_ok A CA _), (@clone_from_ok B CB _). Qed.
#[export] Instance slice_clone_ok R (O : IC (idx R)) (C : RClone R) `{!CloneFromOK C} : CloneFromOK (slice_clone O C).
Proof. intros [d1 d2] [s1 s2]. cbn. unfold ic_clone_from. now rewrite (@clone_from_ok R C _). Qed.
#[export] Instance collapse_clone_ok R veq (C : RClone R) `{!CloneFromOK C} : CloneFromOK (collapse_clone veq C).
Proof. intros [d1 d2] [s1 s2]. cbn. now rewrite (@clone_from_ok R C _). Qed.
#[export] Instance consec_clone_ok R {PI : PairIdx R} (O : IC nat) chk (C : RClone R) `{!CloneFromOK C} : CloneFromOK (consec_clone O chk C).
Proof. intros [[d1 d2] d3] [[s1 s2] s3]. cbn. unfold ic_clone_from. now rewrite (@clone_from_ok R C _). Qed.
Lemma cols_clone_from_ok R (C : RClone R) `{!CloneFromOK C} : forall s d, cols_clone_from C d s = s.
Proof.
  induction s as [|x s IH]; intros [|y d]; cbn; try reflexivity. now rewrite IH, (@clone_from_ok R C _).
Qed.
#[export] Instance columns_clone_ok R (O : IC nat) chk (C : RClone R) `{!CloneFromOK C} : CloneFromOK (columns_clone O chk C).
Proof.
  intros [d1 d2] [s1 s2]. cbn [r_clone_from columns_clone fst snd].
  rewrite cols_clone_from_ok by assumption.
  pose proof (@consec_clone_ok (owned (idx R)) _ O chk (owned_clone (idx R)) (@owned_clone_ok (idx R))) as HC.
  now rewrite (HC d2 s2).
Qed.
