(** [SliceRegion<R, O>]: slices of inner indices kept in an index container [O]. *)
From FC Require Import Base.Res Index.IC Region.Region.
Set Implicit Arguments.

Section Slice.
  Variable R : Region.
  Variable O : IC (idx R).

  (** the indices at positions [a, a+n) of the container, as [ReadSliceIterInner] fetches them *)
  Fixpoint ic_range (so : ic_st O) (a n : nat) : res (list (idx R)) :=
    match n with
    | 0 => Ok []
    | S n => let* i := ic_index O so a in let* is := ic_range so (S a) n in Ok (i :: is)
    end.

  Definition slice : Region := {|
    val := list (val R); idx := nat * nat; st := ic_st O * st R;
    dflt := (ic_default O, dflt R);
    push := fun x v =>
      let* '(sr', is) := push_all R (snd x) v in
      let so' := fold_left (ic_push O) is (fst x) in
      Ok ((so', sr'), (ic_len O (fst x), ic_len O so'));
    read := fun x i =>
      let* is := ic_range (fst x) (fst i) (snd i - fst i) in mapM (read R (snd x)) is;
    clear := fun x => (ic_clear O (fst x), clear R (snd x));
    merge := fun l => (ic_default O, merge R (map snd l));
  |}.
End Slice.

Lemma ic_range_spec R (O : IC (idx R)) `{ICOk _ O} so n : forall a, ic_inv so ->
  a + n <= length (ic_abs so) -> ic_range R O so a n = Ok (firstn n (skipn a (ic_abs so))).
Proof.
  induction n as [|n IH]; intros a Hi Ha; simpl; [reflexivity|].
  rewrite abs_index by assumption.
  destruct (nth_error (ic_abs so) a) as [x|] eqn:E.
  - cbn [bind]. rewrite IH by (assumption || lia). cbn [bind].
    rewrite (skipn_nth_error _ _ E). reflexivity.
  - apply nth_error_None in E. lia.
Qed.

#[export] Instance slice_spec R (O : IC (idx R)) `{RSpec R} `{ICOk _ O} : RSpec (slice R O) :=
  @Build_RSpec (slice R O)
    (fun x : ic_st O * st R => ic_inv (fst x) /\ inv (snd x) /\ Forall (valid (snd x)) (ic_abs (fst x)))
    (fun (x : ic_st O * st R) (i : nat * nat) => fst i <= snd i <= length (ic_abs (fst x)))
    (fun (x : ic_st O * st R) (vs : list (val R)) => Forall (dom (snd x)) vs)
    (fun x y : ic_st O * st R => ic_abs (fst x) = ic_abs (fst y) /\ sim (snd x) (snd y))
    (fun l : list (ic_st O * st R) => mergeable (map snd l)).

#[export] Instance slice_ok R (O : IC (idx R)) `{RegionOK R} `{ICOk _ O} : RegionOK (slice R O).
Proof.
  pose proof (@ic_range_spec R O _) as RS.
  constructor.
  - cbn. split; [apply inv_default|]. split; [apply inv_dflt|]. rewrite abs_default. constructor.
  - (* push_safe *)
    intros [so sr] vs [so' sr'] i (Hio & Hi & Hall). cbn [fst snd inv valid dom slice_spec push slice] in *.
    destruct (push_all R sr vs) as [[sr1 is]|] eqn:E; cbn [bind]; [|discriminate].
    intros Hp; inversion Hp; subst. clear Hp.
    destruct (@push_all_safe R _ _ vs sr _ _ Hi E) as (Hi' & Hv' & Hf & Hds & Hlen).
    destruct (@push_all_ic _ O _ is so Hio) as [Hio' Habs].
    cbn [fst snd]. split; [|split; [|split]].
    + split; [assumption|]. split; [assumption|]. rewrite Habs. apply Forall_app. split; [|assumption].
      rewrite Forall_forall in *. intros x Hx. apply Hf; auto.
    + rewrite !abs_len, Habs, app_length by assumption. lia.
    + intros [a b] [Hab Hb]. cbn [fst snd read slice valid slice_spec] in *. split; [rewrite Habs, app_length; lia|].
      rewrite !RS by (try assumption; rewrite ?Habs, ?app_length; lia). cbn [bind].
      rewrite Habs, skipn_app, firstn_app.
      replace (b - a - length (skipn a (ic_abs so))) with 0 by (rewrite skipn_length; lia).
      simpl firstn at 2. rewrite app_nil_r.
      apply (@mapM_read_frame R _ sr sr'); [assumption|].
      rewrite Forall_forall in *. intros x Hx. apply Hall.
      apply In_firstn_in in Hx. eapply In_skipn_in; eauto.
    + intros w. cbn [fst snd dom slice_spec].
      split; intros Hw; (eapply Forall_impl; [|exact Hw]); intros y Hy; apply (Hds y); exact Hy.
  - (* push_ok *)
    intros [so sr] vs (Hio & Hi & Hall) Hd. cbn [fst snd inv valid dom slice_spec push slice] in *.
    destruct (@push_all_ok R _ _ vs sr Hi Hd) as (sr' & is & Hp & Hr').
    rewrite Hp. cbn [bind].
    destruct (@push_all_safe R _ _ vs sr _ _ Hi Hp) as (Hi' & Hv' & Hf & Hds & Hlen).
    destruct (@push_all_ic _ O _ is so Hio) as [Hio' Habs].
    eexists _, _. split; [reflexivity|]. cbn [fst snd read slice].
    rewrite !abs_len, Habs, app_length by assumption.
    replace (length (ic_abs so) + length is - length (ic_abs so)) with (length is) by lia.
    rewrite RS by (try assumption; rewrite Habs, app_length; lia). cbn [bind].
    rewrite Habs, skipn_app, skipn_all, Nat.sub_diag. simpl skipn. rewrite app_nil_l.
    rewrite firstn_all. assumption.
  - intros [so sr] [a b] (Hio & Hi & Hall) [Hab Hb]. cbn [fst snd inv valid slice_spec read slice] in *.
    rewrite RS by (assumption || lia). cbn [bind].
    apply (@mapM_read_ok R _ _); [assumption|].
    rewrite Forall_forall in *. intros x Hx. apply Hall. apply In_firstn_in in Hx. eapply In_skipn_in; eauto.
  - intros [so sr] (Hio & Hi & Hall). cbn [fst snd inv sim slice_spec clear slice dflt] in *. split.
    + split; [apply inv_clear|]. split; [apply clear_ok; assumption|]. rewrite abs_clear. constructor.
    + rewrite abs_clear, abs_default. split; [reflexivity|apply clear_ok; assumption].
  - intros l Hl Hm. cbn. split; [apply inv_default|]. split.
    + apply merge_inv; [|exact Hm]. rewrite Forall_forall in *. intros y Hy. apply in_map_iff in Hy.
      destruct Hy as (x & <- & Hx). apply (Hl x Hx).
    + rewrite abs_default. constructor.
  - intros [so sr]. cbn. split; [reflexivity|apply sim_refl].
  - intros [so sr] [to tr] [H1 H2]. cbn in *. split; [congruence|apply sim_sym; assumption].
  - intros [so sr] [to tr] [uo ur] [H1 H2] [H3 H4]. cbn in *. split; [congruence|eapply sim_trans; eauto].
  - intros [so sr] [to tr] [H1 H2] w. cbn [fst snd dom slice_spec] in *.
    split; intros Hw; (eapply Forall_impl; [|exact Hw]); intros y Hy; apply (@sim_dom R _ _ sr tr H2 y); exact Hy.
  - intros [so sr] [to tr] vs [so' sr'] i (Hio & Hi & Hall) (Hto & Hti & Htall) [Habs Hsim].
    cbn [fst snd inv sim slice_spec push slice] in *.
    destruct (push_all R sr vs) as [[sr1 is]|] eqn:E; cbn [bind]; [|discriminate].
    intros Hp; inversion Hp; subst. clear Hp.
    destruct (@push_all_sim R _ _ vs sr tr _ _ Hi Hti Hsim E) as (tr' & Hq & Hs').
    rewrite Hq. cbn [bind]. eexists. split.
    + rewrite !abs_len by (try assumption; apply push_all_ic; assumption).
      rewrite (proj2 (@push_all_ic _ O _ is so Hio)), (proj2 (@push_all_ic _ O _ is to Hto)), Habs. reflexivity.
    + cbn [fst snd]. split; [|assumption].
      rewrite (proj2 (@push_all_ic _ O _ is so Hio)), (proj2 (@push_all_ic _ O _ is to Hto)), Habs. reflexivity.
  - intros [so sr] [to tr] [a b] (Hio & Hi & Hall) (Hto & Hti & Htall) [Habs Hsim] [Hab Hb].
    cbn [fst snd inv valid sim slice_spec read slice] in *.
    split; [rewrite <- Habs; lia|].
    rewrite !RS by (try assumption; rewrite <- ?Habs; lia). cbn [bind]. rewrite <- Habs.
    apply mapM_ext_in. intros x Hx.
    apply sim_read; auto.
    rewrite Forall_forall in Hall. apply Hall. apply In_firstn_in in Hx. eapply In_skipn_in; eauto.
Qed.

#[export] Instance slice_merge_fresh R (O : IC (idx R)) `{RegionOK R} `{!MergeFresh R} `{ICOk _ O} :
  MergeFresh (slice R O).
Proof.
  intros l Hl. cbn. split; [reflexivity|]. apply merge_fresh.
  rewrite Forall_forall in *. intros y Hy. apply in_map_iff in Hy.
  destruct Hy as (x & <- & Hx). apply (Hl x Hx).
Qed.
