(** Laws of the read-item layer (C13, C14, C20), proved per combinator.

    [iwf x]: the read item is well formed -- a region-backed item points at valid indices of a
    region satisfying its invariant; an item borrowed from an owned value always is.
    The laws tie items to the core: [index] yields a well-formed item that denotes ([own]) what
    [read] returns; [borrow] denotes its argument; [clone_onto] leaves the denoted value whatever
    the target held; pushing an item is pushing the value it denotes. *)
From FC Require Import Base.Res Index.IC Region.Region Region.Owned Region.Simple Region.Slice
  Region.Collapse Region.Consec Region.Columns Region.Items.
Set Implicit Arguments.

Class ISpec (R : Region) (I : Items R) := { iwf : item I -> Prop }.

Class ItemsOK (R : Region) {SP : RSpec R} (I : Items R) {IS : ISpec I} : Prop := {
  index_ok : forall s i, inv s -> valid s i ->
     exists x, index I s i = Ok x /\ iwf x /\ own I x = read R s i;
  borrow_ok : forall v, iwf (borrow I v) /\ own I (borrow I v) = Ok v;
  own_total : forall x, iwf x -> exists v, own I x = Ok v;
  clone_onto_ok : forall x v t, iwf x -> own I x = Ok v -> clone_onto I x t = Ok v;
  push_item_ok : forall s x v, iwf x -> own I x = Ok v -> push_item I s x = push R s v;
}.
Arguments ItemsOK R {SP} I {IS}.

(** * leaves *)
#[export] Instance owned_ispec T : ISpec (owned_items T) := @Build_ISpec (owned T) (owned_items T) (fun _ => True).
#[export] Instance owned_items_ok T : ItemsOK (owned T) (owned_items T).
Proof.
  constructor; cbn.
  - intros s i _ Hv. destruct (@valid_reads (owned T) (owned_spec T) (owned_ok T) s i Logic.I Hv) as (w & Hw).
    cbn in Hw. exists w. rewrite Hw. auto.
  - auto.
  - intros x _. eauto.
  - intros x v t _ H. exact H.
  - intros s x v _ H. inversion H; reflexivity.
Qed.

#[export] Instance mirror_ispec T : ISpec (mirror_items T) := @Build_ISpec (mirror T) (mirror_items T) (fun _ => True).
#[export] Instance mirror_items_ok T : ItemsOK (mirror T) (mirror_items T).
Proof.
  constructor; cbn.
  - intros s i _ _. eauto.
  - auto.
  - intros x _. eauto.
  - intros x v t _ H. exact H.
  - intros s x v _ H. inversion H; reflexivity.
Qed.

#[export] Instance vec_region_ispec T : ISpec (vec_region_items T) := @Build_ISpec (vec_region T) (vec_region_items T) (fun _ => True).
#[export] Instance vec_region_items_ok T : ItemsOK (vec_region T) (vec_region_items T).
Proof.
  constructor; cbn.
  - intros s i _ Hv. destruct (@valid_reads (vec_region T) (vec_region_spec T) (vec_region_ok T) s i Logic.I Hv) as (w & Hw).
    cbn in Hw. destruct (nth_error s i); [|discriminate]. eauto.
  - auto.
  - intros x _. eauto.
  - intros x v t _ H. exact H.
  - intros s x v _ H. inversion H; reflexivity.
Qed.

(** * StringRegion: the inner region's items *)
#[export] Instance string_ispec R (I : Items R) {IS : ISpec I} : ISpec (string_items I) :=
  @Build_ISpec (string_region R) (string_items I) (@iwf R I IS).
#[export] Instance string_items_ok R wf `{RSpec R} (I : Items R) {IS : ISpec I} `{!ItemsOK R I} :
  @ItemsOK (string_region R) (@string_spec R wf _) (string_items I) _.
Proof.
  constructor; cbn.
  - apply (@index_ok R _ I _ _).
  - apply (@borrow_ok R _ I _ _).
  - apply (@own_total R _ I _ _).
  - apply (@clone_onto_ok R _ I _ _).
  - apply (@push_item_ok R _ I _ _).
Qed.

(** * OptionRegion *)
#[export] Instance option_ispec R (I : Items R) {IS : ISpec I} : ISpec (option_items I) :=
  @Build_ISpec (option_region R) (option_items I)
    (fun x : option (item I) => match x with None => True | Some y => iwf y end).
#[export] Instance option_items_ok R `{RSpec R} (I : Items R) {IS : ISpec I} `{!ItemsOK R I} :
  ItemsOK (option_region R) (option_items I).
Proof.
  constructor.
  - intros s [j|] Hs Hv; cbn in *.
    + destruct (@index_ok R _ I _ _ s j Hs Hv) as (x & -> & Hw & Ho). cbn [bind].
      exists (Some x). cbn. rewrite Ho. auto.
    + exists None. auto.
  - intros [v|]; cbn; [|auto]. destruct (@borrow_ok R _ I _ _ v) as [Hw ->]. auto.
  - intros [y|] Hw; cbn in *; [|eauto]. destruct (@own_total R _ I _ _ y Hw) as (v & ->). cbn. eauto.
  - intros [y|] v t Hw Ho; cbn in *.
    + destruct (own I y) as [w|] eqn:E; cbn in Ho; [|discriminate]. inversion Ho; subst.
      destruct t as [u|]; [|reflexivity].
      rewrite (@clone_onto_ok R _ I _ _ y w u Hw E). reflexivity.
    + exact Ho.
  - intros s [y|] v Hw Ho; cbn in *.
    + destruct (own I y) as [w|] eqn:E; cbn in Ho; [|discriminate]. inversion Ho; subst.
      rewrite (@push_item_ok R _ I _ _ s y w Hw E). reflexivity.
    + inversion Ho; subst. reflexivity.
Qed.

(** * ResultRegion *)
#[export] Instance result_ispec A B (IA : Items A) (IB : Items B) {SA : ISpec IA} {SB : ISpec IB} :
  ISpec (result_items IA IB) :=
  @Build_ISpec (result_region A B) (result_items IA IB)
    (fun x : item IA + item IB => match x with inl a => iwf a | inr b => iwf b end).
#[export] Instance result_items_ok A B `{RSpec A} `{RSpec B} (IA : Items A) (IB : Items B)
  {SA : ISpec IA} {SB : ISpec IB} `{!ItemsOK A IA} `{!ItemsOK B IB} :
  ItemsOK (result_region A B) (result_items IA IB).
Proof.
  constructor.
  - intros [sa sb] [j|j] Hs Hv; cbn in *.
    + destruct (@index_ok A _ IA _ _ sa j (proj1 Hs) Hv) as (x & -> & Hw & Ho). cbn [bind].
      exists (inl x). cbn. rewrite Ho. auto.
    + destruct (@index_ok B _ IB _ _ sb j (proj2 Hs) Hv) as (x & -> & Hw & Ho). cbn [bind].
      exists (inr x). cbn. rewrite Ho. auto.
  - intros [v|v]; cbn.
    + destruct (@borrow_ok A _ IA _ _ v) as [Hw ->]. auto.
    + destruct (@borrow_ok B _ IB _ _ v) as [Hw ->]. auto.
  - intros [y|y] Hw; cbn in *.
    + destruct (@own_total A _ IA _ _ y Hw) as (v & ->). cbn. eauto.
    + destruct (@own_total B _ IB _ _ y Hw) as (v & ->). cbn. eauto.
  - intros [y|y] v t Hw Ho; cbn in *.
    + destruct (own IA y) as [w|] eqn:E; cbn in Ho; [|discriminate]. inversion Ho; subst.
      destruct t as [u|u]; [|reflexivity].
      rewrite (@clone_onto_ok A _ IA _ _ y w u Hw E). reflexivity.
    + destruct (own IB y) as [w|] eqn:E; cbn in Ho; [|discriminate]. inversion Ho; subst.
      destruct t as [u|u]; [reflexivity|].
      rewrite (@clone_onto_ok B _ IB _ _ y w u Hw E). reflexivity.
  - intros [sa sb] [y|y] v Hw Ho; cbn in *.
    + destruct (own IA y) as [w|] eqn:E; cbn in Ho; [|discriminate]. inversion Ho; subst.
      rewrite (@push_item_ok A _ IA _ _ sa y w Hw E). reflexivity.
    + destruct (own IB y) as [w|] eqn:E; cbn in Ho; [|discriminate]. inversion Ho; subst.
      rewrite (@push_item_ok B _ IB _ _ sb y w Hw E). reflexivity.
Qed.

(** * tuples *)
#[export] Instance tuple2_ispec A B (IA : Items A) (IB : Items B) {SA : ISpec IA} {SB : ISpec IB} :
  ISpec (tuple2_items IA IB) :=
  @Build_ISpec (tuple2 A B) (tuple2_items IA IB) (fun x : item IA * item IB => iwf (fst x) /\ iwf (snd x)).
#[export] Instance tuple2_items_ok A B `{RSpec A} `{RSpec B} (IA : Items A) (IB : Items B)
  {SA : ISpec IA} {SB : ISpec IB} `{!ItemsOK A IA} `{!ItemsOK B IB} :
  ItemsOK (tuple2 A B) (tuple2_items IA IB).
Proof.
  constructor.
  - intros [sa sb] [i j] [Ha Hb] [Hva Hvb]; cbn in *.
    destruct (@index_ok A _ IA _ _ sa i Ha Hva) as (x & -> & Hwx & Hox).
    destruct (@index_ok B _ IB _ _ sb j Hb Hvb) as (y & -> & Hwy & Hoy). cbn [bind].
    exists (x, y). cbn. rewrite Hox, Hoy. auto.
  - intros [a b]; cbn.
    destruct (@borrow_ok A _ IA _ _ a) as [Hwa ->]. destruct (@borrow_ok B _ IB _ _ b) as [Hwb ->]. auto.
  - intros [x y] [Hx Hy]; cbn in *.
    destruct (@own_total A _ IA _ _ x Hx) as (v & ->). destruct (@own_total B _ IB _ _ y Hy) as (w & ->).
    cbn. eauto.
  - intros [x y] v [ta tb] [Hx Hy] Ho; cbn in *.
    destruct (own IA x) as [a|] eqn:Ea; cbn in Ho; [|discriminate].
    destruct (own IB y) as [b|] eqn:Eb; cbn in Ho; [|discriminate]. inversion Ho; subst.
    rewrite (@clone_onto_ok A _ IA _ _ x a ta Hx Ea), (@clone_onto_ok B _ IB _ _ y b tb Hy Eb). reflexivity.
  - intros [sa sb] [x y] v [Hx Hy] Ho; cbn in *.
    destruct (own IA x) as [a|] eqn:Ea; cbn in Ho; [|discriminate].
    destruct (own IB y) as [b|] eqn:Eb; cbn in Ho; [|discriminate]. inversion Ho; subst.
    rewrite (@push_item_ok A _ IA _ _ sa x a Hx Ea), (@push_item_ok B _ IB _ _ sb y b Hy Eb). reflexivity.
Qed.

(** * CollapseSequence *)
#[export] Instance collapse_ispec R veq (I : Items R) {IS : ISpec I} : ISpec (collapse_items veq I) :=
  @Build_ISpec (collapse R veq) (collapse_items veq I) (@iwf R I IS).
#[export] Instance collapse_items_ok R veq `{RSpec R} (I : Items R) {IS : ISpec I} `{!ItemsOK R I} :
  ItemsOK (collapse R veq) (collapse_items veq I).
Proof.
  constructor; cbn.
  - intros [s l] i [Hs _] Hv. apply (@index_ok R _ I _ _ s i Hs Hv).
  - apply (@borrow_ok R _ I _ _).
  - apply (@own_total R _ I _ _).
  - apply (@clone_onto_ok R _ I _ _).
  - intros [s l] x v Hw Ho. cbn [fst snd].
    rewrite (@push_item_ok R _ I _ _ s x v Hw Ho), Ho.
    destruct l as [j|]; [|reflexivity].
    destruct (read R s j); reflexivity.
Qed.

(** * ConsecutiveIndexPairs *)
#[export] Instance consec_ispec R {PI : PairIdx R} (O : IC nat) chk (I : Items R) {IS : ISpec I} :
  ISpec (consec_items O chk I) := @Build_ISpec (consec R O chk) (consec_items O chk I) (@iwf R I IS).
#[export] Instance consec_items_ok R `{RegionOK R} {PI : PairIdx R} `{!Dense R} (O : IC nat) `{ICOk _ O} chk
  (I : Items R) {IS : ISpec I} `{!ItemsOK R I} :
  ItemsOK (consec R O chk) (consec_items O chk I).
Proof.
  constructor; cbn.
  - intros [[s o] lst] k (Hs & Ho & Hlst & offs & Hoffs & Hlast & Hall) Hv. cbn [fst snd] in *.
    rewrite !abs_index by assumption. rewrite Hoffs in *.
    destruct (nth_error (0 :: offs) k) as [a|] eqn:Ea; [|apply nth_error_None in Ea; lia].
    destruct (nth_error (0 :: offs) (S k)) as [b|] eqn:Eb; [|apply nth_error_None in Eb; lia].
    cbn [bind]. apply (@index_ok R _ I _ _ s _ Hs (Hall k a b Ea Eb)).
  - apply (@borrow_ok R _ I _ _).
  - apply (@own_total R _ I _ _).
  - apply (@clone_onto_ok R _ I _ _).
  - intros [[s o] lst] x v Hw Ho.
    rewrite (@push_item_ok R _ I _ _ s x v Hw Ho). reflexivity.
Qed.

(** * sequence helpers *)
Section SeqLemmas.
  Variable R : Region.
  Context `{RSpec R}.
  Variable I : Items R.
  Context {IS : ISpec I} `{!ItemsOK R I}.

  (** [denote xs vs]: the items are well formed and denote the values, pointwise *)
  Definition denote (xs : list (item I)) (vs : list (val R)) : Prop :=
    Forall2 (fun x v => iwf x /\ own I x = Ok v) xs vs.

  Lemma denote_length xs vs : denote xs vs -> length xs = length vs.
  Proof. induction 1; simpl; congruence. Qed.

  Lemma denote_own xs vs : denote xs vs -> mapM (own I) xs = Ok vs.
  Proof.
    induction 1 as [|x v xs vs [_ Hx] _ IH]; [reflexivity|]. cbn [mapM]. rewrite Hx. cbn [bind].
    rewrite IH. reflexivity.
  Qed.

  Lemma denote_borrow vs : denote (map (borrow I) vs) vs.
  Proof. induction vs as [|v vs IH]; constructor; [apply (@borrow_ok R _ I _ _ v)|exact IH]. Qed.

  Lemma denote_nth xs vs k v : denote xs vs -> nth_error vs k = Some v ->
    exists x, nth_error xs k = Some x /\ iwf x /\ own I x = Ok v.
  Proof.
    intros Hd. revert k. induction Hd as [|x w xs vs Hx _ IH]; intros [|k] Hk; cbn in *; try discriminate.
    - inversion Hk; subst. eauto.
    - apply IH; assumption.
  Qed.

  Lemma denote_skipn xs vs n : denote xs vs -> denote (skipn n xs) (skipn n vs).
  Proof.
    intros Hd. revert n. induction Hd; intros [|n]; cbn; try constructor; auto.
  Qed.

  Lemma zip_clone_onto_spec xs vs : denote xs vs -> forall ts,
    zip_clone_onto I xs ts = Ok (firstn (length ts) vs).
  Proof.
    induction 1 as [|x v xs vs [Hw Hx] _ IH]; intros [|t ts]; cbn; try reflexivity.
    rewrite (@clone_onto_ok R _ I _ _ x v t Hw Hx). cbn [bind]. rewrite IH. reflexivity.
  Qed.

  Lemma seq_clone_onto_spec xs vs ts : denote xs vs -> seq_clone_onto I xs ts = Ok vs.
  Proof.
    intros Hd. unfold seq_clone_onto. pose proof (denote_length Hd) as Hl.
    rewrite (zip_clone_onto_spec Hd). cbn [bind].
    rewrite (denote_own (denote_skipn (Nat.min (length xs) (length ts)) Hd)). cbn [bind]. f_equal.
    rewrite Hl. destruct (Nat.le_ge_cases (length vs) (length ts)) as [Hle|Hge].
    - rewrite Nat.min_l by assumption. rewrite (firstn_all2 vs) by assumption.
      rewrite skipn_all. rewrite app_nil_r. rewrite firstn_app, firstn_all, Nat.sub_diag. cbn. apply app_nil_r.
    - rewrite Nat.min_r by assumption. rewrite (skipn_all ts), app_nil_r.
      rewrite firstn_skipn. apply firstn_all.
  Qed.
End SeqLemmas.

(** * SliceRegion *)
Section SliceOK.
  Variable R : Region.
  Context `{RegionOK R}.
  Variable O : IC (idx R).
  Context `{ICOk _ O}.
  Variable I : Items R.
  Context {IS : ISpec I} `{!ItemsOK R I}.
  Local Notation SR := (slice R O).

  Definition rs_wf (x : rslice R O) : Prop :=
    match x with
    | RS_region s a b => @inv SR _ s /\ a <= b <= length (ic_abs (fst s))
    | RS_owned l => True
    end.
  #[export] Instance slice_ispec : ISpec (slice_items O I) := @Build_ISpec SR (slice_items O I) rs_wf.

  Lemma rs_iter_region_spec (s : st SR) n : forall a, @inv SR _ s -> a + n <= length (ic_abs (fst s)) ->
    exists xs vs, rs_iter_region I s a n = Ok xs /\ denote xs vs /\
                  mapM (read R (snd s)) (firstn n (skipn a (ic_abs (fst s)))) = Ok vs.
  Proof.
    destruct s as [so sr]. cbn [fst snd]. induction n as [|n IH]; intros a Hs Ha.
    - exists [], []. cbn. repeat split; constructor.
    - destruct Hs as (Hio & Hi & Hall). cbn [fst snd] in *.
      cbn [rs_iter_region fst snd]. rewrite abs_index by assumption.
      destruct (nth_error (ic_abs so) a) as [i|] eqn:E; [|apply nth_error_None in E; lia].
      cbn [bind]. rewrite (skipn_nth_error _ _ E). cbn [firstn mapM].
      assert (Hvi : valid sr i).
      { rewrite Forall_forall in Hall. apply Hall. eapply nth_error_In; eauto. }
      destruct (@index_ok R _ I _ _ sr i Hi Hvi) as (x & -> & Hwx & Hox). cbn [bind].
      destruct (@valid_reads R _ _ sr i Hi Hvi) as (w & Hw).
      destruct (IH (S a)) as (xs & vs & -> & Hd & Hm); [repeat split; assumption|lia|].
      cbn [bind]. exists (x :: xs), (w :: vs). split; [reflexivity|]. split.
      + constructor; [|assumption]. split; [assumption|congruence].
      + rewrite Hw. cbn [bind]. rewrite Hm. reflexivity.
  Qed.

  (** what a well-formed slice item denotes, and that every accessor agrees with it (C13) *)
  Theorem rs_accessors (x : rslice R O) : rs_wf x ->
    exists xs vs, rs_iter I x = Ok xs /\ denote xs vs /\ own (slice_items O I) x = Ok vs /\
      rs_len x = Ok (length vs) /\
      rs_is_empty x = Ok (match vs with [] => true | _ => false end) /\
      (forall k, k < length vs -> exists y v, rs_get I x k = Ok y /\ nth_error xs k = Some y /\
                                             nth_error vs k = Some v /\ iwf y /\ own I y = Ok v) /\
      (forall k, length vs <= k -> rs_get I x k = Panic).
  Proof.
    destruct x as [s a b|l]; cbn [rs_wf].
    - intros [Hs [Hab Hb]].
      destruct (@rs_iter_region_spec s (b - a) a Hs) as (xs & vs & Hit & Hd & Hm); [lia|].
      exists xs, vs. pose proof (denote_length Hd) as Hl.
      assert (Hlen : length vs = b - a).
      { apply mapM_length in Hm. rewrite Hm, firstn_length, skipn_length. lia. }
      cbn [rs_iter own slice_items]. rewrite Hit. cbn [bind]. rewrite (denote_own Hd).
      split; [reflexivity|]. split; [assumption|]. split; [reflexivity|].
      cbn [rs_len rs_is_empty rs_get].
      destruct (Nat.ltb_spec b a); [lia|]. split; [rewrite Hlen; reflexivity|]. split.
      { f_equal. destruct vs; cbn in Hlen; destruct (Nat.eqb_spec a b); try reflexivity; lia. }
      split.
      + intros k Hk. destruct (Nat.ltb_spec k (b - a)); [|lia].
        destruct (nth_error vs k) as [v|] eqn:Ev; [|apply nth_error_None in Ev; lia].
        destruct (denote_nth k Hd Ev) as (y & Hy & Hwy & Hoy).
        exists y, v. split; [|auto].
        (* the k-th fetched item is exactly what [get] fetches *)
        clear - Hit Hy. destruct s as [so sr]. cbn [fst snd] in *.
        remember (b - a) as n eqn:Hn. clear Hn.
        revert a xs k Hit Hy. induction n as [|n IH]; intros a xs k Hit Hy.
        * cbn in Hit. inversion Hit; subst. destruct k; discriminate.
        * cbn [rs_iter_region fst snd] in Hit.
          destruct (ic_index O so a) as [i|] eqn:Ei; cbn [bind] in Hit; [|discriminate].
          destruct (index I sr i) as [x0|] eqn:Ex; cbn [bind] in Hit; [|discriminate].
          destruct (rs_iter_region I (so, sr) (S a) n) as [xs'|] eqn:Er; cbn [bind] in Hit; [|discriminate].
          inversion Hit; subst. destruct k as [|k]; cbn in Hy.
          -- inversion Hy; subst. rewrite Nat.add_0_r, Ei. cbn [bind]. exact Ex.
          -- replace (a + S k) with (S a + k) by lia. eapply IH; eauto.
      + intros k Hk. destruct (Nat.ltb_spec k (b - a)); [lia|reflexivity].
    - intros _. exists (map (borrow I) l), l.
      cbn [rs_iter own slice_items rs_len rs_is_empty rs_get bind].
      pose proof (@denote_borrow R _ I _ _ l) as Hd.
      split; [reflexivity|]. split; [exact Hd|]. split; [exact (denote_own Hd)|].
      split; [reflexivity|]. split; [reflexivity|]. split.
      + intros k Hk. destruct (nth_error l k) as [v|] eqn:Ev; [|apply nth_error_None in Ev; lia].
        exists (borrow I v), v. rewrite nth_error_map, Ev. cbn.
        destruct (@borrow_ok R _ I _ _ v). auto.
      + intros k Hk. destruct (nth_error l k) eqn:Ev; [|reflexivity].
        assert (k < length l) by (apply nth_error_Some; congruence). lia.
  Qed.

  Lemma push_items_each_spec xs vs : denote xs vs -> forall x : st SR,
    push_items_each I x xs =
    (let* '(sr', is) := push_all R (snd x) vs in Ok (fold_left (ic_push O) is (fst x), sr')).
  Proof.
    induction 1 as [|it v xs vs [Hw Ho] _ IH]; intros [so sr]; cbn [push_items_each push_all fst snd bind].
    - reflexivity.
    - rewrite (@push_item_ok R _ I _ _ sr it v Hw Ho).
      destruct (push R sr v) as [[s1 i]|]; cbn [bind]; [|reflexivity].
      rewrite IH. cbn [fst snd].
      destruct (push_all R s1 vs) as [[s2 is]|]; cbn [bind]; reflexivity.
  Qed.

  Lemma push_from_region_spec (src : st SR) n : forall a xs (x : st SR),
    rs_iter_region I src a n = Ok xs -> push_from_region I x src a n = push_items_each I x xs.
  Proof.
    induction n as [|n IH]; intros a xs x Hit; cbn [rs_iter_region push_from_region] in *.
    - inversion Hit; subst. reflexivity.
    - destruct (ic_index O (fst src) a) as [i|]; cbn [bind] in *; [|discriminate].
      destruct (index I (snd src) i) as [it|]; cbn [bind] in *; [|discriminate].
      destruct (rs_iter_region I src (S a) n) as [xs'|] eqn:Er; cbn [bind] in *; [|discriminate].
      inversion Hit; subst. cbn [push_items_each].
      destruct (push_item I (snd x) it) as [[sr' j]|]; cbn [bind]; [|reflexivity].
      apply IH. exact Er.
  Qed.

  #[export] Instance slice_items_ok : ItemsOK SR (slice_items O I).
  Proof.
    constructor.
    - intros s [a b] Hs Hv. cbn [index slice_items fst snd]. exists (RS_region s a b).
      split; [reflexivity|]. split; [split; assumption|].
      cbn in Hv. destruct Hv as [Hab Hb].
      destruct (@rs_iter_region_spec s (b - a) a Hs) as (xs & vs & Hit & Hd & Hm); [lia|].
      cbn [own slice_items rs_iter bind read slice fst snd]. rewrite Hit. cbn [bind].
      rewrite (denote_own Hd).
      destruct Hs as (Hio & _). rewrite (@ic_range_spec R O _ (fst s) (b - a) a Hio) by lia.
      cbn [bind]. symmetry. exact Hm.
    - intros v. split; [exact Logic.I|].
      destruct (@rs_accessors (RS_owned v) Logic.I) as (xs & vs & Hit & Hd & Ho & _).
      cbn [rs_iter] in Hit. inversion Hit; subst.
      pose proof (denote_own Hd) as E1. pose proof (denote_own (@denote_borrow R _ I _ _ v)) as E2.
      rewrite E1 in E2. inversion E2; subst. exact Ho.
    - intros x Hw. destruct (@rs_accessors x Hw) as (xs & vs & _ & _ & Ho & _). eauto.
    - intros x v t Hw Ho. destruct (@rs_accessors x Hw) as (xs & vs & Hit & Hd & Ho' & _).
      rewrite Ho in Ho'. inversion Ho'; subst.
      cbn [clone_onto slice_items]. rewrite Hit. cbn [bind]. apply (seq_clone_onto_spec t Hd).
    - intros x it v Hw Ho. destruct (@rs_accessors it Hw) as (xs & vs & Hit & Hd & Ho' & _).
      rewrite Ho in Ho'. inversion Ho'; subst.
      cbn [push_item slice_items push slice].
      assert (E : match it with
                  | RS_region src a b => push_from_region I x src a (b - a)
                  | RS_owned l => push_items_each I x (map (borrow I) l)
                  end = push_items_each I x xs).
      { destruct it as [src a b|l]; cbn [rs_iter] in Hit.
        - apply push_from_region_spec. exact Hit.
        - inversion Hit; subst. reflexivity. }
      rewrite E, (push_items_each_spec Hd).
      destruct (push_all R (snd x) vs) as [[sr' is]|]; cbn [bind fst snd]; reflexivity.
  Qed.
End SliceOK.

(** * ColumnsRegion *)
Section ColumnsOK.
  Variable R : Region.
  Context `{RegionOK R}.
  Variable O : IC nat.
  Context `{ICOk _ O}.
  Variable chk : bool.
  Variable I : Items R.
  Context {IS : ISpec I} `{!ItemsOK R I}.
  Local Notation CR := (columns R O chk).
  Local Notation rowsR := (consec (owned (idx R)) O chk).
  Local Notation coln := (coln R).

  Definition rc_wf (x : rcols R) : Prop :=
    match x with
    | RC_region cols is => (forall j, inv (coln cols j)) /\ row_ok cols is
    | RC_owned l => True
    end.
  #[export] Instance columns_ispec : ISpec (columns_items O chk I) :=
    @Build_ISpec CR (columns_items O chk I) rc_wf.

  Lemma rc_zip_spec is : forall cols, (forall j, inv (coln cols j)) -> row_ok cols is ->
    exists xs vs, rc_zip I cols is = Ok xs /\ denote xs vs /\ zip_read R cols is = Ok vs /\
      length vs = length is /\
      forall k c i, nth_error cols k = Some c -> nth_error is k = Some i ->
                    exists y, index I c i = Ok y /\ nth_error xs k = Some y.
  Proof.
    induction is as [|i is IH]; intros cols Hinv Hr.
    - exists [], []. destruct cols; cbn; repeat split; try constructor; intros [|k] c i; discriminate.
    - destruct cols as [|c0 cs]; [destruct Hr as [Hr _]; simpl in Hr; lia|].
      destruct (row_ok_tl Hr) as [Hv Hr'].
      destruct (@index_ok R _ I _ _ c0 i (Hinv 0) Hv) as (x & Hx & Hwx & Hox).
      destruct (valid_reads c0 i (Hinv 0) Hv) as (w & Hw).
      destruct (IH cs (fun j => Hinv (S j)) Hr') as (xs & vs & Hz & Hd & Hzr & Hl & Hn).
      exists (x :: xs), (w :: vs). cbn [rc_zip zip_read]. rewrite Hx, Hw. cbn [bind]. rewrite Hz, Hzr. cbn [bind].
      split; [reflexivity|]. split; [constructor; [split; [assumption|congruence]|assumption]|].
      split; [reflexivity|]. split; [simpl; congruence|].
      intros [|k] c j Hc Hj; cbn in *.
      + inversion Hc; inversion Hj; subst. eauto.
      + apply Hn; assumption.
  Qed.

  Theorem rc_accessors (x : rcols R) : rc_wf x ->
    exists xs vs, rc_iter I x = Ok xs /\ denote xs vs /\ own (columns_items O chk I) x = Ok vs /\
      rc_len x = length vs /\
      rc_is_empty x = (match vs with [] => true | _ => false end) /\
      (forall k, k < length vs -> exists y v, rc_get I x k = Ok y /\ nth_error xs k = Some y /\
                                             nth_error vs k = Some v /\ iwf y /\ own I y = Ok v) /\
      (forall k, length vs <= k -> rc_get I x k = Panic).
  Proof.
    destruct x as [cols is|l]; cbn [rc_wf].
    - intros [Hinv Hr].
      destruct (rc_zip_spec Hinv Hr) as (xs & vs & Hz & Hd & Hzr & Hl & Hn).
      exists xs, vs. cbn [rc_iter own columns_items rc_len rc_is_empty rc_get]. rewrite Hz. cbn [bind].
      rewrite (denote_own Hd).
      split; [reflexivity|]. split; [assumption|]. split; [reflexivity|]. split; [congruence|].
      split; [destruct vs, is; cbn in Hl; try reflexivity; discriminate|]. split.
      + intros k Hk.
        destruct (nth_error vs k) as [v|] eqn:Ev; [|apply nth_error_None in Ev; lia].
        destruct (denote_nth k Hd Ev) as (y & Hy & Hwy & Hoy).
        destruct (nth_error is k) as [i|] eqn:Ei; [|apply nth_error_None in Ei; lia].
        destruct Hr as [Hlen _].
        destruct (nth_error cols k) as [c|] eqn:Ec; [|apply nth_error_None in Ec; lia].
        destruct (Hn k c i Ec Ei) as (y' & Hy' & Hny'). rewrite Hy in Hny'. inversion Hny'; subst.
        exists y', v. auto.
      + intros k Hk. destruct (nth_error is k) eqn:Ei.
        * assert (k < length is) by (apply nth_error_Some; congruence). lia.
        * destruct (nth_error cols k); reflexivity.
    - intros _. exists (map (borrow I) l), l.
      cbn [rc_iter own columns_items rc_len rc_is_empty rc_get bind].
      pose proof (@denote_borrow R _ I _ _ l) as Hd.
      split; [reflexivity|]. split; [exact Hd|]. split; [exact (denote_own Hd)|].
      split; [reflexivity|]. split; [destruct l; reflexivity|]. split.
      + intros k Hk. destruct (nth_error l k) as [v|] eqn:Ev; [|apply nth_error_None in Ev; lia].
        exists (borrow I v), v. rewrite nth_error_map, Ev. cbn.
        destruct (@borrow_ok R _ I _ _ v). auto.
      + intros k Hk. destruct (nth_error l k) eqn:Ev; [|reflexivity].
        assert (k < length l) by (apply nth_error_Some; congruence). lia.
  Qed.

  Lemma push_cols_items_spec xs vs : denote xs vs -> forall cols,
    push_cols_items I cols xs = push_cols R cols vs.
  Proof.
    induction 1 as [|it v xs vs [Hw Ho] _ IH]; intros cols; cbn [push_cols_items push_cols]; [reflexivity|].
    rewrite (@push_item_ok R _ I _ _ (hd (dflt R) cols) it v Hw Ho).
    destruct (push R (hd (dflt R) cols) v) as [[c' i]|]; cbn [bind]; [|reflexivity].
    rewrite IH. reflexivity.
  Qed.

  Lemma push_cols_pad vs : forall cols,
    push_cols R (pad_cols R cols (length vs)) vs = push_cols R cols vs.
  Proof.
    unfold pad_cols. induction vs as [|v vs IH]; intros cols; cbn [length push_cols].
    - cbn. rewrite app_nil_r. reflexivity.
    - destruct cols as [|c cs]; cbn [length app hd tl].
      + cbn [Nat.sub repeat hd tl]. specialize (IH []). cbn [length app] in IH.
        rewrite Nat.sub_0_r in IH. rewrite IH. reflexivity.
      + cbn [Nat.sub]. rewrite IH. reflexivity.
  Qed.

  #[export] Instance columns_items_ok : ItemsOK CR (columns_items O chk I).
  Proof.
    constructor.
    - intros [cols rows] k (Hinv & Hrows & Hall) Hv. cbn [fst snd] in *.
      destruct (@valid_reads rowsR _ _ rows k Hrows Hv) as (is & His).
      cbn [index columns_items fst snd]. rewrite His. cbn [bind].
      exists (RC_region cols is). split; [reflexivity|].
      pose proof (Hall k is Hv His) as Hr. split; [split; assumption|].
      destruct (rc_zip_spec Hinv Hr) as (xs & vs & Hz & Hd & Hzr & _).
      cbn [own columns_items rc_iter read columns fst snd]. rewrite Hz, His. cbn [bind].
      rewrite (denote_own Hd). symmetry. exact Hzr.
    - intros v. split; [exact Logic.I|].
      cbn [borrow own columns_items rc_iter bind]. apply (denote_own (@denote_borrow R _ I _ _ v)).
    - intros x Hw. destruct (@rc_accessors x Hw) as (xs & vs & _ & _ & Ho & _). eauto.
    - intros x v t Hw Ho. destruct (@rc_accessors x Hw) as (xs & vs & Hit & Hd & Ho' & _).
      rewrite Ho in Ho'. inversion Ho'; subst.
      cbn [clone_onto columns_items]. rewrite Hit. cbn [bind]. apply (seq_clone_onto_spec t Hd).
    - intros x it v Hw Ho. destruct (@rc_accessors it Hw) as (xs & vs & Hit & Hd & Ho' & Hlen & _).
      rewrite Ho in Ho'. inversion Ho'; subst.
      cbn [push_item columns_items push columns]. rewrite Hit. cbn [bind].
      rewrite (push_cols_items_spec Hd), Hlen, push_cols_pad. reflexivity.
  Qed.
End ColumnsOK.
