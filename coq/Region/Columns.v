(** [ColumnsRegion<R, O>]: one inner region per column; each row is stored as the list of its
    per-column indices in a [ConsecutiveIndexPairs<OwnedRegion<R::Index>, O>].

    Columns are created on demand and kept by [clear], so observational equivalence compares the
    column lists padded with default regions. *)
From FC Require Import Base.Res Index.IC Region.Region Region.Owned Region.Consec.
Set Implicit Arguments.

Section Columns.
  Variable R : Region.
  Variable O : IC nat.
  Variable chk : bool.

  Local Notation rowsR := (consec (owned (idx R)) O chk).

  Definition coln (cols : list (st R)) (j : nat) : st R := nth j cols (dflt R).

  (** push the cells of a row into the first columns, creating columns as needed *)
  Fixpoint push_cols (cols : list (st R)) (vs : list (val R)) : res (list (st R) * list (idx R)) :=
    match vs with
    | [] => Ok (cols, [])
    | v :: vs' =>
      let* '(c', i) := push R (hd (dflt R) cols) v in
      let* '(rest', is) := push_cols (tl cols) vs' in
      Ok (c' :: rest', i :: is)
    end.

  (** [ReadColumnsIterInner]: zip the row's indices with the columns *)
  Fixpoint zip_read (cols : list (st R)) (is : list (idx R)) : res (list (val R)) :=
    match is, cols with
    | i :: is', c :: cols' => let* v := read R c i in let* vs := zip_read cols' is' in Ok (v :: vs)
    | _, _ => Ok []
    end.

  Definition merge_cols (l : list (list (st R))) : list (st R) :=
    let n := fold_right Nat.max 0 (map (@length _) l) in
    map (fun j => merge R (flat_map (fun cols => match nth_error cols j with Some c => [c] | None => [] end) l))
        (seq 0 n).

  Definition columns : Region := {|
    val := list (val R); idx := nat; st := list (st R) * st rowsR;
    dflt := ([], dflt rowsR);
    push := fun x vs =>
      let* '(cols', is) := push_cols (fst x) vs in
      let* '(rows', k) := push rowsR (snd x) is in
      Ok ((cols', rows'), k);
    read := fun x k => let* is := read rowsR (snd x) k in zip_read (fst x) is;
    clear := fun x => (map (clear R) (fst x), clear rowsR (snd x));
    merge := fun l => (merge_cols (map fst l), merge rowsR (map snd l));
  |}.
End Columns.

Section ColumnsOK.
  Variable R : Region.
  Context `{RegionOK R}.
  Variable O : IC nat.
  Context `{ICOk _ O}.
  Variable chk : bool.

  Local Notation rowsR := (consec (owned (idx R)) O chk).
  Local Notation coln := (coln R).

  Definition row_ok (cols : list (st R)) (is : list (idx R)) : Prop :=
    length is <= length cols /\ forall j i, nth_error is j = Some i -> valid (coln cols j) i.

  #[export] Instance columns_spec : RSpec (columns R O chk) :=
    @Build_RSpec (columns R O chk)
      (fun x : list (st R) * st rowsR =>
         (forall j, inv (coln (fst x) j)) /\ inv (snd x) /\
         forall k is, valid (snd x) k -> read rowsR (snd x) k = Ok is -> row_ok (fst x) is)
      (fun (x : list (st R) * st rowsR) (k : nat) => valid (snd x) k)
      (fun (x : list (st R) * st rowsR) (vs : list (val R)) =>
         forall j v, nth_error vs j = Some v -> dom (coln (fst x) j) v)
      (fun x y : list (st R) * st rowsR =>
         sim (snd x) (snd y) /\ forall j, sim (coln (fst x) j) (coln (fst y) j))
      (fun l : list (list (st R) * st rowsR) =>
         forall j, mergeable (flat_map (fun cols : list (st R) => match nth_error cols j with Some c => [c] | None => [] end) (map fst l))).

  Lemma coln_0 cols : coln cols 0 = hd (dflt R) cols.
  Proof. destruct cols; reflexivity. Qed.
  Lemma coln_S cols j : coln cols (S j) = coln (tl cols) j.
  Proof. destruct cols; [destruct j|]; reflexivity. Qed.
  Lemma coln_beyond cols j : length cols <= j -> coln cols j = dflt R.
  Proof. intros Hj. unfold Columns.coln. apply nth_overflow. assumption. Qed.

  Lemma push_cols_safe vs : forall cols cols' is, (forall j, inv (coln cols j)) ->
    push_cols R cols vs = Ok (cols', is) ->
    (forall j, inv (coln cols' j)) /\ length is = length vs /\ length vs <= length cols' /\
    length cols <= length cols' /\
    (forall j i, nth_error is j = Some i -> valid (coln cols' j) i) /\
    (forall j, frame R (coln cols j) (coln cols' j)) /\
    (forall j, dom_same R (coln cols j) (coln cols' j)).
  Proof.
    induction vs as [|v vs IH]; intros cols cols' is Hinv; simpl; intros Hp.
    - inversion Hp; subst. split; [assumption|]. split; [reflexivity|]. split; [lia|]. split; [lia|].
      split; [intros j i Hj; destruct j; discriminate|].
      split; intros j; [apply (@frame_refl R _)|apply (@dom_same_refl R _)].
    - destruct (push R (hd (dflt R) cols) v) as [[c' i]|] eqn:E1; cbn [bind] in Hp; [|discriminate].
      destruct (push_cols R (tl cols) vs) as [[rest' is']|] eqn:E2; cbn [bind] in Hp; [|discriminate].
      inversion Hp; subst. clear Hp.
      assert (Hhd : inv (hd (dflt R) cols)) by (rewrite <- coln_0; apply Hinv).
      destruct (push_safe _ v Hhd E1) as (Hi1 & Hv1 & Hf1 & Hd1).
      assert (Htl : forall j, inv (coln (tl cols) j)) by (intros j; rewrite <- coln_S; apply Hinv).
      destruct (IH (tl cols) rest' is' Htl E2) as (Hi2 & Hl2 & Hlv & Hlc & Hv2 & Hf2 & Hd2).
      split; [intros [|j]; [exact Hi1|apply Hi2]|].
      split; [simpl; congruence|]. split; [simpl; lia|].
      split; [destruct cols; simpl in *; lia|].
      split; [intros [|j] i0 Hj; simpl in Hj; [inversion Hj; subst; exact Hv1|apply Hv2; assumption]|].
      split; intros [|j].
      + rewrite coln_0. exact Hf1.
      + rewrite coln_S. apply Hf2.
      + rewrite coln_0. exact Hd1.
      + rewrite coln_S. apply Hd2.
  Qed.

  Lemma push_cols_ok vs : forall cols, (forall j, inv (coln cols j)) ->
    (forall j v, nth_error vs j = Some v -> dom (coln cols j) v) ->
    exists cols' is, push_cols R cols vs = Ok (cols', is) /\ zip_read R cols' is = Ok vs.
  Proof.
    induction vs as [|v vs IH]; intros cols Hinv Hdom; simpl.
    - exists cols, []. split; [reflexivity|]. destruct cols; reflexivity.
    - assert (Hhd : inv (hd (dflt R) cols)) by (rewrite <- coln_0; apply Hinv).
      assert (Hd0 : dom (hd (dflt R) cols) v) by (rewrite <- coln_0; apply (Hdom 0 v); reflexivity).
      destruct (push_ok _ v Hhd Hd0) as (c' & i & Hp & Hr). rewrite Hp. cbn [bind].
      assert (Htl : forall j, inv (coln (tl cols) j)) by (intros j; rewrite <- coln_S; apply Hinv).
      assert (Hdtl : forall j w, nth_error vs j = Some w -> dom (coln (tl cols) j) w).
      { intros j w Hj. rewrite <- coln_S. apply (Hdom (S j) w). exact Hj. }
      destruct (IH (tl cols) Htl Hdtl) as (rest' & is' & Hp2 & Hz). rewrite Hp2. cbn [bind].
      exists (c' :: rest'), (i :: is'). split; [reflexivity|]. simpl. rewrite Hr. cbn [bind]. rewrite Hz. reflexivity.
  Qed.

  Lemma row_ok_tl c cs i is : row_ok (c :: cs) (i :: is) -> valid c i /\ row_ok cs is.
  Proof.
    intros [Hl Hv]. split; [apply (Hv 0 i); reflexivity|]. split; [simpl in *; lia|].
    intros j i0 Hj. apply (Hv (S j) i0). exact Hj.
  Qed.

  Lemma zip_read_frame is : forall c c', row_ok c is -> (forall j, frame R (coln c j) (coln c' j)) ->
    length c <= length c' -> zip_read R c' is = zip_read R c is /\ row_ok c' is.
  Proof.
    induction is as [|i is IH]; intros c c' Hr Hf Hl.
    - split; [destruct c, c'; reflexivity|]. split; [simpl; lia|intros j i Hj; destruct j; discriminate].
    - destruct c as [|c0 cs]; [destruct Hr as [Hr _]; simpl in Hr; lia|].
      destruct c' as [|c0' cs']; [simpl in Hl; lia|].
      destruct (row_ok_tl Hr) as [Hv Hr'].
      destruct (Hf 0 i Hv) as [Hv' Hrd]. cbn in Hv', Hrd.
      assert (Hf' : forall j, frame R (coln cs j) (coln cs' j)) by (intros j; apply (Hf (S j))).
      destruct (IH cs cs' Hr' Hf') as [Hz Hr'']; [simpl in Hl; lia|].
      split.
      + simpl. rewrite Hrd, Hz. reflexivity.
      + destruct Hr'' as [Hl'' Hv'']. split; [simpl; lia|].
        intros [|j] i0 Hj; simpl in Hj; [inversion Hj; subst; exact Hv'|apply Hv''; assumption].
  Qed.

  Lemma zip_read_ok is : forall c, (forall j, inv (coln c j)) -> row_ok c is -> exists vs, zip_read R c is = Ok vs.
  Proof.
    induction is as [|i is IH]; intros c Hinv Hr.
    - exists []. destruct c; reflexivity.
    - destruct c as [|c0 cs]; [destruct Hr as [Hr _]; simpl in Hr; lia|].
      destruct (row_ok_tl Hr) as [Hv Hr'].
      destruct (valid_reads c0 i (Hinv 0) Hv) as (w & Hw).
      destruct (IH cs (fun j => Hinv (S j)) Hr') as (vs & Hz).
      exists (w :: vs). simpl. rewrite Hw. cbn [bind]. rewrite Hz. reflexivity.
  Qed.

  Lemma zip_read_sim is : forall c d, (forall j, inv (coln c j)) -> (forall j, inv (coln d j)) ->
    (forall j, sim (coln c j) (coln d j)) -> row_ok c is -> length is <= length d ->
    zip_read R d is = zip_read R c is.
  Proof.
    induction is as [|i is IH]; intros c d Hic Hid Hs Hr Hl.
    - destruct c, d; reflexivity.
    - destruct c as [|c0 cs]; [destruct Hr as [Hr _]; simpl in Hr; lia|].
      destruct d as [|d0 ds]; [simpl in Hl; lia|].
      destruct (row_ok_tl Hr) as [Hv Hr'].
      destruct (@sim_read R _ _ c0 d0 i (Hic 0) (Hid 0) (Hs 0) Hv) as [_ Hrd].
      simpl. rewrite Hrd.
      rewrite (IH cs ds (fun j => Hic (S j)) (fun j => Hid (S j)) (fun j => Hs (S j)) Hr'); [reflexivity|simpl in Hl; lia].
  Qed.

  Lemma push_cols_sim vs : forall c d c' is, (forall j, inv (coln c j)) -> (forall j, inv (coln d j)) ->
    (forall j, sim (coln c j) (coln d j)) -> push_cols R c vs = Ok (c', is) ->
    exists d', push_cols R d vs = Ok (d', is) /\ forall j, sim (coln c' j) (coln d' j).
  Proof.
    induction vs as [|v vs IH]; intros c d c' is Hic Hid Hs; simpl; intros Hp.
    - inversion Hp; subst. exists d. auto.
    - destruct (push R (hd (dflt R) c) v) as [[c0' i]|] eqn:E1; cbn [bind] in Hp; [|discriminate].
      destruct (push_cols R (tl c) vs) as [[rest' is']|] eqn:E2; cbn [bind] in Hp; [|discriminate].
      inversion Hp; subst. clear Hp.
      assert (Hc0 : inv (hd (dflt R) c)) by (rewrite <- coln_0; apply Hic).
      assert (Hd0 : inv (hd (dflt R) d)) by (rewrite <- coln_0; apply Hid).
      assert (Hs0 : sim (hd (dflt R) c) (hd (dflt R) d)) by (rewrite <- !coln_0; apply Hs).
      destruct (@sim_push R _ _ _ _ v c0' i Hc0 Hd0 Hs0 E1) as (d0' & Hq & Hs').
      rewrite Hq. cbn [bind].
      destruct (IH (tl c) (tl d) rest' is') as (dr' & Hq2 & Hs2); auto.
      { intros j. rewrite <- coln_S. apply Hic. }
      { intros j. rewrite <- coln_S. apply Hid. }
      { intros j. rewrite <- !coln_S. apply Hs. }
      rewrite Hq2. cbn [bind]. exists (d0' :: dr'). split; [reflexivity|].
      intros [|j]; [exact Hs'|apply Hs2].
  Qed.

  Lemma coln_map_clear cols j : (forall j, inv (coln cols j)) ->
    inv (coln (map (clear R) cols) j) /\ sim (coln (map (clear R) cols) j) (dflt R).
  Proof.
    intros Hinv. unfold Columns.coln.
    destruct (Nat.lt_ge_cases j (length cols)) as [Hj|Hj].
    - rewrite nth_indep with (d' := clear R (dflt R)) by (rewrite map_length; assumption).
      rewrite map_nth. apply clear_ok. apply Hinv.
    - rewrite nth_overflow by (rewrite map_length; assumption). split; [apply inv_dflt|apply sim_refl].
  Qed.

  Lemma coln_merge_cols l j : (forall cols, In cols l -> forall j, inv (coln cols j)) ->
    (forall j, mergeable (flat_map (fun cols : list (st R) => match nth_error cols j with Some c => [c] | None => [] end) l)) ->
    inv (coln (merge_cols R l) j).
  Proof.
    intros Hl Hm. unfold Columns.coln, merge_cols.
    set (n := fold_right Nat.max 0 (map (@length _) l)).
    destruct (Nat.lt_ge_cases j n) as [Hj|Hj].
    - rewrite nth_indep with (d' := merge R []) by (rewrite map_length, seq_length; assumption).
      set (f := fun j0 => merge R (flat_map (fun cols => match nth_error cols j0 with Some c => [c] | None => [] end) l)).
      change (merge R []) with (merge R []). 
      rewrite (nth_indep _ _ (f 0)) by (rewrite map_length, seq_length; assumption).
      rewrite (map_nth f (seq 0 n) 0 j). rewrite seq_nth by assumption. simpl. unfold f.
      apply merge_inv; [|apply Hm]. rewrite Forall_forall. intros c Hc. apply in_flat_map in Hc.
      destruct Hc as (cols & Hin & Hc). destruct (nth_error cols j) as [c0|] eqn:E; [|contradiction].
      destruct Hc as [<-|[]]. specialize (Hl cols Hin j). unfold Columns.coln in Hl.
      rewrite (nth_error_nth _ _ _ E) in Hl. exact Hl.
    - rewrite nth_overflow by (rewrite map_length, seq_length; assumption). apply inv_dflt.
  Qed.

  #[export] Instance columns_ok : RegionOK (columns R O chk).
  Proof.
    constructor.
    - (* inv_dflt *)
      cbn [inv columns_spec dflt columns fst snd]. split; [intros j; rewrite coln_beyond by (simpl; lia); apply inv_dflt|].
      split; [apply (@inv_dflt rowsR _ _)|].
      intros k is Hk. exfalso. exact (@consec_no_valid_dflt (owned (idx R)) _ _ _ _ O _ chk k Hk).
    - (* push_safe *)
      intros [cols rows] vs [cols' rows'] k (Hic & Hir & Hrows).
      cbn [fst snd inv valid dom columns_spec push columns] in *.
      destruct (push_cols R cols vs) as [[c1 is]|] eqn:E1; cbn [bind]; [|discriminate].
      destruct (push rowsR rows is) as [[r1 k1]|] eqn:E2; cbn [bind]; [|discriminate].
      intros Hq; inversion Hq; subst. clear Hq.
      destruct (@push_cols_safe vs cols cols' is Hic E1) as (Hic' & Hlis & Hlv & Hlc & Hvis & Hfc & Hdc).
      destruct (@push_safe rowsR _ _ rows is rows' k Hir E2) as (Hir' & Hvk & Hfr & _).
      assert (Hnew : read rowsR rows' k = Ok is).
      { destruct (@push_ok rowsR _ _ rows is Hir I) as (r2 & k2 & Hp2 & Hr2). rewrite E2 in Hp2.
        inversion Hp2; subst. exact Hr2. }
      split; [|split; [|split]].
      + split; [exact Hic'|]. split; [exact Hir'|].
        intros j js Hj Hrj.
        destruct (@consec_valid_push (owned (idx R)) _ _ _ _ O _ chk rows is rows' k Hir E2 j Hj) as [Hold| ->].
        * destruct (Hfr j Hold) as [_ Hrd]. rewrite Hrd in Hrj.
          apply (proj2 (@zip_read_frame js cols cols' (Hrows j js Hold Hrj) Hfc Hlc)).
        * rewrite Hnew in Hrj. inversion Hrj; subst js. split; [lia|exact Hvis].
      + exact Hvk.
      + intros j Hj. cbn [fst snd valid columns_spec read columns] in *.
        destruct (Hfr j Hj) as [Hvj Hrd]. split; [exact Hvj|]. rewrite Hrd.
        destruct (@valid_reads rowsR _ _ rows j Hir Hj) as (js & Hjs). rewrite Hjs. cbn [bind].
        apply (proj1 (@zip_read_frame js cols cols' (Hrows j js Hj Hjs) Hfc Hlc)).
      + intros w. cbn [fst snd dom columns_spec]. split; intros Hw j v Hj; apply (Hdc j v); apply Hw; exact Hj.
    - (* push_ok *)
      intros [cols rows] vs (Hic & Hir & Hrows) Hd.
      cbn [fst snd inv dom columns_spec push columns] in *.
      destruct (@push_cols_ok vs cols Hic Hd) as (c1 & is & Hp & Hz). rewrite Hp. cbn [bind].
      destruct (@push_ok rowsR _ _ rows is Hir I) as (r1 & k & Hp2 & Hr2). rewrite Hp2. cbn [bind].
      eexists _, _. split; [reflexivity|]. cbn [read columns fst snd]. rewrite Hr2. cbn [bind]. exact Hz.
    - (* valid_reads *)
      intros [cols rows] k (Hic & Hir & Hrows) Hk. cbn [fst snd valid columns_spec read columns] in *.
      destruct (@valid_reads rowsR _ _ rows k Hir Hk) as (is & His). rewrite His. cbn [bind].
      apply (@zip_read_ok is cols Hic). apply (Hrows k is Hk His).
    - (* clear_ok *)
      intros [cols rows] (Hic & Hir & Hrows). cbn [fst snd inv sim columns_spec clear columns dflt] in *.
      destruct (@clear_ok rowsR _ _ rows Hir) as [Hci Hcs]. split.
      + split; [intros j; apply coln_map_clear; exact Hic|]. split; [exact Hci|].
        intros k is Hk. exfalso. exact (@consec_no_valid_clear (owned (idx R)) _ _ _ _ O _ chk rows k Hk).
      + split; [exact Hcs|]. intros j. rewrite (coln_beyond [] (j := j)) by (simpl; lia).
        apply coln_map_clear; exact Hic.
    - (* merge_inv *)
      intros l Hl Hm. cbn [inv columns_spec merge columns fst snd].
      split.
      { intros j. apply coln_merge_cols; [|exact Hm]. intros cols Hin. apply in_map_iff in Hin.
        destruct Hin as (x & <- & Hx). rewrite Forall_forall in Hl. apply (Hl x Hx). }
      split.
      { apply (@merge_inv rowsR _ _); [|exact I]. rewrite Forall_forall in *. intros y Hy. apply in_map_iff in Hy.
        destruct Hy as (x & <- & Hx). apply (Hl x Hx). }
      intros k is Hk. exfalso. exact (@consec_no_valid_merge (owned (idx R)) _ _ _ _ O _ chk _ k Hk).
    - intros [cols rows]. cbn [fst snd sim columns_spec]. split; [apply (@sim_refl rowsR _ _)|intros j; apply sim_refl].
    - intros [c r] [d q] [H3 H4]. cbn [fst snd sim columns_spec] in *. split; [apply (@sim_sym rowsR _ _); exact H3|intros j; apply sim_sym, H4].
    - intros [c r] [d q] [e p] [H3 H4] [H5 H6]. cbn [fst snd sim columns_spec] in *.
      split; [eapply (@sim_trans rowsR _ _); eauto|intros j; eapply sim_trans; eauto].
    - intros [c r] [d q] [H3 H4] w. cbn [fst snd dom columns_spec] in *.
      split; intros Hw j v Hj; apply (@sim_dom R _ _ _ _ (H4 j) v); apply Hw; exact Hj.
    - (* sim_push *)
      intros [c r] [d q] vs [c' r'] k (Hic & Hir & Hrc) (Hid & Hiq & Hrd) [Hsr Hsc].
      cbn [fst snd inv sim columns_spec push columns] in *.
      destruct (push_cols R c vs) as [[c1 is]|] eqn:E1; cbn [bind]; [|discriminate].
      destruct (push rowsR r is) as [[r1 k1]|] eqn:E2; cbn [bind]; [|discriminate].
      intros Hq; inversion Hq; subst. clear Hq.
      destruct (@push_cols_sim vs c d c' is Hic Hid Hsc E1) as (d1 & Hq1 & Hs1). rewrite Hq1. cbn [bind].
      destruct (@sim_push rowsR _ _ r q is r' k Hir Hiq Hsr E2) as (q1 & Hq2 & Hs2). rewrite Hq2. cbn [bind].
      eexists. split; [reflexivity|]. cbn [fst snd]. auto.
    - (* sim_read *)
      intros [c r] [d q] k (Hic & Hir & Hrc) (Hid & Hiq & Hrd) [Hsr Hsc] Hk.
      cbn [fst snd inv valid sim columns_spec read columns] in *.
      destruct (@sim_read rowsR _ _ r q k Hir Hiq Hsr Hk) as [Hkq Hrq]. split; [exact Hkq|].
      rewrite Hrq.
      destruct (@valid_reads rowsR _ _ r k Hir Hk) as (is & His). rewrite His. cbn [bind].
      apply (@zip_read_sim is c d Hic Hid Hsc (Hrc k is Hk His)).
      rewrite <- Hrq in His. apply (Hrd k is Hkq His).
  Qed.
End ColumnsOK.

(** C10 for columns: a region merged from any well-formed regions is observationally a default one
    (each merged column is a merged inner region, hence fresh; the row index store is fresh) *)
#[export] Instance columns_merge_fresh R `{RegionOK R} `{!MergeFresh R} (O : IC nat) `{ICOk _ O} chk : MergeFresh (columns R O chk).
Proof.
  intros l Hl. cbn [sim columns_spec merge columns dflt fst snd]. split.
  - apply (@consec_merge_fresh (owned (idx R)) _ _ _ _ _ O _ chk).
    rewrite Forall_forall in *. intros y Hy. apply in_map_iff in Hy. destruct Hy as (x & <- & Hx).
    destruct (Hl x Hx) as (_ & Hr & _). exact Hr.
  - intros j. rewrite (coln_beyond R [] (j := j)) by (cbn; lia).
    unfold Columns.coln, merge_cols.
    set (n := fold_right Nat.max 0 (map (@length _) (map fst l))).
    destruct (Nat.lt_ge_cases j n) as [Hj|Hj].
    + set (f := fun j0 => merge R (flat_map (fun cols : list (st R) => match nth_error cols j0 with Some c => [c] | None => [] end) (map fst l))).
      rewrite (nth_indep _ _ (f 0)) by (rewrite map_length, seq_length; assumption).
      rewrite (map_nth f (seq 0 n) 0 j). rewrite seq_nth by assumption. cbn [plus]. unfold f.
      apply merge_fresh. rewrite Forall_forall. intros c Hc. apply in_flat_map in Hc.
      destruct Hc as (cols & Hin & Hc). destruct (nth_error cols j) as [c0|] eqn:E; [|contradiction].
      destruct Hc as [<-|[]]. apply in_map_iff in Hin. destruct Hin as (x & <- & Hx).
      rewrite Forall_forall in Hl. destruct (Hl x Hx) as (Hcols & _). specialize (Hcols j). unfold Columns.coln in Hcols.
      rewrite (nth_error_nth _ _ _ E) in Hcols. exact Hcols.
    + rewrite nth_overflow by (rewrite map_length, seq_length; assumption). apply sim_refl.
Qed.

(** C12 for columns: the k-th row pushed since creation / merge / clear gets index k (the row index
    store is a consecutive-pairs region over an owned region of cell indices) *)
Lemma columns_push_index R `{RegionOK R} (O : IC nat) `{ICOk _ O} chk x vs x' k :
  inv x -> push (columns R O chk) x vs = Ok (x', k) ->
  S k = length (ic_abs (snd (fst (snd x)))).
Proof.
  destruct x as [cols rows]. intros (Hic & Hir & _) Hp. cbn [push columns fst snd] in Hp.
  destruct (push_cols R cols vs) as [[cols' is]|]; cbn [bind] in Hp; [|discriminate].
  destruct (push (consec (owned (idx R)) O chk) rows is) as [[rows' k']|] eqn:Er; cbn [bind] in Hp; [|discriminate].
  inversion Hp; subst. cbn [fst snd].
  exact (@consec_push_index (owned (idx R)) _ _ _ _ O _ chk rows is rows' k Hir Er).
Qed.
