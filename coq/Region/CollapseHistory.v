(** C11, whole-history form: pushing ANY sequence of values into a [CollapseSequence] stores in the inner region
    exactly the sequence with every run of items equal to the remembered one removed ([compress]) -- nothing more
    (an equal successor stores nothing new) and nothing less (an item is only ever dropped against an equal
    remembered item, never against anything else). *)
From FC Require Import Base.Res Region.Region Region.Collapse.
Set Implicit Arguments.

Section CollapseHistory.
  Variable R : Region.
  Variable veq : val R -> val R -> bool.
  Context `{RegionOK R}.
  Local Notation CR := (collapse R veq).

  (** what reaches the inner region: [prev] is the remembered item (none after default / clear / merge) *)
  Fixpoint compress (prev : option (val R)) (vs : list (val R)) : list (val R) :=
    match vs with
    | [] => []
    | v :: vs' =>
        match prev with
        | Some w => if veq v w then compress (Some w) vs' else v :: compress (Some v) vs'
        | None => v :: compress (Some v) vs'
        end
    end.

  (** the remembered index reads the remembered item *)
  Definition link (s : st R) (last : option (idx R)) (prev : option (val R)) : Prop :=
    match last, prev with
    | Some j, Some w => valid s j /\ read R s j = Ok w
    | None, None => True
    | _, _ => False
    end.

  Lemma push_reads_back s v s1 i : inv s -> dom s v -> push R s v = Ok (s1, i) -> read R s1 i = Ok v.
  Proof.
    intros Hs Hd Hp. destruct (push_ok s v Hs Hd) as (s2 & i2 & Hp2 & Hr). rewrite Hp in Hp2.
    inversion Hp2; subst. exact Hr.
  Qed.

  Theorem collapse_history vs : forall s last prev (x' : st CR) is,
    inv s -> link s last prev -> Forall (dom s) vs ->
    push_all CR (s, last) vs = Ok (x', is) ->
    exists js, push_all R s (compress prev vs) = Ok (fst x', js).
  Proof.
    induction vs as [|v vs IH]; intros s last prev x' is Hs Hl Hd Hp.
    - cbn [push_all] in Hp. inversion Hp; subst. exists []. reflexivity.
    - inversion Hd as [|? ? Hdv Hdvs]; subst.
      cbn [push_all] in Hp.
      assert (Hfresh : forall x1 i1,
        (let* '(s', i) := push R s v in Ok ((s', Some i), i)) = Ok (x1, i1) ->
        (let* '(s2, is2) := push_all CR x1 vs in Ok (s2, i1 :: is2)) = Ok (x', is) ->
        exists js, push_all R s (v :: compress (Some v) vs) = Ok (fst x', js)).
      { intros x1 i1 Hq Hrest. destruct (push R s v) as [[s1 i]|] eqn:Ep; cbn [bind] in Hq; [|discriminate].
        inversion Hq; subst x1 i1.
        destruct (push_all CR (s1, Some i) vs) as [[x2 is2]|] eqn:Epa; cbn [bind] in Hrest; [|discriminate].
        inversion Hrest; subst x2 is.
        destruct (push_safe s v Hs Ep) as (Hs1 & Hv1 & _ & Hds).
        assert (Hl1 : link s1 (Some i) (Some v)) by (split; [exact Hv1|exact (@push_reads_back s v s1 i Hs Hdv Ep)]).
        assert (Hd1 : Forall (dom s1) vs).
        { rewrite Forall_forall in *. intros u Hu. apply Hds. apply Hdvs. exact Hu. }
        destruct (IH s1 (Some i) (Some v) x' is2 Hs1 Hl1 Hd1 Epa) as (js & Hjs).
        exists (i :: js). cbn [push_all]. rewrite Ep. cbn [bind]. rewrite Hjs. reflexivity. }
      destruct last as [j|]; destruct prev as [w|]; cbn [link] in Hl; try contradiction.
      + destruct Hl as [Hvj Hrj]. cbn [push collapse fst snd] in Hp. rewrite Hrj in Hp. cbn [bind] in Hp.
        cbn [compress]. destruct (veq v w) eqn:Ev.
        * cbn [bind] in Hp.
          destruct (push_all CR (s, Some j) vs) as [[x2 is2]|] eqn:Epa; cbn [bind] in Hp; [|discriminate].
          inversion Hp; subst x2 is.
          exact (IH s (Some j) (Some w) x' is2 Hs (conj Hvj Hrj) Hdvs Epa).
        * destruct (let* '(s', i) := push R s v in Ok ((s', Some i), i)) as [[x1 i1]|] eqn:Eq; cbn [bind] in Hp; [|discriminate].
          exact (Hfresh x1 i1 eq_refl Hp).
      + cbn [push collapse fst snd] in Hp. cbn [compress].
        destruct (let* '(s', i) := push R s v in Ok ((s', Some i), i)) as [[x1 i1]|] eqn:Eq; cbn [bind] in Hp; [|discriminate].
        exact (Hfresh x1 i1 eq_refl Hp).
  Qed.

  (** From a fresh region: the inner region holds exactly [compress None vs]. *)
  Corollary collapse_history_fresh vs (x' : st CR) is : Forall (dom (dflt R)) vs ->
    push_all CR (dflt CR) vs = Ok (x', is) ->
    exists js, push_all R (dflt R) (compress None vs) = Ok (fst x', js).
  Proof. intros Hd Hp. exact (@collapse_history vs (dflt R) None None x' is inv_dflt I Hd Hp). Qed.

  (** [compress] drops an item only against an EQUAL remembered item: with a sound comparison the compressed
      list has no two adjacent equal-by-[veq] neighbours removed wrongly -- every dropped item equals the item
      that precedes it in the original sequence's current run. *)
  Lemma compress_length prev vs : length (compress prev vs) <= length vs.
  Proof.
    revert prev. induction vs as [|v vs IH]; intros prev; cbn [compress length]; [auto|].
    destruct prev as [w|]; [destruct (veq v w)|]; cbn [length]; try apply le_n_S; try apply IH.
    apply le_S, IH.
  Qed.

  (** nothing is dropped when no item equals the remembered one (e.g. NaN-like never-equal values) *)
  Lemma compress_never_equal prev vs : (forall a b, veq a b = false) -> compress prev vs = vs.
  Proof.
    intros Hn. revert prev. induction vs as [|v vs IH]; intros prev; cbn [compress]; [reflexivity|].
    destruct prev as [w|]; [rewrite Hn|]; f_equal; apply IH.
  Qed.

  (** a run of one repeated value stores a single copy (reflexive comparison) *)
  Lemma compress_run v n : veq v v = true -> compress None (repeat v (S n)) = [v].
  Proof.
    intros Hr. cbn [repeat compress]. f_equal. induction n as [|n IH]; cbn [repeat compress]; [reflexivity|].
    rewrite Hr. exact IH.
  Qed.
End CollapseHistory.
