(** [OwnedRegion<T>]: one vector, index = (start, end). *)
From FC Require Import Base.Res Region.Region.
Set Implicit Arguments.

Definition owned (T : Type) : Region := {|
  val := list T; idx := nat * nat; st := list T;
  dflt := [];
  push := fun s v => Ok (s ++ v, (length s, length s + length v));
  read := fun s i => sub s (fst i) (snd i);
  clear := fun _ => [];
  merge := fun _ => [];
|}.

#[export] Instance owned_spec T : RSpec (owned T) :=
  @Build_RSpec (owned T)
    (fun _ => True)
    (fun (s : list T) (i : nat * nat) => fst i <= snd i <= length s)
    (fun _ _ => True)
    eq
    (fun _ => True).

#[export] Instance owned_ok T : RegionOK (owned T).
Proof.
  constructor; simpl.
  - exact I.
  - intros s v s' i _ Hp. inversion Hp; subst. split; [exact I|].
    split; [simpl; rewrite app_length; lia|]. split; [|intros w; reflexivity].
    intros [a b] Hv. simpl in *. rewrite app_length. split; [lia|]. apply sub_app_old. assumption.
  - intros s v _ _. eexists _, _. split; [reflexivity|]. apply sub_app_new.
  - intros s [a b] _ Hv. simpl in *. rewrite sub_ok by assumption. eauto.
  - auto.
  - auto.
  - auto.
  - auto.
  - intros; congruence.
  - intros s t -> w. reflexivity.
  - intros s t v s' i _ _ -> H. eauto.
  - intros s t [a b] _ _ -> H. auto.
Qed.

#[export] Instance owned_merge_fresh T : MergeFresh (owned T).
Proof. intros l _. reflexivity. Qed.
