(** Tuple regions of arity 3 and 5 ([TupleABCRegion], [TupleABCDERegion]: one expansion of the
    [tuple_flatcontainer!] macro each), written FLAT as the macro writes them -- one field per component,
    pushed / read / cleared / merged in field order -- and their relation to the right-nested pairs
    [tuple2 A (tuple2 B C)] through which the catalogue and the harness present them.

    [RIso R S] is a homomorphism of regions whose value and index maps are injective; [pull_ok] transports
    the whole contract [RegionOK] (and [MergeFresh]) backwards along it, so every generic theorem of the
    development (C01, C02, C08, C10, ...) holds for the flat tuples because it holds for nested pairs. The
    maps of [tuple3_iso] / [tuple5_iso] are literally the re-association the harness performs
    (harness/src/run.rs, [flat_tuple_h!]). *)
From FC Require Import Base.Res Region.Region Region.Simple.
Set Implicit Arguments.

Definition rmap {A B} (f : A -> B) (x : res A) : res B :=
  match x with Ok a => Ok (f a) | Panic => Panic end.

Lemma rmap_ok_inv {A B} (f : A -> B) x b : rmap f x = Ok b -> exists a, x = Ok a /\ f a = b.
Proof. destruct x as [a|]; cbn; intros H; [|discriminate]. inversion H. eauto. Qed.

Lemma rmap_inj {A B} (f : A -> B) : (forall a a', f a = f a' -> a = a') ->
  forall x y, rmap f x = rmap f y -> x = y.
Proof.
  intros Hf [a|] [b|]; cbn; intros H; try discriminate; [|reflexivity].
  inversion H as [H1]. rewrite (Hf _ _ H1). reflexivity.
Qed.

Record RIso (R S : Region) := {
  fs : st R -> st S; fv : val R -> val S; fi : idx R -> idx S;
  fv_inj : forall v w, fv v = fv w -> v = w;
  fi_inj : forall i j, fi i = fi j -> i = j;
  iso_dflt : fs (dflt R) = dflt S;
  iso_push : forall s v, push S (fs s) (fv v) = rmap (fun p => (fs (fst p), fi (snd p))) (push R s v);
  iso_read : forall s i, read S (fs s) (fi i) = rmap fv (read R s i);
  iso_clear : forall s, fs (clear R s) = clear S (fs s);
  iso_merge : forall l, fs (merge R l) = merge S (map fs l);
}.

Section Pull.
  Variables R S : Region.
  Variable I : RIso R S.
  Context {SP : RSpec S}.

  Definition pull_spec : RSpec R :=
    @Build_RSpec R
      (fun s => inv (fs I s))
      (fun s i => valid (fs I s) (fi I i))
      (fun s v => dom (fs I s) (fv I v))
      (fun s t => sim (fs I s) (fs I t))
      (fun l => mergeable (map (fs I) l)).

  Lemma iso_push_ok s v s' i : push R s v = Ok (s', i) -> push S (fs I s) (fv I v) = Ok (fs I s', fi I i).
  Proof. intros H. rewrite iso_push, H. reflexivity. Qed.

  Lemma iso_push_inv s v t j : push S (fs I s) (fv I v) = Ok (t, j) ->
    exists s' i, push R s v = Ok (s', i) /\ fs I s' = t /\ fi I i = j.
  Proof.
    rewrite iso_push. intros H. destruct (rmap_ok_inv _ _ H) as ([s' i] & Hp & He).
    cbn [fst snd] in He. inversion He. eauto.
  Qed.

  Context {HS : RegionOK S}.

  Theorem pull_ok : @RegionOK R pull_spec.
  Proof.
    constructor.
    - cbn. rewrite iso_dflt. apply inv_dflt.
    - intros s v s' i Hs Hp. cbn in Hs. pose proof (iso_push_ok _ _ Hp) as Hq.
      destruct (push_safe _ _ Hs Hq) as (Hi & Hv & Hf & Hd).
      split; [exact Hi|]. split; [exact Hv|]. split.
      + intros j Hj. cbn in Hj. destruct (Hf _ Hj) as [Hv' Hr]. split; [exact Hv'|].
        rewrite !iso_read in Hr. apply (rmap_inj (fv I) (fv_inj I)). exact Hr.
      + intros w. cbn. apply Hd.
    - intros s v Hs Hd. cbn in Hs, Hd.
      destruct (push_ok _ _ Hs Hd) as (t & j & Hq & Hr).
      destruct (iso_push_inv _ _ Hq) as (s' & i & Hp & Et & Ej). subst t j.
      exists s', i. split; [exact Hp|].
      rewrite iso_read in Hr. destruct (rmap_ok_inv _ _ Hr) as (w & Hw & Ew).
      rewrite Hw. f_equal. apply (fv_inj I). exact Ew.
    - intros s j Hs Hj. cbn in Hs, Hj. destruct (valid_reads _ _ Hs Hj) as (w & Hw).
      rewrite iso_read in Hw. destruct (rmap_ok_inv _ _ Hw) as (w' & Hw' & _). eauto.
    - intros s Hs. cbn in *. rewrite iso_clear, iso_dflt. apply clear_ok. exact Hs.
    - intros l Hl Hm. cbn in *. rewrite iso_merge. apply merge_inv; [|exact Hm].
      rewrite Forall_forall in *. intros t Ht. apply in_map_iff in Ht. destruct Ht as (s & Es & Hin).
      subst t. apply Hl. exact Hin.
    - intros s. cbn. apply sim_refl.
    - intros s t. cbn. apply sim_sym.
    - intros s t u. cbn. apply sim_trans.
    - intros s t Hst w. cbn in *. apply (sim_dom _ _ Hst).
    - intros s t v s' i Hs Ht Hst Hp. cbn in Hs, Ht, Hst.
      pose proof (iso_push_ok _ _ Hp) as Hq.
      destruct (@sim_push S _ _ _ _ _ _ _ Hs Ht Hst Hq) as (t2 & Hq2 & Hs2).
      destruct (iso_push_inv _ _ Hq2) as (t' & i' & Hp' & Et & Ei). subst t2.
      apply (fi_inj I) in Ei. subst i'. exists t'. split; [exact Hp'|exact Hs2].
    - intros s t i Hs Ht Hst Hv. cbn in Hs, Ht, Hst, Hv.
      destruct (@sim_read S _ _ _ _ _ Hs Ht Hst Hv) as [Hv' Hr]. split; [exact Hv'|].
      rewrite !iso_read in Hr. apply (rmap_inj (fv I) (fv_inj I)). exact Hr.
  Qed.

  Theorem pull_merge_fresh : MergeFresh S -> @MergeFresh R pull_spec.
  Proof.
    intros HM l Hl. cbn in *. rewrite iso_merge, iso_dflt. apply HM.
    rewrite Forall_forall in *. intros t Ht. apply in_map_iff in Ht. destruct Ht as (s & Es & Hin).
    subst t. apply Hl. exact Hin.
  Qed.
End Pull.

(** * arity 3 *)
Section Tuple3.
  Variables A B C : Region.
  Definition tuple3 : Region := {|
    val := val A * val B * val C; idx := idx A * idx B * idx C; st := st A * st B * st C;
    dflt := (dflt A, dflt B, dflt C);
    push := fun s v =>
      let* '(a', i) := push A (fst (fst s)) (fst (fst v)) in
      let* '(b', j) := push B (snd (fst s)) (snd (fst v)) in
      let* '(c', k) := push C (snd s) (snd v) in Ok ((a', b', c'), (i, j, k));
    read := fun s i =>
      let* x := read A (fst (fst s)) (fst (fst i)) in
      let* y := read B (snd (fst s)) (snd (fst i)) in
      let* z := read C (snd s) (snd i) in Ok (x, y, z);
    clear := fun s => (clear A (fst (fst s)), clear B (snd (fst s)), clear C (snd s));
    merge := fun l => (merge A (map (fun s => fst (fst s)) l), merge B (map (fun s => snd (fst s)) l), merge C (map snd l)) |}.

  Definition nest3 {X Y Z} (t : X * Y * Z) : X * (Y * Z) := (fst (fst t), (snd (fst t), snd t)).
  Lemma nest3_inj {X Y Z} (t u : X * Y * Z) : nest3 t = nest3 u -> t = u.
  Proof. destruct t as [[x y] z], u as [[x' y'] z']. unfold nest3; cbn. intros H. inversion H. reflexivity. Qed.

  Definition tuple3_iso : RIso tuple3 (tuple2 A (tuple2 B C)).
  Proof.
    refine (@Build_RIso tuple3 (tuple2 A (tuple2 B C)) nest3 nest3 nest3 nest3_inj nest3_inj _ _ _ _ _).
    - reflexivity.
    - intros [[a b] c] [[x y] z]. unfold nest3. cbn [push tuple3 tuple2 fst snd].
      destruct (push A a x) as [[a' i]|]; cbn [bind rmap]; [|reflexivity].
      destruct (push B b y) as [[b' j]|]; cbn [bind rmap]; [|reflexivity].
      destruct (push C c z) as [[c' k]|]; cbn [bind rmap]; reflexivity.
    - intros [[a b] c] [[i j] k]. unfold nest3. cbn [read tuple3 tuple2 fst snd].
      destruct (read A a i) as [x|]; cbn [bind rmap]; [|reflexivity].
      destruct (read B b j) as [y|]; cbn [bind rmap]; [|reflexivity].
      destruct (read C c k) as [z|]; cbn [bind rmap]; reflexivity.
    - intros [[a b] c]. reflexivity.
    - intros l. unfold nest3. cbn [merge tuple3 tuple2 fst snd]. rewrite !map_map. reflexivity.
  Defined.
End Tuple3.

#[export] Instance tuple3_spec A B C `{RSpec A} `{RSpec B} `{RSpec C} : RSpec (tuple3 A B C) :=
  pull_spec (tuple3_iso A B C).
#[export] Instance tuple3_ok A B C `{RegionOK A} `{RegionOK B} `{RegionOK C} : RegionOK (tuple3 A B C).
Proof. apply pull_ok. typeclasses eauto. Qed.
#[export] Instance tuple3_merge_fresh A B C `{RegionOK A} `{RegionOK B} `{RegionOK C}
  `{!MergeFresh A} `{!MergeFresh B} `{!MergeFresh C} : MergeFresh (tuple3 A B C).
Proof. apply pull_merge_fresh; typeclasses eauto. Qed.

(** * arity 5 *)
Section Tuple5.
  Variables A B C D E : Region.
  Definition tuple5 : Region := {|
    val := val A * val B * val C * val D * val E; idx := idx A * idx B * idx C * idx D * idx E;
    st := st A * st B * st C * st D * st E;
    dflt := (dflt A, dflt B, dflt C, dflt D, dflt E);
    push := fun s v =>
      let '(sa, sb, sc, sd, se) := s in let '(va, vb, vc, vd, ve) := v in
      let* '(a', i) := push A sa va in
      let* '(b', j) := push B sb vb in
      let* '(c', k) := push C sc vc in
      let* '(d', l) := push D sd vd in
      let* '(e', m) := push E se ve in Ok ((a', b', c', d', e'), (i, j, k, l, m));
    read := fun s i =>
      let '(sa, sb, sc, sd, se) := s in let '(ia, ib, ic, id, ie) := i in
      let* x := read A sa ia in
      let* y := read B sb ib in
      let* z := read C sc ic in
      let* u := read D sd id in
      let* w := read E se ie in Ok (x, y, z, u, w);
    clear := fun s => let '(sa, sb, sc, sd, se) := s in (clear A sa, clear B sb, clear C sc, clear D sd, clear E se);
    merge := fun l => (merge A (map (fun s => let '(sa, _, _, _, _) := s in sa) l),
                       merge B (map (fun s => let '(_, sb, _, _, _) := s in sb) l),
                       merge C (map (fun s => let '(_, _, sc, _, _) := s in sc) l),
                       merge D (map (fun s => let '(_, _, _, sd, _) := s in sd) l),
                       merge E (map (fun s => let '(_, _, _, _, se) := s in se) l)) |}.

  Definition nest5 {X Y Z U W} (t : X * Y * Z * U * W) : X * (Y * (Z * (U * W))) :=
    let '(x, y, z, u, w) := t in (x, (y, (z, (u, w)))).
  Lemma nest5_inj {X Y Z U W} (t u : X * Y * Z * U * W) : nest5 t = nest5 u -> t = u.
  Proof.
    destruct t as [[[[x y] z] u0] w], u as [[[[x' y'] z'] u'] w']. unfold nest5. intros H. inversion H. reflexivity.
  Qed.

  Definition tuple5_iso : RIso tuple5 (tuple2 A (tuple2 B (tuple2 C (tuple2 D E)))).
  Proof.
    refine (@Build_RIso tuple5 (tuple2 A (tuple2 B (tuple2 C (tuple2 D E)))) nest5 nest5 nest5 nest5_inj nest5_inj _ _ _ _ _).
    - reflexivity.
    - intros [[[[a b] c] d] e] [[[[x y] z] u] w]. unfold nest5. cbn [push tuple5 tuple2 fst snd].
      destruct (push A a x) as [[a' i]|]; cbn [bind rmap]; [|reflexivity].
      destruct (push B b y) as [[b' j]|]; cbn [bind rmap]; [|reflexivity].
      destruct (push C c z) as [[c' k]|]; cbn [bind rmap]; [|reflexivity].
      destruct (push D d u) as [[d' l]|]; cbn [bind rmap]; [|reflexivity].
      destruct (push E e w) as [[e' m]|]; cbn [bind rmap]; reflexivity.
    - intros [[[[a b] c] d] e] [[[[i j] k] l] m]. unfold nest5. cbn [read tuple5 tuple2 fst snd].
      destruct (read A a i) as [x|]; cbn [bind rmap]; [|reflexivity].
      destruct (read B b j) as [y|]; cbn [bind rmap]; [|reflexivity].
      destruct (read C c k) as [z|]; cbn [bind rmap]; [|reflexivity].
      destruct (read D d l) as [u|]; cbn [bind rmap]; [|reflexivity].
      destruct (read E e m) as [w|]; cbn [bind rmap]; reflexivity.
    - intros [[[[a b] c] d] e]. reflexivity.
    - intros l. cbn [merge tuple5 tuple2 fst snd]. rewrite !map_map. unfold nest5.
      f_equal; [|f_equal; [|f_equal; [|f_equal]]];
        match goal with |- merge ?X _ = merge ?X _ => apply (f_equal (merge X)) end;
        apply map_ext; intros [[[[a b] c] d] e]; reflexivity.
  Defined.
End Tuple5.

#[export] Instance tuple5_spec A B C D E `{RSpec A} `{RSpec B} `{RSpec C} `{RSpec D} `{RSpec E} : RSpec (tuple5 A B C D E) :=
  pull_spec (tuple5_iso A B C D E).
#[export] Instance tuple5_ok A B C D E `{RegionOK A} `{RegionOK B} `{RegionOK C} `{RegionOK D} `{RegionOK E} :
  RegionOK (tuple5 A B C D E).
Proof. apply pull_ok. typeclasses eauto. Qed.
