From FC Require Import Base.Res Index.IC Region.Region Region.Owned Region.Slice Region.Collapse Region.Consec Region.Simple Region.Columns Region.History.

(* ColumnsRegion<CollapseSequence<ConsecutiveIndexPairs<StringRegion>>> with Vec offsets, in the model *)
Definition bytes_eqb (a b : list nat) : bool := if list_eq_dec Nat.eq_dec a b then true else false.
Lemma bytes_eqb_sound a b : bytes_eqb a b = true -> a = b.
Proof. unfold bytes_eqb. destruct (list_eq_dec Nat.eq_dec a b); [auto|discriminate]. Qed.

Definition str : Region := string_region (owned nat).
Definition wf_any (v : list nat) : Prop := True.
#[export] Instance str_spec : RSpec str := @string_spec (owned nat) wf_any _.
#[export] Instance str_ok : RegionOK str := @string_ok (owned nat) wf_any _ _.
#[export] Instance str_pair : PairIdx str := @Build_PairIdx str (fun i : nat * nat => i) (fun i : nat * nat => i).
#[export] Instance str_dense : Dense str.
Proof.
  refine (@Build_Dense str _ _ (@length nat) _ _ _ _ _ _); cbn; auto.
  - intros s t ->. reflexivity.
  - intros s v s' i _ Hp. inversion Hp; subst. rewrite app_length. reflexivity.
Defined.
#[export] Instance str_merge_fresh : MergeFresh str.
Proof. intros l _. reflexivity. Qed.

Definition cell (chk : bool) : Region := collapse (consec str (vec_ic nat 8%N) chk) bytes_eqb.
#[export] Instance cell_ok chk : RegionOK (cell chk) :=
  collapse_ok (R := consec str (vec_ic nat 8%N) chk) bytes_eqb bytes_eqb_sound.
Definition table (chk : bool) : Region := columns (cell chk) (vec_ic nat 8%N) chk.

Definition C01_C02_table chk := @reachable_ok (table chk) _ _.
Definition C08_table chk := @clear_fresh (table chk) _ _.
Check C01_C02_table.
Print Assumptions C01_C02_table.
Print Assumptions C08_table.

(* and it runs *)
Eval vm_compute in
  (let* '(s, log, tr) := run (R := table true)
     [@OPush (table true) [[1;2]; [3]]; @OPush (table true) []; @OPush (table true) [[1;2]; [3]; [9;9;9]]; @OPush (table true) [[7]]] (dflt (table true)) [] [] in
   let* rows := mapM (read (table true) s) tr in Ok (tr, rows)).
