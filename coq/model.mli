
type __ = Obj.t

val negb : bool -> bool

type nat =
| O
| S of nat

val option_map : ('a1 -> 'a2) -> 'a1 option -> 'a2 option

type ('a, 'b) sum =
| Inl of 'a
| Inr of 'b

val fst : ('a1 * 'a2) -> 'a1

val snd : ('a1 * 'a2) -> 'a2

val length : 'a1 list -> nat

val app : 'a1 list -> 'a1 list -> 'a1 list

type comparison =
| Eq
| Lt
| Gt

val add : nat -> nat -> nat

val sub : nat -> nat -> nat

module Nat :
 sig
  val eqb : nat -> nat -> bool

  val leb : nat -> nat -> bool

  val ltb : nat -> nat -> bool

  val max : nat -> nat -> nat

  val min : nat -> nat -> nat
 end

val hd : 'a1 -> 'a1 list -> 'a1

val tl : 'a1 list -> 'a1 list

val nth : nat -> 'a1 list -> 'a1 -> 'a1

val nth_error : 'a1 list -> nat -> 'a1 option

val map : ('a1 -> 'a2) -> 'a1 list -> 'a2 list

val flat_map : ('a1 -> 'a2 list) -> 'a1 list -> 'a2 list

val fold_left : ('a1 -> 'a2 -> 'a1) -> 'a2 list -> 'a1 -> 'a1

val fold_right : ('a2 -> 'a1 -> 'a1) -> 'a1 -> 'a2 list -> 'a1

val firstn : nat -> 'a1 list -> 'a1 list

val skipn : nat -> 'a1 list -> 'a1 list

val seq : nat -> nat -> nat list

val repeat : 'a1 -> nat -> 'a1 list

type positive =
| XI of positive
| XO of positive
| XH

type n =
| N0
| Npos of positive

module Pos :
 sig
  type mask =
  | IsNul
  | IsPos of positive
  | IsNeg
 end

module Coq_Pos :
 sig
  val succ : positive -> positive

  val add : positive -> positive -> positive

  val add_carry : positive -> positive -> positive

  val pred_double : positive -> positive

  type mask = Pos.mask =
  | IsNul
  | IsPos of positive
  | IsNeg

  val succ_double_mask : mask -> mask

  val double_mask : mask -> mask

  val double_pred_mask : positive -> mask

  val sub_mask : positive -> positive -> mask

  val sub_mask_carry : positive -> positive -> mask

  val mul : positive -> positive -> positive

  val iter : ('a1 -> 'a1) -> 'a1 -> positive -> 'a1

  val pow : positive -> positive -> positive

  val compare_cont : comparison -> positive -> positive -> comparison

  val compare : positive -> positive -> comparison

  val eqb : positive -> positive -> bool

  val coq_Nsucc_double : n -> n

  val coq_Ndouble : n -> n

  val coq_land : positive -> positive -> n

  val iter_op : ('a1 -> 'a1 -> 'a1) -> positive -> 'a1 -> 'a1

  val to_nat : positive -> nat

  val of_succ_nat : nat -> positive
 end

module N :
 sig
  val sub : n -> n -> n

  val mul : n -> n -> n

  val compare : n -> n -> comparison

  val eqb : n -> n -> bool

  val leb : n -> n -> bool

  val ltb : n -> n -> bool

  val div2 : n -> n

  val pow : n -> n -> n

  val coq_land : n -> n -> n

  val shiftr : n -> n -> n

  val to_nat : n -> nat

  val of_nat : nat -> n
 end

type 'a res =
| Ok of 'a
| Panic

val bind : 'a1 res -> ('a1 -> 'a2 res) -> 'a2 res

val mapM : ('a1 -> 'a2 res) -> 'a1 list -> 'a2 list res

val sub0 : 'a1 list -> nat -> nat -> 'a1 list res

type 't iC = { ic_default : __; ic_push : (__ -> 't -> __);
               ic_index : (__ -> nat -> 't res); ic_len : (__ -> nat);
               ic_is_empty : (__ -> bool); ic_iter : (__ -> 't list res);
               ic_clear : (__ -> __); ic_used : (__ -> n list) }

type 't ic_st = __

val vec_ic : n -> 'a1 iC

val ic_via : ('a2 -> 'a1) -> ('a1 -> 'a2) -> 'a1 iC -> 'a2 iC

val w : n

val w32 : n

type stride =
| SEmpty
| SZero
| SStriding of n * nat
| SSaturated of n * nat * nat

val stride_push : stride -> n -> bool * stride

val stride_len : stride -> nat

val stride_is_empty : stride -> bool

val stride_index : stride -> nat -> n res

val stride_iter : stride -> n list res

type ilist = { smol : n list; chonk : n list }

val il_default : ilist

val il_push : ilist -> n -> ilist

val il_abs : ilist -> n list

val il_len : ilist -> nat

val il_is_empty : ilist -> bool

val il_index : ilist -> nat -> n res

val il_used : ilist -> n list

val index_list : n iC

type iopt = { strided : stride; spilled : ilist }

val io_default : iopt

val io_push : iopt -> n -> iopt

val io_len : iopt -> nat

val io_is_empty : iopt -> bool

val io_index : iopt -> nat -> n res

val io_iter : iopt -> n list res

val index_optimized : n iC

val ic_nat : n iC -> nat iC

type region = { dflt : __; push : (__ -> __ -> (__ * __) res);
                read : (__ -> __ -> __ res); clear : (__ -> __);
                merge : (__ list -> __) }

type val0 = __

type idx = __

type st = __

val push_all : region -> st -> val0 list -> (st * idx list) res

val owned : region

val mirror : region

val vec_region : region

val string_region : region -> region

val option_region : region -> region

val result_region : region -> region -> region

val tuple2 : region -> region -> region

val ic_range : region -> idx iC -> idx ic_st -> nat -> nat -> idx list res

val slice : region -> idx iC -> region

val collapse : region -> (val0 -> val0 -> bool) -> region

type pairIdx = { to_pair : (idx -> nat * nat); of_pair : ((nat * nat) -> idx) }

val consec : region -> pairIdx -> nat iC -> bool -> region

val owned_pair : pairIdx

val push_cols : region -> st list -> val0 list -> (st list * idx list) res

val zip_read : region -> st list -> idx list -> val0 list res

val merge_cols : region -> st list list -> st list

val columns : region -> nat iC -> bool -> region

type items = { index : (st -> idx -> __ res); own : (__ -> val0 res);
               borrow : (val0 -> __); clone_onto : (__ -> val0 -> val0 res);
               push_item : (st -> __ -> (st * idx) res) }

type item = __

val owned_items : items

val mirror_items : items

val vec_region_items : items

val string_items : region -> items -> items

val option_items : region -> items -> items

val result_items : region -> region -> items -> items -> items

val tuple2_items : region -> region -> items -> items -> items

val zip_clone_onto :
  region -> items -> item list -> val0 list -> val0 list res

val seq_clone_onto :
  region -> items -> item list -> val0 list -> val0 list res

type rslice =
| RS_region of st * nat * nat
| RS_owned of val0 list

val rs_len : region -> idx iC -> rslice -> nat res

val rs_is_empty : region -> idx iC -> rslice -> bool res

val rs_get : region -> idx iC -> items -> rslice -> nat -> item res

val rs_iter_region :
  region -> idx iC -> items -> st -> nat -> nat -> item list res

val rs_iter : region -> idx iC -> items -> rslice -> item list res

val push_items_each : region -> idx iC -> items -> st -> item list -> st res

val push_from_region :
  region -> idx iC -> items -> st -> st -> nat -> nat -> st res

val slice_items : region -> idx iC -> items -> items

val collapse_items : region -> (val0 -> val0 -> bool) -> items -> items

val consec_items : region -> pairIdx -> nat iC -> bool -> items -> items

type rcols =
| RC_region of st list * idx list
| RC_owned of val0 list

val rc_len : region -> rcols -> nat

val rc_is_empty : region -> rcols -> bool

val rc_get : region -> items -> rcols -> nat -> item res

val rc_zip : region -> items -> st list -> idx list -> item list res

val rc_iter : region -> items -> rcols -> item list res

val push_cols_items :
  region -> items -> st list -> item list -> (st list * idx list) res

val pad_cols : region -> st list -> nat -> st list

val columns_items : region -> nat iC -> bool -> items -> items

type uval =
| UN of n
| UL of uval list
| UNone
| USome of uval
| UOk of uval
| UErr of uval

val omap : ('a1 -> 'a2 option) -> 'a1 list -> 'a2 list option

val ubool : bool -> uval

val unat : nat -> uval

val upair : nat -> nat -> uval

val ures : uval res -> uval

type wire = { of_u : (uval -> val0 option); to_u : (val0 -> uval);
              idx_u : (idx -> uval); probe : (item -> uval res) }

type elem = { e_of : (uval -> __ option); e_to : (__ -> uval);
              e_eqb : (__ -> __ -> bool) }

val e_word : n -> elem

val e_unit : elem

val f64_is_nan : n -> bool

val f64_eqb : n -> n -> bool

val e_f64 : elem

val list_eqb : ('a1 -> 'a1 -> bool) -> 'a1 list -> 'a1 list -> bool

type mRegion = { mr : region; mi : items; mw : wire;
                 m_veq : (val0 -> val0 -> bool) }

val m_owned : elem -> mRegion

val m_mirror : elem -> mRegion

val m_vec : elem -> mRegion

val m_string : (uval -> bool) -> mRegion -> mRegion

val m_option : mRegion -> mRegion

val m_result : mRegion -> mRegion -> mRegion

val m_tuple2 : mRegion -> mRegion -> mRegion

val seq_probe :
  region -> items -> wire -> ('a1 -> nat res) -> ('a1 -> bool res) -> ('a1 ->
  nat -> item res) -> ('a1 -> item list res) -> ('a1 -> val0 list res) -> 'a1
  -> uval res

val m_slice : mRegion -> idx iC -> mRegion

val m_collapse : mRegion -> mRegion

val m_consec : mRegion -> pairIdx -> nat iC -> bool -> mRegion

val m_columns : mRegion -> nat iC -> bool -> mRegion

type op =
| OPush of nat * n * uval
| OProbe of nat
| ORead of nat
| OClear of nat
| OMerge of nat * nat list
| OClone of nat * nat
| OCloneFrom of nat * nat
| OPushItem of nat * nat * nat * bool
| OCloneOnto of nat * nat * uval
| OReserveItems of nat * uval list
| OReserveRegions of nat * nat list

type obs =
| BIdx of uval
| BVal of uval
| BPanic
| BIll
| BNone

type slot = { s_st : st; s_log : idx list }

val slot0 : mRegion -> slot

val get_slot : mRegion -> slot list -> nat -> slot

val set_slot : mRegion -> slot list -> nat -> slot -> slot list

val obs_res : uval res -> obs

val step : mRegion -> slot list -> op -> obs list * slot list option

val run : mRegion -> slot list -> op list -> obs list list

val run0 : mRegion -> op list -> obs list list

type u8st =
| U0
| UC of nat * n * n

val between : n -> n -> n -> bool

val u8step : u8st -> n -> u8st option

val utf8_run : n list -> u8st option

val utf8_valid : n list -> bool

val slice_pair : region -> idx iC -> pairIdx

val collapse_pair : region -> (val0 -> val0 -> bool) -> pairIdx -> pairIdx

val str_wf : uval -> bool

val entry : bool -> n -> mRegion option

val run_entry : bool -> n -> op list -> obs list list option
