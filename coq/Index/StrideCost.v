(** C19, whole-sequence form: the cost of ANY index sequence pushed into a fresh [IndexOptimized] is the
    documented rule evaluated on the sequence — the longest prefix the stride absorbs is free, the
    remainder is charged by the spill list (4 bytes per entry while values fit in u32, 8 bytes per
    entry from the first larger value on). *)
From FC Require Import Base.Res Index.IC Index.Stride Index.StrideOk.
Set Implicit Arguments.
Local Open Scope N_scope.

(** [stride_split st l]: feed [l] to the stride until it refuses; the state reached and what is left. *)
Fixpoint stride_split (st : stride) (l : list N) : stride * list N :=
  match l with
  | [] => (st, [])
  | x :: l' => if fst (stride_push st x) then stride_split (snd (stride_push st x)) l' else (st, l)
  end.

Lemma il_push_nonempty s x : il_is_empty (il_push s x) = false.
Proof.
  unfold il_push, il_is_empty. destruct (chonk s) as [|c ch] eqn:E.
  - destruct (x <? W32); cbn [smol chonk]; [destruct (smol s); reflexivity|destruct (smol s); reflexivity].
  - cbn [smol chonk]. destruct (smol s); reflexivity.
Qed.

Lemma il_pushes_nonempty l : forall s, il_is_empty s = false -> il_is_empty (fold_left il_push l s) = false.
Proof.
  induction l as [|x l IH]; intros s Hs; cbn [fold_left]; [exact Hs|]. apply IH, il_push_nonempty.
Qed.

(** once something was spilled, everything goes to the spill list: the stride is frozen *)
Lemma io_pushes_spilled l : forall o, il_is_empty (spilled o) = false ->
  fold_left io_push l o = {| strided := strided o; spilled := fold_left il_push l (spilled o) |}.
Proof.
  induction l as [|x l IH]; intros o Ho; cbn [fold_left].
  - destruct o; reflexivity.
  - assert (E : io_push o x = {| strided := strided o; spilled := il_push (spilled o) x |}).
    { unfold io_push. rewrite Ho. reflexivity. }
    rewrite E, IH by (cbn [spilled]; apply il_push_nonempty). reflexivity.
Qed.

Lemma il_is_empty_default s : il_is_empty s = true -> s = il_default.
Proof.
  destruct s as [sm ch]. unfold il_is_empty, il_default. cbn [smol chonk].
  destruct sm; destruct ch; intros H; try discriminate; reflexivity.
Qed.

Lemma io_pushes_split l : forall st,
  fold_left io_push l {| strided := st; spilled := il_default |} =
  {| strided := fst (stride_split st l); spilled := fold_left il_push (snd (stride_split st l)) il_default |}.
Proof.
  induction l as [|x l IH]; intros st; cbn [fold_left stride_split]; [reflexivity|].
  unfold io_push at 2. cbn [spilled strided]. change (il_is_empty il_default) with true. cbn iota.
  destruct (stride_push st x) as [ok st'] eqn:Ep. cbn [fst snd]. destruct ok.
  - apply IH.
  - cbn [fst snd fold_left]. rewrite io_pushes_spilled by (cbn [spilled]; apply il_push_nonempty). reflexivity.
Qed.

(** the split is a split of the sequence, the stride state is well formed and denotes the prefix,
    and the prefix is maximal: the first element left over is one the stride refuses *)
Lemma stride_split_spec l : forall st, stride_wf st ->
  let st' := fst (stride_split st l) in let rest := snd (stride_split st l) in
  stride_wf st' /\ stride_abs st ++ l = stride_abs st' ++ rest /\
  match rest with [] => True | x :: _ => fst (stride_push st' x) = false end.
Proof.
  induction l as [|x l IH]; intros st Hw; cbn [stride_split fst snd].
  - repeat split; assumption.
  - destruct (stride_push st x) as [ok st1] eqn:Ep. cbn [fst snd].
    destruct (@stride_push_spec _ _ Hw _ _ Ep) as [Ht _]. destruct ok.
    + destruct (Ht eq_refl) as [Hw1 Ha]. destruct (IH st1 Hw1) as (H1 & H2 & H3).
      repeat split; try assumption. rewrite <- H2, Ha, <- app_assoc. reflexivity.
    + cbn [fst snd]. repeat split; try assumption. rewrite Ep. reflexivity.
Qed.

(** The documented rule, for EVERY sequence: [io_cost l] computed from the sequence alone. *)
Definition io_cost (l : list N) : list N :=
  let rest := snd (stride_split SEmpty l) in
  [4 * N.of_nat (length (fst (take_small rest))); 8 * N.of_nat (length (snd (take_small rest)))].

Theorem io_cost_rule l :
  ic_used index_optimized (fold_left io_push l io_default) = io_cost l.
Proof.
  unfold io_default, io_cost. rewrite io_pushes_split. cbn [ic_used index_optimized spilled].
  apply il_cost_rule.
Qed.

Theorem io_cost_split l :
  let st := fst (stride_split SEmpty l) in let rest := snd (stride_split SEmpty l) in
  l = stride_abs st ++ rest /\ stride_shape (stride_abs st) /\
  match rest with [] => True | x :: _ => fst (stride_push st x) = false end.
Proof.
  destruct (@stride_split_spec l SEmpty I) as (Hw & Hs & Hm). cbn [stride_abs app] in Hs.
  repeat split; [exact Hs| apply stride_abs_shape; exact Hw | exact Hm].
Qed.

(** Corollary: the cost is zero exactly when nothing was left over. *)
Corollary io_cost_zero_iff l :
  ic_used index_optimized (fold_left io_push l io_default) = [0; 0] <-> snd (stride_split SEmpty l) = [].
Proof.
  rewrite io_cost_rule. unfold io_cost. split.
  - intros H. destruct (snd (stride_split SEmpty l)) as [|x r]; [reflexivity|exfalso].
    cbn [take_small] in H. destruct (x <? W32).
    + destruct (take_small r) as [a b]. cbn [fst length] in H. inversion H as [[H1 H2]]; try lia.
    + cbn [fst snd length] in H. inversion H as [[H1 H2]]; try lia.
  - intros ->. reflexivity.
Qed.

(** non-vacuity: a sequence with a strided prefix, a small tail and a large tail *)
Example io_cost_example :
  io_cost [0; 3; 6; 9; 9; 7; 1; 2 ^ 32; 5] = [8; 16] /\
  snd (stride_split SEmpty [0; 3; 6; 9; 9; 7; 1; 2 ^ 32; 5]) = [7; 1; 2 ^ 32; 5].
Proof. vm_compute. split; reflexivity. Qed.

(** Exactly the documented shapes are free: a sequence of representable values costs no heap at all
    IF AND ONLY IF it is empty, [0], or 0, s, 2s, ... followed by repeats of its last element. *)
Theorem io_free_iff_shape l : Forall (fun x => x < W) l ->
  (ic_used index_optimized (fold_left io_push l io_default) = [0; 0] <-> stride_shape l).
Proof.
  intros Hb. split.
  - intros H0. apply io_cost_zero_iff in H0.
    destruct (io_cost_split l) as (Hl & Hs & _). rewrite H0, app_nil_r in Hl. rewrite Hl. exact Hs.
  - intros [->|[->|(s & c & r & Hc & ->)]]; [reflexivity|reflexivity|].
    apply io_stride_free; [exact Hc|].
    rewrite Forall_forall in Hb. apply Hb. apply in_or_app. left.
    apply nth_error_In with (n := (c - 1)%nat). apply strides_nth. lia.
Qed.
