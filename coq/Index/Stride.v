(** [Stride], [IndexList<Vec<u32>, Vec<u64>>] and [IndexOptimized] over machine words.

    Values are [N]; the comparisons against 2^64 and 2^32 that the machine arithmetic performs
    ([checked_mul], [u32::try_from]) are written out, so the definitions are the code's semantics
    on every [x < 2^64] and remain a faithful container beyond. Counters ([count], [reps]) are
    bounded by the number of pushes and are unbounded here (trusted base: fewer than 2^64 pushes). *)
From FC Require Import Base.Res Index.IC.
Set Implicit Arguments.
Local Open Scope N_scope.

Definition W : N := 2 ^ 64.
Definition W32 : N := 2 ^ 32.

Inductive stride :=
| SEmpty | SZero
| SStriding (s : N) (c : nat)
| SSaturated (s : N) (c r : nat).

(** [Stride::push] (with [checked_mul] for the next multiple). *)
Definition stride_push (st : stride) (x : N) : bool * stride :=
  match st with
  | SEmpty => if x =? 0 then (true, SZero) else (false, st)
  | SZero => (true, SStriding x 2)
  | SStriding s c =>
      if (s * N.of_nat c <? W) && (x =? s * N.of_nat c) then (true, SStriding s (S c))
      else if x =? s * N.of_nat (c - 1) then (true, SSaturated s c 1)
      else (false, st)
  | SSaturated s c r =>
      if x =? s * N.of_nat (c - 1) then (true, SSaturated s c (S r)) else (false, st)
  end.

Definition stride_len (st : stride) : nat :=
  match st with SEmpty => 0 | SZero => 1 | SStriding _ c => c | SSaturated _ c r => c + r end%nat.

Definition stride_is_empty (st : stride) : bool := match st with SEmpty => true | _ => false end.

(** [Stride::index]; [Striding] does not bound-check (callers do). *)
Definition stride_index (st : stride) (i : nat) : res N :=
  match st with
  | SEmpty => Panic
  | SZero => Ok 0
  | SStriding s _ => Ok (s * N.of_nat i)
  | SSaturated s c _ => if (i <? c)%nat then Ok (s * N.of_nat i) else Ok (s * N.of_nat (c - 1))
  end.

(** [StrideIter]: index 0, 1, ... while below [len]. *)
Definition stride_iter (st : stride) : res (list N) := mapM (stride_index st) (seq 0 (stride_len st)).

Definition strides (s : N) (c : nat) : list N := map (fun i => s * N.of_nat i) (seq 0 c).

Definition stride_abs (st : stride) : list N :=
  match st with
  | SEmpty => []
  | SZero => [0]
  | SStriding s c => strides s c
  | SSaturated s c r => strides s c ++ repeat (s * N.of_nat (c - 1)) r
  end.

Definition stride_wf (st : stride) : Prop :=
  match st with
  | SEmpty | SZero => True
  | SStriding s c => (2 <= c)%nat
  | SSaturated s c r => (2 <= c)%nat /\ (1 <= r)%nat
  end.

(** [IndexList<Vec<u32>, Vec<u64>>] *)
Record ilist := { smol : list N; chonk : list N }.
Definition il_default := {| smol := []; chonk := [] |}.
Definition il_push (l : ilist) (x : N) : ilist :=
  match chonk l with
  | [] => if x <? W32 then {| smol := smol l ++ [x]; chonk := [] |} else {| smol := smol l; chonk := [x] |}
  | _ => {| smol := smol l; chonk := chonk l ++ [x] |}
  end.
Definition il_abs (l : ilist) := smol l ++ chonk l.
Definition il_len (l : ilist) : nat := (length (smol l) + length (chonk l))%nat.
Definition il_is_empty (l : ilist) : bool :=
  match smol l, chonk l with [], [] => true | _, _ => false end.
Definition il_index (l : ilist) (i : nat) : res N :=
  if (i <? length (smol l))%nat then match nth_error (smol l) i with Some x => Ok x | None => Panic end
  else match nth_error (chonk l) (i - length (smol l)) with Some x => Ok x | None => Panic end.
Definition il_used (l : ilist) : list N := [4 * N.of_nat (length (smol l)); 8 * N.of_nat (length (chonk l))].

Definition index_list : IC N := {|
  ic_st := ilist; ic_default := il_default; ic_push := il_push; ic_index := il_index;
  ic_len := il_len; ic_is_empty := il_is_empty; ic_iter := fun l => Ok (smol l ++ chonk l);
  ic_clear := fun _ => il_default; ic_used := il_used |}.

(** [IndexOptimized] *)
Record iopt := { strided : stride; spilled : ilist }.
Definition io_default := {| strided := SEmpty; spilled := il_default |}.
Definition io_push (o : iopt) (x : N) : iopt :=
  if il_is_empty (spilled o) then
    let '(ok, st') := stride_push (strided o) x in
    if ok then {| strided := st'; spilled := spilled o |}
    else {| strided := strided o; spilled := il_push (spilled o) x |}
  else {| strided := strided o; spilled := il_push (spilled o) x |}.
Definition io_abs (o : iopt) := stride_abs (strided o) ++ il_abs (spilled o).
Definition io_len (o : iopt) := (stride_len (strided o) + il_len (spilled o))%nat.
Definition io_is_empty (o : iopt) := stride_is_empty (strided o) && il_is_empty (spilled o).
Definition io_index (o : iopt) (i : nat) : res N :=
  if (i <? stride_len (strided o))%nat then stride_index (strided o) i
  else il_index (spilled o) (i - stride_len (strided o)).
Definition io_iter (o : iopt) : res (list N) :=
  let* a := stride_iter (strided o) in Ok (a ++ il_abs (spilled o)).

Definition index_optimized : IC N := {|
  ic_st := iopt; ic_default := io_default; ic_push := io_push; ic_index := io_index;
  ic_len := io_len; ic_is_empty := io_is_empty; ic_iter := io_iter;
  ic_clear := fun _ => io_default; ic_used := fun o => il_used (spilled o) |}.

(** Offsets ([nat] in the region models) stored in a container of machine words. *)
Definition ic_nat (c : IC N) : IC nat := ic_via N.of_nat N.to_nat c.
