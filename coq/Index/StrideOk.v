(** Faithfulness of [Stride], [IndexList] and [IndexOptimized] (C05) and their space cost (C19). *)
From FC Require Import Base.Res Index.IC Index.Stride.
Set Implicit Arguments.
Local Open Scope N_scope.

Lemma strides_S s c : strides s (S c) = strides s c ++ [s * N.of_nat c].
Proof. unfold strides. rewrite seq_S, map_app. reflexivity. Qed.

Lemma strides_length s c : length (strides s c) = c.
Proof. unfold strides. now rewrite map_length, seq_length. Qed.

Lemma strides_nth s c i : (i < c)%nat -> nth_error (strides s c) i = Some (s * N.of_nat i).
Proof.
  intros H. unfold strides. rewrite nth_error_map, nth_error_nth' with (d := 0%nat) by (rewrite seq_length; lia).
  rewrite seq_nth by lia. reflexivity.
Qed.

(** The documented shape: [0, s, 2s, ..., (c-1)s] followed by [r] repeats of the last element. *)
Definition stride_shape (l : list N) : Prop :=
  l = [] \/ l = [0] \/ exists s c r, (2 <= c)%nat /\ l = strides s c ++ repeat (s * N.of_nat (c - 1)) r.

Lemma stride_abs_shape st : stride_wf st -> stride_shape (stride_abs st).
Proof.
  destruct st as [| |s c|s c r]; cbn; intros H.
  - left; reflexivity.
  - right; left; reflexivity.
  - right; right. exists s, c, 0%nat. split; [assumption|]. cbn. now rewrite app_nil_r.
  - right; right. exists s, c, r. split; [tauto|reflexivity].
Qed.

(** C05, [Stride::push]: an accepted push extends the represented sequence by exactly the pushed
    value; a rejected push leaves the state untouched. *)
Lemma stride_push_spec st x : stride_wf st ->
  forall b st', stride_push st x = (b, st') ->
    (b = true -> stride_wf st' /\ stride_abs st' = stride_abs st ++ [x]) /\
    (b = false -> st' = st).
Proof.
  intros Hwf b st' H. destruct st as [| |s c|s c r]; cbn [stride_push] in H.
  - destruct (N.eqb_spec x 0); inversion H; subst; split; try discriminate; auto.
    all: try (intros _; cbn; auto).
  - inversion H; subst. split; [|discriminate]. intros _. cbn. split; [lia|].
    unfold strides. cbn. rewrite N.mul_0_r, N.mul_1_r. reflexivity.
  - cbn in Hwf.
    destruct ((s * N.of_nat c <? W) && (x =? s * N.of_nat c)) eqn:E1.
    + apply andb_true_iff in E1. destruct E1 as [E1 E2]. apply N.eqb_eq in E2.
      inversion H; subst. split; [|discriminate]. intros _. cbn [stride_wf stride_abs]. split; [lia|].
      apply strides_S.
    + destruct (N.eqb_spec x (s * N.of_nat (c - 1))); inversion H; subst; split; try discriminate; auto.
      intros _. cbn. split; [lia|reflexivity].
  - destruct Hwf as (Hc & Hr).
    destruct (N.eqb_spec x (s * N.of_nat (c - 1))); inversion H; subst; split; try discriminate; auto.
    intros _. cbn. split; [lia|].
    rewrite <- app_assoc. f_equal.
    change (s * N.of_nat (c - 1) :: repeat (s * N.of_nat (c - 1)) r) with (repeat (s * N.of_nat (c - 1)) (S r)).
    rewrite <- repeat_cons. reflexivity.
Qed.

(** Completeness: a machine word that continues the documented pattern is accepted. From a
    striding state the continuations are the next multiple (when it is representable) and a repeat
    of the last element; from a saturated state only the repeat. *)
Lemma stride_push_complete st x : stride_wf st -> x < W ->
  match st with
  | SEmpty => x = 0
  | SZero => True
  | SStriding s c => x = s * N.of_nat c \/ x = s * N.of_nat (c - 1)
  | SSaturated s c r => x = s * N.of_nat (c - 1)
  end -> fst (stride_push st x) = true.
Proof.
  intros Hwf Hx. destruct st as [| |s c|s c r]; cbn [stride_push].
  - intros ->. reflexivity.
  - reflexivity.
  - intros [->| ->].
    + destruct (N.ltb_spec (s * N.of_nat c) W); [|lia]. rewrite N.eqb_refl. reflexivity.
    + destruct ((s * N.of_nat c <? W) && (s * N.of_nat (c - 1) =? s * N.of_nat c)); [reflexivity|].
      rewrite N.eqb_refl. reflexivity.
  - intros ->. rewrite N.eqb_refl. reflexivity.
Qed.

(** ... and nothing else is: an accepted value is one of those continuations. *)
Lemma stride_push_sound st x : fst (stride_push st x) = true ->
  match st with
  | SEmpty => x = 0
  | SZero => True
  | SStriding s c => (x = s * N.of_nat c /\ x < W) \/ x = s * N.of_nat (c - 1)
  | SSaturated s c r => x = s * N.of_nat (c - 1)
  end.
Proof.
  destruct st as [| |s c|s c r]; cbn [stride_push].
  - destruct (N.eqb_spec x 0); [auto|discriminate].
  - auto.
  - destruct ((s * N.of_nat c <? W) && (x =? s * N.of_nat c)) eqn:E1.
    + apply andb_true_iff in E1. destruct E1 as [E1 E2]. apply N.eqb_eq in E2. apply N.ltb_lt in E1.
      intros _. left. subst. auto.
    + destruct (N.eqb_spec x (s * N.of_nat (c - 1))); [auto|discriminate].
  - destruct (N.eqb_spec x (s * N.of_nat (c - 1))); [auto|discriminate].
Qed.

Lemma stride_len_spec st : stride_len st = length (stride_abs st).
Proof.
  destruct st; cbn; auto.
  - now rewrite strides_length.
  - now rewrite app_length, strides_length, repeat_length.
Qed.

Lemma stride_index_spec st i : stride_wf st -> (i < stride_len st)%nat ->
  exists x, stride_index st i = Ok x /\ nth_error (stride_abs st) i = Some x.
Proof.
  intros Hwf Hi. destruct st as [| |s c|s c r]; cbn [stride_index stride_len stride_abs stride_wf] in *.
  - lia.
  - destruct i; [|lia]. exists 0. split; reflexivity.
  - exists (s * N.of_nat i). split; [reflexivity|]. apply strides_nth; assumption.
  - destruct Hwf as (Hc & Hr). destruct (Nat.ltb_spec i c).
    + exists (s * N.of_nat i). split; [reflexivity|].
      rewrite nth_error_app1 by (rewrite strides_length; assumption). apply strides_nth; assumption.
    + exists (s * N.of_nat (c - 1)). split; [reflexivity|].
      rewrite nth_error_app2 by (rewrite strides_length; assumption). rewrite strides_length.
      rewrite nth_error_nth' with (d := s * N.of_nat (c - 1)) by (rewrite repeat_length; lia).
      f_equal. apply nth_repeat.
Qed.

Lemma mapM_nth_seq {A} (f : nat -> res A) (l : list A) :
  (forall i, (i < length l)%nat -> exists x, f i = Ok x /\ nth_error l i = Some x) ->
  mapM f (seq 0 (length l)) = Ok l.
Proof.
  induction l as [|y l IH] using rev_ind; intros H; [reflexivity|].
  rewrite app_length. cbn [length]. rewrite Nat.add_1_r, seq_S. cbn [plus].
  assert (E : forall (l1 l2 : list nat) r1, mapM f l1 = Ok r1 ->
            mapM f (l1 ++ l2) = let* r2 := mapM f l2 in Ok (r1 ++ r2)).
  { induction l1 as [|a l1 IH1]; intros l2 r1; cbn.
    - intros Hq; inversion Hq; subst. destruct (mapM f l2); reflexivity.
    - destruct (f a); cbn; [|discriminate]. destruct (mapM f l1) eqn:E1; cbn; [|discriminate].
      intros Hq; inversion Hq; subst. rewrite (IH1 l2 a1 eq_refl). destruct (mapM f l2); reflexivity. }
  rewrite (E _ _ l).
  - cbn. destruct (H (length l)) as (x & Hx & Hn); [rewrite app_length; cbn; lia|].
    rewrite Hx. cbn. rewrite nth_error_app2, Nat.sub_diag in Hn by lia. cbn in Hn. inversion Hn; subst. reflexivity.
  - apply IH. intros i Hi. destruct (H i) as (x & Hx & Hn); [rewrite app_length; cbn; lia|].
    exists x. split; [assumption|]. rewrite nth_error_app1 in Hn by assumption. assumption.
Qed.

Lemma stride_iter_spec st : stride_wf st -> stride_iter st = Ok (stride_abs st).
Proof.
  intros Hwf. unfold stride_iter. rewrite stride_len_spec. apply mapM_nth_seq.
  intros i Hi. apply stride_index_spec; [assumption|]. rewrite stride_len_spec. assumption.
Qed.

(** IndexList *)
Lemma il_push_abs l x : il_abs (il_push l x) = il_abs l ++ [x].
Proof.
  unfold il_push, il_abs. destruct l as [sm ch]; cbn [smol chonk]. destruct ch; cbn [smol chonk].
  - destruct (x <? W32); cbn [smol chonk]; now rewrite ?app_nil_r.
  - rewrite <- app_assoc. reflexivity.
Qed.

Lemma il_index_spec l i : il_index l i = match nth_error (il_abs l) i with Some x => Ok x | None => Panic end.
Proof.
  unfold il_index, il_abs. destruct (Nat.ltb_spec i (length (smol l))).
  - now rewrite nth_error_app1.
  - now rewrite nth_error_app2.
Qed.

Lemma il_is_empty_spec l : il_is_empty l = match il_abs l with [] => true | _ => false end.
Proof. unfold il_is_empty, il_abs. destruct (smol l), (chonk l); reflexivity. Qed.

#[export] Instance index_list_ok : ICOk index_list.
Proof.
  refine (@Build_ICOk N index_list (fun _ => True) il_abs _ _ _ _ _ _ _ _ _ _); cbn; auto.
  - intros s x _. apply il_push_abs.
  - intros s i _. apply il_index_spec.
  - intros s _. unfold il_len, il_abs. now rewrite app_length.
  - intros s _. apply il_is_empty_spec.
Defined.

(** The u32 part holds only values below 2^32 and the u64 part starts at the first value that does
    not fit: the space rule of C19. *)
Definition il_wf (l : ilist) : Prop :=
  Forall (fun x => x < W32) (smol l) /\ match chonk l with [] => True | x :: _ => W32 <= x end.

Lemma il_push_wf l x : il_wf l -> il_wf (il_push l x).
Proof.
  intros [H1 H2]. unfold il_push, il_wf. destruct l as [sm ch]; cbn [smol chonk] in *. destruct ch; cbn [smol chonk].
  - destruct (N.ltb_spec x W32); cbn [smol chonk]; split; auto. apply Forall_app; auto.
  - split; auto.
Qed.

(** IndexOptimized *)
Definition io_wf (o : iopt) := stride_wf (strided o).

Theorem io_push_spec o x : io_wf o -> io_wf (io_push o x) /\ io_abs (io_push o x) = io_abs o ++ [x].
Proof.
  intros Hs. unfold io_push, io_abs, io_wf in *. rewrite il_is_empty_spec.
  destruct (il_abs (spilled o)) eqn:E.
  - destruct (stride_push (strided o) x) as [ok st'] eqn:Ep.
    destruct (@stride_push_spec _ _ Hs _ _ Ep) as [Ht Hf].
    destruct ok; cbn.
    + destruct (Ht eq_refl) as [Hw Ha]. split; [assumption|]. rewrite Ha, E, !app_nil_r. reflexivity.
    + split; [assumption|]. rewrite il_push_abs, E, app_nil_r. reflexivity.
  - cbn. split; [assumption|]. rewrite il_push_abs, E. now rewrite app_assoc.
Qed.

Theorem io_index_spec o i : io_wf o ->
  io_index o i = match nth_error (io_abs o) i with Some x => Ok x | None => Panic end.
Proof.
  intros Hs. unfold io_index, io_abs. destruct (Nat.ltb_spec i (stride_len (strided o))).
  - destruct (@stride_index_spec _ _ Hs H) as (x & H1 & H2).
    rewrite nth_error_app1 by (rewrite <- stride_len_spec; assumption). now rewrite H1, H2.
  - rewrite il_index_spec. rewrite nth_error_app2 by (rewrite <- stride_len_spec; assumption).
    now rewrite <- stride_len_spec.
Qed.

#[export] Instance index_optimized_ok : ICOk index_optimized.
Proof.
  refine (@Build_ICOk N index_optimized io_wf io_abs _ _ _ _ _ _ _ _ _ _); cbn.
  - exact I.
  - reflexivity.
  - intros s x Hs. apply io_push_spec; assumption.
  - intros s x Hs. apply io_push_spec; assumption.
  - intros s i Hs. apply io_index_spec; assumption.
  - intros s Hs. unfold io_len, io_abs, il_len, il_abs. rewrite !app_length, stride_len_spec. reflexivity.
  - intros s Hs. unfold io_is_empty, io_abs, io_wf in *. rewrite il_is_empty_spec.
    destruct (strided s) as [| |st c|st c r]; cbn [stride_wf stride_is_empty stride_abs andb app] in *; try reflexivity.
    + destruct c as [|[|c]]; try lia. reflexivity.
    + destruct Hs as [Hc _]. destruct c as [|[|c]]; try lia. reflexivity.
  - intros s Hs. unfold io_iter, io_abs. rewrite stride_iter_spec by assumption. reflexivity.
  - intros _. exact I.
  - intros _. reflexivity.
Defined.

#[export] Instance ic_nat_ok (c : IC N) `{ICOk N c} : ICOk (ic_nat c) :=
  @ic_via_ok N nat N.of_nat N.to_nat c Nat2N.id _.

(** Every value handed back by a stride is one that was pushed; on machine words the products in
    [Stride::index] therefore never overflow. *)
Lemma stride_abs_bounded st l : stride_wf st -> stride_abs st = l -> Forall (fun x => x < W) l ->
  forall i x, (i < stride_len st)%nat -> stride_index st i = Ok x -> x < W.
Proof.
  intros Hwf <- Hall i x Hi Hx. destruct (@stride_index_spec _ _ Hwf Hi) as (y & Hy & Hn).
  rewrite Hx in Hy. inversion Hy; subst. rewrite Forall_forall in Hall. apply Hall.
  eapply nth_error_In; eauto.
Qed.

(** C19: what the optimised container spends.  [io_cost l] is the documented rule computed on the
    pushed sequence: the longest prefix absorbed by the stride is free, the rest costs 4 bytes per
    entry until the first value that needs 64 bits and 8 bytes per entry from there on. *)
Fixpoint take_small (l : list N) : list N * list N :=
  match l with
  | [] => ([], [])
  | x :: l' => if x <? W32 then let '(a, b) := take_small l' in (x :: a, b) else ([], l)
  end.

Lemma il_pushes_split l : forall sm,
  fold_left il_push l {| smol := sm; chonk := [] |} =
  {| smol := sm ++ fst (take_small l); chonk := snd (take_small l) |}.
Proof.
  induction l as [|x l IH]; intros sm; cbn [fold_left take_small].
  - cbn. now rewrite app_nil_r.
  - unfold il_push at 2. cbn [chonk smol]. destruct (x <? W32) eqn:E.
    + rewrite IH. destruct (take_small l) as [a b]. cbn. rewrite <- app_assoc. reflexivity.
    + cbn [fst snd]. rewrite app_nil_r. clear IH E.
      assert (G : forall ch, ch <> [] -> fold_left il_push l {| smol := sm; chonk := ch |} = {| smol := sm; chonk := ch ++ l |}).
      { induction l as [|y l IHl]; intros ch Hch; cbn [fold_left]; [now rewrite app_nil_r|].
        unfold il_push at 2. cbn [chonk smol]. destruct ch as [|c ch]; [congruence|].
        rewrite IHl by (destruct ch; discriminate). rewrite <- app_assoc. reflexivity. }
      rewrite G by discriminate. reflexivity.
Qed.

(** the spilled part of an [IndexOptimized] after pushing [l] from the default state *)
Theorem il_cost_rule l :
  il_used (fold_left il_push l il_default) =
  [4 * N.of_nat (length (fst (take_small l))); 8 * N.of_nat (length (snd (take_small l)))].
Proof. unfold il_default. rewrite il_pushes_split. reflexivity. Qed.

(** A sequence of the documented shape pushed into a fresh [IndexOptimized] never spills: it costs
    no heap at all. *)
Lemma io_push_strided o x : il_is_empty (spilled o) = true -> fst (stride_push (strided o) x) = true ->
  spilled (io_push o x) = spilled o /\ strided (io_push o x) = snd (stride_push (strided o) x).
Proof.
  intros He Hp. unfold io_push. rewrite He. destruct (stride_push (strided o) x) as [ok st']. cbn in *.
  subst ok. cbn. auto.
Qed.

Theorem io_stride_free s c r : (2 <= c)%nat -> s * N.of_nat (c - 1) < W ->
  ic_used index_optimized (fold_left io_push (strides s c ++ repeat (s * N.of_nat (c - 1)) r) io_default) = [0; 0].
Proof.
  intros Hc Hb.
  assert (H1 : forall k, (2 <= k <= c)%nat ->
     fold_left io_push (strides s k) io_default = {| strided := SStriding s k; spilled := il_default |}).
  { induction k as [|k IH]; intros Hk; [lia|].
    destruct (Nat.eq_dec k 1) as [->|Hne].
    - unfold strides. cbn. rewrite N.mul_0_r, N.mul_1_r. unfold io_push. cbn. reflexivity.
    - rewrite strides_S, fold_left_app, IH by lia. cbn [fold_left]. unfold io_push. cbn [spilled strided il_is_empty il_default smol chonk].
      cbn [stride_push].
      assert (s * N.of_nat k < W).
      { eapply N.le_lt_trans; [|exact Hb]. apply N.mul_le_mono_l. lia. }
      destruct (N.ltb_spec (s * N.of_nat k) W); [|lia]. rewrite N.eqb_refl. reflexivity. }
  rewrite fold_left_app, H1 by lia.
  destruct r as [|r]; [reflexivity|].
  assert (H2 : forall r, fold_left io_push (repeat (s * N.of_nat (c - 1)) r) {| strided := SSaturated s c 1; spilled := il_default |}
                         = {| strided := SSaturated s c (1 + r); spilled := il_default |}).
  { clear. induction r as [|r IH]; [reflexivity|].
    cbn [repeat]. rewrite repeat_cons, fold_left_app, IH. cbn [fold_left]. unfold io_push. cbn [spilled strided il_is_empty il_default smol chonk stride_push].
    rewrite N.eqb_refl. repeat f_equal; lia. }
  cbn [repeat fold_left]. unfold io_push at 2. cbn [spilled strided il_is_empty il_default smol chonk stride_push].
  destruct ((s * N.of_nat c <? W) && (s * N.of_nat (c - 1) =? s * N.of_nat c)) eqn:E.
  - (* s = 0: the repeat is also the next multiple *)
    apply andb_true_iff in E. destruct E as [_ E]. apply N.eqb_eq in E.
    assert (s = 0).
    { destruct (N.eq_dec s 0); [assumption|]. apply N.mul_cancel_l in E; [lia|assumption]. }
    subst s. clear. rewrite !N.mul_0_l.
    assert (G : forall n k, ic_used index_optimized (fold_left io_push (repeat 0 n) {| strided := SStriding 0 k; spilled := il_default |}) = [0; 0]).
    { induction n as [|n IH]; intros k; [reflexivity|]. cbn [repeat fold_left]. unfold io_push at 2.
      cbn [spilled strided il_is_empty il_default smol chonk stride_push]. rewrite !N.mul_0_l. cbn. apply IH. }
    apply G.
  - rewrite N.eqb_refl. rewrite H2. reflexivity.
Qed.
