(** Index containers: the model of [Storage<T> + IndexContainer<T>] and its contract. *)
From FC Require Import Base.Res.
From Coq Require Import NArith.
Set Implicit Arguments.

Record IC (T : Type) := {
  ic_st : Type;
  ic_default : ic_st;
  ic_push : ic_st -> T -> ic_st;
  ic_index : ic_st -> nat -> res T;
  ic_len : ic_st -> nat;
  ic_is_empty : ic_st -> bool;
  ic_iter : ic_st -> res (list T);            (* walking [IndexContainer::iter] to the end *)
  ic_clear : ic_st -> ic_st;
  ic_used : ic_st -> list N;                  (* used bytes per [heap_size] callback, in order *)
}.

(** [IndexContainer::extend]: every implementation pushes the items one by one (for [Vec] it is
    [Extend::extend], which appends the same items). *)
Definition ic_extend T (c : IC T) (s : ic_st c) (l : list T) : ic_st c := fold_left (ic_push c) l s.

(** An index container represents exactly the sequence pushed into it. [ic_inv] is the
    representation invariant (e.g. a stride has at least two steps). *)
Class ICOk T (c : IC T) := {
  ic_inv : ic_st c -> Prop;
  ic_abs : ic_st c -> list T;
  inv_default : ic_inv (ic_default c);
  abs_default : ic_abs (ic_default c) = [];
  inv_push : forall s x, ic_inv s -> ic_inv (ic_push c s x);
  abs_push : forall s x, ic_inv s -> ic_abs (ic_push c s x) = ic_abs s ++ [x];
  abs_index : forall s i, ic_inv s ->
     ic_index c s i = match nth_error (ic_abs s) i with Some x => Ok x | None => Panic end;
  abs_len : forall s, ic_inv s -> ic_len c s = length (ic_abs s);
  abs_is_empty : forall s, ic_inv s -> ic_is_empty c s = match ic_abs s with [] => true | _ => false end;
  abs_iter : forall s, ic_inv s -> ic_iter c s = Ok (ic_abs s);
  inv_clear : forall s, ic_inv (ic_clear c s);
  abs_clear : forall s, ic_abs (ic_clear c s) = [];
}.

Lemma push_all_ic T (c : IC T) `{ICOk T c} l : forall s, ic_inv s ->
  ic_inv (fold_left (ic_push c) l s) /\ ic_abs (fold_left (ic_push c) l s) = ic_abs s ++ l.
Proof.
  induction l as [|x l IH]; simpl; intros s Hs; [now rewrite app_nil_r|].
  destruct (IH (ic_push c s x)) as [Hi Ha]; [apply inv_push; assumption|].
  split; [assumption|]. rewrite Ha, abs_push, <- app_assoc by assumption. reflexivity.
Qed.

(** Every state reachable from the default by pushes and clears represents exactly the values
    pushed since the last clear (the C05 statement for a generic container). *)
Section Reach.
  Context T (c : IC T) `{ICOk T c}.
  Inductive icop := IPush (x : T) | IClear.
  Definition ic_step (s : ic_st c) (o : icop) : ic_st c :=
    match o with IPush x => ic_push c s x | IClear => ic_clear c s end.
  Definition spec_step (l : list T) (o : icop) : list T :=
    match o with IPush x => l ++ [x] | IClear => [] end.
  Theorem ic_reachable ops : forall s, ic_inv s ->
    ic_inv (fold_left ic_step ops s) /\
    ic_abs (fold_left ic_step ops s) = fold_left spec_step ops (ic_abs s).
  Proof.
    induction ops as [|o ops IH]; intros s Hs; simpl; [auto|].
    destruct o as [x|]; simpl.
    - destruct (IH (ic_push c s x) (inv_push s x Hs)) as [Hi Ha]. split; [assumption|].
      rewrite Ha, abs_push by assumption. reflexivity.
    - destruct (IH (ic_clear c s) (inv_clear s)) as [Hi Ha]. split; [assumption|].
      rewrite Ha, abs_clear. reflexivity.
  Qed.
End Reach.

(** [Vec<T>] as an index container; [sz] is [size_of::<T>()]. *)
Definition vec_ic (T : Type) (sz : N) : IC T := {|
  ic_st := list T; ic_default := []; ic_push := fun s x => s ++ [x];
  ic_index := fun s i => match nth_error s i with Some x => Ok x | None => Panic end;
  ic_len := @length T;
  ic_is_empty := fun s => match s with [] => true | _ => false end;
  ic_iter := fun s => Ok s;
  ic_clear := fun _ => [];
  ic_used := fun s => [(N.of_nat (length s) * sz)%N] |}.

#[export] Instance vec_ic_ok T sz : ICOk (vec_ic T sz).
Proof.
  refine (@Build_ICOk T (vec_ic T sz) (fun _ => True) (fun s => s) _ _ _ _ _ _ _ _ _ _); simpl; auto.
Defined.

(** Transport an index container along a bijection-like pair (used to store [nat] offsets in a
    container of machine words). *)
Section Via.
  Variables (A B : Type) (f : B -> A) (g : A -> B).
  Variable c : IC A.
  Definition ic_via : IC B := {|
    ic_st := ic_st c; ic_default := ic_default c;
    ic_push := fun s x => ic_push c s (f x);
    ic_index := fun s i => let* x := ic_index c s i in Ok (g x);
    ic_len := ic_len c; ic_is_empty := ic_is_empty c;
    ic_iter := fun s => let* l := ic_iter c s in Ok (map g l);
    ic_clear := ic_clear c; ic_used := ic_used c |}.
  Hypothesis gf : forall x, g (f x) = x.
  Context `{ICOk A c}.
  #[export] Instance ic_via_ok : ICOk ic_via.
  Proof.
    refine (@Build_ICOk B ic_via (@ic_inv A c _) (fun s : ic_st c => map g (@ic_abs A c _ s)) _ _ _ _ _ _ _ _ _ _); cbn.
    - apply inv_default.
    - rewrite abs_default. reflexivity.
    - intros; apply inv_push; assumption.
    - intros s x Hs. rewrite abs_push, map_app by assumption. cbn. rewrite gf. reflexivity.
    - intros s i Hs. rewrite abs_index by assumption. rewrite nth_error_map.
      destruct (nth_error (ic_abs s) i); reflexivity.
    - intros s Hs. rewrite map_length. apply abs_len; assumption.
    - intros s Hs. rewrite abs_is_empty by assumption. destruct (ic_abs s); reflexivity.
    - intros s Hs. rewrite abs_iter by assumption. reflexivity.
    - apply inv_clear.
    - intros s. rewrite abs_clear. reflexivity.
  Defined.
End Via.
