(** Index containers: the model of [Storage<T> + IndexContainer<T>] and its contract. *)
From FC Require Import Base.Res.
Set Implicit Arguments.

Record IC (T : Type) := {
  ic_st : Type;
  ic_default : ic_st;
  ic_push : ic_st -> T -> ic_st;
  ic_index : ic_st -> nat -> res T;
  ic_len : ic_st -> nat;
  ic_clear : ic_st -> ic_st;
}.

(** An index container represents exactly the sequence pushed into it. [ic_inv] is the
    representation invariant (e.g. a stride has at least two steps). The logical model works on
    unbounded numbers with the 2^64 comparisons written out; that machine arithmetic agrees with
    it on machine-representable inputs is a separate statement (Index/Stride.v). *)
Class ICOk T (c : IC T) := {
  ic_inv : ic_st c -> Prop;
  ic_abs : ic_st c -> list T;
  inv_default : ic_inv (ic_default c);
  abs_default : ic_abs (ic_default c) = [];
  inv_push : forall s x, ic_inv s -> ic_inv (ic_push c s x);
  abs_push : forall s x, ic_inv s -> ic_abs (ic_push c s x) = ic_abs s ++ [x];
  abs_index : forall s i, ic_inv s ->
     ic_index c s i = match nth_error (ic_abs s) i with Some x => Ok x | None => Panic end;
  abs_len : forall s, ic_inv s -> ic_len c s = length (ic_abs s);
  inv_clear : forall s, ic_inv (ic_clear c s);
  abs_clear : forall s, ic_abs (ic_clear c s) = [];
}.

Lemma push_all_ic T (c : IC T) `{ICOk T c} l : forall s, ic_inv s ->
  ic_inv (fold_left (ic_push c) l s) /\ ic_abs (fold_left (ic_push c) l s) = ic_abs s ++ l.
Proof.
  induction l as [|x l IH]; simpl; intros s Hs; [now rewrite app_nil_r|].
  destruct (IH (ic_push c s x)) as [Hi Ha]; [apply inv_push; assumption|].
  split; [assumption|]. rewrite Ha, abs_push, <- app_assoc by assumption. reflexivity.
Qed.

(** [Vec<T>] as an index container. *)
Definition vec_ic (T : Type) : IC T := {|
  ic_st := list T; ic_default := []; ic_push := fun s x => s ++ [x];
  ic_index := fun s i => match nth_error s i with Some x => Ok x | None => Panic end;
  ic_len := @length T; ic_clear := fun _ => [] |}.

#[export] Instance vec_ic_ok T : ICOk (vec_ic T).
Proof.
  refine (@Build_ICOk T (vec_ic T) (fun _ => True) (fun s => s) _ _ _ _ _ _ _ _); simpl; auto.
Defined.
