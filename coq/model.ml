
type __ = Obj.t

(** val negb : bool -> bool **)

let negb = function
| true -> false
| false -> true

type nat =
| O
| S of nat

(** val option_map : ('a1 -> 'a2) -> 'a1 option -> 'a2 option **)

let option_map f = function
| Some a -> Some (f a)
| None -> None

type ('a, 'b) sum =
| Inl of 'a
| Inr of 'b

(** val fst : ('a1 * 'a2) -> 'a1 **)

let fst = function
| (x, _) -> x

(** val snd : ('a1 * 'a2) -> 'a2 **)

let snd = function
| (_, y) -> y

(** val length : 'a1 list -> nat **)

let rec length = function
| [] -> O
| _ :: l' -> S (length l')

(** val app : 'a1 list -> 'a1 list -> 'a1 list **)

let rec app l m =
  match l with
  | [] -> m
  | a :: l1 -> a :: (app l1 m)

type comparison =
| Eq
| Lt
| Gt

module Coq__1 = struct
 (** val add : nat -> nat -> nat **)
 let rec add n0 m =
   match n0 with
   | O -> m
   | S p -> S (add p m)
end
include Coq__1

(** val sub : nat -> nat -> nat **)

let rec sub n0 m =
  match n0 with
  | O -> n0
  | S k -> (match m with
            | O -> n0
            | S l -> sub k l)

module Nat =
 struct
  (** val eqb : nat -> nat -> bool **)

  let rec eqb n0 m =
    match n0 with
    | O -> (match m with
            | O -> true
            | S _ -> false)
    | S n' -> (match m with
               | O -> false
               | S m' -> eqb n' m')

  (** val leb : nat -> nat -> bool **)

  let rec leb n0 m =
    match n0 with
    | O -> true
    | S n' -> (match m with
               | O -> false
               | S m' -> leb n' m')

  (** val ltb : nat -> nat -> bool **)

  let ltb n0 m =
    leb (S n0) m

  (** val max : nat -> nat -> nat **)

  let rec max n0 m =
    match n0 with
    | O -> m
    | S n' -> (match m with
               | O -> n0
               | S m' -> S (max n' m'))

  (** val min : nat -> nat -> nat **)

  let rec min n0 m =
    match n0 with
    | O -> O
    | S n' -> (match m with
               | O -> O
               | S m' -> S (min n' m'))
 end

(** val hd : 'a1 -> 'a1 list -> 'a1 **)

let hd default = function
| [] -> default
| x :: _ -> x

(** val tl : 'a1 list -> 'a1 list **)

let tl = function
| [] -> []
| _ :: m -> m

(** val nth : nat -> 'a1 list -> 'a1 -> 'a1 **)

let rec nth n0 l default =
  match n0 with
  | O -> (match l with
          | [] -> default
          | x :: _ -> x)
  | S m -> (match l with
            | [] -> default
            | _ :: t -> nth m t default)

(** val nth_error : 'a1 list -> nat -> 'a1 option **)

let rec nth_error l = function
| O -> (match l with
        | [] -> None
        | x :: _ -> Some x)
| S n1 -> (match l with
           | [] -> None
           | _ :: l0 -> nth_error l0 n1)

(** val map : ('a1 -> 'a2) -> 'a1 list -> 'a2 list **)

let rec map f = function
| [] -> []
| a :: t -> (f a) :: (map f t)

(** val flat_map : ('a1 -> 'a2 list) -> 'a1 list -> 'a2 list **)

let rec flat_map f = function
| [] -> []
| x :: t -> app (f x) (flat_map f t)

(** val fold_left : ('a1 -> 'a2 -> 'a1) -> 'a2 list -> 'a1 -> 'a1 **)

let rec fold_left f l a0 =
  match l with
  | [] -> a0
  | b :: t -> fold_left f t (f a0 b)

(** val fold_right : ('a2 -> 'a1 -> 'a1) -> 'a1 -> 'a2 list -> 'a1 **)

let rec fold_right f a0 = function
| [] -> a0
| b :: t -> f b (fold_right f a0 t)

(** val firstn : nat -> 'a1 list -> 'a1 list **)

let rec firstn n0 l =
  match n0 with
  | O -> []
  | S n1 -> (match l with
             | [] -> []
             | a :: l0 -> a :: (firstn n1 l0))

(** val skipn : nat -> 'a1 list -> 'a1 list **)

let rec skipn n0 l =
  match n0 with
  | O -> l
  | S n1 -> (match l with
             | [] -> []
             | _ :: l0 -> skipn n1 l0)

(** val seq : nat -> nat -> nat list **)

let rec seq start = function
| O -> []
| S len0 -> start :: (seq (S start) len0)

(** val repeat : 'a1 -> nat -> 'a1 list **)

let rec repeat x = function
| O -> []
| S k -> x :: (repeat x k)

type positive =
| XI of positive
| XO of positive
| XH

type n =
| N0
| Npos of positive

module Pos =
 struct
  type mask =
  | IsNul
  | IsPos of positive
  | IsNeg
 end

module Coq_Pos =
 struct
  (** val succ : positive -> positive **)

  let rec succ = function
  | XI p -> XO (succ p)
  | XO p -> XI p
  | XH -> XO XH

  (** val add : positive -> positive -> positive **)

  let rec add x y =
    match x with
    | XI p ->
      (match y with
       | XI q -> XO (add_carry p q)
       | XO q -> XI (add p q)
       | XH -> XO (succ p))
    | XO p ->
      (match y with
       | XI q -> XI (add p q)
       | XO q -> XO (add p q)
       | XH -> XI p)
    | XH -> (match y with
             | XI q -> XO (succ q)
             | XO q -> XI q
             | XH -> XO XH)

  (** val add_carry : positive -> positive -> positive **)

  and add_carry x y =
    match x with
    | XI p ->
      (match y with
       | XI q -> XI (add_carry p q)
       | XO q -> XO (add_carry p q)
       | XH -> XI (succ p))
    | XO p ->
      (match y with
       | XI q -> XO (add_carry p q)
       | XO q -> XI (add p q)
       | XH -> XO (succ p))
    | XH ->
      (match y with
       | XI q -> XI (succ q)
       | XO q -> XO (succ q)
       | XH -> XI XH)

  (** val pred_double : positive -> positive **)

  let rec pred_double = function
  | XI p -> XI (XO p)
  | XO p -> XI (pred_double p)
  | XH -> XH

  type mask = Pos.mask =
  | IsNul
  | IsPos of positive
  | IsNeg

  (** val succ_double_mask : mask -> mask **)

  let succ_double_mask = function
  | IsNul -> IsPos XH
  | IsPos p -> IsPos (XI p)
  | IsNeg -> IsNeg

  (** val double_mask : mask -> mask **)

  let double_mask = function
  | IsPos p -> IsPos (XO p)
  | x0 -> x0

  (** val double_pred_mask : positive -> mask **)

  let double_pred_mask = function
  | XI p -> IsPos (XO (XO p))
  | XO p -> IsPos (XO (pred_double p))
  | XH -> IsNul

  (** val sub_mask : positive -> positive -> mask **)

  let rec sub_mask x y =
    match x with
    | XI p ->
      (match y with
       | XI q -> double_mask (sub_mask p q)
       | XO q -> succ_double_mask (sub_mask p q)
       | XH -> IsPos (XO p))
    | XO p ->
      (match y with
       | XI q -> succ_double_mask (sub_mask_carry p q)
       | XO q -> double_mask (sub_mask p q)
       | XH -> IsPos (pred_double p))
    | XH -> (match y with
             | XH -> IsNul
             | _ -> IsNeg)

  (** val sub_mask_carry : positive -> positive -> mask **)

  and sub_mask_carry x y =
    match x with
    | XI p ->
      (match y with
       | XI q -> succ_double_mask (sub_mask_carry p q)
       | XO q -> double_mask (sub_mask p q)
       | XH -> IsPos (pred_double p))
    | XO p ->
      (match y with
       | XI q -> double_mask (sub_mask_carry p q)
       | XO q -> succ_double_mask (sub_mask_carry p q)
       | XH -> double_pred_mask p)
    | XH -> IsNeg

  (** val mul : positive -> positive -> positive **)

  let rec mul x y =
    match x with
    | XI p -> add y (XO (mul p y))
    | XO p -> XO (mul p y)
    | XH -> y

  (** val iter : ('a1 -> 'a1) -> 'a1 -> positive -> 'a1 **)

  let rec iter f x = function
  | XI n' -> f (iter f (iter f x n') n')
  | XO n' -> iter f (iter f x n') n'
  | XH -> f x

  (** val pow : positive -> positive -> positive **)

  let pow x =
    iter (mul x) XH

  (** val compare_cont : comparison -> positive -> positive -> comparison **)

  let rec compare_cont r x y =
    match x with
    | XI p ->
      (match y with
       | XI q -> compare_cont r p q
       | XO q -> compare_cont Gt p q
       | XH -> Gt)
    | XO p ->
      (match y with
       | XI q -> compare_cont Lt p q
       | XO q -> compare_cont r p q
       | XH -> Gt)
    | XH -> (match y with
             | XH -> r
             | _ -> Lt)

  (** val compare : positive -> positive -> comparison **)

  let compare =
    compare_cont Eq

  (** val eqb : positive -> positive -> bool **)

  let rec eqb p q =
    match p with
    | XI p0 -> (match q with
                | XI q0 -> eqb p0 q0
                | _ -> false)
    | XO p0 -> (match q with
                | XO q0 -> eqb p0 q0
                | _ -> false)
    | XH -> (match q with
             | XH -> true
             | _ -> false)

  (** val coq_Nsucc_double : n -> n **)

  let coq_Nsucc_double = function
  | N0 -> Npos XH
  | Npos p -> Npos (XI p)

  (** val coq_Ndouble : n -> n **)

  let coq_Ndouble = function
  | N0 -> N0
  | Npos p -> Npos (XO p)

  (** val coq_land : positive -> positive -> n **)

  let rec coq_land p q =
    match p with
    | XI p0 ->
      (match q with
       | XI q0 -> coq_Nsucc_double (coq_land p0 q0)
       | XO q0 -> coq_Ndouble (coq_land p0 q0)
       | XH -> Npos XH)
    | XO p0 ->
      (match q with
       | XI q0 -> coq_Ndouble (coq_land p0 q0)
       | XO q0 -> coq_Ndouble (coq_land p0 q0)
       | XH -> N0)
    | XH -> (match q with
             | XO _ -> N0
             | _ -> Npos XH)

  (** val iter_op : ('a1 -> 'a1 -> 'a1) -> positive -> 'a1 -> 'a1 **)

  let rec iter_op op0 p a =
    match p with
    | XI p0 -> op0 a (iter_op op0 p0 (op0 a a))
    | XO p0 -> iter_op op0 p0 (op0 a a)
    | XH -> a

  (** val to_nat : positive -> nat **)

  let to_nat x =
    iter_op Coq__1.add x (S O)

  (** val of_succ_nat : nat -> positive **)

  let rec of_succ_nat = function
  | O -> XH
  | S x -> succ (of_succ_nat x)
 end

module N =
 struct
  (** val sub : n -> n -> n **)

  let sub n0 m =
    match n0 with
    | N0 -> N0
    | Npos n' ->
      (match m with
       | N0 -> n0
       | Npos m' ->
         (match Coq_Pos.sub_mask n' m' with
          | Coq_Pos.IsPos p -> Npos p
          | _ -> N0))

  (** val mul : n -> n -> n **)

  let mul n0 m =
    match n0 with
    | N0 -> N0
    | Npos p -> (match m with
                 | N0 -> N0
                 | Npos q -> Npos (Coq_Pos.mul p q))

  (** val compare : n -> n -> comparison **)

  let compare n0 m =
    match n0 with
    | N0 -> (match m with
             | N0 -> Eq
             | Npos _ -> Lt)
    | Npos n' -> (match m with
                  | N0 -> Gt
                  | Npos m' -> Coq_Pos.compare n' m')

  (** val eqb : n -> n -> bool **)

  let eqb n0 m =
    match n0 with
    | N0 -> (match m with
             | N0 -> true
             | Npos _ -> false)
    | Npos p -> (match m with
                 | N0 -> false
                 | Npos q -> Coq_Pos.eqb p q)

  (** val leb : n -> n -> bool **)

  let leb x y =
    match compare x y with
    | Gt -> false
    | _ -> true

  (** val ltb : n -> n -> bool **)

  let ltb x y =
    match compare x y with
    | Lt -> true
    | _ -> false

  (** val div2 : n -> n **)

  let div2 = function
  | N0 -> N0
  | Npos p0 -> (match p0 with
                | XI p -> Npos p
                | XO p -> Npos p
                | XH -> N0)

  (** val pow : n -> n -> n **)

  let pow n0 = function
  | N0 -> Npos XH
  | Npos p0 -> (match n0 with
                | N0 -> N0
                | Npos q -> Npos (Coq_Pos.pow q p0))

  (** val coq_land : n -> n -> n **)

  let coq_land n0 m =
    match n0 with
    | N0 -> N0
    | Npos p -> (match m with
                 | N0 -> N0
                 | Npos q -> Coq_Pos.coq_land p q)

  (** val shiftr : n -> n -> n **)

  let shiftr a = function
  | N0 -> a
  | Npos p -> Coq_Pos.iter div2 a p

  (** val to_nat : n -> nat **)

  let to_nat = function
  | N0 -> O
  | Npos p -> Coq_Pos.to_nat p

  (** val of_nat : nat -> n **)

  let of_nat = function
  | O -> N0
  | S n' -> Npos (Coq_Pos.of_succ_nat n')
 end

type 'a res =
| Ok of 'a
| Panic

(** val bind : 'a1 res -> ('a1 -> 'a2 res) -> 'a2 res **)

let bind x f =
  match x with
  | Ok a -> f a
  | Panic -> Panic

(** val mapM : ('a1 -> 'a2 res) -> 'a1 list -> 'a2 list res **)

let rec mapM f = function
| [] -> Ok []
| x :: l0 -> bind (f x) (fun y -> bind (mapM f l0) (fun ys -> Ok (y :: ys)))

(** val sub0 : 'a1 list -> nat -> nat -> 'a1 list res **)

let sub0 l a b =
  if (&&) (Nat.leb a b) (Nat.leb b (length l))
  then Ok (firstn (sub b a) (skipn a l))
  else Panic

type 't iC = { ic_default : __; ic_push : (__ -> 't -> __);
               ic_index : (__ -> nat -> 't res); ic_len : (__ -> nat);
               ic_is_empty : (__ -> bool); ic_iter : (__ -> 't list res);
               ic_clear : (__ -> __); ic_used : (__ -> n list) }

type 't ic_st = __

(** val vec_ic : n -> 'a1 iC **)

let vec_ic sz =
  { ic_default = (Obj.magic []); ic_push = (fun s x ->
    Obj.magic app s (x :: [])); ic_index = (fun s i ->
    match nth_error (Obj.magic s) i with
    | Some x -> Ok x
    | None -> Panic); ic_len = (Obj.magic length); ic_is_empty = (fun s ->
    match Obj.magic s with
    | [] -> true
    | _ :: _ -> false); ic_iter = (fun s -> Ok (Obj.magic s)); ic_clear =
    (fun _ -> Obj.magic []); ic_used = (fun s ->
    (N.mul (N.of_nat (length (Obj.magic s))) sz) :: []) }

(** val ic_via : ('a2 -> 'a1) -> ('a1 -> 'a2) -> 'a1 iC -> 'a2 iC **)

let ic_via f g c =
  { ic_default = c.ic_default; ic_push = (fun s x -> c.ic_push s (f x));
    ic_index = (fun s i -> bind (c.ic_index s i) (fun x -> Ok (g x)));
    ic_len = c.ic_len; ic_is_empty = c.ic_is_empty; ic_iter = (fun s ->
    bind (c.ic_iter s) (fun l -> Ok (map g l))); ic_clear = c.ic_clear;
    ic_used = c.ic_used }

(** val w : n **)

let w =
  N.pow (Npos (XO XH)) (Npos (XO (XO (XO (XO (XO (XO XH)))))))

(** val w32 : n **)

let w32 =
  N.pow (Npos (XO XH)) (Npos (XO (XO (XO (XO (XO XH))))))

type stride =
| SEmpty
| SZero
| SStriding of n * nat
| SSaturated of n * nat * nat

(** val stride_push : stride -> n -> bool * stride **)

let stride_push st0 x =
  match st0 with
  | SEmpty -> if N.eqb x N0 then (true, SZero) else (false, st0)
  | SZero -> (true, (SStriding (x, (S (S O)))))
  | SStriding (s, c) ->
    if (&&) (N.ltb (N.mul s (N.of_nat c)) w) (N.eqb x (N.mul s (N.of_nat c)))
    then (true, (SStriding (s, (S c))))
    else if N.eqb x (N.mul s (N.of_nat (sub c (S O))))
         then (true, (SSaturated (s, c, (S O))))
         else (false, st0)
  | SSaturated (s, c, r) ->
    if N.eqb x (N.mul s (N.of_nat (sub c (S O))))
    then (true, (SSaturated (s, c, (S r))))
    else (false, st0)

(** val stride_len : stride -> nat **)

let stride_len = function
| SEmpty -> O
| SZero -> S O
| SStriding (_, c) -> c
| SSaturated (_, c, r) -> add c r

(** val stride_is_empty : stride -> bool **)

let stride_is_empty = function
| SEmpty -> true
| _ -> false

(** val stride_index : stride -> nat -> n res **)

let stride_index st0 i =
  match st0 with
  | SEmpty -> Panic
  | SZero -> Ok N0
  | SStriding (s, _) -> Ok (N.mul s (N.of_nat i))
  | SSaturated (s, c, _) ->
    if Nat.ltb i c
    then Ok (N.mul s (N.of_nat i))
    else Ok (N.mul s (N.of_nat (sub c (S O))))

(** val stride_iter : stride -> n list res **)

let stride_iter st0 =
  mapM (stride_index st0) (seq O (stride_len st0))

type ilist = { smol : n list; chonk : n list }

(** val il_default : ilist **)

let il_default =
  { smol = []; chonk = [] }

(** val il_push : ilist -> n -> ilist **)

let il_push l x =
  match l.chonk with
  | [] ->
    if N.ltb x w32
    then { smol = (app l.smol (x :: [])); chonk = [] }
    else { smol = l.smol; chonk = (x :: []) }
  | _ :: _ -> { smol = l.smol; chonk = (app l.chonk (x :: [])) }

(** val il_abs : ilist -> n list **)

let il_abs l =
  app l.smol l.chonk

(** val il_len : ilist -> nat **)

let il_len l =
  add (length l.smol) (length l.chonk)

(** val il_is_empty : ilist -> bool **)

let il_is_empty l =
  match l.smol with
  | [] -> (match l.chonk with
           | [] -> true
           | _ :: _ -> false)
  | _ :: _ -> false

(** val il_index : ilist -> nat -> n res **)

let il_index l i =
  if Nat.ltb i (length l.smol)
  then (match nth_error l.smol i with
        | Some x -> Ok x
        | None -> Panic)
  else (match nth_error l.chonk (sub i (length l.smol)) with
        | Some x -> Ok x
        | None -> Panic)

(** val il_used : ilist -> n list **)

let il_used l =
  (N.mul (Npos (XO (XO XH))) (N.of_nat (length l.smol))) :: ((N.mul (Npos (XO
                                                               (XO (XO XH))))
                                                               (N.of_nat
                                                                 (length
                                                                   l.chonk))) :: [])

(** val index_list : n iC **)

let index_list =
  { ic_default = (Obj.magic il_default); ic_push = (Obj.magic il_push);
    ic_index = (Obj.magic il_index); ic_len = (Obj.magic il_len);
    ic_is_empty = (Obj.magic il_is_empty); ic_iter = (fun l -> Ok
    (app (Obj.magic l).smol (Obj.magic l).chonk)); ic_clear = (fun _ ->
    Obj.magic il_default); ic_used = (Obj.magic il_used) }

type iopt = { strided : stride; spilled : ilist }

(** val io_default : iopt **)

let io_default =
  { strided = SEmpty; spilled = il_default }

(** val io_push : iopt -> n -> iopt **)

let io_push o x =
  if il_is_empty o.spilled
  then let (ok, st') = stride_push o.strided x in
       if ok
       then { strided = st'; spilled = o.spilled }
       else { strided = o.strided; spilled = (il_push o.spilled x) }
  else { strided = o.strided; spilled = (il_push o.spilled x) }

(** val io_len : iopt -> nat **)

let io_len o =
  add (stride_len o.strided) (il_len o.spilled)

(** val io_is_empty : iopt -> bool **)

let io_is_empty o =
  (&&) (stride_is_empty o.strided) (il_is_empty o.spilled)

(** val io_index : iopt -> nat -> n res **)

let io_index o i =
  if Nat.ltb i (stride_len o.strided)
  then stride_index o.strided i
  else il_index o.spilled (sub i (stride_len o.strided))

(** val io_iter : iopt -> n list res **)

let io_iter o =
  bind (stride_iter o.strided) (fun a -> Ok (app a (il_abs o.spilled)))

(** val index_optimized : n iC **)

let index_optimized =
  { ic_default = (Obj.magic io_default); ic_push = (Obj.magic io_push);
    ic_index = (Obj.magic io_index); ic_len = (Obj.magic io_len);
    ic_is_empty = (Obj.magic io_is_empty); ic_iter = (Obj.magic io_iter);
    ic_clear = (fun _ -> Obj.magic io_default); ic_used = (fun o ->
    il_used (Obj.magic o).spilled) }

(** val ic_nat : n iC -> nat iC **)

let ic_nat c =
  ic_via N.of_nat N.to_nat c

type region = { dflt : __; push : (__ -> __ -> (__ * __) res);
                read : (__ -> __ -> __ res); clear : (__ -> __);
                merge : (__ list -> __) }

type val0 = __

type idx = __

type st = __

(** val push_all : region -> st -> val0 list -> (st * idx list) res **)

let rec push_all r s = function
| [] -> Ok (s, [])
| v :: vs0 ->
  bind (r.push s v) (fun x ->
    let (s1, i) = x in
    bind (push_all r s1 vs0) (fun x0 ->
      let (s2, is) = x0 in Ok (s2, (i :: is))))

(** val owned : region **)

let owned =
  { dflt = (Obj.magic []); push = (fun s v -> Ok ((Obj.magic app s v),
    (Obj.magic ((length (Obj.magic s)),
      (add (length (Obj.magic s)) (length (Obj.magic v))))))); read =
    (fun s i -> Obj.magic sub0 s (fst (Obj.magic i)) (snd (Obj.magic i)));
    clear = (fun _ -> Obj.magic []); merge = (fun _ -> Obj.magic []) }

(** val mirror : region **)

let mirror =
  { dflt = (Obj.magic ()); push = (fun s v -> Ok (s, v)); read = (fun _ i ->
    Ok i); clear = (fun s -> s); merge = (fun _ -> Obj.magic ()) }

(** val vec_region : region **)

let vec_region =
  { dflt = (Obj.magic []); push = (fun s v -> Ok
    ((Obj.magic app s (v :: [])), (Obj.magic length s))); read = (fun s i ->
    match nth_error (Obj.magic s) (Obj.magic i) with
    | Some x -> Ok x
    | None -> Panic); clear = (fun _ -> Obj.magic []); merge = (fun _ ->
    Obj.magic []) }

(** val string_region : region -> region **)

let string_region r =
  { dflt = r.dflt; push = r.push; read = r.read; clear = r.clear; merge =
    r.merge }

(** val option_region : region -> region **)

let option_region r =
  { dflt = r.dflt; push = (fun s v ->
    match Obj.magic v with
    | Some x ->
      bind (r.push s x) (fun x0 ->
        let (s', i) = x0 in Ok (s', (Obj.magic (Some i))))
    | None -> Ok (s, (Obj.magic None))); read = (fun s i ->
    match Obj.magic i with
    | Some j -> bind (r.read s j) (fun x -> Ok (Obj.magic (Some x)))
    | None -> Ok (Obj.magic None)); clear = r.clear; merge = r.merge }

(** val result_region : region -> region -> region **)

let result_region a b =
  { dflt = (Obj.magic (a.dflt, b.dflt)); push = (fun s v ->
    match Obj.magic v with
    | Inl x ->
      bind (a.push (fst (Obj.magic s)) x) (fun x0 ->
        let (a', i) = x0 in
        Ok ((Obj.magic (a', (snd (Obj.magic s)))), (Obj.magic (Inl i))))
    | Inr y ->
      bind (b.push (snd (Obj.magic s)) y) (fun x ->
        let (b', i) = x in
        Ok ((Obj.magic ((fst (Obj.magic s)), b')), (Obj.magic (Inr i)))));
    read = (fun s i ->
    match Obj.magic i with
    | Inl j ->
      bind (a.read (fst (Obj.magic s)) j) (fun x -> Ok (Obj.magic (Inl x)))
    | Inr j ->
      bind (b.read (snd (Obj.magic s)) j) (fun y -> Ok (Obj.magic (Inr y))));
    clear = (fun s ->
    Obj.magic ((a.clear (fst (Obj.magic s))), (b.clear (snd (Obj.magic s)))));
    merge = (fun l ->
    Obj.magic ((a.merge (map (Obj.magic fst) l)),
      (b.merge (map (Obj.magic snd) l)))) }

(** val tuple2 : region -> region -> region **)

let tuple2 a b =
  { dflt = (Obj.magic (a.dflt, b.dflt)); push = (fun s v ->
    bind (a.push (fst (Obj.magic s)) (fst (Obj.magic v))) (fun x ->
      let (a', i) = x in
      bind (b.push (snd (Obj.magic s)) (snd (Obj.magic v))) (fun x0 ->
        let (b', j) = x0 in Ok ((Obj.magic (a', b')), (Obj.magic (i, j))))));
    read = (fun s i ->
    bind (a.read (fst (Obj.magic s)) (fst (Obj.magic i))) (fun x ->
      bind (b.read (snd (Obj.magic s)) (snd (Obj.magic i))) (fun y -> Ok
        (Obj.magic (x, y))))); clear = (fun s ->
    Obj.magic ((a.clear (fst (Obj.magic s))), (b.clear (snd (Obj.magic s)))));
    merge = (fun l ->
    Obj.magic ((a.merge (map (Obj.magic fst) l)),
      (b.merge (map (Obj.magic snd) l)))) }

(** val ic_range :
    region -> idx iC -> idx ic_st -> nat -> nat -> idx list res **)

let rec ic_range r o so a = function
| O -> Ok []
| S n1 ->
  bind (o.ic_index so a) (fun i ->
    bind (ic_range r o so (S a) n1) (fun is -> Ok (i :: is)))

(** val slice : region -> idx iC -> region **)

let slice r o =
  { dflt = (Obj.magic (o.ic_default, r.dflt)); push = (fun x v ->
    bind (push_all r (snd (Obj.magic x)) (Obj.magic v)) (fun x0 ->
      let (sr', is) = x0 in
      let so' = fold_left o.ic_push is (fst (Obj.magic x)) in
      Ok ((Obj.magic (so', sr')),
      (Obj.magic ((o.ic_len (fst (Obj.magic x))), (o.ic_len so')))))); read =
    (fun x i ->
    bind
      (ic_range r o (fst (Obj.magic x)) (fst (Obj.magic i))
        (sub (snd (Obj.magic i)) (fst (Obj.magic i)))) (fun is ->
      Obj.magic mapM (r.read (snd (Obj.magic x))) is)); clear = (fun x ->
    Obj.magic ((o.ic_clear (fst (Obj.magic x))),
      (r.clear (snd (Obj.magic x))))); merge = (fun l ->
    Obj.magic (o.ic_default, (r.merge (map (Obj.magic snd) l)))) }

(** val collapse : region -> (val0 -> val0 -> bool) -> region **)

let collapse r veq =
  { dflt = (Obj.magic (r.dflt, None)); push = (fun x v ->
    let fresh =
      bind (r.push (fst (Obj.magic x)) v) (fun x0 ->
        let (s', i) = x0 in Ok ((s', (Some i)), i))
    in
    (match snd (Obj.magic x) with
     | Some j ->
       bind (r.read (fst (Obj.magic x)) j) (fun w0 ->
         if veq v w0 then Ok (x, j) else Obj.magic fresh)
     | None -> Obj.magic fresh)); read = (fun x i ->
    r.read (fst (Obj.magic x)) i); clear = (fun x ->
    Obj.magic ((r.clear (fst (Obj.magic x))), None)); merge = (fun l ->
    Obj.magic ((r.merge (map (Obj.magic fst) l)), None)) }

type pairIdx = { to_pair : (idx -> nat * nat); of_pair : ((nat * nat) -> idx) }

(** val consec : region -> pairIdx -> nat iC -> bool -> region **)

let consec r pI o chk =
  { dflt = (Obj.magic ((r.dflt, (o.ic_push o.ic_default O)), O)); push =
    (fun x v ->
    let (p, last) = Obj.magic x in
    let (s, o0) = p in
    bind (r.push s v) (fun x0 ->
      let (s', i) = x0 in
      let p0 = pI.to_pair i in
      if (&&) chk (negb (Nat.eqb (fst p0) last))
      then Panic
      else let o' = o.ic_push o0 (snd p0) in
           Ok ((Obj.magic ((s', o'), (snd p0))),
           (Obj.magic sub (o.ic_len o') (S (S O)))))); read = (fun x k ->
    let (p, _) = Obj.magic x in
    let (s, o0) = p in
    bind (o.ic_index o0 (Obj.magic k)) (fun a ->
      bind (o.ic_index o0 (S (Obj.magic k))) (fun b ->
        r.read s (pI.of_pair (a, b))))); clear = (fun x ->
    let (p, _) = Obj.magic x in
    let (s, o0) = p in
    Obj.magic (((r.clear s), (o.ic_push (o.ic_clear o0) O)), O)); merge =
    (fun l ->
    Obj.magic (((r.merge (map (fun x -> fst (fst (Obj.magic x))) l)),
      (o.ic_push o.ic_default O)), O)) }

(** val owned_pair : pairIdx **)

let owned_pair =
  { to_pair = (fun i -> Obj.magic i); of_pair = (fun i -> Obj.magic i) }

(** val push_cols :
    region -> st list -> val0 list -> (st list * idx list) res **)

let rec push_cols r cols = function
| [] -> Ok (cols, [])
| v :: vs' ->
  bind (r.push (hd r.dflt cols) v) (fun x ->
    let (c', i) = x in
    bind (push_cols r (tl cols) vs') (fun x0 ->
      let (rest', is) = x0 in Ok ((c' :: rest'), (i :: is))))

(** val zip_read : region -> st list -> idx list -> val0 list res **)

let rec zip_read r cols = function
| [] -> Ok []
| i :: is' ->
  (match cols with
   | [] -> Ok []
   | c :: cols' ->
     bind (r.read c i) (fun v ->
       bind (zip_read r cols' is') (fun vs -> Ok (v :: vs))))

(** val merge_cols : region -> st list list -> st list **)

let merge_cols r l =
  let n0 = fold_right Nat.max O (map length l) in
  map (fun j ->
    r.merge
      (flat_map (fun cols ->
        match nth_error cols j with
        | Some c -> c :: []
        | None -> []) l)) (seq O n0)

(** val columns : region -> nat iC -> bool -> region **)

let columns r o chk =
  { dflt = (Obj.magic ([], (consec owned owned_pair o chk).dflt)); push =
    (fun x vs ->
    bind (Obj.magic push_cols r (fst (Obj.magic x)) vs) (fun x0 ->
      let (cols', is) = x0 in
      bind ((consec owned owned_pair o chk).push (snd (Obj.magic x)) is)
        (fun x1 -> let (rows', k) = x1 in Ok ((Obj.magic (cols', rows')), k))));
    read = (fun x k ->
    bind
      (Obj.magic (consec owned owned_pair o chk).read (snd (Obj.magic x)) k)
      (fun is -> Obj.magic zip_read r (fst (Obj.magic x)) is)); clear =
    (fun x ->
    Obj.magic ((map r.clear (fst (Obj.magic x))),
      ((consec owned owned_pair o chk).clear (snd (Obj.magic x))))); merge =
    (fun l ->
    Obj.magic ((merge_cols r (map (Obj.magic fst) l)),
      ((consec owned owned_pair o chk).merge (map (Obj.magic snd) l)))) }

type items = { index : (st -> idx -> __ res); own : (__ -> val0 res);
               borrow : (val0 -> __); clone_onto : (__ -> val0 -> val0 res);
               push_item : (st -> __ -> (st * idx) res) }

type item = __

(** val owned_items : items **)

let owned_items =
  { index = (fun s i ->
    Obj.magic sub0 s (fst (Obj.magic i)) (snd (Obj.magic i))); own =
    (fun x -> Ok x); borrow = (fun v -> v); clone_onto = (fun x _ -> Ok x);
    push_item = (fun s x -> owned.push s x) }

(** val mirror_items : items **)

let mirror_items =
  { index = (fun _ i -> Ok i); own = (fun x -> Ok x); borrow = (fun v -> v);
    clone_onto = (fun x _ -> Ok x); push_item = (fun s x -> mirror.push s x) }

(** val vec_region_items : items **)

let vec_region_items =
  { index = (fun s i ->
    match nth_error (Obj.magic s) (Obj.magic i) with
    | Some x -> Ok x
    | None -> Panic); own = (fun x -> Ok x); borrow = (fun v -> v);
    clone_onto = (fun x _ -> Ok x); push_item = (fun s x ->
    vec_region.push s x) }

(** val string_items : region -> items -> items **)

let string_items _ i =
  { index = i.index; own = i.own; borrow = i.borrow; clone_onto =
    i.clone_onto; push_item = i.push_item }

(** val option_items : region -> items -> items **)

let option_items _ i =
  { index = (fun s i0 ->
    match Obj.magic i0 with
    | Some j -> bind (i.index s j) (fun x -> Ok (Obj.magic (Some x)))
    | None -> Ok (Obj.magic None)); own = (fun x ->
    match Obj.magic x with
    | Some y -> bind (i.own y) (fun v -> Ok (Obj.magic (Some v)))
    | None -> Ok (Obj.magic None)); borrow = (fun v ->
    Obj.magic option_map i.borrow v); clone_onto = (fun x t ->
    match Obj.magic x with
    | Some y ->
      (match Obj.magic t with
       | Some u ->
         bind (i.clone_onto y u) (fun u' -> Ok (Obj.magic (Some u')))
       | None -> bind (i.own y) (fun v -> Ok (Obj.magic (Some v))))
    | None -> Ok (Obj.magic None)); push_item = (fun s x ->
    match Obj.magic x with
    | Some y ->
      bind (i.push_item s y) (fun x0 ->
        let (s', i0) = x0 in Ok (s', (Obj.magic (Some i0))))
    | None -> Ok (s, (Obj.magic None))) }

(** val result_items : region -> region -> items -> items -> items **)

let result_items _ _ iA iB =
  { index = (fun s i ->
    match Obj.magic i with
    | Inl j ->
      bind (iA.index (fst (Obj.magic s)) j) (fun x -> Ok (Obj.magic (Inl x)))
    | Inr j ->
      bind (iB.index (snd (Obj.magic s)) j) (fun y -> Ok (Obj.magic (Inr y))));
    own = (fun x ->
    match Obj.magic x with
    | Inl a -> bind (iA.own a) (fun v -> Ok (Obj.magic (Inl v)))
    | Inr b -> bind (iB.own b) (fun v -> Ok (Obj.magic (Inr v)))); borrow =
    (fun v ->
    match Obj.magic v with
    | Inl a -> Obj.magic (Inl (iA.borrow a))
    | Inr b -> Obj.magic (Inr (iB.borrow b))); clone_onto = (fun x t ->
    match Obj.magic x with
    | Inl a ->
      (match Obj.magic t with
       | Inl u -> bind (iA.clone_onto a u) (fun u' -> Ok (Obj.magic (Inl u')))
       | Inr _ -> bind (iA.own a) (fun v -> Ok (Obj.magic (Inl v))))
    | Inr b ->
      (match Obj.magic t with
       | Inl _ -> bind (iB.own b) (fun v -> Ok (Obj.magic (Inr v)))
       | Inr u -> bind (iB.clone_onto b u) (fun u' -> Ok (Obj.magic (Inr u')))));
    push_item = (fun s x ->
    match Obj.magic x with
    | Inl a ->
      bind (iA.push_item (fst (Obj.magic s)) a) (fun x0 ->
        let (a', i) = x0 in
        Ok ((Obj.magic (a', (snd (Obj.magic s)))), (Obj.magic (Inl i))))
    | Inr b ->
      bind (iB.push_item (snd (Obj.magic s)) b) (fun x0 ->
        let (b', i) = x0 in
        Ok ((Obj.magic ((fst (Obj.magic s)), b')), (Obj.magic (Inr i))))) }

(** val tuple2_items : region -> region -> items -> items -> items **)

let tuple2_items _ _ iA iB =
  { index = (fun s i ->
    bind (iA.index (fst (Obj.magic s)) (fst (Obj.magic i))) (fun x ->
      bind (iB.index (snd (Obj.magic s)) (snd (Obj.magic i))) (fun y -> Ok
        (Obj.magic (x, y))))); own = (fun x ->
    bind (iA.own (fst (Obj.magic x))) (fun a ->
      bind (iB.own (snd (Obj.magic x))) (fun b -> Ok (Obj.magic (a, b)))));
    borrow = (fun v ->
    Obj.magic ((iA.borrow (fst (Obj.magic v))),
      (iB.borrow (snd (Obj.magic v))))); clone_onto = (fun x t ->
    bind (iA.clone_onto (fst (Obj.magic x)) (fst (Obj.magic t))) (fun a ->
      bind (iB.clone_onto (snd (Obj.magic x)) (snd (Obj.magic t))) (fun b ->
        Ok (Obj.magic (a, b))))); push_item = (fun s x ->
    bind (iA.push_item (fst (Obj.magic s)) (fst (Obj.magic x))) (fun x0 ->
      let (a', i) = x0 in
      bind (iB.push_item (snd (Obj.magic s)) (snd (Obj.magic x))) (fun x1 ->
        let (b', j) = x1 in Ok ((Obj.magic (a', b')), (Obj.magic (i, j)))))) }

(** val zip_clone_onto :
    region -> items -> item list -> val0 list -> val0 list res **)

let rec zip_clone_onto r i xs ts =
  match xs with
  | [] -> Ok []
  | x :: xs' ->
    (match ts with
     | [] -> Ok []
     | t :: ts' ->
       bind (i.clone_onto x t) (fun t' ->
         bind (zip_clone_onto r i xs' ts') (fun r0 -> Ok (t' :: r0))))

(** val seq_clone_onto :
    region -> items -> item list -> val0 list -> val0 list res **)

let seq_clone_onto r i xs ts =
  let r0 = Nat.min (length xs) (length ts) in
  bind (zip_clone_onto r i xs ts) (fun pre ->
    let kept = app pre (skipn r0 ts) in
    bind (mapM i.own (skipn r0 xs)) (fun ext -> Ok
      (firstn (length xs) (app kept ext))))

type rslice =
| RS_region of st * nat * nat
| RS_owned of val0 list

(** val rs_len : region -> idx iC -> rslice -> nat res **)

let rs_len _ _ = function
| RS_region (_, a, b) -> if Nat.ltb b a then Panic else Ok (sub b a)
| RS_owned l -> Ok (length l)

(** val rs_is_empty : region -> idx iC -> rslice -> bool res **)

let rs_is_empty _ _ = function
| RS_region (_, a, b) -> Ok (Nat.eqb a b)
| RS_owned l -> Ok (match l with
                    | [] -> true
                    | _ :: _ -> false)

(** val rs_get : region -> idx iC -> items -> rslice -> nat -> item res **)

let rs_get _ o i x k =
  match x with
  | RS_region (s, a, b) ->
    if Nat.ltb b a
    then Panic
    else if Nat.ltb k (sub b a)
         then bind (o.ic_index (fst (Obj.magic s)) (add a k)) (fun i0 ->
                i.index (snd (Obj.magic s)) i0)
         else Panic
  | RS_owned l ->
    (match nth_error l k with
     | Some v -> Ok (i.borrow v)
     | None -> Panic)

(** val rs_iter_region :
    region -> idx iC -> items -> st -> nat -> nat -> item list res **)

let rec rs_iter_region r o i s a = function
| O -> Ok []
| S n1 ->
  bind (o.ic_index (fst (Obj.magic s)) a) (fun i0 ->
    bind (i.index (snd (Obj.magic s)) i0) (fun x ->
      bind (rs_iter_region r o i s (S a) n1) (fun xs -> Ok (x :: xs))))

(** val rs_iter : region -> idx iC -> items -> rslice -> item list res **)

let rs_iter r o i = function
| RS_region (s, a, b) -> rs_iter_region r o i s a (sub b a)
| RS_owned l -> Ok (map i.borrow l)

(** val push_items_each :
    region -> idx iC -> items -> st -> item list -> st res **)

let rec push_items_each r o i x = function
| [] -> Ok x
| it :: its' ->
  bind (i.push_item (snd (Obj.magic x)) it) (fun x0 ->
    let (sr', j) = x0 in
    Obj.magic push_items_each r o i ((o.ic_push (fst (Obj.magic x)) j), sr')
      its')

(** val push_from_region :
    region -> idx iC -> items -> st -> st -> nat -> nat -> st res **)

let rec push_from_region r o i x src a = function
| O -> Ok x
| S n1 ->
  bind (o.ic_index (fst (Obj.magic src)) a) (fun i0 ->
    bind (i.index (snd (Obj.magic src)) i0) (fun it ->
      bind (i.push_item (snd (Obj.magic x)) it) (fun x0 ->
        let (sr', j) = x0 in
        Obj.magic push_from_region r o i ((o.ic_push (fst (Obj.magic x)) j),
          sr') src (S a) n1)))

(** val slice_items : region -> idx iC -> items -> items **)

let slice_items r o i =
  { index = (fun s i0 -> Ok
    (Obj.magic (RS_region (s, (fst (Obj.magic i0)), (snd (Obj.magic i0))))));
    own = (fun x ->
    bind (rs_iter r o i (Obj.magic x)) (fun xs -> Obj.magic mapM i.own xs));
    borrow = (fun v -> Obj.magic (RS_owned (Obj.magic v))); clone_onto =
    (fun x t ->
    bind (rs_iter r o i (Obj.magic x)) (fun xs ->
      Obj.magic seq_clone_onto r i xs t)); push_item = (fun x it ->
    let start = o.ic_len (fst (Obj.magic x)) in
    bind
      (match Obj.magic it with
       | RS_region (src, a, b) ->
         Obj.magic push_from_region r o i x src a (sub b a)
       | RS_owned l -> Obj.magic push_items_each r o i x (map i.borrow l))
      (fun x' -> Ok ((Obj.magic x'),
      (Obj.magic (start, (o.ic_len (fst x'))))))) }

(** val collapse_items :
    region -> (val0 -> val0 -> bool) -> items -> items **)

let collapse_items r veq i =
  { index = (fun x i0 -> i.index (fst (Obj.magic x)) i0); own = i.own;
    borrow = i.borrow; clone_onto = i.clone_onto; push_item = (fun x it ->
    let fresh =
      bind (i.push_item (fst (Obj.magic x)) it) (fun x0 ->
        let (s', i0) = x0 in Ok ((s', (Some i0)), i0))
    in
    (match snd (Obj.magic x) with
     | Some j ->
       bind (r.read (fst (Obj.magic x)) j) (fun w0 ->
         bind (i.own it) (fun v ->
           if veq v w0 then Ok (x, j) else Obj.magic fresh))
     | None -> Obj.magic fresh)) }

(** val consec_items :
    region -> pairIdx -> nat iC -> bool -> items -> items **)

let consec_items _ pI o chk i =
  { index = (fun x k ->
    let (p, _) = Obj.magic x in
    let (s, o0) = p in
    bind (o.ic_index o0 (Obj.magic k)) (fun a ->
      bind (o.ic_index o0 (S (Obj.magic k))) (fun b ->
        i.index s (pI.of_pair (a, b))))); own = i.own; borrow = i.borrow;
    clone_onto = i.clone_onto; push_item = (fun x it ->
    let (p, last) = Obj.magic x in
    let (s, o0) = p in
    bind (i.push_item s it) (fun x0 ->
      let (s', i0) = x0 in
      let p0 = pI.to_pair i0 in
      if (&&) chk (negb (Nat.eqb (fst p0) last))
      then Panic
      else let o' = o.ic_push o0 (snd p0) in
           Ok ((Obj.magic ((s', o'), (snd p0))),
           (Obj.magic sub (o.ic_len o') (S (S O)))))) }

type rcols =
| RC_region of st list * idx list
| RC_owned of val0 list

(** val rc_len : region -> rcols -> nat **)

let rc_len _ = function
| RC_region (_, is) -> length is
| RC_owned l -> length l

(** val rc_is_empty : region -> rcols -> bool **)

let rc_is_empty _ = function
| RC_region (_, is) -> (match is with
                        | [] -> true
                        | _ :: _ -> false)
| RC_owned l -> (match l with
                 | [] -> true
                 | _ :: _ -> false)

(** val rc_get : region -> items -> rcols -> nat -> item res **)

let rc_get _ i x k =
  match x with
  | RC_region (cols, is) ->
    (match nth_error cols k with
     | Some c ->
       (match nth_error is k with
        | Some i0 -> i.index c i0
        | None -> Panic)
     | None -> Panic)
  | RC_owned l ->
    (match nth_error l k with
     | Some v -> Ok (i.borrow v)
     | None -> Panic)

(** val rc_zip : region -> items -> st list -> idx list -> item list res **)

let rec rc_zip r i cols = function
| [] -> Ok []
| i0 :: is' ->
  (match cols with
   | [] -> Ok []
   | c :: cols' ->
     bind (i.index c i0) (fun x ->
       bind (rc_zip r i cols' is') (fun xs -> Ok (x :: xs))))

(** val rc_iter : region -> items -> rcols -> item list res **)

let rc_iter r i = function
| RC_region (cols, is) -> rc_zip r i cols is
| RC_owned l -> Ok (map i.borrow l)

(** val push_cols_items :
    region -> items -> st list -> item list -> (st list * idx list) res **)

let rec push_cols_items r i cols = function
| [] -> Ok (cols, [])
| it :: its' ->
  bind (i.push_item (hd r.dflt cols) it) (fun x ->
    let (c', i0) = x in
    bind (push_cols_items r i (tl cols) its') (fun x0 ->
      let (rest', is) = x0 in Ok ((c' :: rest'), (i0 :: is))))

(** val pad_cols : region -> st list -> nat -> st list **)

let pad_cols r cols n0 =
  app cols (repeat r.dflt (sub n0 (length cols)))

(** val columns_items : region -> nat iC -> bool -> items -> items **)

let columns_items r o chk i =
  { index = (fun x k ->
    bind
      (Obj.magic (consec owned owned_pair o chk).read (snd (Obj.magic x)) k)
      (fun is -> Ok (Obj.magic (RC_region ((fst (Obj.magic x)), is)))));
    own = (fun x ->
    bind (rc_iter r i (Obj.magic x)) (fun xs -> Obj.magic mapM i.own xs));
    borrow = (fun v -> Obj.magic (RC_owned (Obj.magic v))); clone_onto =
    (fun x t ->
    bind (rc_iter r i (Obj.magic x)) (fun xs ->
      Obj.magic seq_clone_onto r i xs t)); push_item = (fun x it ->
    let cols = pad_cols r (fst (Obj.magic x)) (rc_len r (Obj.magic it)) in
    bind (rc_iter r i (Obj.magic it)) (fun its ->
      bind (Obj.magic push_cols_items r i cols its) (fun x0 ->
        let (cols', is) = x0 in
        bind ((consec owned owned_pair o chk).push (snd (Obj.magic x)) is)
          (fun x1 ->
          let (rows', k) = x1 in Ok ((Obj.magic (cols', rows')), k))))) }

type uval =
| UN of n
| UL of uval list
| UNone
| USome of uval
| UOk of uval
| UErr of uval

(** val omap : ('a1 -> 'a2 option) -> 'a1 list -> 'a2 list option **)

let rec omap f = function
| [] -> Some []
| x :: l0 ->
  (match f x with
   | Some y -> (match omap f l0 with
                | Some ys -> Some (y :: ys)
                | None -> None)
   | None -> None)

(** val ubool : bool -> uval **)

let ubool b =
  UN (if b then Npos XH else N0)

(** val unat : nat -> uval **)

let unat n0 =
  UN (N.of_nat n0)

(** val upair : nat -> nat -> uval **)

let upair a b =
  UL ((unat a) :: ((unat b) :: []))

(** val ures : uval res -> uval **)

let ures = function
| Ok v -> USome v
| Panic -> UNone

type wire = { of_u : (uval -> val0 option); to_u : (val0 -> uval);
              idx_u : (idx -> uval); probe : (item -> uval res) }

type elem = { e_of : (uval -> __ option); e_to : (__ -> uval);
              e_eqb : (__ -> __ -> bool) }

(** val e_word : n -> elem **)

let e_word bits =
  { e_of = (fun u ->
    match u with
    | UN n0 ->
      if N.ltb n0 (N.pow (Npos (XO XH)) bits)
      then Some (Obj.magic n0)
      else None
    | _ -> None); e_to = (Obj.magic (fun x -> UN x)); e_eqb =
    (Obj.magic N.eqb) }

(** val e_unit : elem **)

let e_unit =
  { e_of = (fun u ->
    match u with
    | UL l -> (match l with
               | [] -> Some (Obj.magic ())
               | _ :: _ -> None)
    | _ -> None); e_to = (fun _ -> UL []); e_eqb = (fun _ _ -> true) }

(** val f64_is_nan : n -> bool **)

let f64_is_nan b =
  let e =
    N.coq_land (N.shiftr b (Npos (XO (XO (XI (XO (XI XH))))))) (Npos (XI (XI
      (XI (XI (XI (XI (XI (XI (XI (XI XH)))))))))))
  in
  let m =
    N.coq_land b
      (N.sub (N.pow (Npos (XO XH)) (Npos (XO (XO (XI (XO (XI XH))))))) (Npos
        XH))
  in
  (&&) (N.eqb e (Npos (XI (XI (XI (XI (XI (XI (XI (XI (XI (XI XH))))))))))))
    (negb (N.eqb m N0))

(** val f64_eqb : n -> n -> bool **)

let f64_eqb a b =
  if (||) (f64_is_nan a) (f64_is_nan b)
  then false
  else if (&&)
            (N.eqb
              (N.coq_land a
                (N.sub
                  (N.pow (Npos (XO XH)) (Npos (XI (XI (XI (XI (XI XH)))))))
                  (Npos XH))) N0)
            (N.eqb
              (N.coq_land b
                (N.sub
                  (N.pow (Npos (XO XH)) (Npos (XI (XI (XI (XI (XI XH)))))))
                  (Npos XH))) N0)
       then true
       else N.eqb a b

(** val e_f64 : elem **)

let e_f64 =
  { e_of = (fun u ->
    match u with
    | UN n0 ->
      if N.ltb n0
           (N.pow (Npos (XO XH)) (Npos (XO (XO (XO (XO (XO (XO XH))))))))
      then Some (Obj.magic n0)
      else None
    | _ -> None); e_to = (Obj.magic (fun x -> UN x)); e_eqb =
    (Obj.magic f64_eqb) }

(** val list_eqb : ('a1 -> 'a1 -> bool) -> 'a1 list -> 'a1 list -> bool **)

let rec list_eqb eqb0 l m =
  match l with
  | [] -> (match m with
           | [] -> true
           | _ :: _ -> false)
  | x :: l' ->
    (match m with
     | [] -> false
     | y :: m' -> (&&) (eqb0 x y) (list_eqb eqb0 l' m'))

type mRegion = { mr : region; mi : items; mw : wire;
                 m_veq : (val0 -> val0 -> bool) }

(** val m_owned : elem -> mRegion **)

let m_owned e =
  { mr = owned; mi = owned_items; mw = { of_u = (fun u ->
    match u with
    | UL l -> Obj.magic omap e.e_of l
    | _ -> None); to_u = (fun v -> UL (map e.e_to (Obj.magic v))); idx_u =
    (fun i -> upair (fst (Obj.magic i)) (snd (Obj.magic i))); probe =
    (fun x -> Ok (UL (map e.e_to (Obj.magic x)))) }; m_veq =
    (Obj.magic list_eqb e.e_eqb) }

(** val m_mirror : elem -> mRegion **)

let m_mirror e =
  { mr = mirror; mi = mirror_items; mw = { of_u = e.e_of; to_u = e.e_to;
    idx_u = e.e_to; probe = (fun x -> Ok (e.e_to x)) }; m_veq = e.e_eqb }

(** val m_vec : elem -> mRegion **)

let m_vec e =
  { mr = vec_region; mi = vec_region_items; mw = { of_u = e.e_of; to_u =
    e.e_to; idx_u = (fun i -> unat (Obj.magic i)); probe = (fun x -> Ok
    (e.e_to x)) }; m_veq = e.e_eqb }

(** val m_string : (uval -> bool) -> mRegion -> mRegion **)

let m_string wf m =
  { mr = (string_region m.mr); mi = (string_items m.mr m.mi); mw = { of_u =
    (fun u -> if wf u then m.mw.of_u u else None); to_u = m.mw.to_u; idx_u =
    m.mw.idx_u; probe = m.mw.probe }; m_veq = m.m_veq }

(** val m_option : mRegion -> mRegion **)

let m_option m =
  { mr = (option_region m.mr); mi = (option_items m.mr m.mi); mw = { of_u =
    (fun u ->
    match u with
    | UNone -> Some (Obj.magic None)
    | USome x ->
      (match m.mw.of_u x with
       | Some y -> Some (Obj.magic (Some y))
       | None -> None)
    | _ -> None); to_u = (fun v ->
    match Obj.magic v with
    | Some x -> USome (m.mw.to_u x)
    | None -> UNone); idx_u = (fun i ->
    match Obj.magic i with
    | Some j -> USome (m.mw.idx_u j)
    | None -> UNone); probe = (fun x ->
    match Obj.magic x with
    | Some y -> bind (m.mw.probe y) (fun p -> Ok (USome p))
    | None -> Ok UNone) }; m_veq = (fun a b ->
    match Obj.magic a with
    | Some x -> (match Obj.magic b with
                 | Some y -> m.m_veq x y
                 | None -> false)
    | None -> (match Obj.magic b with
               | Some _ -> false
               | None -> true)) }

(** val m_result : mRegion -> mRegion -> mRegion **)

let m_result a b =
  { mr = (result_region a.mr b.mr); mi = (result_items a.mr b.mr a.mi b.mi);
    mw = { of_u = (fun u ->
    match u with
    | UOk x ->
      (match a.mw.of_u x with
       | Some y -> Some (Obj.magic (Inl y))
       | None -> None)
    | UErr x ->
      (match b.mw.of_u x with
       | Some y -> Some (Obj.magic (Inr y))
       | None -> None)
    | _ -> None); to_u = (fun v ->
    match Obj.magic v with
    | Inl x -> UOk (a.mw.to_u x)
    | Inr y -> UErr (b.mw.to_u y)); idx_u = (fun i ->
    match Obj.magic i with
    | Inl x -> UOk (a.mw.idx_u x)
    | Inr y -> UErr (b.mw.idx_u y)); probe = (fun x ->
    match Obj.magic x with
    | Inl a0 -> bind (a.mw.probe a0) (fun p -> Ok (UOk p))
    | Inr b0 -> bind (b.mw.probe b0) (fun p -> Ok (UErr p))) }; m_veq =
    (fun a0 b0 ->
    match Obj.magic a0 with
    | Inl x -> (match Obj.magic b0 with
                | Inl y -> a.m_veq x y
                | Inr _ -> false)
    | Inr x -> (match Obj.magic b0 with
                | Inl _ -> false
                | Inr y -> b.m_veq x y)) }

(** val m_tuple2 : mRegion -> mRegion -> mRegion **)

let m_tuple2 a b =
  { mr = (tuple2 a.mr b.mr); mi = (tuple2_items a.mr b.mr a.mi b.mi); mw =
    { of_u = (fun u ->
    match u with
    | UL l ->
      (match l with
       | [] -> None
       | x :: l0 ->
         (match l0 with
          | [] -> None
          | y :: l1 ->
            (match l1 with
             | [] ->
               (match a.mw.of_u x with
                | Some a0 ->
                  (match b.mw.of_u y with
                   | Some b0 -> Some (Obj.magic (a0, b0))
                   | None -> None)
                | None -> None)
             | _ :: _ -> None)))
    | _ -> None); to_u = (fun v -> UL
    ((a.mw.to_u (fst (Obj.magic v))) :: ((b.mw.to_u (snd (Obj.magic v))) :: [])));
    idx_u = (fun i -> UL
    ((a.mw.idx_u (fst (Obj.magic i))) :: ((b.mw.idx_u (snd (Obj.magic i))) :: [])));
    probe = (fun x ->
    bind (a.mw.probe (fst (Obj.magic x))) (fun p ->
      bind (b.mw.probe (snd (Obj.magic x))) (fun q -> Ok (UL
        (p :: (q :: [])))))) }; m_veq = (fun a0 b0 ->
    (&&) (a.m_veq (fst (Obj.magic a0)) (fst (Obj.magic b0)))
      (b.m_veq (snd (Obj.magic a0)) (snd (Obj.magic b0)))) }

(** val seq_probe :
    region -> items -> wire -> ('a1 -> nat res) -> ('a1 -> bool res) -> ('a1
    -> nat -> item res) -> ('a1 -> item list res) -> ('a1 -> val0 list res)
    -> 'a1 -> uval res **)

let seq_probe _ _ w0 len is_empty get iter0 own_seq x =
  bind (len x) (fun n0 ->
    bind (is_empty x) (fun e ->
      let gets =
        map (fun k -> ures (bind (get x k) (fun y -> w0.probe y)))
          (seq O (add n0 (S (S O))))
      in
      bind (iter0 x) (fun its ->
        bind (mapM w0.probe its) (fun ps ->
          bind (own_seq x) (fun o -> Ok (UL ((unat n0) :: ((ubool e) :: ((UL
            gets) :: ((UL ps) :: ((UL (map w0.to_u o)) :: [])))))))))))

(** val m_slice : mRegion -> idx iC -> mRegion **)

let m_slice m o =
  { mr = (slice m.mr o); mi = (slice_items m.mr o m.mi); mw = { of_u =
    (fun u -> match u with
              | UL l -> Obj.magic omap m.mw.of_u l
              | _ -> None); to_u = (fun v -> UL
    (map m.mw.to_u (Obj.magic v))); idx_u = (fun i ->
    upair (fst (Obj.magic i)) (snd (Obj.magic i))); probe = (fun x ->
    seq_probe m.mr m.mi m.mw (Obj.magic rs_len m.mr o)
      (Obj.magic rs_is_empty m.mr o) (Obj.magic rs_get m.mr o m.mi)
      (Obj.magic rs_iter m.mr o m.mi)
      (Obj.magic (slice_items m.mr o m.mi).own) x) }; m_veq =
    (Obj.magic list_eqb m.m_veq) }

(** val m_collapse : mRegion -> mRegion **)

let m_collapse m =
  { mr = (collapse m.mr m.m_veq); mi = (collapse_items m.mr m.m_veq m.mi);
    mw = { of_u = m.mw.of_u; to_u = m.mw.to_u; idx_u = m.mw.idx_u; probe =
    m.mw.probe }; m_veq = m.m_veq }

(** val m_consec : mRegion -> pairIdx -> nat iC -> bool -> mRegion **)

let m_consec m pI o chk =
  { mr = (consec m.mr pI o chk); mi = (consec_items m.mr pI o chk m.mi); mw =
    { of_u = m.mw.of_u; to_u = m.mw.to_u; idx_u = (fun k ->
    unat (Obj.magic k)); probe = m.mw.probe }; m_veq = m.m_veq }

(** val m_columns : mRegion -> nat iC -> bool -> mRegion **)

let m_columns m o chk =
  { mr = (columns m.mr o chk); mi = (columns_items m.mr o chk m.mi); mw =
    { of_u = (fun u ->
    match u with
    | UL l -> Obj.magic omap m.mw.of_u l
    | _ -> None); to_u = (fun v -> UL (map m.mw.to_u (Obj.magic v))); idx_u =
    (fun k -> unat (Obj.magic k)); probe = (fun x ->
    seq_probe m.mr m.mi m.mw (fun y -> Ok (rc_len m.mr (Obj.magic y)))
      (fun y -> Ok (rc_is_empty m.mr (Obj.magic y)))
      (Obj.magic rc_get m.mr m.mi) (Obj.magic rc_iter m.mr m.mi)
      (Obj.magic (columns_items m.mr o chk m.mi).own) x) }; m_veq =
    (Obj.magic list_eqb m.m_veq) }

type op =
| OPush of nat * n * uval
| OProbe of nat
| ORead of nat
| OClear of nat
| OMerge of nat * nat list
| OClone of nat * nat
| OCloneFrom of nat * nat
| OPushItem of nat * nat * nat * bool
| OCloneOnto of nat * nat * uval
| OReserveItems of nat * uval list
| OReserveRegions of nat * nat list

type obs =
| BIdx of uval
| BVal of uval
| BPanic
| BIll
| BNone

type slot = { s_st : st; s_log : idx list }

(** val slot0 : mRegion -> slot **)

let slot0 m =
  { s_st = m.mr.dflt; s_log = [] }

(** val get_slot : mRegion -> slot list -> nat -> slot **)

let get_slot m sl k =
  nth k sl (slot0 m)

(** val set_slot : mRegion -> slot list -> nat -> slot -> slot list **)

let rec set_slot m sl k x =
  match sl with
  | [] -> []
  | y :: sl' ->
    (match k with
     | O -> x :: sl'
     | S k' -> y :: (set_slot m sl' k' x))

(** val obs_res : uval res -> obs **)

let obs_res = function
| Ok v -> BVal v
| Panic -> BPanic

(** val step : mRegion -> slot list -> op -> obs list * slot list option **)

let step m sl = function
| OPush (k, _, u) ->
  (match m.mw.of_u u with
   | Some v ->
     let x = get_slot m sl k in
     (match m.mr.push x.s_st v with
      | Ok a ->
        let (s', i) = a in
        (((BIdx (m.mw.idx_u i)) :: []), (Some
        (set_slot m sl k { s_st = s'; s_log = (app x.s_log (i :: [])) })))
      | Panic -> ((BPanic :: []), None))
   | None -> ((BIll :: []), None))
| OProbe k ->
  let x = get_slot m sl k in
  ((map (fun i ->
     obs_res (bind (m.mi.index x.s_st i) (fun it -> m.mw.probe it))) x.s_log),
  (Some sl))
| ORead k ->
  let x = get_slot m sl k in
  ((map (fun i ->
     obs_res (bind (m.mr.read x.s_st i) (fun v -> Ok (m.mw.to_u v)))) x.s_log),
  (Some sl))
| OClear k ->
  let x = get_slot m sl k in
  ((BNone :: []), (Some
  (set_slot m sl k { s_st = (m.mr.clear x.s_st); s_log = [] })))
| OMerge (d, ks) ->
  ((BNone :: []), (Some
    (set_slot m sl d { s_st =
      (m.mr.merge (map (fun k -> (get_slot m sl k).s_st) ks)); s_log = [] })))
| OClone (d, k) -> ((BNone :: []), (Some (set_slot m sl d (get_slot m sl k))))
| OCloneFrom (d, k) ->
  ((BNone :: []), (Some (set_slot m sl d (get_slot m sl k))))
| OPushItem (d, k, j, owned0) ->
  let src = get_slot m sl k in
  let dst = get_slot m sl d in
  (match nth_error src.s_log j with
   | Some i ->
     let r =
       bind (m.mi.index src.s_st i) (fun it ->
         bind
           (if owned0
            then bind (m.mi.own it) (fun v -> Ok (m.mi.borrow v))
            else Ok it) (fun it' -> m.mi.push_item dst.s_st it'))
     in
     (match r with
      | Ok a ->
        let (s', i') = a in
        (((BIdx (m.mw.idx_u i')) :: []), (Some
        (set_slot m sl d { s_st = s'; s_log = (app dst.s_log (i' :: [])) })))
      | Panic -> ((BPanic :: []), None))
   | None -> ((BIll :: []), None))
| OCloneOnto (k, j, u) ->
  let src = get_slot m sl k in
  (match nth_error src.s_log j with
   | Some i ->
     (match m.mw.of_u u with
      | Some t ->
        (((obs_res
            (bind (m.mi.index src.s_st i) (fun it ->
              bind (m.mi.clone_onto it t) (fun t' -> Ok (m.mw.to_u t'))))) :: []),
          (Some sl))
      | None -> ((BIll :: []), None))
   | None -> ((BIll :: []), None))
| _ -> ((BNone :: []), (Some sl))

(** val run : mRegion -> slot list -> op list -> obs list list **)

let rec run m sl = function
| [] -> []
| o :: ops' ->
  let (b, next) = step m sl o in
  (match next with
   | Some sl' -> b :: (run m sl' ops')
   | None -> b :: [])

(** val run0 : mRegion -> op list -> obs list list **)

let run0 m ops =
  run m ((slot0 m) :: ((slot0 m) :: ((slot0 m) :: []))) ops

type u8st =
| U0
| UC of nat * n * n

(** val between : n -> n -> n -> bool **)

let between lo hi b =
  (&&) (N.leb lo b) (N.leb b hi)

(** val u8step : u8st -> n -> u8st option **)

let u8step st0 b =
  match st0 with
  | U0 ->
    if N.ltb b (Npos (XO (XO (XO (XO (XO (XO (XO XH))))))))
    then Some U0
    else if between (Npos (XO (XI (XO (XO (XO (XO (XI XH)))))))) (Npos (XI
              (XI (XI (XI (XI (XO (XI XH)))))))) b
         then Some (UC ((S O), (Npos (XO (XO (XO (XO (XO (XO (XO XH)))))))),
                (Npos (XI (XI (XI (XI (XI (XI (XO XH))))))))))
         else if N.eqb b (Npos (XO (XO (XO (XO (XO (XI (XI XH))))))))
              then Some (UC ((S (S O)), (Npos (XO (XO (XO (XO (XO (XI (XO
                     XH)))))))), (Npos (XI (XI (XI (XI (XI (XI (XO
                     XH))))))))))
              else if (||)
                        (between (Npos (XI (XO (XO (XO (XO (XI (XI XH))))))))
                          (Npos (XO (XO (XI (XI (XO (XI (XI XH)))))))) b)
                        (between (Npos (XO (XI (XI (XI (XO (XI (XI XH))))))))
                          (Npos (XI (XI (XI (XI (XO (XI (XI XH)))))))) b)
                   then Some (UC ((S (S O)), (Npos (XO (XO (XO (XO (XO (XO
                          (XO XH)))))))), (Npos (XI (XI (XI (XI (XI (XI (XO
                          XH))))))))))
                   else if N.eqb b (Npos (XI (XO (XI (XI (XO (XI (XI
                             XH))))))))
                        then Some (UC ((S (S O)), (Npos (XO (XO (XO (XO (XO
                               (XO (XO XH)))))))), (Npos (XI (XI (XI (XI (XI
                               (XO (XO XH))))))))))
                        else if N.eqb b (Npos (XO (XO (XO (XO (XI (XI (XI
                                  XH))))))))
                             then Some (UC ((S (S (S O))), (Npos (XO (XO (XO
                                    (XO (XI (XO (XO XH)))))))), (Npos (XI (XI
                                    (XI (XI (XI (XI (XO XH))))))))))
                             else if between (Npos (XI (XO (XO (XO (XI (XI
                                       (XI XH)))))))) (Npos (XI (XI (XO (XO
                                       (XI (XI (XI XH)))))))) b
                                  then Some (UC ((S (S (S O))), (Npos (XO (XO
                                         (XO (XO (XO (XO (XO XH)))))))),
                                         (Npos (XI (XI (XI (XI (XI (XI (XO
                                         XH))))))))))
                                  else if N.eqb b (Npos (XO (XO (XI (XO (XI
                                            (XI (XI XH))))))))
                                       then Some (UC ((S (S (S O))), (Npos
                                              (XO (XO (XO (XO (XO (XO (XO
                                              XH)))))))), (Npos (XI (XI (XI
                                              (XI (XO (XO (XO XH))))))))))
                                       else None
  | UC (n0, lo, hi) ->
    if between lo hi b
    then Some
           (match n0 with
            | O -> U0
            | S n1 ->
              (match n1 with
               | O -> U0
               | S n' ->
                 UC ((S n'), (Npos (XO (XO (XO (XO (XO (XO (XO XH)))))))),
                   (Npos (XI (XI (XI (XI (XI (XI (XO XH)))))))))))
    else None

(** val utf8_run : n list -> u8st option **)

let utf8_run l =
  fold_left (fun st0 b -> match st0 with
                          | Some s -> u8step s b
                          | None -> None) l (Some U0)

(** val utf8_valid : n list -> bool **)

let utf8_valid l =
  match utf8_run l with
  | Some u -> (match u with
               | U0 -> true
               | UC (_, _, _) -> false)
  | None -> false

(** val slice_pair : region -> idx iC -> pairIdx **)

let slice_pair _ _ =
  { to_pair = (fun i -> Obj.magic i); of_pair = (fun i -> Obj.magic i) }

(** val collapse_pair :
    region -> (val0 -> val0 -> bool) -> pairIdx -> pairIdx **)

let collapse_pair _ _ pI =
  { to_pair = pI.to_pair; of_pair = pI.of_pair }

(** val str_wf : uval -> bool **)

let str_wf = function
| UL l ->
  (match omap (fun x ->
           match x with
           | UN n0 ->
             if N.ltb n0 (Npos (XO (XO (XO (XO (XO (XO (XO (XO XH)))))))))
             then Some n0
             else None
           | _ -> None) l with
   | Some bs -> utf8_valid bs
   | None -> false)
| _ -> false

(** val entry : bool -> n -> mRegion option **)

let entry chk = function
| N0 -> Some (m_owned (e_word (Npos (XO (XO (XO XH))))))
| Npos p ->
  (match p with
   | XI p0 ->
     (match p0 with
      | XI p1 ->
        (match p1 with
         | XI p2 ->
           (match p2 with
            | XI p3 ->
              (match p3 with
               | XH ->
                 Some
                   (m_slice
                     (m_collapse
                       (m_consec
                         (m_string str_wf
                           (m_owned (e_word (Npos (XO (XO (XO XH)))))))
                         owned_pair (ic_nat index_optimized) chk))
                     (Obj.magic ic_nat index_list))
               | _ -> None)
            | XO p3 ->
              (match p3 with
               | XI _ -> None
               | XO p4 ->
                 (match p4 with
                  | XH ->
                    Some
                      (m_string str_wf
                        (m_consec (m_owned (e_word (Npos (XO (XO (XO XH))))))
                          owned_pair (ic_nat index_optimized) chk))
                  | _ -> None)
               | XH ->
                 Some
                   (m_consec
                     (m_string str_wf
                       (m_owned (e_word (Npos (XO (XO (XO XH)))))))
                     owned_pair (ic_nat index_optimized) chk))
            | XH ->
              Some
                (m_option
                  (m_string str_wf
                    (m_owned (e_word (Npos (XO (XO (XO XH)))))))))
         | XO p2 ->
           (match p2 with
            | XI p3 ->
              (match p3 with
               | XH ->
                 Some
                   (m_consec
                     (m_slice
                       (m_string str_wf
                         (m_owned (e_word (Npos (XO (XO (XO XH)))))))
                       (vec_ic (Npos (XO (XO (XO (XO XH)))))))
                     (slice_pair
                       (m_string str_wf
                         (m_owned (e_word (Npos (XO (XO (XO XH))))))).mr
                       (vec_ic (Npos (XO (XO (XO (XO XH)))))))
                     (ic_nat index_optimized) chk)
               | _ -> None)
            | XO p3 ->
              (match p3 with
               | XI _ -> None
               | XO p4 ->
                 (match p4 with
                  | XH ->
                    Some
                      (m_columns
                        (m_slice
                          (m_string str_wf
                            (m_owned (e_word (Npos (XO (XO (XO XH)))))))
                          (vec_ic (Npos (XO (XO (XO (XO XH)))))))
                        (ic_nat index_list) chk)
                  | _ -> None)
               | XH ->
                 Some (m_collapse (m_owned (e_word (Npos (XO (XO (XO XH))))))))
            | XH -> Some (m_slice (m_mirror e_unit) (vec_ic N0)))
         | XH ->
           Some (m_string str_wf (m_owned (e_word (Npos (XO (XO (XO XH))))))))
      | XO p1 ->
        (match p1 with
         | XI p2 ->
           (match p2 with
            | XI p3 ->
              (match p3 with
               | XH ->
                 Some
                   (m_consec
                     (m_collapse (m_owned (e_word (Npos (XO (XO (XO XH)))))))
                     (collapse_pair
                       (m_owned (e_word (Npos (XO (XO (XO XH)))))).mr
                       (m_owned (e_word (Npos (XO (XO (XO XH)))))).m_veq
                       owned_pair) (ic_nat index_optimized) chk)
               | _ -> None)
            | XO p3 ->
              (match p3 with
               | XI _ -> None
               | XO p4 ->
                 (match p4 with
                  | XH ->
                    Some
                      (m_tuple2
                        (m_collapse
                          (m_string str_wf
                            (m_owned (e_word (Npos (XO (XO (XO XH))))))))
                        (m_option
                          (m_mirror
                            (e_word (Npos (XO (XO (XO (XO (XO (XO XH)))))))))))
                  | _ -> None)
               | XH -> Some (m_collapse (m_mirror e_f64)))
            | XH ->
              Some
                (m_slice
                  (m_mirror (e_word (Npos (XO (XO (XO (XO (XO (XO XH)))))))))
                  (Obj.magic index_list)))
         | XO p2 ->
           (match p2 with
            | XI p3 ->
              (match p3 with
               | XH ->
                 Some
                   (m_consec
                     (m_string str_wf
                       (m_owned (e_word (Npos (XO (XO (XO XH)))))))
                     owned_pair (ic_nat index_list) chk)
               | _ -> None)
            | XO p3 ->
              (match p3 with
               | XI _ -> None
               | XO p4 ->
                 (match p4 with
                  | XH ->
                    Some
                      (m_columns (m_mirror (e_word (Npos (XO (XO (XO XH))))))
                        (vec_ic (Npos (XO (XO (XO XH))))) chk)
                  | _ -> None)
               | XH ->
                 Some
                   (m_tuple2
                     (m_string str_wf
                       (m_owned (e_word (Npos (XO (XO (XO XH)))))))
                     (m_slice
                       (m_string str_wf
                         (m_owned (e_word (Npos (XO (XO (XO XH)))))))
                       (vec_ic (Npos (XO (XO (XO (XO XH)))))))))
            | XH ->
              Some
                (m_slice (m_owned (e_word (Npos (XO (XO (XO XH))))))
                  (vec_ic (Npos (XO (XO (XO (XO XH))))))))
         | XH -> Some (m_mirror e_f64))
      | XH -> Some (m_mirror (e_word (Npos (XO (XO (XO (XO (XO (XO XH))))))))))
   | XO p0 ->
     (match p0 with
      | XI p1 ->
        (match p1 with
         | XI p2 ->
           (match p2 with
            | XI p3 ->
              (match p3 with
               | XH ->
                 Some
                   (m_slice
                     (m_consec
                       (m_string str_wf
                         (m_owned (e_word (Npos (XO (XO (XO XH)))))))
                       owned_pair (ic_nat index_optimized) chk)
                     (Obj.magic ic_nat index_optimized))
               | _ -> None)
            | XO p3 ->
              (match p3 with
               | XI _ -> None
               | XO p4 ->
                 (match p4 with
                  | XH ->
                    Some
                      (m_result
                        (m_slice (m_owned (e_word (Npos (XO (XO (XO XH))))))
                          (vec_ic (Npos (XO (XO (XO (XO XH)))))))
                        (m_columns
                          (m_string str_wf
                            (m_owned (e_word (Npos (XO (XO (XO XH)))))))
                          (vec_ic (Npos (XO (XO (XO XH))))) chk))
                  | _ -> None)
               | XH ->
                 Some
                   (m_collapse
                     (m_slice
                       (m_string str_wf
                         (m_owned (e_word (Npos (XO (XO (XO XH)))))))
                       (vec_ic (Npos (XO (XO (XO (XO XH)))))))))
            | XH ->
              Some
                (m_slice
                  (m_slice
                    (m_slice (m_mirror (e_word (Npos (XO (XO (XO XH))))))
                      (vec_ic (Npos XH)))
                    (vec_ic (Npos (XO (XO (XO (XO XH)))))))
                  (vec_ic (Npos (XO (XO (XO (XO XH))))))))
         | XO p2 ->
           (match p2 with
            | XI p3 ->
              (match p3 with
               | XH ->
                 Some
                   (m_consec
                     (m_owned
                       (e_word (Npos (XO (XO (XO (XO (XO (XO XH)))))))))
                     owned_pair (ic_nat index_optimized) chk)
               | _ -> None)
            | XO p3 ->
              (match p3 with
               | XI _ -> None
               | XO p4 ->
                 (match p4 with
                  | XH ->
                    Some
                      (m_columns
                        (m_collapse
                          (m_consec
                            (m_string str_wf
                              (m_owned (e_word (Npos (XO (XO (XO XH)))))))
                            owned_pair (ic_nat index_optimized) chk))
                        (ic_nat index_optimized) chk)
                  | _ -> None)
               | XH ->
                 Some
                   (m_slice
                     (m_option
                       (m_result
                         (m_string str_wf
                           (m_owned (e_word (Npos (XO (XO (XO XH)))))))
                         (m_mirror (e_word (Npos (XO (XO (XO (XO XH)))))))))
                     (vec_ic (Npos (XO (XO (XO (XO (XO XH)))))))))
            | XH ->
              Some
                (m_slice
                  (m_mirror (e_word (Npos (XO (XO (XO (XO (XO (XO XH)))))))))
                  (vec_ic (Npos (XO (XO (XO XH)))))))
         | XH -> Some (m_vec (e_word (Npos (XO (XO (XO (XO (XO (XO XH))))))))))
      | XO p1 ->
        (match p1 with
         | XI p2 ->
           (match p2 with
            | XI p3 ->
              (match p3 with
               | XH ->
                 Some
                   (m_collapse
                     (m_consec
                       (m_string str_wf
                         (m_owned (e_word (Npos (XO (XO (XO XH)))))))
                       owned_pair (ic_nat index_optimized) chk))
               | _ -> None)
            | XO p3 ->
              (match p3 with
               | XI _ -> None
               | XO p4 ->
                 (match p4 with
                  | XH ->
                    Some
                      (m_slice
                        (m_columns
                          (m_mirror (e_word (Npos (XO (XO (XO XH))))))
                          (ic_nat index_optimized) chk)
                        (Obj.magic ic_nat index_optimized))
                  | _ -> None)
               | XH ->
                 Some
                   (m_collapse
                     (m_string str_wf
                       (m_owned (e_word (Npos (XO (XO (XO XH)))))))))
            | XH ->
              Some
                (m_slice
                  (m_mirror (e_word (Npos (XO (XO (XO (XO (XO (XO XH)))))))))
                  (Obj.magic index_optimized)))
         | XO p2 ->
           (match p2 with
            | XI p3 ->
              (match p3 with
               | XI _ -> None
               | XO p4 ->
                 (match p4 with
                  | XH ->
                    Some
                      (m_string str_wf
                        (m_collapse
                          (m_owned (e_word (Npos (XO (XO (XO XH))))))))
                  | _ -> None)
               | XH ->
                 Some
                   (m_consec
                     (m_string str_wf
                       (m_owned (e_word (Npos (XO (XO (XO XH)))))))
                     owned_pair (vec_ic (Npos (XO (XO (XO XH))))) chk))
            | XO p3 ->
              (match p3 with
               | XI _ -> None
               | XO p4 ->
                 (match p4 with
                  | XH ->
                    Some
                      (m_columns
                        (m_string str_wf
                          (m_owned (e_word (Npos (XO (XO (XO XH)))))))
                        (ic_nat index_optimized) chk)
                  | _ -> None)
               | XH ->
                 Some
                   (m_result
                     (m_string str_wf
                       (m_owned (e_word (Npos (XO (XO (XO XH)))))))
                     (m_mirror (e_word (Npos (XO (XO (XO XH))))))))
            | XH ->
              Some
                (m_slice
                  (m_string str_wf
                    (m_owned (e_word (Npos (XO (XO (XO XH)))))))
                  (vec_ic (Npos (XO (XO (XO (XO XH))))))))
         | XH -> Some (m_mirror e_unit))
      | XH -> Some (m_mirror (e_word (Npos (XO (XO (XO XH)))))))
   | XH -> Some (m_owned (e_word (Npos (XO (XO (XO (XO (XO (XO XH))))))))))

(** val run_entry : bool -> n -> op list -> obs list list option **)

let run_entry chk n0 ops =
  match entry chk n0 with
  | Some m -> Some (run0 m ops)
  | None -> None
