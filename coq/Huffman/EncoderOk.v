(** The encoder side of the Huffman container is exact at every alignment (C06): [push_symbols]
    extends the container's bit string by exactly the code words of the pushed symbols --
    whatever partial byte the previous item left behind -- and returns (old length, new length). *)
From FC Require Import Base.Res Huffman.Huffman Huffman.Bits Huffman.BitIter.
From Coq Require Import Lia.
Set Implicit Arguments.
Local Open Scope nat_scope.

(** the bits an encoder output contributes, the byte it stores, the number of valid bits *)
Definition obits (o : eout) : list bool :=
  match o with EByte b => bits_of 8 b | EPart b n => firstn n (bits_of 8 b) end.
Definition obyte (o : eout) : N := match o with EByte b => b | EPart b _ => b end.
Definition onum (o : eout) : nat := match o with EByte _ => 8 | EPart _ n => n end.
Definition allbits (l : list eout) : list bool := concat (map obits l).
Definition is_byte (o : eout) : Prop := match o with EByte _ => True | EPart _ _ => False end.

Lemma allbits_app a b : allbits (a ++ b) = allbits a ++ allbits b.
Proof. unfold allbits. now rewrite map_app, concat_app. Qed.

Lemma sum_bytes acc : Forall is_byte acc -> list_sum (map onum acc) = length acc * 8.
Proof.
  induction 1 as [|o l Ho _ IHl]; [reflexivity|]. destruct o; [|contradiction].
  simpl. rewrite IHl. lia.
Qed.

(** * the register *)
Lemma pow2_pos n : (0 < 2 ^ N.of_nat n)%N.
Proof. apply N.neq_0_lt_0, N.pow_nonzero. lia. Qed.

(** the top byte and the rest of an n-bit register *)
Lemma reg_split pn pb : 8 <= pn ->
  bits_of pn pb = bits_of 8 (pb / 2 ^ N.of_nat (pn - 8)) ++ bits_of (pn - 8) (pb mod 2 ^ N.of_nat (pn - 8)).
Proof.
  intros H. rewrite bits_of_shiftr by lia. rewrite bits_of_mask by lia. symmetry. apply firstn_skipn.
Qed.

Lemma flush_spec : forall fuel pb pn acc, (pb < 2 ^ N.of_nat pn)%N -> pn < 8 * fuel -> Forall is_byte acc ->
  let '(pb', pn', acc') := flush fuel pb pn acc in
  pn' < 8 /\ (pb' < 2 ^ N.of_nat pn')%N /\ Forall is_byte acc' /\
  allbits acc' ++ bits_of pn' pb' = allbits acc ++ bits_of pn pb /\
  length acc' * 8 + pn' = length acc * 8 + pn.
Proof.
  induction fuel as [|fuel IH]; intros pb pn acc Hpb Hf Hacc; [lia|].
  cbn [flush]. destruct (Nat.leb_spec 8 pn) as [Hge|Hlt].
  - specialize (IH (pb mod 2 ^ N.of_nat (pn - 8))%N (pn - 8) (acc ++ [EByte ((pb / 2 ^ N.of_nat (pn - 8)) mod 256)%N])).
    destruct (flush fuel _ _ _) as [[pb' pn'] acc'].
    destruct IH as (H1 & H2 & H3 & H4 & H5).
    + apply N.mod_upper_bound. apply N.pow_nonzero. lia.
    + lia.
    + apply Forall_app. split; [assumption|repeat constructor].
    + split; [assumption|]. split; [assumption|]. split; [assumption|]. split.
      * rewrite H4, allbits_app. unfold allbits at 2. cbn [map concat obits]. rewrite app_nil_r.
        change 256%N with (2 ^ N.of_nat 8)%N. rewrite bits_of_mod. rewrite <- app_assoc. f_equal.
        symmetry. apply reg_split. assumption.
      * rewrite H5, app_length. cbn [length]. lia.
  - split; [assumption|]. split; [assumption|]. split; [assumption|]. split; reflexivity.
Qed.

(** * code tables *)
Definition cw (e : list (sym * (nat * N))) (s : sym) : list bool :=
  match lookup_code s e with Some (l, c) => bits_of l c | None => [] end.
Definition clen (e : list (sym * (nat * N))) (s : sym) : nat :=
  match lookup_code s e with Some (l, _) => l | None => 0 end.
(** every symbol to push has a code of 1..57 bits whose value fits *)
Definition covered (e : list (sym * (nat * N))) (syms : list sym) : Prop :=
  Forall (fun s => exists l c, lookup_code s e = Some (l, c) /\ 1 <= l <= 57 /\ (c < 2 ^ N.of_nat l)%N) syms.

Lemma shl_add_bound pb pn c l : (pb < 2 ^ N.of_nat pn)%N -> (c < 2 ^ N.of_nat l)%N ->
  (pb * 2 ^ N.of_nat l + c < 2 ^ N.of_nat (pn + l))%N.
Proof.
  intros Hpb Hc. rewrite Nat2N.inj_add, N.pow_add_r.
  assert (pb + 1 <= 2 ^ N.of_nat pn)%N by lia.
  assert ((pb + 1) * 2 ^ N.of_nat l <= 2 ^ N.of_nat pn * 2 ^ N.of_nat l)%N by (apply N.mul_le_mono_r; assumption).
  lia.
Qed.

Theorem encode_spec e : forall syms pb pn acc, covered e syms ->
  (pb < 2 ^ N.of_nat pn)%N -> pn < 8 -> Forall is_byte acc ->
  exists outs, encode e syms pb pn acc = Ok outs /\
    allbits outs = allbits acc ++ bits_of pn pb ++ concat (map (cw e) syms) /\
    (exists full part, outs = full ++ part /\ Forall is_byte full /\
       (part = [] \/ exists b n, part = [EPart b n] /\ 0 < n < 8)) /\
    list_sum (map onum outs) = length acc * 8 + pn + list_sum (map (clen e) syms).
Proof.
  induction syms as [|s syms IH]; intros pb pn acc Hcov Hpb Hpn Hacc; cbn [encode].
  - destruct (Nat.ltb_spec 0 pn) as [Hpos|Hz].
    + eexists. split; [reflexivity|]. split; [|split].
      * rewrite allbits_app. unfold allbits at 2. cbn [map concat obits]. rewrite !app_nil_r. f_equal.
        change 256%N with (2 ^ N.of_nat 8)%N. rewrite bits_of_mod.
        rewrite bits_of_pad; [|clear - Hpn; lia|assumption]. rewrite firstn_app, bits_of_length, Nat.sub_diag.
        rewrite firstn_all2 by (rewrite bits_of_length; lia). cbn. now rewrite app_nil_r.
      * exists acc, [EPart ((pb * 2 ^ N.of_nat (8 - pn)) mod 256)%N pn]. split; [reflexivity|]. split; [assumption|].
        right. eexists _, _. split; [reflexivity|lia].
      * rewrite map_app, list_sum_app.
        rewrite (sum_bytes Hacc). simpl. lia.
    + assert (pn = 0) by lia. subst pn. exists acc. split; [reflexivity|]. split; [|split].
      * cbn. now rewrite !app_nil_r.
      * exists acc, []. rewrite app_nil_r. auto.
      * rewrite (sum_bytes Hacc). simpl. lia.
  - inversion Hcov as [|? ? (l & c & Hl & Hlen & Hc) Hcov']; subst. rewrite Hl.
    assert (Hnew : (pb * 2 ^ N.of_nat l + c < 2 ^ N.of_nat (pn + l))%N) by (apply shl_add_bound; assumption).
    assert (Hfit : ((pb * 2 ^ N.of_nat l) mod W64 = pb * 2 ^ N.of_nat l)%N).
    { apply N.mod_small. unfold W64. eapply N.le_lt_trans; [apply N.le_add_r with (m := c)|].
      eapply N.lt_le_trans; [exact Hnew|]. apply N.pow_le_mono_r; lia. }
    rewrite Hfit.
    pose proof (@flush_spec 9 (pb * 2 ^ N.of_nat l + c)%N (pn + l) acc Hnew ltac:(lia) Hacc) as Hfl.
    destruct (flush 9 (pb * 2 ^ N.of_nat l + c)%N (pn + l) acc) as [[pb' pn'] acc'].
    destruct Hfl as (H1 & H2 & H3 & H4 & H5).
    destruct (IH pb' pn' acc' Hcov' H2 H1 H3) as (outs & He & Hb & Hshape & Hsum).
    exists outs. split; [exact He|]. split; [|split; [exact Hshape|]].
    + rewrite Hb, app_assoc, H4. cbn [map concat]. unfold cw at 2. rewrite Hl.
      rewrite bits_of_app by assumption. rewrite <- !app_assoc. reflexivity.
    + rewrite Hsum. change (list_sum (map (clen e) (s :: syms))) with (clen e s + list_sum (map (clen e) syms)).
      unfold clen at 2. rewrite Hl. lia.
Qed.

(** every stored byte is a byte *)
Definition small (o : eout) : Prop := (obyte o < 256)%N.
Lemma flush_small : forall fuel pb pn acc, Forall small acc ->
  Forall small (snd (flush fuel pb pn acc)).
Proof.
  induction fuel as [|fuel IH]; intros pb pn acc Hacc; cbn [flush]; [exact Hacc|].
  destruct (8 <=? pn); [|exact Hacc]. apply IH. apply Forall_app. split; [assumption|].
  constructor; [|constructor]. unfold small. cbn. apply N.mod_upper_bound. discriminate.
Qed.
Lemma encode_small e : forall syms pb pn acc outs, Forall small acc -> encode e syms pb pn acc = Ok outs -> Forall small outs.
Proof.
  induction syms as [|s syms IH]; intros pb pn acc outs Hacc He; cbn [encode] in He.
  - inversion He; subst. destruct (0 <? pn); [|assumption]. apply Forall_app. split; [assumption|].
    constructor; [|constructor]. unfold small. cbn. apply N.mod_upper_bound. discriminate.
  - destruct (lookup_code s e) as [[l c]|]; [|discriminate].
    pose proof (@flush_small 9 (((pb * 2 ^ N.of_nat l) mod W64) + c)%N (pn + l) acc Hacc) as Hf.
    destruct (flush 9 _ _ acc) as [[pb' pn'] acc']. cbn [snd] in Hf. eapply IH; eauto.
Qed.

(** * the container's bit string *)
Definition wfst (bytes : list N) (bits : nat) : Prop :=
  bits <= 8 * length bytes /\ 8 * length bytes < bits + 8 /\ Forall (fun b => (b < 256)%N) bytes.
Definition vb (bytes : list N) (bits : nat) : list bool := firstn bits (bitstr bytes).

Lemma bitstr_app a b : bitstr (a ++ b) = bitstr a ++ bitstr b.
Proof. unfold bitstr. now rewrite map_app, concat_app. Qed.

Lemma fold_emit outs : forall bytes n,
  fold_left emit outs (bytes, n) = (bytes ++ map obyte outs, n + list_sum (map onum outs)).
Proof.
  induction outs as [|o outs IH]; intros bytes n.
  - cbn [fold_left map]. rewrite app_nil_r. change (list_sum []) with 0. rewrite Nat.add_0_r. reflexivity.
  - cbn [fold_left]. change (map obyte (o :: outs)) with (obyte o :: map obyte outs).
    change (list_sum (map onum (o :: outs))) with (onum o + list_sum (map onum outs)).
    assert (He : emit (bytes, n) o = (bytes ++ [obyte o], n + onum o)) by (destruct o; reflexivity).
    rewrite He, IH, <- app_assoc, Nat.add_assoc. reflexivity.
Qed.

(** full bytes followed by at most one partial byte: the valid bits are all the output bits *)
Lemma shape_bits full part : Forall is_byte full ->
  (part = [] \/ exists b n, part = [EPart b n] /\ 0 < n < 8) ->
  firstn (list_sum (map onum (full ++ part))) (bitstr (map obyte (full ++ part))) = allbits (full ++ part) /\
  list_sum (map onum (full ++ part)) <= 8 * length (full ++ part) /\
  8 * length (full ++ part) < list_sum (map onum (full ++ part)) + 8.
Proof.
  intros Hfull Hpart.
  assert (Hf : bitstr (map obyte full) = allbits full /\ list_sum (map onum full) = 8 * length full).
  { induction Hfull as [|o l Ho _ [IH1 IH2]]; [split; reflexivity|]. destruct o as [b|]; [|contradiction].
    split.
    - change (bitstr (map obyte (EByte b :: l))) with (bits_of 8 b ++ bitstr (map obyte l)). rewrite IH1. reflexivity.
    - simpl. rewrite IH2. lia. }
  destruct Hf as [Hf1 Hf2].
  rewrite !map_app, list_sum_app, bitstr_app, allbits_app, app_length, Hf1, Hf2.
  assert (Hlen : length (allbits full) = 8 * length full) by (rewrite <- Hf1, bitstr_length, map_length; reflexivity).
  destruct Hpart as [->|(b & n & -> & Hn)].
  - change (list_sum (map onum [])) with 0. change (length (@nil eout)) with 0.
    change (allbits []) with (@nil bool). change (bitstr (map obyte [])) with (@nil bool).
    rewrite !app_nil_r, !Nat.add_0_r. split; [|lia]. apply firstn_all2. lia.
  - change (list_sum (map onum [EPart b n])) with (n + 0). change (length [EPart b n]) with 1.
    split; [|lia].
    rewrite firstn_app, Hlen.
    rewrite firstn_all2 by lia. f_equal.
    replace (8 * length full + (n + 0) - 8 * length full) with n by lia.
    unfold bitstr, allbits. cbn [map concat obits obyte]. rewrite !app_nil_r. reflexivity.
Qed.

Lemma removelast_last_split {A} (l : list A) d : l <> [] -> l = removelast l ++ [last l d].
Proof. intros H. apply app_removelast_last. exact H. Qed.

(** peeling the trailing partial byte: the valid bits are the whole bytes plus the register *)
Lemma peel_spec bytes bits : wfst bytes bits ->
  let k := bits mod 8 in
  let bytes0 := if k =? 0 then bytes else removelast bytes in
  let init := if k =? 0 then 0%N else (last bytes 0%N / 2 ^ N.of_nat (8 - k))%N in
  vb bytes bits = bitstr bytes0 ++ bits_of k init /\ 8 * length bytes0 = bits - k /\
  (init < 2 ^ N.of_nat k)%N /\ k < 8 /\ Forall (fun b => (b < 256)%N) bytes0.
Proof.
  intros (Hle & Hlt & Hsm). cbn zeta.
  assert (Hk : bits mod 8 < 8) by (apply Nat.mod_upper_bound; lia).
  pose proof (Nat.div_mod bits 8 ltac:(lia)) as Hdm.
  destruct (Nat.eqb_spec (bits mod 8) 0) as [Hz|Hnz].
  - rewrite Hz. cbn [bits_of]. rewrite app_nil_r, Nat.sub_0_r.
    assert (bits = 8 * length bytes) by lia.
    split; [unfold vb; apply firstn_all2; rewrite bitstr_length; lia|]. split; [lia|]. split; [apply pow2_pos|]. split; [lia|assumption].
  - assert (Hne : bytes <> []) by (destruct bytes; [cbn in *; lia|discriminate]).
    pose proof (removelast_last_split 0%N Hne) as Hsplit.
    set (q := bits / 8) in *. set (k := bits mod 8) in *.
    assert (Hlen : length bytes = S (length (removelast bytes))).
    { rewrite Hsplit at 1. rewrite app_length. cbn. lia. }
    assert (Hq : length (removelast bytes) = q) by lia.
    split; [|split; [lia|split; [|split; [lia|]]]].
    + unfold vb. rewrite Hsplit at 1. rewrite bitstr_app.
      replace bits with (8 * length (removelast bytes) + k) by lia.
      rewrite firstn_app, bitstr_length.
      rewrite firstn_all2 by (rewrite bitstr_length; lia). f_equal.
      replace (8 * length (removelast bytes) + k - 8 * length (removelast bytes)) with k by lia.
      unfold bitstr. cbn [map concat]. rewrite app_nil_r. rewrite bits_of_shiftr by lia. reflexivity.
    + assert (Hlast : (last bytes 0 < 256)%N).
      { rewrite Forall_forall in Hsm. apply Hsm. rewrite Hsplit at 2. apply in_or_app. right. left. reflexivity. }
      apply N.div_lt_upper_bound; [apply N.pow_nonzero; lia|].
      rewrite <- N.pow_add_r. replace (N.of_nat (8 - k) + N.of_nat k)%N with 8%N by lia. exact Hlast.
    + rewrite Hsplit in Hsm. apply Forall_app in Hsm. apply Hsm.
Qed.

(** C06 (encoder side): pushing symbols covered by the code table extends the bit string by exactly
    their code words, at every alignment of the previous end, and returns (old length, new length) *)
Theorem push_symbols_spec h bytes bits syms : wfst bytes bits -> covered (enc h) syms ->
  exists bytes' bits', push_symbols h bytes bits syms = Ok (bytes', bits', (bits, bits')) /\
    wfst bytes' bits' /\
    vb bytes' bits' = vb bytes bits ++ concat (map (cw (enc h)) syms) /\
    bits' = bits + list_sum (map (clen (enc h)) syms).
Proof.
  intros Hwf Hcov. destruct (peel_spec Hwf) as (Hvb & Hlen0 & Hinit & Hk & Hsm0).
  unfold push_symbols.
  set (k := bits mod 8) in *.
  set (bytes0 := if k =? 0 then bytes else removelast bytes) in *.
  set (init := if k =? 0 then 0%N else (last bytes 0%N / 2 ^ N.of_nat (8 - k))%N) in *.
  assert (Hfst : fst (if k =? 0 then (0%N, 0) else ((last bytes 0 / 2 ^ N.of_nat (8 - k))%N, k)) = init)
    by (unfold init; destruct (k =? 0); reflexivity).
  assert (Hsnd : snd (if k =? 0 then (0%N, 0) else ((last bytes 0 / 2 ^ N.of_nat (8 - k))%N, k)) = k).
  { destruct (Nat.eqb_spec k 0) as [E|E]; cbn [snd]; [symmetry; exact E|reflexivity]. }
  rewrite Hfst, Hsnd.
  destruct (@encode_spec (enc h) syms init k [] Hcov Hinit Hk ltac:(constructor)) as (outs & He & Hbits & (full & part & Hout & Hfull & Hpart) & Hsum).
  rewrite He. cbn [bind]. rewrite fold_emit. cbn [fst snd].
  pose proof (@encode_small (enc h) syms init k [] outs ltac:(constructor) He) as Hsmall.
  destruct (shape_bits Hfull Hpart) as (Hsb & Hs1 & Hs2). rewrite <- Hout in Hsb, Hs1, Hs2.
  assert (Hdm : bits = 8 * (bits / 8) + k) by (unfold k; apply Nat.div_mod; lia).
  eexists _, _. split; [reflexivity|]. split; [|split].
  - unfold wfst. rewrite app_length, map_length. split; [lia|]. split; [lia|].
    apply Forall_app. split; [assumption|]. rewrite Forall_forall in *. intros b Hb. apply in_map_iff in Hb.
    destruct Hb as (o & <- & Ho). apply (Hsmall o Ho).
  - unfold vb at 1. rewrite bitstr_app.
    replace (bits - k + list_sum (map onum outs)) with (8 * length bytes0 + list_sum (map onum outs)) by lia.
    rewrite firstn_app, bitstr_length.
    rewrite firstn_all2 by (rewrite bitstr_length; lia).
    replace (8 * length bytes0 + list_sum (map onum outs) - 8 * length bytes0) with (list_sum (map onum outs)) by lia.
    rewrite Hsb, Hbits, Hvb. change (allbits []) with (@nil bool). cbn [app]. rewrite <- app_assoc. reflexivity.
  - rewrite Hsum. cbn [length]. lia.
Qed.
