(** [HuffmanContainer] meets the region contract ([RegionOK]), so every generic theorem (C01, C02,
    C08, C10 histories) and every combinator instance applies to compositions that contain it.

    - [inv]: the statistics hold positive counts; an encoded container's coder was built by
      [create_from] from well-formed counts whose code lengths are at most 57 ([good]) and its
      bit string is well formed.
    - [valid]: a bit range that holds a concatenation of code words (raw: an element range).
    - [dom]: every symbol has a code (raw: everything).
    - [mergeable]: the merged statistics give code lengths of at most 57 bits -- the limit of
      the 64-bit encoder register that the crate's own comment concedes; this is the ONLY
      hypothesis, and it is a premise of [merge_inv], not an assumption about the code. *)
From FC Require Import Base.Res Region.Region Huffman.Huffman Huffman.Bits Huffman.BitIter Huffman.DecoderOk
  Huffman.EncoderOk Huffman.FrameOk Huffman.RoundTrip Huffman.HuffTree Huffman.TableIns Huffman.TableOk.
From Coq Require Import Lia ZArith Sorted.
Set Implicit Arguments.
Local Open Scope nat_scope.

Definition counts_wf (counts : list (sym * Z)) : Prop :=
  NoDup (map fst counts) /\ Forall (fun sc : sym * Z => (0 <= snd sc)%Z) counts.
Definition bound (counts : list (sym * Z)) : Prop :=
  Forall (fun ls : nat * sym => fst ls <= 57) (levels_of counts).
Definition good (h : huff) : Prop := exists counts, counts_wf counts /\ bound counts /\ h = create_from counts.
Definition spos (m : list (sym * Z)) : Prop := Forall (fun sc : sym * Z => (0 < snd sc)%Z) m.
Definition merged_counts (l : list hstate) : list (sym * Z) :=
  fold_left (fun m (sc : sym * Z) => stat_add (fst sc) (snd sc) m) (flat_map (fun x : hstate => snd x) l) [].

#[export] Instance huffman_spec : RSpec huffman_region :=
  @Build_RSpec huffman_region
    (fun s : hstate => spos (snd s) /\
       match fst s with HEnc h bytes bits => good h /\ wfst bytes bits | HRaw _ => True end)
    (fun (s : hstate) (j : nat * nat) =>
       match fst s with
       | HEnc h bytes bits => fst j <= snd j /\ snd j <= bits /\
           exists syms, covered (enc h) syms /\
             firstn (snd j - fst j) (skipn (fst j) (vb bytes bits)) = concat (map (cw (enc h)) syms)
       | HRaw raw => fst j <= snd j <= length raw
       end)
    (fun (s : hstate) (v : list sym) =>
       match fst s with
       | HEnc h _ _ => Forall (fun x => lookup_code x (enc h) <> None) v
       | HRaw _ => True
       end)
    (fun s t : hstate => fst s = fst t)
    (fun l : list hstate => bound (merged_counts l)).

(** * statistics *)
Lemma stat_add_in s c : forall m k, In k (map fst (stat_add s c m)) -> k = s \/ In k (map fst m).
Proof.
  induction m as [|[k0 v0] m IH]; intros k Hin; cbn [stat_add] in Hin.
  - destruct Hin as [<-|[]]. left. reflexivity.
  - destruct (N.compare_spec s k0) as [->|Hlt|Hgt]; cbn [map fst In] in *.
    + right. exact Hin.
    + destruct Hin as [<-|Hin]; [left; reflexivity|right; exact Hin].
    + destruct Hin as [<-|Hin]; [right; left; reflexivity|]. destruct (IH k Hin) as [->|H]; [left; reflexivity|right; right; exact H].
Qed.

Lemma stat_add_sorted s c : forall m, StronglySorted N.lt (map fst m) -> StronglySorted N.lt (map fst (stat_add s c m)).
Proof.
  induction m as [|[k0 v0] m IH]; intros Hs; cbn [stat_add].
  - cbn. constructor; constructor.
  - cbn [map fst] in Hs. inversion Hs as [|? ? Hs' Hall]; subst.
    destruct (N.compare_spec s k0) as [->|Hlt|Hgt]; cbn [map fst].
    + constructor; assumption.
    + constructor; [exact Hs|]. constructor; [assumption|]. eapply Forall_impl; [|exact Hall]. cbn. intros a Ha. lia.
    + constructor; [apply IH; assumption|]. apply Forall_forall. intros k Hk.
      destruct (stat_add_in _ _ _ _ Hk) as [->|Hk']; [assumption|]. rewrite Forall_forall in Hall. apply Hall. exact Hk'.
Qed.

Lemma stat_add_pos (P : Z -> Prop) s c : (forall a, P a -> P (a + c)%Z) -> P c ->
  forall m, Forall (fun sc : sym * Z => P (snd sc)) m -> Forall (fun sc : sym * Z => P (snd sc)) (stat_add s c m).
Proof.
  intros Hadd Hc. induction m as [|[k0 v0] m IH]; intros HF; cbn [stat_add].
  - constructor; [exact Hc|constructor].
  - inversion HF as [|? ? H0 HF']; subst. cbn [snd] in H0.
    destruct (N.compare s k0); constructor; cbn [snd]; auto.
Qed.

Lemma count_syms_spos v : forall m, spos m -> spos (count_syms m v).
Proof.
  unfold count_syms. induction v as [|x v IH]; intros m Hm; [exact Hm|]. cbn [fold_left]. apply IH.
  unfold spos. apply (@stat_add_pos (fun a => (0 < a)%Z)); [intros; lia|lia|exact Hm].
Qed.

Lemma sorted_nodup l : StronglySorted N.lt l -> NoDup l.
Proof.
  induction 1 as [|x l Hs IH Hall]; constructor; [|assumption].
  intros Hin. rewrite Forall_forall in Hall. specialize (Hall x Hin). lia.
Qed.

Lemma merged_counts_wf l : Forall (fun x : hstate => spos (snd x)) l -> counts_wf (merged_counts l).
Proof.
  intros Hl. unfold merged_counts.
  assert (Hall : spos (flat_map (fun x : hstate => snd x) l)).
  { unfold spos. induction Hl as [|x l Hx _ IH]; [constructor|]. cbn [flat_map]. apply Forall_app. split; assumption. }
  set (es := flat_map (fun x : hstate => snd x) l) in *. clearbody es.
  assert (H : forall m, StronglySorted N.lt (map fst m) -> Forall (fun sc : sym * Z => (0 <= snd sc)%Z) m ->
    let r := fold_left (fun m (sc : sym * Z) => stat_add (fst sc) (snd sc) m) es m in
    StronglySorted N.lt (map fst r) /\ Forall (fun sc : sym * Z => (0 <= snd sc)%Z) r).
  { induction Hall as [|[k c] es Hc _ IH]; intros m Hs Hp; [cbn; auto|]. cbn [fold_left fst snd] in *. apply IH.
    - apply stat_add_sorted. exact Hs.
    - apply (@stat_add_pos (fun a => (0 <= a)%Z)); [intros; lia|lia|exact Hp]. }
  destruct (H [] ltac:(constructor) ltac:(constructor)) as [H1 H2]. split; [apply sorted_nodup; exact H1|exact H2].
Qed.

(** * the coder *)
Lemma good_table h : good h -> exists counts, table_ok counts h.
Proof. intros (counts & [Hnd Hpos] & Hb & ->). exists counts. apply create_from_ok; assumption. Qed.

Lemma good_covered h v : good h -> Forall (fun x => lookup_code x (enc h) <> None) v -> covered (enc h) v.
Proof.
  intros Hg Hv. destruct (good_table Hg) as (counts & _ & Hcov & Hnone). apply Hcov.
  eapply Forall_impl; [|exact Hv]. intros s Hs.
  destruct (in_dec N.eq_dec s (map fst counts)) as [Hin|Hn]; [exact Hin|]. exfalso. apply Hs, Hnone, Hn.
Qed.

Lemma good_tab_ok h : good h -> tab_ok (dtab h) (codes (enc h)).
Proof. intros Hg. destruct (good_table Hg) as (counts & Ht & _). exact Ht. Qed.

(** a successful encode means every symbol had a code (refusal is a panic, never a mis-store) *)
Lemma encode_ok_lookup e : forall syms pb pn acc outs, encode e syms pb pn acc = Ok outs ->
  Forall (fun x => lookup_code x e <> None) syms.
Proof.
  induction syms as [|s syms IH]; intros pb pn acc outs H; [constructor|].
  cbn [encode] in H. destruct (lookup_code s e) as [[l c]|] eqn:E; [|discriminate].
  constructor; [rewrite E; discriminate|].
  destruct (flush 9 _ _ acc) as [[pb' pn'] acc']. eapply IH. exact H.
Qed.

Lemma push_symbols_ok_lookup h bytes bits syms r : push_symbols h bytes bits syms = Ok r ->
  Forall (fun x => lookup_code x (enc h) <> None) syms.
Proof.
  unfold push_symbols. intros H.
  match type of H with (let* outs := ?E in _) = _ => destruct E as [outs|] eqn:Ee; [|discriminate] end.
  eapply encode_ok_lookup. exact Ee.
Qed.

Theorem push_symbols_refuses h bytes bits syms : ~ Forall (fun x => lookup_code x (enc h) <> None) syms ->
  push_symbols h bytes bits syms = Panic.
Proof.
  intros Hn. destruct (push_symbols h bytes bits syms) as [r|] eqn:E; [|reflexivity].
  exfalso. apply Hn. eapply push_symbols_ok_lookup. exact E.
Qed.

Lemma vb_length bytes bits : bits <= 8 * length bytes -> length (vb bytes bits) = bits.
Proof. intros H. unfold vb. rewrite firstn_length, bitstr_length. lia. Qed.

(** * the instance *)
#[export] Instance huffman_ok : RegionOK huffman_region.
Proof.
  constructor.
  - (* inv_dflt *) cbn. split; [constructor|exact I].
  - (* push_safe *)
    intros [[h bytes bits|raw] stats] v s' i [Hsp Hin] Hp; cbn [fst snd inv valid huffman_spec] in *.
    + destruct Hin as [Hg Hwf]. cbn [push huffman_region fst snd] in Hp.
      destruct (push_symbols h bytes bits v) as [[[b' n'] ix]|] eqn:Ep; cbn [bind] in Hp; [|discriminate].
      inversion Hp; subst s' i. clear Hp.
      pose proof (good_covered Hg (push_symbols_ok_lookup _ _ _ _ Ep)) as Hcov.
      destruct (@push_symbols_spec h bytes bits v Hwf Hcov) as (b2 & n2 & Hp2 & Hwf2 & Hvb & Hn2).
      rewrite Ep in Hp2. inversion Hp2; subst b' n' ix. clear Hp2.
      destruct Hwf as (Hb1 & Hb1' & Hsm1). pose proof Hwf2 as (Hb2 & Hb2' & Hsm2).
      pose proof (vb_length bytes Hb1) as Hl1. pose proof (vb_length b2 Hb2) as Hl2.
      assert (HlX : length (concat (map (cw (enc h)) v)) = n2 - bits).
      { pose proof (f_equal (@length bool) Hvb) as Hl. rewrite app_length, Hl1, Hl2 in Hl. lia. }
      cbn [fst snd]. split; [|split; [|split]].
      * split; [apply count_syms_spos; assumption|]. split; assumption.
      * split; [lia|]. split; [lia|]. exists v. split; [exact Hcov|].
        rewrite Hvb, skipn_app, Hl1, Nat.sub_diag, skipn_all2 by lia. cbn [app skipn].
        rewrite firstn_all2 by lia. reflexivity.
      * intros [lo hi] Hj. cbn [valid huffman_spec fst snd] in *. destruct Hj as (Hle & Hhi & syms & Hc & Hbits). split.
        -- split; [assumption|]. split; [lia|]. exists syms. split; [assumption|]. rewrite <- Hbits.
           apply window_agree with (hi := bits); [lia|].
           rewrite Hvb, firstn_app, Hl1, Nat.sub_diag. cbn [firstn]. rewrite app_nil_r. reflexivity.
        -- apply (@huffman_frame h bytes bits v b2 n2 (bits, n2)); try assumption. split; [assumption|]. split; assumption.
      * intros w. reflexivity.
    + cbn [push huffman_region fst snd] in Hp. inversion Hp; subst s' i. clear Hp. cbn [fst snd].
      split; [|split; [|split]].
      * split; [apply count_syms_spos; assumption|exact I].
      * rewrite app_length. lia.
      * intros [lo hi] Hj. cbn [valid huffman_spec fst snd read huffman_region] in *. rewrite app_length. split; [lia|].
        apply sub_app_old. exact Hj.
      * intros w. reflexivity.
  - (* push_ok *)
    intros [[h bytes bits|raw] stats] v [Hsp Hin] Hd; cbn [fst snd inv dom huffman_spec] in *.
    + destruct Hin as [Hg Hwf]. pose proof (good_covered Hg Hd) as Hcov.
      destruct (@huffman_roundtrip h bytes bits v Hwf Hcov (good_tab_ok Hg)) as (b2 & n2 & Hp & _ & Hr).
      cbn [push read huffman_region fst snd]. rewrite Hp. cbn [bind]. eexists _, _. split; [reflexivity|]. exact Hr.
    + cbn [push read huffman_region fst snd]. eexists _, _. split; [reflexivity|]. cbn [fst snd]. apply sub_app_new.
  - (* valid_reads *)
    intros [[h bytes bits|raw] stats] [lo hi] [Hsp Hin] Hv; cbn [fst snd inv valid huffman_spec read huffman_region] in *.
    + destruct Hin as [Hg (Hb1 & Hb1' & Hsm1)]. destruct Hv as (Hle & Hhi & syms & Hc & Hbits).
      exists syms. apply (@decode_range_spec h (codes (enc h)) bytes lo hi syms (map (cw (enc h)) syms)).
      * apply good_tab_ok. exact Hg.
      * apply covered_codes. exact Hc.
      * exact Hle.
      * lia.
      * rewrite <- Hbits. unfold vb. apply window_agree with (hi := bits); [lia|].
        rewrite firstn_firstn, Nat.min_id. reflexivity.
    + rewrite sub_ok by exact Hv. eauto.
  - (* clear_ok *)
    intros s _. cbn. split; [split; [constructor|exact I]|reflexivity].
  - (* merge_inv *)
    intros l Hl Hm. cbn [inv huffman_spec merge huffman_region fst snd mergeable] in *.
    split; [constructor|]. split.
    + exists (merged_counts l). split; [|split; [exact Hm|reflexivity]].
      apply merged_counts_wf. eapply Forall_impl; [|exact Hl]. intros x [Hx _]. exact Hx.
    + unfold wfst. cbn. repeat split; try lia. constructor.
  - intros s. reflexivity.
  - intros s t H. cbn in *. congruence.
  - intros s t u H1 H2. cbn in *. congruence.
  - intros [s1 st1] [t1 st2] H w. cbn [sim huffman_spec fst snd dom] in *. subst t1. reflexivity.
  - (* sim_push *)
    intros [s1 st1] [t1 st2] v s' i _ _ Hst Hp. cbn [sim huffman_spec fst snd] in *. subst t1.
    destruct s1 as [h bytes bits|raw]; cbn [push huffman_region fst snd] in *.
    + destruct (push_symbols h bytes bits v) as [[[b' n'] ix]|]; cbn [bind] in *; [|discriminate].
      inversion Hp; subst. eexists. split; reflexivity.
    + inversion Hp; subst. eexists. split; reflexivity.
  - (* sim_read *)
    intros [s1 st1] [t1 st2] i _ _ Hst Hv. cbn [sim valid huffman_spec fst snd read huffman_region] in *. subst t1.
    split; [exact Hv|reflexivity].
Qed.

(** the merged container: empty, and [good] whenever the merged statistics keep code lengths
    within the encoder register *)
Theorem merged_good l : Forall inv l -> bound (merged_counts l) ->
  merge huffman_region l = (HEnc (create_from (merged_counts l)) [] 0, []) /\ good (create_from (merged_counts l)).
Proof.
  intros Hl Hb. split; [reflexivity|]. exists (merged_counts l). split; [|split; [exact Hb|reflexivity]].
  apply merged_counts_wf. eapply Forall_impl; [|exact Hl]. intros x [Hx _]. exact Hx.
Qed.

(** refusal at the level of the region: a symbol without a code panics at push *)
Theorem huffman_refuses h bytes bits stats v : ~ dom (HEnc h bytes bits, stats) v ->
  push huffman_region (HEnc h bytes bits, stats) v = Panic.
Proof.
  intros Hn. cbn [push huffman_region fst snd]. rewrite push_symbols_refuses; [reflexivity|exact Hn].
Qed.

(** * the statistics are exactly the pushed symbols, and the merged container accepts exactly them *)
Lemma stat_add_in_iff s c m k : In k (map fst (stat_add s c m)) <-> k = s \/ In k (map fst m).
Proof.
  split; [apply stat_add_in|].
  induction m as [|[k0 v0] m IH]; intros H; cbn [stat_add].
  - destruct H as [->|[]]. left. reflexivity.
  - destruct (N.compare_spec s k0) as [->|Hlt|Hgt]; cbn [map fst In] in *.
    + destruct H as [->|H]; [left; reflexivity|exact H].
    + destruct H as [->|H]; [left; reflexivity|right; exact H].
    + destruct H as [->|[<-|H]]; [right; apply IH; left; reflexivity|left; reflexivity|right; apply IH; right; exact H].
Qed.

Lemma fold_stat_keys es : forall m k,
  In k (map fst (fold_left (fun m (sc : sym * Z) => stat_add (fst sc) (snd sc) m) es m)) <-> In k (map fst es) \/ In k (map fst m).
Proof.
  induction es as [|[s c] es IH]; intros m k; cbn [fold_left map fst snd In]; [tauto|].
  rewrite IH, stat_add_in_iff. intuition congruence.
Qed.

Lemma merged_keys l k : In k (map fst (merged_counts l)) <-> exists x, In x l /\ In k (map fst (snd x)).
Proof.
  unfold merged_counts. rewrite fold_stat_keys. cbn [map In]. split.
  - intros [H|[]]. apply in_map_iff in H. destruct H as ([k' c] & <- & H). apply in_flat_map in H.
    destruct H as (x & Hx & Hin). exists x. split; [exact Hx|]. apply in_map_iff. exists (k', c). auto.
  - intros (x & Hx & Hin). left. apply in_map_iff in Hin. destruct Hin as (sc & <- & Hsc).
    apply in_map_iff. exists sc. split; [reflexivity|]. apply in_flat_map. exists x. auto.
Qed.

Lemma count_syms_keys v : forall m k, In k (map fst (count_syms m v)) <-> In k v \/ In k (map fst m).
Proof.
  unfold count_syms. induction v as [|x v IH]; intros m k; cbn [fold_left In]; [tauto|].
  rewrite IH, stat_add_in_iff. intuition congruence.
Qed.

Lemma table_dom counts h x : table_ok counts h -> (lookup_code x (enc h) <> None <-> In x (map fst counts)).
Proof.
  intros (_ & Hcov & Hnone). split.
  - intros Hl. destruct (in_dec N.eq_dec x (map fst counts)) as [Hin|Hn]; [exact Hin|]. exfalso. apply Hl, Hnone, Hn.
  - intros Hin. specialize (Hcov [x] ltac:(constructor; [exact Hin|constructor])).
    inversion Hcov as [|? ? (l & c & Hl & _) _]; subst. rewrite Hl. discriminate.
Qed.

(** a container merged from regions [l] accepts exactly the sequences over the symbols that were
    pushed into (or inherited by) the regions it was built from *)
Theorem merged_dom l v : Forall inv l -> mergeable l ->
  (dom (merge huffman_region l) v <-> Forall (fun x => exists r, In r l /\ In x (map fst (snd r))) v).
Proof.
  intros Hl Hm. destruct (merged_good Hl Hm) as [_ (counts & [Hnd Hpos] & Hb & He)].
  cbn [dom huffman_spec merge huffman_region fst snd]. fold (merged_counts l).
  assert (Ht : table_ok (merged_counts l) (create_from (merged_counts l))).
  { apply create_from_ok; try exact Hm; apply merged_counts_wf; eapply Forall_impl; [|exact Hl|idtac|exact Hl]; intros y [Hy _]; exact Hy. }
  split; intros H; (eapply Forall_impl; [|exact H]); intros x Hx; cbv beta in *.
  - apply merged_keys. apply (table_dom x Ht). exact Hx.
  - apply (table_dom x Ht). apply merged_keys. exact Hx.
Qed.
