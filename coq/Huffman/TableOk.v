(** The tables that [Huffman::create_from] builds are correct (C06): for ANY statistics, the canonical
    code assignment over the sorted levels is prefix-free (consecutive dyadic intervals, by the Kraft
    equality of the tree's leaf depths), every code value fits its length, [insert_decode] fills
    the nested 256-entry tables so that every stream starting with a code word walks to its symbol
    ([tab_ok]), exactly the symbols of the statistics have a code, and a lone symbol answers both
    one-bit patterns.  This discharges the hypothesis of [huffman_roundtrip]. *)
From FC Require Import Base.Res Huffman.Huffman Huffman.Bits Huffman.BitIter Huffman.DecoderOk Huffman.EncoderOk
  Huffman.RoundTrip Huffman.HuffOpt Huffman.HuffTree Huffman.TableIns.
From Coq Require Import Lia ZArith Permutation Sorted.
Set Implicit Arguments.
Local Open Scope nat_scope.

(** * the fold of [code_step] as a list of (symbol, (length, code)) *)
Fixpoint canon (code : N) (prev : nat) (lv : list (nat * sym)) : list (sym * (nat * N)) :=
  match lv with
  | [] => []
  | ls :: lv' =>
    let c := if (prev =? fst ls) then code else ((code * 2 ^ N.of_nat (fst ls - prev)) mod W64)%N in
    (snd ls, (fst ls, c)) :: canon (c + 1)%N (fst ls) lv'
  end.

Definition ins_code (d : list dec) (x : sym * (nat * N)) : list dec :=
  insert_decode 9 d (fst x) (fst (snd x)) ((snd (snd x) * 2 ^ N.of_nat (64 - fst (snd x))) mod W64)%N.

Lemma fold_code_step : forall lv code prev e d,
  let r := fold_left (code_step false) lv (code, prev, e, d) in
  snd (fst r) = e ++ canon code prev lv /\ snd r = fold_left ins_code (canon code prev lv) d.
Proof.
  induction lv as [|[l s] lv IH]; intros code prev e d; cbn [fold_left canon].
  - cbn. now rewrite app_nil_r.
  - cbn [code_step fst snd].
    set (c := if prev =? l then code else ((code * 2 ^ N.of_nat (l - prev)) mod W64)%N).
    specialize (IH (c + 1)%N l (e ++ [(s, (l, c))]) (insert_decode 9 d s l ((c * 2 ^ N.of_nat (64 - l)) mod W64)%N)).
    cbv zeta in IH. destruct IH as [IH1 IH2]. split.
    + rewrite IH1, <- app_assoc. reflexivity.
    + rewrite IH2. reflexivity.
Qed.

(** * intervals: a code of length l and value c owns [c * 2^(64-l), (c+1) * 2^(64-l)) *)
Definition lo (x : sym * (nat * N)) : N := (snd (snd x) * 2 ^ N.of_nat (64 - fst (snd x)))%N.
Definition hi (x : sym * (nat * N)) : N := ((snd (snd x) + 1) * 2 ^ N.of_nat (64 - fst (snd x)))%N.
Definition fits (x : sym * (nat * N)) : Prop := fst (snd x) <= 64 /\ (snd (snd x) < 2 ^ N.of_nat (fst (snd x)))%N.

Fixpoint chain (start : N) (l : list (sym * (nat * N))) : Prop :=
  match l with [] => True | x :: l' => lo x = start /\ fits x /\ chain (hi x) l' end.

Fixpoint asc (prev : nat) (lv : list (nat * sym)) : Prop :=
  match lv with [] => True | ls :: lv' => prev <= fst ls /\ asc (fst ls) lv' end.

Definition kraft (lv : list (nat * sym)) : N := fold_right (fun ls acc => (2 ^ N.of_nat (64 - fst ls) + acc)%N) 0%N lv.

Lemma pow_split a b : b <= a -> (2 ^ N.of_nat a = 2 ^ N.of_nat (a - b) * 2 ^ N.of_nat b)%N.
Proof. intros H. rewrite <- N.pow_add_r. f_equal. lia. Qed.

Lemma canon_chain : forall lv code prev, asc prev lv -> Forall (fun ls : nat * sym => fst ls <= 64) lv ->
  (code * 2 ^ N.of_nat (64 - prev) + kraft lv <= 2 ^ 64)%N ->
  chain (code * 2 ^ N.of_nat (64 - prev))%N (canon code prev lv) /\
  map fst (canon code prev lv) = map snd lv /\ map (fun x => fst (snd x)) (canon code prev lv) = map fst lv.
Proof.
  induction lv as [|[l s] lv IH]; intros code prev Hasc H64 HK; [cbn; auto|].
  cbn [asc fst] in Hasc. destruct Hasc as [Hpl Hasc]. inversion H64 as [|? ? Hl64 H64']; subst. cbn [fst] in Hl64.
  cbn [kraft fold_right fst] in HK. fold (kraft lv) in HK.
  cbn [canon fst snd].
  set (c := if prev =? l then code else ((code * 2 ^ N.of_nat (l - prev)) mod W64)%N).
  set (p := (2 ^ N.of_nat (64 - l))%N) in *.
  assert (Hp : (0 < p)%N) by (apply N.neq_0_lt_0, N.pow_nonzero; lia).
  assert (Hq : (2 ^ N.of_nat (64 - prev) = 2 ^ N.of_nat (l - prev) * p)%N).
  { unfold p. rewrite <- N.pow_add_r. f_equal. lia. }
  assert (H2l : (2 ^ 64 = 2 ^ N.of_nat l * p)%N).
  { unfold p. rewrite <- N.pow_add_r. f_equal. lia. }
  set (q := (2 ^ N.of_nat (l - prev))%N) in *.
  assert (Hcq : (code * q < 2 ^ N.of_nat l)%N) by nia.
  assert (Hc : c = (code * q)%N).
  { unfold c. destruct (Nat.eqb_spec prev l) as [->|Hne].
    - unfold q. rewrite Nat.sub_diag. cbn. lia.
    - apply N.mod_small. unfold W64. assert (2 ^ N.of_nat l <= 2 ^ 64)%N by (apply N.pow_le_mono_r; lia). lia. }
  assert (Hlo : (c * p = code * 2 ^ N.of_nat (64 - prev))%N) by (rewrite Hc, Hq; lia).
  specialize (IH (c + 1)%N l Hasc H64'). fold p in IH.
  destruct IH as (IHc & IHs & IHl); [nia|].
  split; [|split].
  - cbn [chain]. unfold lo at 1, fits, hi. cbn [fst snd]. fold p.
    split; [exact Hlo|]. split; [split; [assumption|lia]|]. exact IHc.
  - cbn [map fst snd]. now rewrite IHs.
  - cbn [map fst snd]. now rewrite IHl.
Qed.

Lemma chain_lo_le : forall l start x, chain start l -> In x l -> (start <= lo x)%N /\ fits x.
Proof.
  induction l as [|y l IH]; intros start x Hc Hin; [destruct Hin|].
  cbn [chain] in Hc. destruct Hc as (Hlo & Hf & Hc). destruct Hin as [->|Hin]; [split; [lia|assumption]|].
  destruct (IH _ _ Hc Hin) as [H1 H2]. split; [|assumption].
  unfold hi, lo in *. nia.
Qed.

Lemma chain_sorted : forall l start, chain start l -> StronglySorted (fun x y => (hi x <= lo y)%N) l.
Proof.
  induction l as [|y l IH]; intros start Hc; [constructor|].
  cbn [chain] in Hc. destruct Hc as (Hlo & Hf & Hc). constructor; [eapply IH; eassumption|].
  apply Forall_forall. intros x Hin. apply (chain_lo_le _ _ _ Hc Hin).
Qed.

Lemma chain_fits : forall l start, chain start l -> Forall fits l.
Proof.
  induction l as [|y l IH]; intros start Hc; [constructor|].
  cbn [chain] in Hc. destruct Hc as (Hlo & Hf & Hc). constructor; [assumption|eapply IH; eassumption].
Qed.

Lemma sorted_nth {A} (R : A -> A -> Prop) : forall l, StronglySorted R l ->
  forall i j a b, i < j -> nth_error l i = Some a -> nth_error l j = Some b -> R a b.
Proof.
  induction 1 as [|x l Hs IH Hall]; intros i j a b Hij Ha Hb; [destruct i; discriminate|].
  destruct j as [|j]; [lia|]. cbn in Hb. destruct i as [|i].
  - cbn in Ha. inversion Ha; subst. rewrite Forall_forall in Hall. apply Hall. eapply nth_error_In; eassumption.
  - cbn in Ha. eapply IH; [|eassumption|eassumption]. lia.
Qed.

(** * a prefix lies inside the interval of its extension's start *)
Lemma prefix_interval a b : prefix a b -> length b <= 64 ->
  (lalign a <= lalign b < lalign a + 2 ^ N.of_nat (64 - length a))%N.
Proof.
  intros Hp Hb. pose proof (prefix_length Hp) as Hab. apply prefix_split in Hp.
  set (x := skipn (length a) b) in *. assert (Hx : length b = length a + length x) by (rewrite Hp at 1; apply app_length).
  pose proof (f_equal val_bits Hp) as Hvb. rewrite val_bits_app in Hvb.
  unfold lalign. rewrite Hvb.
  pose proof (val_bits_bound x) as Hbx.
  assert (E : (2 ^ N.of_nat (64 - length a) = 2 ^ N.of_nat (length x) * 2 ^ N.of_nat (64 - length b))%N).
  { rewrite <- N.pow_add_r. f_equal. lia. }
  rewrite E. set (p := (2 ^ N.of_nat (64 - length b))%N).
  assert (Hp0 : (0 < p)%N) by (apply N.neq_0_lt_0, N.pow_nonzero; lia).
  nia.
Qed.

Definition word (x : sym * (nat * N)) : list bool := bits_of (fst (snd x)) (snd (snd x)).

Lemma lalign_word x : fits x -> lalign (word x) = lo x.
Proof.
  intros [Hl Hc]. unfold lalign, word, lo. rewrite bits_of_length, val_bits_of by assumption. reflexivity.
Qed.

Lemma codes_word e : codes e = map (fun x => (fst x, word x)) e.
Proof. reflexivity. Qed.

Lemma chain_prefix_free start e : chain start e -> prefix_free (codes e).
Proof.
  intros Hc i j s w s' w' Hij Hi Hj Hp.
  rewrite codes_word in Hi, Hj. rewrite nth_error_map in Hi, Hj.
  destruct (nth_error e i) as [x|] eqn:Ei; [|discriminate]. destruct (nth_error e j) as [y|] eqn:Ej; [|discriminate].
  cbn in Hi, Hj. inversion Hi; subst. inversion Hj; subst. clear Hi Hj.
  pose proof (chain_fits _ _ Hc) as Hf. rewrite Forall_forall in Hf.
  pose proof (Hf x (nth_error_In _ _ Ei)) as Hfx. pose proof (Hf y (nth_error_In _ _ Ej)) as Hfy.
  pose proof (@prefix_interval (word x) (word y) Hp) as Hiv.
  unfold word at 1 in Hiv. rewrite bits_of_length in Hiv. specialize (Hiv (proj1 Hfy)).
  rewrite !lalign_word in Hiv by assumption. unfold word in Hiv. rewrite bits_of_length in Hiv.
  pose proof (chain_sorted _ _ Hc) as Hs.
  assert (Hhx : (hi x = lo x + 2 ^ N.of_nat (64 - fst (snd x)))%N) by (unfold hi, lo; lia).
  assert (Hhy : (lo y < hi y)%N).
  { unfold hi, lo. assert (0 < 2 ^ N.of_nat (64 - fst (snd y)))%N by (apply N.neq_0_lt_0, N.pow_nonzero; lia). nia. }
  destruct (Nat.lt_ge_cases i j) as [Hlt|Hge].
  - pose proof (sorted_nth Hs Hlt Ei Ej) as Hr. cbv beta in Hr. lia.
  - assert (Hlt : j < i) by lia. pose proof (sorted_nth Hs Hlt Ej Ei) as Hr. cbv beta in Hr. lia.
Qed.

(** * the Kraft equality of realisable depth multisets *)
Definition ksum (ds : list nat) : N := fold_right (fun d acc => (2 ^ N.of_nat (64 - d) + acc)%N) 0%N ds.

Lemma ksum_perm ds ds' : Permutation ds ds' -> ksum ds = ksum ds'.
Proof. induction 1; cbn [ksum fold_right] in *; try fold (ksum l) in *; try fold (ksum l') in *; lia. Qed.

Lemma real_kraft ds : real ds -> Forall (fun d => d <= 64) ds -> ksum ds = (2 ^ 64)%N.
Proof.
  induction 1 as [|d ds H IH|ds ds' HP H IH]; intros HF.
  - reflexivity.
  - inversion HF as [|? ? Hd HF']; subst. inversion HF' as [|? ? _ HF'']; subst.
    cbn [ksum fold_right] in *. fold (ksum ds) in *.
    rewrite <- IH by (constructor; [lia|assumption]).
    replace (64 - d) with (S (64 - S d)) by lia. rewrite Nat2N.inj_succ, N.pow_succ_r'. lia.
  - rewrite <- (ksum_perm HP). apply IH. eapply Permutation_Forall; [symmetry; exact HP|exact HF].
Qed.

Lemma kraft_ksum lv : kraft lv = ksum (map fst lv).
Proof. unfold kraft, ksum. induction lv as [|x lv IH]; [reflexivity|]. cbn [map fold_right]. now rewrite IH. Qed.

(** with at least two leaves no depth is 0 *)
Lemma real_pos ds : real ds -> Forall (fun d => d <= 64) ds -> 2 <= length ds -> Forall (fun d => 1 <= d) ds.
Proof.
  intros Hr HF Hn. pose proof (real_kraft Hr HF) as HK.
  apply Forall_forall. intros d Hin. destruct d as [|d]; [exfalso|lia].
  destruct (in_split _ _ Hin) as (l1 & l2 & ->).
  assert (HP : Permutation (l1 ++ 0 :: l2) (0 :: l1 ++ l2)) by (symmetry; apply Permutation_middle).
  rewrite (ksum_perm HP) in HK. cbn [ksum fold_right] in HK. fold (ksum (l1 ++ l2)) in HK.
  assert (Hl : 1 <= length (l1 ++ l2)) by (rewrite app_length in *; cbn [length] in Hn; lia).
  destruct (l1 ++ l2) as [|e r]; [cbn in Hl; lia|]. cbn [ksum fold_right] in HK.
  assert (0 < 2 ^ N.of_nat (64 - e))%N by (apply N.neq_0_lt_0, N.pow_nonzero; lia).
  change (2 ^ N.of_nat (64 - 0))%N with (2 ^ 64)%N in HK. lia.
Qed.

(** * the sorted levels *)
Lemma ins_level_asc x : forall l p, asc p l -> p <= fst x -> asc p (ins_level x l).
Proof.
  induction l as [|y l IH]; intros p Ha Hp; cbn [ins_level].
  - cbn. auto.
  - cbn [asc] in Ha. destruct Ha as [Hy Ha]. destruct (Nat.ltb_spec (fst x) (fst y)).
    + cbn [asc]. split; [assumption|]. split; [lia|exact Ha].
    + cbn [asc]. split; [assumption|]. apply IH; [assumption|lia].
Qed.

Lemma sort_levels_asc l : asc 0 (sort_levels l).
Proof.
  unfold sort_levels. assert (H : forall acc, asc 0 acc -> asc 0 (fold_left (fun acc x => ins_level x acc) l acc)).
  { induction l as [|x l IH]; intros acc Ha; [exact Ha|]. cbn [fold_left]. apply IH. apply ins_level_asc; [assumption|lia]. }
  apply H. exact I.
Qed.

Lemma levels_of_asc counts : asc 0 (levels_of counts).
Proof.
  unfold levels_of. set (X := dfs _ _ _ _). pose proof (sort_levels_asc X) as H.
  destruct (sort_levels X) as [|[d s] [|y l]]; try exact H. cbn. lia.
Qed.

Lemma flat_rl_syms t : forall lvl, map snd (flat_rl t lvl) = map fst (lsw t).
Proof. induction t as [s w|l IHl r IHr]; intros lvl; cbn; [reflexivity|]. now rewrite !map_app, IHl, IHr. Qed.

Lemma levels_syms counts : 2 <= length counts -> Forall (fun sc : sym * Z => (0 <= snd sc)%Z) counts ->
  Permutation (map snd (levels_of counts)) (map fst counts).
Proof.
  intros Hn Hpos. destruct (levels_tree Hn Hpos) as (t & HP & _ & Hl).
  rewrite (Permutation_map snd HP), flat_rl_syms, (Permutation_map fst Hl), map_map. cbn [fst]. reflexivity.
Qed.

(** * lookups in the code table *)
Lemma lookup_in s : forall e, In s (map fst e) -> exists l c, lookup_code s e = Some (l, c) /\ In (s, (l, c)) e.
Proof.
  induction e as [|[k [l c]] e IH]; intros Hin; [destruct Hin|]. cbn [lookup_code].
  destruct (N.eqb_spec k s) as [->|Hne].
  - exists l, c. split; [reflexivity|left; reflexivity].
  - destruct Hin as [Heq|Hin]; [cbn in Heq; contradiction|].
    destruct (IH Hin) as (l' & c' & H1 & H2). exists l', c'. split; [assumption|right; assumption].
Qed.

Lemma lookup_none s : forall e, ~ In s (map fst e) -> lookup_code s e = None.
Proof.
  induction e as [|[k [l c]] e IH]; intros Hn; [reflexivity|]. cbn [lookup_code].
  destruct (N.eqb_spec k s) as [->|Hne]; [exfalso; apply Hn; left; reflexivity|].
  apply IH. intros H. apply Hn. right. exact H.
Qed.

(** * the tables as the insertion of the code words *)
Lemma fold_ins_code : forall e d, Forall fits e -> fold_left ins_code e d = ins_all d (codes e).
Proof.
  induction e as [|x e IH]; intros d HF; [reflexivity|]. inversion HF as [|? ? Hx HF']; subst.
  cbn [fold_left]. rewrite IH by assumption. unfold ins_all. cbn [codes map fold_left fst snd]. f_equal.
  unfold ins_code. destruct Hx as [Hl Hc].
  rewrite <- insert_decode_ins by (rewrite bits_of_length; assumption).
  rewrite bits_of_length. f_equal. fold (word x). rewrite lalign_word by (split; assumption).
  unfold lo. apply N.mod_small. unfold W64.
  assert (E : (2 ^ 64 = 2 ^ N.of_nat (fst (snd x)) * 2 ^ N.of_nat (64 - fst (snd x)))%N).
  { rewrite <- N.pow_add_r. f_equal. lia. }
  rewrite E. apply N.mul_lt_mono_pos_r; [|assumption]. apply N.neq_0_lt_0, N.pow_nonzero. lia.
Qed.

(** * [create_from] *)
Definition table_ok (counts : list (sym * Z)) (h : huff) : Prop :=
  tab_ok (dtab h) (codes (enc h)) /\
  (forall syms, Forall (fun s => In s (map fst counts)) syms -> covered (enc h) syms) /\
  (forall s, ~ In s (map fst counts) -> lookup_code s (enc h) = None).

Lemma create_from_many counts : 2 <= length counts -> NoDup (map fst counts) ->
  Forall (fun sc : sym * Z => (0 <= snd sc)%Z) counts ->
  Forall (fun ls : nat * sym => fst ls <= 57) (levels_of counts) ->
  table_ok counts (create_from counts).
Proof.
  intros Hn Hnd Hpos H57.
  destruct (model_lengths_optimal Hn Hnd Hpos) as [Hreal _].
  pose proof (levels_syms Hn Hpos) as Hsyms.
  pose proof (levels_of_asc counts) as Hasc.
  set (lv := levels_of counts) in *.
  assert (Hlen : length lv = length counts).
  { rewrite <- (map_length snd lv), (Permutation_length Hsyms), map_length. reflexivity. }
  assert (H64 : Forall (fun ls : nat * sym => fst ls <= 64) lv) by (eapply Forall_impl; [|exact H57]; cbn; intros; lia).
  assert (H64' : Forall (fun d => d <= 64) (map fst lv)) by (rewrite Forall_map; exact H64).
  assert (HK : kraft lv = (2 ^ 64)%N) by (rewrite kraft_ksum; apply real_kraft; assumption).
  assert (Hpos1 : Forall (fun d => 1 <= d) (map fst lv)).
  { apply real_pos; try assumption. rewrite map_length. lia. }
  destruct (@canon_chain lv 0%N 0 Hasc H64) as (Hch & Hcs & Hcl); [rewrite HK; lia|].
  change (0 * 2 ^ N.of_nat (64 - 0))%N with 0%N in Hch.
  (* what create_from computes *)
  assert (Hcf : enc (create_from counts) = canon 0 0 lv /\ dtab (create_from counts) = fold_left ins_code (canon 0 0 lv) void_map).
  { unfold create_from. destruct counts as [|sc counts]; [cbn in Hn; lia|]. fold lv.
    assert (Hsingle : match lv with [_] => true | _ => false end = false).
    { destruct lv as [|a [|b l]]; try reflexivity. cbn in Hlen, Hn. lia. }
    rewrite Hsingle. pose proof (@fold_code_step lv 0%N 0 [] void_map) as Hf. cbv zeta in Hf.
    destruct (fold_left (code_step false) lv (0%N, 0, [], void_map)) as [[[c p] e] d]. cbn [fst snd enc dtab] in *. exact Hf. }
  destruct Hcf as [He Hd]. set (E := canon 0 0 lv) in *.
  pose proof (chain_fits _ _ Hch) as Hfits.
  unfold table_ok. rewrite He, Hd, fold_ins_code by assumption.
  split; [|split].
  - apply ins_all_ok; [|eapply chain_prefix_free; exact Hch].
    intros s w Hin. rewrite codes_word in Hin. apply in_map_iff in Hin. destruct Hin as (x & Hx & Hin). inversion Hx; subst.
    unfold word. rewrite bits_of_length.
    assert (Hl : In (fst (snd x)) (map fst lv)) by (rewrite <- Hcl; apply in_map_iff; exists x; auto).
    rewrite Forall_forall in Hpos1, H64'. specialize (Hpos1 _ Hl). specialize (H64' _ Hl). lia.
  - intros syms Hall. unfold covered. eapply Forall_impl; [|exact Hall]. intros s Hs.
    assert (Hin : In s (map fst E)).
    { rewrite Hcs. eapply Permutation_in; [symmetry; exact Hsyms|exact Hs]. }
    destruct (lookup_in _ _ Hin) as (l & c & Hlk & Hin'). exists l, c. split; [exact Hlk|].
    rewrite Forall_forall in Hfits. destruct (Hfits _ Hin') as [_ Hc]. cbn [fst snd] in Hc.
    assert (Hl : In l (map fst lv)) by (rewrite <- Hcl; apply in_map_iff; exists (s, (l, c)); auto).
    rewrite Forall_forall in Hpos1. specialize (Hpos1 _ Hl).
    assert (H57' : Forall (fun d => d <= 57) (map fst lv)) by (rewrite Forall_map; exact H57).
    rewrite Forall_forall in H57'. specialize (H57' _ Hl). split; [lia|exact Hc].
  - intros s Hs. apply lookup_none. rewrite Hcs. intros Hin. apply Hs.
    eapply Permutation_in; [exact Hsyms|exact Hin].
Qed.

(** a lone symbol: one bit, and both one-bit patterns decode to it *)
Lemma create_from_single s c : table_ok [(s, c)] (create_from [(s, c)]).
Proof.
  unfold table_ok, create_from. rewrite single_symbol_one_bit. cbn [fold_left code_step fst snd].
  change (0 =? 1) with false. cbv iota.
  change ((0 * 2 ^ N.of_nat (1 - 0)) mod W64)%N with 0%N.
  change ((0 * 2 ^ N.of_nat (64 - 1)) mod W64)%N with (lalign [false]).
  change (((0 + 1) * 2 ^ N.of_nat (64 - 1)) mod W64)%N with (lalign [true]).
  cbn [enc dtab app].
  change (insert_decode 9 void_map s 1 (lalign [false])) with (insert_decode 9 void_map s (length [false]) (lalign [false])).
  rewrite insert_decode_ins by (cbn; lia).
  change (insert_decode 9 ?m s 1 (lalign [true])) with (insert_decode 9 m s (length [true]) (lalign [true])).
  rewrite insert_decode_ins by (cbn; lia).
  split; [|split].
  - intros s' w rest [Heq|[]]. inversion Heq; subst. change (bits_of 1 0) with [false].
    rewrite ins_frame.
    + apply ins_hit; [apply wfp_void|cbn; lia].
    + apply not_hits; unfold prefix; cbn; discriminate.
  - intros syms Hall. unfold covered. eapply Forall_impl; [|exact Hall]. intros s' [<-|[]].
    exists 1, 0%N. cbn [lookup_code]. rewrite N.eqb_refl. split; [reflexivity|]. split; [lia|reflexivity].
  - intros s' Hn. cbn [lookup_code]. destruct (N.eqb_spec s s') as [->|]; [exfalso; apply Hn; left; reflexivity|reflexivity].
Qed.

(** ** for ANY statistics with distinct symbols, non-negative counts and code lengths up to 57 *)
Theorem create_from_ok counts : NoDup (map fst counts) ->
  Forall (fun sc : sym * Z => (0 <= snd sc)%Z) counts ->
  Forall (fun ls : nat * sym => fst ls <= 57) (levels_of counts) ->
  table_ok counts (create_from counts).
Proof.
  intros Hnd Hpos H57. destruct counts as [|[s c] [|sc2 counts]].
  - unfold table_ok. cbn [create_from enc dtab]. split; [|split].
    + intros s w rest [].
    + intros syms Hall. destruct syms as [|s syms]; [constructor|]. inversion Hall as [|? ? []].
    + reflexivity.
  - apply create_from_single.
  - apply create_from_many; try assumption. cbn [length]. lia.
Qed.
