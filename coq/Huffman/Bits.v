(** MSB-first bit lists of machine words and the register lemmas: shift-left-and-add = append,
    shift-right = firstn, mask = skipn, left-align = pad with zeros. *)
From Coq Require Import List NArith Arith Lia Bool ZArith.
Import ListNotations.
Local Open Scope N_scope.

(* MSB-first bits of the low [n] bits of [v] *)
Fixpoint bits_of (n : nat) (v : N) : list bool :=
  match n with
  | O => []
  | S n' => N.testbit v (N.of_nat n') :: bits_of n' v
  end.

Lemma bits_of_length n v : length (bits_of n v) = n.
Proof. induction n; simpl; auto. Qed.

Lemma bits_of_mod n v : bits_of n (v mod 2 ^ N.of_nat n) = bits_of n v.
Proof.
  assert (H : forall m, (m <= n)%nat -> bits_of m (v mod 2 ^ N.of_nat n) = bits_of m v).
  { induction m as [|m IH]; intros Hm; simpl; [reflexivity|].
    rewrite IH by lia. f_equal. apply N.mod_pow2_bits_low. lia. }
  apply H. lia.
Qed.

(* shift-left-and-add = append *)
Lemma bits_of_app n m v c : c < 2 ^ N.of_nat m ->
  bits_of (n + m) (v * 2 ^ N.of_nat m + c) = bits_of n v ++ bits_of m c.
Proof.
  intros Hc. induction n as [|n IH]; simpl.
  - (* only low m bits: those of c *)
    assert (H : forall k, (k <= m)%nat -> bits_of k (v * 2 ^ N.of_nat m + c) = bits_of k c).
    { induction k as [|k IHk]; intros Hk; simpl; [reflexivity|].
      rewrite IHk by lia. f_equal.
      rewrite <- (N.mod_pow2_bits_low _ (N.of_nat m)) by lia.
      rewrite N.add_comm, N.mod_add by (apply N.pow_nonzero; lia).
      rewrite N.mod_small by assumption. reflexivity. }
    apply H. lia.
  - rewrite IH. f_equal.
    (* bit (n + m) of v*2^m + c = bit n of v *)
    replace (N.of_nat (n + m)) with (N.of_nat n + N.of_nat m) by lia.
    rewrite <- N.div_pow2_bits.
    rewrite N.div_add_l by (apply N.pow_nonzero; lia).
    rewrite N.div_small by assumption. rewrite N.add_0_r. reflexivity.
Qed.

(* shift right by (n - k) keeps the top k bits *)
Lemma bits_of_shiftr n k v : (k <= n)%nat ->
  bits_of k (v / 2 ^ N.of_nat (n - k)) = firstn k (bits_of n v).
Proof.
  intros Hk. revert k Hk. induction n as [|n IH]; intros k Hk.
  - assert (k = 0)%nat by lia. subst. reflexivity.
  - destruct k as [|k]; [reflexivity|].
    simpl bits_of at 2. simpl firstn. simpl bits_of at 1.
    replace (S n - S k)%nat with (n - k)%nat by lia.
    rewrite IH by lia. f_equal.
    rewrite N.div_pow2_bits. f_equal. lia.
Qed.

(* masking the low (n - k) bits drops the top k bits *)
Lemma bits_of_mask n k v : (k <= n)%nat ->
  bits_of (n - k) (v mod 2 ^ N.of_nat (n - k)) = skipn k (bits_of n v).
Proof.
  intros Hk. rewrite bits_of_mod.
  revert k Hk. induction n as [|n IH]; intros k Hk.
  - assert (k = 0)%nat by lia. subst. reflexivity.
  - destruct k as [|k]; [reflexivity|].
    simpl skipn. replace (S n - S k)%nat with (n - k)%nat by lia. apply IH. lia.
Qed.

(* left-aligning n bits in a byte pads with zeros on the right *)
Lemma bits_of_pad n v : (n <= 8)%nat -> v < 2 ^ N.of_nat n ->
  bits_of 8 (v * 2 ^ N.of_nat (8 - n)) = bits_of n v ++ repeat false (8 - n).
Proof.
  intros Hn Hv.
  replace 8%nat with (n + (8 - n))%nat at 1 by lia.
  replace (v * 2 ^ N.of_nat (8 - n)) with (v * 2 ^ N.of_nat (8 - n) + 0) by lia.
  rewrite bits_of_app by (apply N.neq_0_lt_0, N.pow_nonzero; lia).
  f_equal. clear. induction (8 - n)%nat as [|k IH]; simpl; [reflexivity|].
  rewrite IH. reflexivity.
Qed.

(* value bound: a register holding n valid bits *)
Lemma bits_of_inj n v w : v < 2 ^ N.of_nat n -> w < 2 ^ N.of_nat n -> bits_of n v = bits_of n w -> v = w.
Proof.
  intros Hv Hw H. apply N.bits_inj. intros i.
  destruct (N.lt_ge_cases i (N.of_nat n)) as [Hi|Hi].
  - clear Hv Hw. revert i Hi. induction n as [|n IH]; intros i Hi; [lia|].
    simpl in H. inversion H as [[H0 H1]].
    destruct (N.eq_dec i (N.of_nat n)) as [->|Hne]; [assumption|].
    apply IH; [assumption|lia].
  - rewrite <- (N.mod_small v (2 ^ N.of_nat n)), <- (N.mod_small w (2 ^ N.of_nat n)) by assumption.
    rewrite !N.mod_pow2_bits_high by assumption. reflexivity.
Qed.

