(** The nested 256-entry decode tables (C06): [insert_decode] restated over bit lists ([ins]),
    and its specification against the table walk [tl]:
    - [ins_hit]: after inserting a code word, every stream that starts with it walks to its symbol;
    - [ins_frame]: streams that do not start with the code word walk exactly as before;
    - [wfp_ins]: inserting one code word does not block the path of another one it is no prefix of.
    Together ([fold_ins_ok]): inserting a prefix-free family of code words yields tables that are
    [tab_ok] for the family. *)
From FC Require Import Base.Res Huffman.Huffman Huffman.Bits Huffman.BitIter Huffman.DecoderOk.
From Coq Require Import Lia.
Set Implicit Arguments.
Local Open Scope nat_scope.

(** * list updates *)
Lemma set_nth_length A (l : list A) i x : length (set_nth l i x) = length l.
Proof. revert i. induction l as [|y l IH]; intros [|i]; cbn; auto. Qed.

Lemma nth_set_nth_eq A (l : list A) i x d : i < length l -> nth i (set_nth l i x) d = x.
Proof. revert i. induction l as [|y l IH]; intros [|i] H; cbn in *; try lia; auto. apply IH. lia. Qed.

Lemma nth_set_nth_ne A (l : list A) i j x d : i <> j -> nth j (set_nth l i x) d = nth j l d.
Proof.
  revert i j. induction l as [|y l IH]; intros [|i] [|j] H; cbn; auto; try lia.
Qed.

Lemma set_range_length A (l : list A) n : forall i x, length (set_range l i n x) = length l.
Proof. revert l. induction n as [|n IH]; intros l i x; cbn; [reflexivity|]. rewrite IH. apply set_nth_length. Qed.

Lemma nth_set_range_out A n : forall (l : list A) i x d j, (j < i \/ i + n <= j) -> nth j (set_range l i n x) d = nth j l d.
Proof.
  induction n as [|n IH]; intros l i x d j H; cbn; [reflexivity|].
  rewrite IH by lia. apply nth_set_nth_ne. lia.
Qed.

Lemma nth_set_range_in A n : forall (l : list A) i x d j, i <= j < i + n -> i + n <= length l -> nth j (set_range l i n x) d = x.
Proof.
  induction n as [|n IH]; intros l i x d j H Hl; [lia|]. cbn.
  destruct (Nat.eq_dec i j) as [->|Hne].
  - rewrite nth_set_range_out by lia. apply nth_set_nth_eq. lia.
  - apply IH; [lia|]. rewrite set_nth_length. lia.
Qed.

(** * bit lists as numbers, prefixes *)
Lemma val_bits_app a b : val_bits (a ++ b) = (val_bits a * 2 ^ N.of_nat (length b) + val_bits b)%N.
Proof.
  induction a as [|x a IH]; [cbn; lia|]. cbn [app val_bits]. rewrite IH, app_length.
  rewrite Nat2N.inj_add, N.pow_add_r. lia.
Qed.

Lemma val_bits_inj a b : length a = length b -> val_bits a = val_bits b -> a = b.
Proof.
  intros Hl Hv. rewrite <- (bits_of_val a), <- (bits_of_val b), Hl, Hv. reflexivity.
Qed.

Lemma val_bits_zeros n : val_bits (repeat false n) = 0%N.
Proof. induction n as [|n IH]; [reflexivity|]. cbn [repeat val_bits]. rewrite IH. lia. Qed.

Definition prefix (a b : list bool) : Prop := firstn (length a) b = a.

Lemma prefix_app a x : prefix a (a ++ x).
Proof. unfold prefix. rewrite firstn_app, Nat.sub_diag, firstn_all. cbn. apply app_nil_r. Qed.
Lemma prefix_split a b : prefix a b -> b = a ++ skipn (length a) b.
Proof. unfold prefix. intros H. rewrite <- H at 1. symmetry. apply firstn_skipn. Qed.
Lemma prefix_length a b : prefix a b -> length a <= length b.
Proof. unfold prefix. intros H. rewrite <- H at 1. rewrite firstn_length. lia. Qed.

(** * the window (table index) of a stream *)
Lemma window_long w : 8 <= length w -> window w = firstn 8 w.
Proof. intros H. unfold window. rewrite firstn_app. replace (8 - length w) with 0 by lia. cbn. apply app_nil_r. Qed.
Lemma window_app_long w rest : 8 <= length w -> window (w ++ rest) = firstn 8 w.
Proof.
  intros H. unfold window. rewrite <- app_assoc, firstn_app. replace (8 - length w) with 0 by lia. cbn. apply app_nil_r.
Qed.
Lemma window_app_short w rest : length w <= 8 -> firstn (length w) (window (w ++ rest)) = w.
Proof.
  intros H. unfold window. rewrite firstn_firstn, Nat.min_l by lia.
  rewrite <- app_assoc. apply prefix_app.
Qed.
Lemma window_short w : length w <= 8 -> window w = w ++ repeat false (8 - length w).
Proof.
  intros H. unfold window. rewrite firstn_app. rewrite firstn_all2 by lia.
  rewrite firstn_repeat by lia. reflexivity.
Qed.

Lemma byte_of_lt bs : byte_of bs < 256.
Proof.
  unfold byte_of. pose proof (val_bits_bound (window bs)) as H. rewrite window_length in H.
  change (2 ^ N.of_nat 8)%N with 256%N in H. lia.
Qed.

Lemma pow2_nat n : N.to_nat (2 ^ N.of_nat n) = 2 ^ n.
Proof.
  induction n as [|n IH]; [reflexivity|]. rewrite Nat2N.inj_succ, N.pow_succ_r', N2Nat.inj_mul, IH.
  cbn [Nat.pow]. reflexivity.
Qed.

(** streams whose window starts with [w] are exactly the table entries [ins] sets for a short [w] *)
Lemma byte_range w bs : length w <= 8 ->
  (byte_of w <= byte_of bs < byte_of w + 2 ^ (8 - length w) <-> firstn (length w) (window bs) = w).
Proof.
  intros Hw.
  assert (Hbw : byte_of w = N.to_nat (val_bits w * 2 ^ N.of_nat (8 - length w))).
  { unfold byte_of. now rewrite (window_short w Hw), val_bits_app, val_bits_zeros, repeat_length, N.add_0_r. }
  rewrite Hbw. clear Hbw.
  set (W := window bs). assert (HW : length W = 8) by apply window_length.
  unfold byte_of. fold W.
  rewrite <- (firstn_skipn (length w) W) at 1 2.
  rewrite val_bits_app, skipn_length, HW.
  pose proof (val_bits_bound (skipn (length w) W)) as Hb. rewrite skipn_length, HW in Hb.
  set (p := (2 ^ N.of_nat (8 - length w))%N) in *.
  assert (Hp : 2 ^ (8 - length w) = N.to_nat p) by (unfold p; now rewrite pow2_nat).
  rewrite Hp. split.
  - intros [H1 H2]. apply val_bits_inj; [rewrite firstn_length; lia|]. nia.
  - intros H. rewrite H. lia.
Qed.

Lemma byte_of_eq a b : byte_of a = byte_of b -> window a = window b.
Proof.
  unfold byte_of. intros H. apply val_bits_inj; [now rewrite !window_length|]. lia.
Qed.

(** * [insert_decode] over bit lists *)
Fixpoint ins (fuel : nat) (m : list dec) (s : sym) (w : list bool) : list dec :=
  match fuel with
  | O => m
  | S f =>
    let byte := byte_of w in
    if length w <=? 8 then set_range m byte (2 ^ (8 - length w)) (Sym s (length w))
    else match nth byte m Void with
         | Void => set_nth m byte (Further (ins f void_map s (skipn 8 w)))
         | Further m' => set_nth m byte (Further (ins f m' s (skipn 8 w)))
         | Sym _ _ => m
         end
  end.

(** the left-aligned 64-bit word of a code word *)
Definition lalign (w : list bool) : N := (val_bits w * 2 ^ N.of_nat (64 - length w))%N.

Lemma lalign_top w : length w <= 64 -> N.to_nat (lalign w / 2 ^ 56) = byte_of w.
Proof.
  intros Hw. unfold lalign, byte_of. f_equal.
  destruct (Nat.le_gt_cases (length w) 8) as [Hs|Hl].
  - rewrite (window_short w Hs), val_bits_app, val_bits_zeros, repeat_length, N.add_0_r.
    replace (64 - length w) with ((8 - length w) + 56) by lia.
    rewrite Nat2N.inj_add, N.pow_add_r, N.mul_assoc.
    change (2 ^ N.of_nat 56)%N with (2 ^ 56)%N. rewrite N.div_mul by lia. reflexivity.
  - rewrite window_long by lia.
    rewrite <- (firstn_skipn 8 w) at 1. rewrite val_bits_app, skipn_length.
    pose proof (val_bits_bound (skipn 8 w)) as Hb. rewrite skipn_length in Hb.
    set (hi := val_bits (firstn 8 w)) in *. set (lo := val_bits (skipn 8 w)) in *.
    replace ((hi * 2 ^ N.of_nat (length w - 8) + lo) * 2 ^ N.of_nat (64 - length w))%N
      with (hi * 2 ^ 56 + lo * 2 ^ N.of_nat (64 - length w))%N.
    + rewrite N.div_add_l by lia. rewrite N.div_small; [lia|].
      replace (2 ^ 56)%N with (2 ^ N.of_nat (length w - 8) * 2 ^ N.of_nat (64 - length w))%N.
      * apply N.mul_lt_mono_pos_r; [|exact Hb]. apply N.neq_0_lt_0, N.pow_nonzero. lia.
      * rewrite <- N.pow_add_r. f_equal. lia.
    + rewrite N.mul_add_distr_r. f_equal. rewrite <- N.mul_assoc, <- N.pow_add_r. do 2 f_equal. lia.
Qed.

Lemma lalign_shift w : 8 < length w <= 64 -> ((lalign w * 256) mod W64)%N = lalign (skipn 8 w).
Proof.
  intros Hw. unfold lalign. rewrite skipn_length.
  rewrite <- (firstn_skipn 8 w) at 1. rewrite val_bits_app, skipn_length.
  pose proof (val_bits_bound (skipn 8 w)) as Hb. rewrite skipn_length in Hb.
  set (hi := val_bits (firstn 8 w)) in *. set (lo := val_bits (skipn 8 w)) in *.
  replace ((hi * 2 ^ N.of_nat (length w - 8) + lo) * 2 ^ N.of_nat (64 - length w) * 256)%N
    with (lo * 2 ^ N.of_nat (64 - (length w - 8)) + hi * W64)%N.
  - rewrite N.mod_add by (unfold W64; lia). apply N.mod_small.
    replace W64 with (2 ^ N.of_nat (length w - 8) * 2 ^ N.of_nat (64 - (length w - 8)))%N.
    + apply N.mul_lt_mono_pos_r; [|exact Hb]. apply N.neq_0_lt_0, N.pow_nonzero. lia.
    + rewrite <- N.pow_add_r. unfold W64. f_equal. lia.
  - replace (N.of_nat (64 - (length w - 8))) with (N.of_nat (64 - length w) + 8)%N by lia.
    rewrite N.pow_add_r. change (2 ^ 8)%N with 256%N.
    replace W64 with (2 ^ N.of_nat (length w - 8) * 2 ^ N.of_nat (64 - length w) * 256)%N; [lia|].
    change 256%N with (2 ^ 8)%N. rewrite <- !N.pow_add_r. unfold W64. f_equal. lia.
Qed.

Lemma insert_decode_ins : forall fuel m s w, length w <= 64 ->
  insert_decode fuel m s (length w) (lalign w) = ins fuel m s w.
Proof.
  induction fuel as [|f IH]; intros m s w Hw; [reflexivity|].
  cbn [insert_decode ins]. rewrite (lalign_top w Hw).
  destruct (Nat.leb_spec (length w) 8) as [Hs|Hl]; [reflexivity|].
  rewrite lalign_shift by lia.
  assert (Hl' : length w - 8 = length (skipn 8 w)) by (rewrite skipn_length; reflexivity).
  assert (Hb : length (skipn 8 w) <= 64) by (rewrite skipn_length; lia).
  rewrite Hl'. destruct (nth (byte_of w) m Void); [|reflexivity|]; now rewrite IH.
Qed.

(** * a stream starting with the inserted word finds it *)
(** the word's path must not be blocked by a [Sym] entry, and the tables have 256 entries *)
Fixpoint wfp (k : nat) (m : list dec) (w : list bool) : Prop :=
  length m = 256 /\
  match k with
  | O => True
  | S k' => if length w <=? 8 then True
            else match nth (byte_of w) m Void with
                 | Void => True
                 | Sym _ _ => False
                 | Further m' => wfp k' m' (skipn 8 w)
                 end
  end.

Lemma void_map_length : length void_map = 256.
Proof. apply repeat_length. Qed.
Lemma nth_void i : nth i void_map Void = Void.
Proof. unfold void_map. generalize 256. intros n. revert i. induction n as [|n IH]; intros [|i]; cbn; auto. Qed.
Lemma wfp_void k w : wfp k void_map w.
Proof.
  destruct k as [|k]; cbn [wfp]; (split; [apply void_map_length|]); [exact I|].
  destruct (length w <=? 8); [exact I|]. now rewrite nth_void.
Qed.

Lemma pow2_le_256 n : n <= 8 -> 2 ^ (8 - n) <= 256.
Proof. intros H. change 256 with (2 ^ 8). apply Nat.pow_le_mono_r; lia. Qed.

Lemma byte_of_short_range w : length w <= 8 -> byte_of w + 2 ^ (8 - length w) <= 256.
Proof.
  intros Hw. unfold byte_of. rewrite (window_short w Hw), val_bits_app, val_bits_zeros, repeat_length, N.add_0_r.
  pose proof (val_bits_bound w) as Hb.
  rewrite N2Nat.inj_mul, pow2_nat.
  assert (H : N.to_nat (val_bits w) < 2 ^ length w) by (rewrite <- pow2_nat; lia).
  replace 256 with (2 ^ length w * 2 ^ (8 - length w)).
  - nia.
  - rewrite <- Nat.pow_add_r. replace (length w + (8 - length w)) with 8 by lia. reflexivity.
Qed.

Lemma ins_length : forall k m s w, length (ins k m s w) = length m.
Proof.
  induction k as [|k IH]; intros m s w; [reflexivity|]. cbn [ins].
  destruct (length w <=? 8); [apply set_range_length|].
  destruct (nth (byte_of w) m Void); auto using set_nth_length.
Qed.

Theorem ins_hit : forall k m s w rest, wfp k m w -> 1 <= length w <= 8 * k ->
  tl k (ins k m s w) (w ++ rest) = Some (s, length w).
Proof.
  induction k as [|k IH]; intros m s w rest Hwf Hlen; [lia|].
  cbn [wfp] in Hwf. destruct Hwf as [Hm Hp]. cbn [ins tl].
  destruct (Nat.leb_spec (length w) 8) as [Hs|Hl].
  - rewrite nth_set_range_in.
    + destruct (Nat.leb_spec 1 (length w)); [|lia]. destruct (Nat.leb_spec (length w) 8); [|lia]. reflexivity.
    + apply byte_range; [assumption|]. apply window_app_short. assumption.
    + rewrite Hm. apply byte_of_short_range. assumption.
  - assert (Hb : byte_of (w ++ rest) = byte_of w).
    { unfold byte_of. rewrite window_app_long, window_long by lia. reflexivity. }
    assert (Hsk : skipn 8 (w ++ rest) = skipn 8 w ++ rest).
    { rewrite skipn_app. replace (8 - length w) with 0 by lia. reflexivity. }
    assert (Hl8 : 1 <= length (skipn 8 w) <= 8 * k) by (rewrite skipn_length; lia).
    assert (Hlw : length w = 8 + length (skipn 8 w)) by (rewrite skipn_length; lia).
    pose proof (byte_of_lt w) as Hlt.
    rewrite Hb. destruct (nth (byte_of w) m Void) as [|s' b'|m'] eqn:E.
    + rewrite nth_set_nth_eq by lia. rewrite Hsk, IH by (auto using wfp_void). now rewrite <- Hlw.
    + contradiction.
    + rewrite nth_set_nth_eq by lia. rewrite Hsk, IH by auto. now rewrite <- Hlw.
Qed.

(** * other streams are not disturbed *)
Fixpoint hits (k : nat) (w bs : list bool) : Prop :=
  match k with
  | O => False
  | S k' => if length w <=? 8 then firstn (length w) (window bs) = w
            else window bs = firstn 8 w /\ hits k' (skipn 8 w) (skipn 8 bs)
  end.

Theorem ins_frame : forall k m s w bs, ~ hits k w bs -> tl k (ins k m s w) bs = tl k m bs.
Proof.
  induction k as [|k IH]; intros m s w bs Hn; [reflexivity|]. cbn [hits] in Hn. cbn [ins tl].
  destruct (Nat.leb_spec (length w) 8) as [Hs|Hl].
  - rewrite nth_set_range_out; [reflexivity|].
    pose proof (@byte_range w bs Hs) as Hr. destruct Hr as [Hr _].
    destruct (Nat.lt_ge_cases (byte_of bs) (byte_of w)) as [|H1]; [left; assumption|].
    destruct (Nat.lt_ge_cases (byte_of bs) (byte_of w + 2 ^ (8 - length w))) as [H2|]; [|right; assumption].
    exfalso. apply Hn, Hr. lia.
  - destruct (Nat.eq_dec (byte_of w) (byte_of bs)) as [He|Hne].
    + assert (Hw : window bs = firstn 8 w).
      { apply byte_of_eq in He. rewrite <- He. apply window_long. lia. }
      assert (Hn' : ~ hits k (skipn 8 w) (skipn 8 bs)) by tauto.
      rewrite <- He. pose proof (byte_of_lt w) as Hlt.
      destruct (nth (byte_of w) m Void) as [|s' b'|m'] eqn:E.
      * destruct (Nat.lt_ge_cases (byte_of w) (length m)) as [Hin|Hout].
        -- rewrite nth_set_nth_eq by assumption. rewrite (IH _ _ _ _ Hn').
           destruct k; cbn [tl]; [reflexivity|]. now rewrite nth_void.
        -- (* index beyond the table: nothing is written *)
           replace (nth (byte_of w) (set_nth m (byte_of w) _) Void) with Void; [reflexivity|].
           symmetry. apply nth_overflow. rewrite set_nth_length. assumption.
      * rewrite E. reflexivity.
      * assert (Hin : byte_of w < length m).
        { destruct (Nat.lt_ge_cases (byte_of w) (length m)); [assumption|]. rewrite nth_overflow in E by assumption. discriminate. }
        rewrite nth_set_nth_eq by assumption. now rewrite (IH _ _ _ _ Hn').
    + destruct (nth (byte_of w) m Void); [|reflexivity|]; now rewrite nth_set_nth_ne by assumption.
Qed.

(** prefix-incomparable words never hit each other's streams *)
Lemma firstn_prefix_eq (a b : list bool) n : n <= length a -> n <= length b -> firstn n a = firstn n b ->
  forall k, k <= n -> firstn k a = firstn k b.
Proof. intros Ha Hb H k Hk. rewrite <- (Nat.min_l k n Hk), <- !firstn_firstn, H. reflexivity. Qed.

Lemma not_hits : forall k w w' rest, ~ prefix w w' -> ~ prefix w' w -> ~ hits k w (w' ++ rest).
Proof.
  induction k as [|k IH]; intros w w' rest H1 H2 Hh; [exact Hh|]. cbn [hits] in Hh.
  destruct (Nat.leb_spec (length w) 8) as [Hs|Hl].
  - destruct (Nat.le_gt_cases (length w) (length w')) as [Hle|Hgt].
    + apply H1. unfold prefix. rewrite <- Hh at 2. unfold window.
      rewrite firstn_firstn, Nat.min_l by lia. rewrite <- app_assoc, firstn_app.
      replace (length w - length w') with 0 by lia. cbn. now rewrite app_nil_r.
    + apply H2. unfold prefix. rewrite <- Hh.
      rewrite firstn_firstn, Nat.min_l by lia.
      pose proof (@window_app_short w' rest ltac:(lia)) as Hw. exact Hw.
  - destruct Hh as [Hw Hh].
    destruct (Nat.le_gt_cases 8 (length w')) as [Hle|Hgt].
    + rewrite window_app_long in Hw by assumption.
      assert (Hsk : skipn 8 (w' ++ rest) = skipn 8 w' ++ rest).
      { rewrite skipn_app. replace (8 - length w') with 0 by lia. reflexivity. }
      rewrite Hsk in Hh. revert Hh. apply IH.
      * intros Hp. apply H1. unfold prefix in *. rewrite skipn_length in Hp.
        rewrite <- (firstn_skipn 8 w) at 2. rewrite <- (firstn_skipn 8 w') at 1.
        rewrite firstn_app, firstn_length, Nat.min_l by lia.
        rewrite firstn_all2 by (rewrite firstn_length; lia). rewrite Hw. f_equal. exact Hp.
      * intros Hp. apply H2. unfold prefix in *. rewrite skipn_length in Hp.
        rewrite <- (firstn_skipn 8 w') at 2. rewrite <- (firstn_skipn 8 w) at 1.
        rewrite firstn_app, firstn_length, Nat.min_l by lia.
        rewrite firstn_all2 by (rewrite firstn_length; lia). rewrite Hw. f_equal. exact Hp.
    + apply H2. unfold prefix.
      pose proof (@window_app_short w' rest ltac:(lia)) as Hws. rewrite Hw in Hws.
      rewrite firstn_firstn, Nat.min_l in Hws by lia. exact Hws.
Qed.

(** * inserting one word does not block the path of another *)
Theorem wfp_ins : forall k m s w1 w2, wfp k m w2 -> ~ prefix w1 w2 -> wfp k (ins k m s w1) w2.
Proof.
  induction k as [|k IH]; intros m s w1 w2 Hwf Hnp; [exact Hwf|].
  cbn [wfp] in *. destruct Hwf as [Hm Hp]. split; [now rewrite ins_length|].
  destruct (Nat.leb_spec (length w2) 8) as [Hs2|Hl2]; [exact I|].
  cbn [ins]. destruct (Nat.leb_spec (length w1) 8) as [Hs1|Hl1].
  - rewrite nth_set_range_out; [exact Hp|].
    pose proof (@byte_range w1 w2 Hs1) as [Hr _].
    destruct (Nat.lt_ge_cases (byte_of w2) (byte_of w1)) as [|H1]; [left; assumption|].
    destruct (Nat.lt_ge_cases (byte_of w2) (byte_of w1 + 2 ^ (8 - length w1))) as [H2|]; [|right; assumption].
    exfalso. apply Hnp. unfold prefix. rewrite <- (Hr ltac:(lia)) at 2.
    rewrite window_long by lia. rewrite firstn_firstn, Nat.min_l by lia. reflexivity.
  - pose proof (byte_of_lt w1) as Hlt.
    destruct (Nat.eq_dec (byte_of w1) (byte_of w2)) as [He|Hne].
    + assert (Hw : firstn 8 w2 = firstn 8 w1).
      { apply byte_of_eq in He. rewrite !window_long in He by lia. auto. }
      assert (Hnp' : ~ prefix (skipn 8 w1) (skipn 8 w2)).
      { intros Hp'. apply Hnp. unfold prefix in *. rewrite skipn_length in Hp'.
        rewrite <- (firstn_skipn 8 w1) at 2. rewrite <- (firstn_skipn 8 w2) at 1.
        rewrite firstn_app, firstn_length, Nat.min_l by lia.
        rewrite firstn_all2 by (rewrite firstn_length; lia). rewrite Hw. f_equal. exact Hp'. }
      rewrite <- He in *.
      destruct (nth (byte_of w1) m Void) as [|s' b'|m'] eqn:E.
      * rewrite nth_set_nth_eq by lia. apply IH; [apply wfp_void|exact Hnp'].
      * rewrite E. exact Hp.
      * rewrite nth_set_nth_eq by lia. apply IH; assumption.
    + destruct (nth (byte_of w1) m Void); [|exact Hp|]; now rewrite nth_set_nth_ne by assumption.
Qed.

(** * inserting a prefix-free family *)
Definition ins_all (m : list dec) (C : list (sym * list bool)) : list dec :=
  fold_left (fun m sw => ins 9 m (fst sw) (snd sw)) C m.

Definition prefix_free (C : list (sym * list bool)) : Prop :=
  forall i j s w s' w', i <> j -> nth_error C i = Some (s, w) -> nth_error C j = Some (s', w') -> ~ prefix w w'.

Theorem fold_ins_ok : forall todo m done,
  (forall s w, In (s, w) todo -> 1 <= length w <= 72) ->
  prefix_free (done ++ todo) ->
  (forall s w rest, In (s, w) done -> tl 9 m (w ++ rest) = Some (s, length w)) ->
  (forall s w, In (s, w) todo -> wfp 9 m w) ->
  tab_ok (ins_all m todo) (done ++ todo).
Proof.
  induction todo as [|[s1 w1] todo IH]; intros m done Hlen Hpf Hdone Htodo.
  - rewrite app_nil_r. intros s w rest Hin. apply Hdone. exact Hin.
  - cbn [ins_all fold_left fst snd]. change (done ++ (s1, w1) :: todo) with (done ++ [(s1, w1)] ++ todo).
    rewrite app_assoc. apply IH.
    + intros s w Hin. apply (Hlen s w). right. exact Hin.
    + rewrite <- app_assoc. exact Hpf.
    + intros s w rest Hin. apply in_app_or in Hin. destruct Hin as [Hin|[Heq|[]]].
      * rewrite ins_frame; [apply Hdone; exact Hin|].
        destruct (In_nth_error _ _ Hin) as [i Hi].
        assert (Hj : nth_error (done ++ (s1, w1) :: todo) (length done) = Some (s1, w1)).
        { rewrite nth_error_app2 by lia. now rewrite Nat.sub_diag. }
        assert (Hi' : nth_error (done ++ (s1, w1) :: todo) i = Some (s, w)).
        { rewrite nth_error_app1; [exact Hi|]. apply nth_error_Some. rewrite Hi. discriminate. }
        assert (Hne : i <> length done).
        { assert (i < length done) by (apply nth_error_Some; rewrite Hi; discriminate). lia. }
        apply not_hits.
        -- exact (Hpf _ _ _ _ _ _ (not_eq_sym Hne) Hj Hi').
        -- exact (Hpf _ _ _ _ _ _ Hne Hi' Hj).
      * inversion Heq; subst. apply ins_hit.
        -- apply (Htodo s w). left. reflexivity.
        -- pose proof (Hlen s w (or_introl eq_refl)). lia.
    + intros s w Hin. apply wfp_ins; [apply (Htodo s w); right; exact Hin|].
      destruct (In_nth_error _ _ Hin) as [j Hj].
      assert (Hi' : nth_error (done ++ (s1, w1) :: todo) (length done) = Some (s1, w1)).
      { rewrite nth_error_app2 by lia. now rewrite Nat.sub_diag. }
      assert (Hj' : nth_error (done ++ (s1, w1) :: todo) (length done + S j) = Some (s, w)).
      { rewrite nth_error_app2 by lia. replace (length done + S j - length done) with (S j) by lia. exact Hj. }
      exact (Hpf (length done) (length done + S j) _ _ _ _ ltac:(lia) Hi' Hj').
Qed.

Corollary ins_all_ok C : (forall s w, In (s, w) C -> 1 <= length w <= 72) -> prefix_free C ->
  tab_ok (ins_all void_map C) C.
Proof.
  intros Hlen Hpf. apply (@fold_ins_ok C void_map []); auto.
  - intros s w rest [].
  - intros s w _. apply wfp_void.
Qed.
