(** The decoder side of the Huffman container (C06): the u16 register, its restocking from the
    bit iterator's chunks and the walk through the nested 256-entry tables decode a concatenation of
    code words back to exactly the symbols and then stop -- for every alignment of the item, and
    for the trailing partial byte -- PROVIDED the tables answer code words correctly ([tab_ok],
    the specification of [insert_decode]; established for concrete tables by the correspondence,
    not proved here in general). *)
From FC Require Import Base.Res Huffman.Huffman Huffman.Bits Huffman.BitIter.
From Coq Require Import Lia.
Set Implicit Arguments.
Local Open Scope nat_scope.

(** * bit lists as numbers *)
Fixpoint val_bits (l : list bool) : N :=
  match l with [] => 0%N | b :: l' => ((if b then 1 else 0) * 2 ^ N.of_nat (length l') + val_bits l')%N end.

Lemma val_bits_bound l : (val_bits l < 2 ^ N.of_nat (length l))%N.
Proof.
  induction l as [|b l IH]; [cbn; lia|]. cbn [val_bits length].
  rewrite Nat2N.inj_succ, N.pow_succ_r'. destruct b; lia.
Qed.

Lemma bits_of_val l : bits_of (length l) (val_bits l) = l.
Proof.
  induction l as [|b l IH]; [reflexivity|].
  cbn [length val_bits]. change (S (length l)) with (1 + length l).
  rewrite (@bits_of_app 1 (length l) (if b then 1 else 0)%N (val_bits l) (val_bits_bound l)), IH.
  destruct b; reflexivity.
Qed.

Lemma val_bits_of n v : (v < 2 ^ N.of_nat n)%N -> val_bits (bits_of n v) = v.
Proof.
  intros Hv. apply (@bits_of_inj n); [|assumption|].
  - pose proof (val_bits_bound (bits_of n v)) as H. now rewrite bits_of_length in H.
  - pose proof (bits_of_val (bits_of n v)) as H. now rewrite bits_of_length in H.
Qed.

Lemma firstn_repeat {A} (x : A) k n : k <= n -> firstn k (repeat x n) = repeat x k.
Proof.
  intros H. replace n with (k + (n - k)) by lia. rewrite repeat_app, firstn_app, repeat_length, Nat.sub_diag.
  cbn [firstn]. rewrite app_nil_r. apply firstn_all2. rewrite repeat_length. lia.
Qed.

(** the table index of a bit stream: its first 8 bits, zero-padded *)
Definition window (bs : list bool) : list bool := firstn 8 (bs ++ repeat false 8).
Definition byte_of (bs : list bool) : nat := N.to_nat (val_bits (window bs)).
Lemma window_length bs : length (window bs) = 8.
Proof. unfold window. rewrite firstn_length, app_length, repeat_length. lia. Qed.

(** * what the tables say: walking them with a bit stream *)
Fixpoint tl (fuel : nat) (m : list dec) (bs : list bool) : option (sym * nat) :=
  match fuel with
  | O => None
  | S f => match nth (byte_of bs) m Void with
           | Sym s b => if (1 <=? b) && (b <=? 8) then Some (s, b) else None
           | Further m' => match tl f m' (skipn 8 bs) with Some (s, b) => Some (s, 8 + b) | None => None end
           | Void => None
           end
  end.

(** * decoder states *)
Definition dstream (d : dst) : list bool := bits_of (pbits d) (pbyte d) ++ concat (map chunk_bits (chunks d)).
Fixpoint full8 (cs : list (N * nat)) : Prop :=
  match cs with
  | [] => True
  | [c] => 1 <= snd c <= 8
  | c :: cs' => snd c = 8 /\ full8 cs'
  end.
Definition chunk_ok (c : N * nat) : Prop := 1 <= snd c <= 8 /\ (fst c < 2 ^ N.of_nat (snd c))%N.
Definition dinv (d : dst) : Prop :=
  (pbyte d < 2 ^ N.of_nat (pbits d))%N /\ pbits d <= 15 /\ Forall chunk_ok (chunks d) /\ full8 (chunks d).

Lemma full8_tl c cs : full8 (c :: cs) -> full8 cs.
Proof. destruct cs as [|c' cs]; cbn; tauto. Qed.
Lemma full8_hd c c' cs : full8 (c :: c' :: cs) -> snd c = 8.
Proof. cbn. tauto. Qed.

(** restocking keeps the stream and leaves at least a byte in the register unless the chunks ran out *)
Lemma restock_spec d : dinv d -> pbits d < 8 ->
  dinv (restock d) /\ dstream (restock d) = dstream d /\ (8 <= pbits (restock d) \/ chunks (restock d) = []).
Proof.
  intros (Hb & Hn & Hc & Hf) Hlt. unfold restock. destruct (Nat.ltb_spec (pbits d) 8) as [_|]; [|lia].
  destruct (chunks d) as [|[b n] cs] eqn:E.
  - split; [repeat split; try assumption; rewrite E; auto|]. split; [reflexivity|]. right. exact E.
  - inversion Hc as [|? ? [Hn1 Hb1] Hc']; subst. cbn [fst snd] in *.
    assert (Hsum : (pbyte d * 2 ^ N.of_nat n + b < 2 ^ N.of_nat (pbits d + n))%N).
    { rewrite Nat2N.inj_add, N.pow_add_r.
      assert (pbyte d + 1 <= 2 ^ N.of_nat (pbits d))%N by lia.
      assert ((pbyte d + 1) * 2 ^ N.of_nat n <= 2 ^ N.of_nat (pbits d) * 2 ^ N.of_nat n)%N by (apply N.mul_le_mono_r; assumption).
      lia. }
    assert (Hsmall : ((pbyte d * 2 ^ N.of_nat n) mod 2 ^ 16 = pbyte d * 2 ^ N.of_nat n)%N).
    { apply N.mod_small. eapply N.le_lt_trans; [apply N.le_add_r with (m := b)|].
      eapply N.lt_le_trans; [exact Hsum|]. apply N.pow_le_mono_r; lia. }
    rewrite Hsmall. split; [|split].
    + unfold dinv. cbn [pbyte pbits chunks]. split; [assumption|]. split; [lia|]. split; [assumption|]. eapply full8_tl; eauto.
    + unfold dstream. cbn [pbyte pbits chunks]. rewrite E. cbn [map concat]. unfold chunk_bits at 2. cbn [fst snd].
      rewrite bits_of_app by assumption. rewrite <- app_assoc. reflexivity.
    + cbn [pbits chunks]. destruct cs as [|c' cs']; [right; reflexivity|left].
      pose proof (full8_hd Hf) as H8. cbn in H8. lia.
Qed.

(** consuming b bits of the register *)
Lemma consume_spec d b : dinv d -> b <= pbits d ->
  let d' := {| chunks := chunks d; pbyte := (pbyte d mod 2 ^ N.of_nat (pbits d - b))%N; pbits := pbits d - b |} in
  dinv d' /\ dstream d' = skipn b (dstream d).
Proof.
  intros (Hb & Hn & Hc & Hf) Hle. cbn zeta. split.
  - unfold dinv. cbn [pbyte pbits chunks]. split; [apply N.mod_upper_bound, N.pow_nonzero; lia|]. split; [lia|]. auto.
  - unfold dstream. cbn [pbyte pbits chunks]. rewrite skipn_app, bits_of_length.
    replace (b - pbits d) with 0 by lia. cbn [skipn]. f_equal. apply bits_of_mask. assumption.
Qed.

(** the byte the decoder looks up is the window of the stream *)
Lemma top_byte d : dinv d -> 8 <= pbits d ->
  N.to_nat (pbyte d / 2 ^ N.of_nat (pbits d - 8)) = byte_of (dstream d).
Proof.
  intros (Hb & Hn & _) H8. unfold byte_of, window, dstream. f_equal.
  rewrite <- app_assoc, firstn_app, bits_of_length. replace (8 - pbits d) with 0 by lia. rewrite firstn_O, app_nil_r.
  rewrite <- bits_of_shiftr by assumption. symmetry. apply val_bits_of.
  apply N.div_lt_upper_bound; [apply N.pow_nonzero; lia|].
  rewrite <- N.pow_add_r. replace (N.of_nat (pbits d - 8) + N.of_nat 8)%N with (N.of_nat (pbits d)) by lia. assumption.
Qed.

Lemma partial_byte d : dinv d -> pbits d < 8 -> chunks d = [] ->
  N.to_nat ((pbyte d * 2 ^ N.of_nat (8 - pbits d)) mod 2 ^ 16) = byte_of (dstream d).
Proof.
  intros (Hb & Hn & _) Hlt Hc. unfold byte_of, window, dstream. rewrite Hc. cbn [map concat]. rewrite app_nil_r. f_equal.
  assert (Hlt8 : (pbyte d * 2 ^ N.of_nat (8 - pbits d) < 2 ^ 8)%N).
  { assert (pbyte d + 1 <= 2 ^ N.of_nat (pbits d))%N by lia.
    assert ((pbyte d + 1) * 2 ^ N.of_nat (8 - pbits d) <= 2 ^ N.of_nat (pbits d) * 2 ^ N.of_nat (8 - pbits d))%N by (apply N.mul_le_mono_r; assumption).
    rewrite <- N.pow_add_r in H0. replace (N.of_nat (pbits d) + N.of_nat (8 - pbits d))%N with 8%N in H0 by lia.
    assert (0 < 2 ^ N.of_nat (8 - pbits d))%N by (apply N.neq_0_lt_0, N.pow_nonzero; lia). lia. }
  rewrite N.mod_small by (eapply N.lt_le_trans; [exact Hlt8|apply N.pow_le_mono_r; lia]).
  rewrite firstn_app, bits_of_length.
  rewrite firstn_all2 by (rewrite bits_of_length; lia).
  rewrite firstn_repeat by lia.
  rewrite <- bits_of_pad by (lia || assumption). symmetry. apply (@val_bits_of 8). exact Hlt8.
Qed.

Lemma restock_any d : dinv d ->
  dinv (restock d) /\ dstream (restock d) = dstream d /\ (8 <= pbits (restock d) \/ chunks (restock d) = []).
Proof.
  intros Hd. destruct (Nat.ltb_spec (pbits d) 8) as [Hlt|Hge]; [apply restock_spec; assumption|].
  unfold restock. destruct (Nat.ltb_spec (pbits d) 8); [lia|]. auto.
Qed.

Lemma skipn_add' {A} (l : list A) a b : skipn (a + b) l = skipn b (skipn a l).
Proof. apply skipn_add. Qed.

(** the table walk of the decoder follows [tl] on the stream, consuming exactly the code's bits *)
Lemma walk_spec : forall k fuel m d s b, dinv d -> tl k m (dstream d) = Some (s, b) -> b <= length (dstream d) -> k <= fuel ->
  exists d', walk fuel m d = SSym s d' /\ dinv d' /\ dstream d' = skipn b (dstream d).
Proof.
  induction k as [|k IH]; intros fuel m d s b Hd Htl Hb Hk; [discriminate|].
  destruct fuel as [|fuel]; [lia|]. cbn [walk].
  destruct (restock_any Hd) as (Hd1 & Hs1 & Hfull). set (d1 := restock d) in *. rewrite <- Hs1 in Htl, Hb |- *.
  cbn [tl] in Htl.
  assert (Hlen : length (dstream d1) = pbits d1 + length (concat (map chunk_bits (chunks d1)))).
  { unfold dstream. rewrite app_length, bits_of_length. reflexivity. }
  destruct (Nat.eqb_spec (pbits d1) 0) as [Hz|Hnz].
  - (* nothing pending: the stream is empty, no code can be read *)
    exfalso. destruct Hfull as [H8|Hc]; [lia|]. rewrite Hc in Hlen. cbn in Hlen.
    destruct (nth (byte_of (dstream d1)) m Void) as [|s' b'|m']; try discriminate.
    + destruct (Nat.leb_spec 1 b'); cbn in Htl; [|discriminate]. destruct (b' <=? 8); cbn in Htl; [|discriminate].
      inversion Htl; subst. lia.
    + destruct (tl k m' (skipn 8 (dstream d1))) as [[s' b']|]; [|discriminate]. inversion Htl; subst. lia.
  - destruct (Nat.ltb_spec (pbits d1) 8) as [Hlt|Hge].
    + (* the trailing partial byte *)
      destruct Hfull as [H8|Hc]; [lia|]. rewrite (partial_byte Hd1 Hlt Hc).
      rewrite Hc in Hlen. cbn in Hlen. rewrite Nat.add_0_r in Hlen.
      destruct (nth (byte_of (dstream d1)) m Void) as [|s' b'|m']; try discriminate.
      * destruct (Nat.leb_spec 1 b'); cbn in Htl; [|discriminate]. destruct (b' <=? 8); cbn in Htl; [|discriminate].
        inversion Htl; subst. destruct (Nat.leb_spec b (pbits d1)); [|lia].
        destruct (@consume_spec d1 b Hd1 ltac:(lia)) as [Hi Hst]. eexists. split; [reflexivity|]. split; assumption.
      * destruct (tl k m' (skipn 8 (dstream d1))) as [[s' b']|]; [|discriminate]. inversion Htl; subst. lia.
    + (* a whole byte is available *)
      rewrite (top_byte Hd1 Hge).
      destruct (nth (byte_of (dstream d1)) m Void) as [|s' b'|m']; try discriminate.
      * destruct (Nat.leb_spec 1 b'); cbn in Htl; [|discriminate]. destruct (Nat.leb_spec b' 8); cbn in Htl; [|discriminate].
        inversion Htl; subst.
        destruct (@consume_spec d1 b Hd1 ltac:(lia)) as [Hi Hst]. eexists. split; [reflexivity|]. split; assumption.
      * destruct (tl k m' (skipn 8 (dstream d1))) as [[s' b']|] eqn:E; [|discriminate]. inversion Htl; subst.
        destruct (@consume_spec d1 8 Hd1 Hge) as [Hi Hst].
        set (d2 := {| chunks := chunks d1; pbyte := (pbyte d1 mod 2 ^ N.of_nat (pbits d1 - 8))%N; pbits := pbits d1 - 8 |}) in *.
        rewrite <- Hst in E.
        destruct (IH fuel m' d2 s b' Hi E) as (d' & Hw & Hi' & Hs'); [rewrite Hst, skipn_length; lia|lia|].
        exists d'. split; [exact Hw|]. split; [exact Hi'|]. rewrite Hs', Hst. symmetry. apply (@skipn_add _ (dstream d1) 8 b').
Qed.

(** an empty stream ends the item *)
Lemma walk_end fuel m d : dinv d -> dstream d = [] -> walk (S fuel) m d = SEnd.
Proof.
  intros Hd Hs. cbn [walk]. destruct (restock_any Hd) as (Hd1 & Hs1 & _). rewrite Hs in Hs1.
  assert (pbits (restock d) = 0).
  { unfold dstream in Hs1. apply (f_equal (@length _)) in Hs1. rewrite app_length, bits_of_length in Hs1. cbn in Hs1. lia. }
  rewrite H. reflexivity.
Qed.

(** * decoding a concatenation of code words *)
Definition tab_ok (m : list dec) (C : list (sym * list bool)) : Prop :=
  forall s w rest, In (s, w) C -> tl 9 m (w ++ rest) = Some (s, length w).

Theorem decode_all_spec m C : tab_ok m C -> forall syms ws fuel d acc,
  Forall2 (fun s w => In (s, w) C) syms ws -> dinv d -> dstream d = concat ws -> length syms < fuel ->
  decode_all fuel m d acc = Ok (acc ++ syms).
Proof.
  intros Hok. induction syms as [|s syms IH]; intros ws fuel d acc HF Hd Hs Hfuel; inversion HF; subst.
  - destruct fuel as [|fuel]; [cbn in Hfuel; lia|]. cbn [decode_all].
    rewrite (walk_end 9 m Hd Hs). now rewrite app_nil_r.
  - destruct fuel as [|fuel]; [cbn in Hfuel; lia|]. cbn [decode_all].
    match goal with H : In (s, ?w) C |- _ => rename H into Hin; set (w0 := w) in * end.
    cbn [concat] in Hs.
    pose proof (Hok s w0 (concat l') Hin) as Htl. rewrite <- Hs in Htl.
    destruct (@walk_spec 9 10 m d s (length w0) Hd Htl) as (d' & Hw & Hi' & Hs'); [rewrite Hs, app_length; lia|lia|].
    rewrite Hw. rewrite (IH l' fuel d' (acc ++ [s])); try assumption.
    + rewrite <- app_assoc. reflexivity.
    + rewrite Hs', Hs, skipn_app, skipn_all, Nat.sub_diag. reflexivity.
    + cbn in Hfuel. lia.
Qed.

(** * from the bit iterator to the decoder *)
Lemma bit_chunks_aligned bytes : forall fuel lo hi cs, lo mod 8 = 0 ->
  bit_chunks fuel bytes lo hi = Ok cs -> full8 cs.
Proof.
  induction fuel as [|fuel IH]; intros lo hi cs Hal Hb; cbn [bit_chunks] in Hb; [inversion Hb; exact I|].
  destruct (Nat.ltb_spec lo hi) as [Hlt|Hge]; [|inversion Hb; exact I].
  destruct (nth_error bytes (lo / 8)) as [byte|]; [|discriminate].
  rewrite Hal in Hb. rewrite Nat.sub_0_r in Hb.
  destruct (bit_chunks fuel bytes (lo + Nat.min (hi - lo) 8) hi) as [rest|] eqn:E; cbn [bind] in Hb; [|discriminate].
  inversion Hb; subst. clear Hb.
  destruct (Nat.le_gt_cases 8 (hi - lo)) as [H8|Hs].
  - rewrite Nat.min_r in * by assumption.
    assert (Hr : full8 rest).
    { apply (IH (lo + 8) hi rest); [|exact E]. rewrite <- Nat.add_mod_idemp_l, Hal by lia. reflexivity. }
    destruct rest as [|c' rest']; cbn [full8 snd]; [lia|]. split; [reflexivity|exact Hr].
  - rewrite Nat.min_l in * by lia.
    destruct fuel as [|fuel']; cbn [bit_chunks] in E.
    + inversion E; subst. cbn [full8 snd]. lia.
    + destruct (Nat.ltb_spec (lo + (hi - lo)) hi); [lia|]. inversion E; subst. cbn [full8 snd]. lia.
Qed.

Lemma bit_chunks_tail_full8 bytes fuel lo hi c cs : bit_chunks fuel bytes lo hi = Ok (c :: cs) -> full8 cs.
Proof.
  destruct fuel as [|fuel]; cbn [bit_chunks]; [discriminate|].
  destruct (Nat.ltb_spec lo hi) as [Hlt|Hge]; [|discriminate].
  destruct (nth_error bytes (lo / 8)) as [byte|]; [|discriminate].
  set (n := Nat.min (hi - lo) (8 - lo mod 8)).
  destruct (bit_chunks fuel bytes (lo + n) hi) as [rest|] eqn:E; cbn [bind]; [|discriminate].
  intros Hb. inversion Hb; subst.
  assert (Hr : lo mod 8 < 8) by (apply Nat.mod_upper_bound; lia).
  destruct (Nat.le_gt_cases (8 - lo mod 8) (hi - lo)) as [Hfull|Hpart].
  - (* the first chunk runs to the byte boundary *)
    apply (@bit_chunks_aligned bytes fuel (lo + n) hi cs); [|exact E].
    unfold n. rewrite Nat.min_r by assumption.
    pose proof (Nat.div_mod lo 8 ltac:(lia)) as Hdm.
    replace (lo + (8 - lo mod 8)) with (8 * (lo / 8 + 1)) by lia.
    rewrite Nat.mul_comm. apply Nat.mod_mul. lia.
  - (* the range ends inside the first byte *)
    unfold n in E. rewrite Nat.min_l in E by lia.
    destruct fuel as [|fuel']; cbn [bit_chunks] in E; [inversion E; exact I|].
    destruct (Nat.ltb_spec (lo + (hi - lo)) hi); [lia|]. inversion E; exact I.
Qed.

Lemma tl_pos k m bs s b : tl k m bs = Some (s, b) -> 1 <= b.
Proof.
  revert m bs s b. induction k as [|k IH]; intros m bs s b H; cbn [tl] in H; [discriminate|].
  destruct (nth (byte_of bs) m Void) as [|s' b'|m']; try discriminate.
  - destruct (Nat.leb_spec 1 b'); cbn in H; [|discriminate]. destruct (b' <=? 8); [|discriminate]. inversion H; subst. assumption.
  - destruct (tl k m' (skipn 8 bs)) as [[s' b']|]; [|discriminate]. inversion H; subst. lia.
Qed.

Theorem decode_range_spec h C bytes lo hi syms ws : tab_ok (dtab h) C ->
  Forall2 (fun s w => In (s, w) C) syms ws -> lo <= hi -> hi <= 8 * length bytes ->
  firstn (hi - lo) (skipn lo (bitstr bytes)) = concat ws ->
  decode_range h bytes lo hi = Ok syms.
Proof.
  intros Hok HF Hle Hhi Hbits. unfold decode_range.
  destruct (@bit_chunks_spec bytes (hi - lo + 1) lo hi Hle Hhi ltac:(lia)) as (cs & Hcs & Hcb & Hall).
  rewrite Hcs. cbn [bind].
  (* every code word has at least one bit: at most hi - lo symbols *)
  assert (Hn : length syms <= length (concat ws)).
  { clear - Hok HF. induction HF as [|s w syms ws Hin _ IH]; [cbn; lia|].
    cbn [concat length]. rewrite app_length. pose proof (Hok s w [] Hin) as Ht. apply tl_pos in Ht. cbn [length]. lia. }
  assert (Hlen : length (concat ws) = hi - lo).
  { rewrite <- Hbits, firstn_length, skipn_length, bitstr_length. lia. }
  set (d0 := match cs with (b, n) :: cs' => {| chunks := cs'; pbyte := b; pbits := n |} | [] => {| chunks := []; pbyte := 0%N; pbits := 0 |} end).
  assert (Hd0 : dinv d0 /\ dstream d0 = concat (map chunk_bits cs)).
  { unfold d0. destruct cs as [|[b n] cs'].
    - split; [|reflexivity]. unfold dinv. cbn. repeat split; auto. lia.
    - inversion Hall as [|? ? [Hn1 Hb1] Hall']; subst. cbn [fst snd] in *. split; [|reflexivity].
      unfold dinv. cbn [pbyte pbits chunks]. split; [assumption|]. split; [lia|]. split.
      + eapply Forall_impl; [|exact Hall']. intros c Hc. exact Hc.
      + eapply bit_chunks_tail_full8; eauto. }
  destruct Hd0 as [Hi Hs]. fold d0.
  rewrite (@decode_all_spec (dtab h) C Hok syms ws (hi - lo + 2) d0 [] HF Hi); [reflexivity| |lia].
  rewrite Hs, Hcb. exact Hbits.
Qed.
