(** Huffman trees are shallow unless the statistics are astronomically skewed AND large: the tree
    [create_from] builds for counts >= 1 of total weight W has height h with G(h) <= W, where
    G = 1, 2, 3, 5, 8, ... (Fibonacci).  Hence code lengths are at most 57 bits whenever fewer than
    G(58) (about 9.6 * 10^11) symbols were counted: the hypothesis [mergeable] of the Huffman
    region contract is discharged by a plain bound on the statistics.

    The argument is the classical one: in a tree built by always merging the two lightest trees, every
    node is at least as heavy as each child of its sibling ("uncle >= nephew"), so along a deepest
    path the weights satisfy the Fibonacci recurrence. *)
From FC Require Import Base.Res Huffman.Huffman Huffman.HuffOpt Huffman.HuffTree.
From Coq Require Import Lia ZArith Permutation.
Set Implicit Arguments.
Local Open Scope nat_scope.

Fixpoint height (t : tree) : nat := match t with TLeaf _ _ => 0 | TNode l r => S (Nat.max (height l) (height r)) end.
(** the heavier child of a node (0 for a leaf) *)
Definition mc (t : tree) : nat := match t with TLeaf _ _ => 0 | TNode l r => Nat.max (weight l) (weight r) end.
(** uncle >= nephew, everywhere in the tree *)
Fixpoint sibp (t : tree) : Prop :=
  match t with TLeaf _ _ => True | TNode l r => sibp l /\ sibp r /\ mc l <= weight r /\ mc r <= weight l end.
Fixpoint posw (t : tree) : Prop := match t with TLeaf _ w => 1 <= w | TNode l r => posw l /\ posw r end.

Fixpoint G (n : nat) : nat :=
  match n with
  | 0 => 1
  | S m => match m with 0 => 2 | S k => G m + G k end
  end.
Lemma G_SS n : G (S (S n)) = G (S n) + G n.
Proof. reflexivity. Qed.
Lemma G_pos n : 1 <= G n.
Proof. induction n as [n IH] using lt_wf_ind. destruct n as [|[|n]]; cbn [G]; try lia. pose proof (IH (S n) ltac:(lia)). change (match n with 0 => 2 | S k => G n + G k end) with (G (S n)). lia. Qed.
Lemma G_mono_S n : G n <= G (S n).
Proof. destruct n as [|n]; [cbn; lia|]. rewrite G_SS. pose proof (G_pos n). lia. Qed.
Lemma G_mono a b : a <= b -> G a <= G b.
Proof. induction 1 as [|b _ IH]; [lia|]. pose proof (G_mono_S b). lia. Qed.

Lemma posw_weight t : posw t -> 1 <= weight t.
Proof. induction t as [s w|l IHl r IHr]; cbn [posw weight]; [auto|]. intros [Hl Hr]. specialize (IHl Hl). lia. Qed.

(** the Fibonacci bound *)
Lemma sib_weight t : sibp t -> posw t ->
  G (height t) <= weight t /\ (forall l r, t = TNode l r -> G (height t - 1) <= mc t).
Proof.
  induction t as [s w|l IHl r IHr]; cbn [sibp posw]; intros Hs Hp.
  - split; [cbn; lia|]. intros l r H. discriminate.
  - destruct Hs as (Hsl & Hsr & Hlr & Hrl). destruct Hp as [Hpl Hpr].
    destruct (IHl Hsl Hpl) as [Wl Ml]. destruct (IHr Hsr Hpr) as [Wr Mr].
    assert (M : G (height (TNode l r) - 1) <= mc (TNode l r)).
    { cbn [height mc]. replace (S (Nat.max (height l) (height r)) - 1) with (Nat.max (height l) (height r)) by lia.
      destruct (Nat.max_spec (height l) (height r)) as [[_ ->]|[_ ->]]; lia. }
    split; [|intros ? ? _; exact M].
    cbn [height weight].
    (* the taller child *)
    destruct (Nat.le_ge_cases (height r) (height l)) as [Hh|Hh].
    + rewrite Nat.max_l by assumption.
      destruct l as [sl wl|l1 l2].
      * cbn [height]. cbn [G]. pose proof (posw_weight _ Hpr). cbn [weight posw] in *. lia.
      * specialize (Ml l1 l2 eq_refl). cbn [height] in *.
        set (k := Nat.max (height l1) (height l2)) in *.
        replace (S k - 1) with k in Ml by lia. rewrite G_SS. lia.
    + rewrite Nat.max_r by assumption.
      destruct r as [sr wr|r1 r2].
      * cbn [height]. cbn [G]. pose proof (posw_weight _ Hpl). cbn [weight posw] in *. lia.
      * specialize (Mr r1 r2 eq_refl). cbn [height] in *.
        set (k := Nat.max (height r1) (height r2)) in *.
        replace (S k - 1) with k in Mr by lia. rewrite G_SS. lia.
Qed.

Lemma flat_rl_depth t : forall lvl, Forall (fun ls : nat * sym => fst ls <= lvl + height t) (flat_rl t lvl).
Proof.
  induction t as [s w|l IHl r IHr]; intros lvl; cbn [flat_rl height].
  - constructor; [cbn; lia|constructor].
  - apply Forall_app. split.
    + eapply Forall_impl; [|apply IHr]. cbn. intros a Ha. lia.
    + eapply Forall_impl; [|apply IHl]. cbn. intros a Ha. lia.
Qed.

(** * the forest invariant of the greedy construction *)
Definition forest_ok (ts : list tree) : Prop :=
  Forall sibp ts /\ Forall posw ts /\ (forall T U, In T ts -> In U ts -> mc T <= weight U).

Lemma forest_ok_perm ts ts' : Permutation ts ts' -> forest_ok ts -> forest_ok ts'.
Proof.
  intros HP (H1 & H2 & H3). split; [eapply Permutation_Forall; eassumption|]. split; [eapply Permutation_Forall; eassumption|].
  intros T U HT HU. apply H3; eapply Permutation_in; try (symmetry; exact HP); assumption.
Qed.

(** merging the two lightest trees keeps the invariant *)
Lemma forest_ok_merge t1 t2 ts : forest_ok (t1 :: t2 :: ts) ->
  Forall (fun u => weight t1 <= weight u) (t2 :: ts) -> Forall (fun u => weight t2 <= weight u) ts ->
  forest_ok (TNode t1 t2 :: ts).
Proof.
  intros (H1 & H2 & H3) Hm1 Hm2.
  inversion H1 as [|? ? S1 H1']; subst. inversion H1' as [|? ? S2 H1'']; subst.
  inversion H2 as [|? ? P1 H2']; subst. inversion H2' as [|? ? P2 H2'']; subst.
  inversion Hm1 as [|? ? W12 Hm1']; subst.
  split; [|split].
  - constructor; [|assumption]. cbn [sibp]. split; [assumption|]. split; [assumption|]. split.
    + apply H3; [left; reflexivity|right; left; reflexivity].
    + apply H3; [right; left; reflexivity|left; reflexivity].
  - constructor; [cbn; auto|assumption].
  - intros T U [<-|HT] [<-|HU].
    + cbn [mc weight]. lia.
    + cbn [mc]. rewrite Forall_forall in Hm1', Hm2. specialize (Hm2 U HU). lia.
    + cbn [weight]. pose proof (H3 T t1 ltac:(right; right; exact HT) ltac:(left; reflexivity)). lia.
    + apply H3; right; right; assumption.
Qed.

(** * the construction ([build_spec] of HuffTree.v, with the forest invariant carried along) *)
Theorem build_spec2 : forall fuel heap tv ts,
  Forall2 (ent_ok tv) heap ts -> heap <> [] -> length heap <= fuel -> forest_ok ts ->
  let tv' := build fuel heap tv in
  exists t root, nth_error tv' (length tv' - 1) = Some root /\ Rep tv' root t /\
    tcost t 0 = sum_tcost ts + fcost ts /\
    Permutation (lsw t) (concat (map lsw ts)) /\
    length tv' = length tv + 2 * length heap - 1 /\ sibp t /\ posw t.
Proof.
  induction fuel as [|fuel IH]; intros heap tv ts HF Hne Hlen Hfo.
  - destruct heap; [congruence|cbn in Hlen; lia].
  - cbn [build].
    destruct (pop_aligned HF Hne) as (e1 & t1 & h1 & ts1 & Hp1 & Hok1 & HF1 & HP1 & Hmin1).
    rewrite Hp1.
    assert (Hl1 : length heap = S (length h1)).
    { rewrite (Forall2_length HF), (Permutation_length HP1). cbn. f_equal. symmetry. apply (Forall2_length HF1). }
    destruct h1 as [|x1 h1'].
    + (* last entry: it is the root *)
      cbn [pop_max].
      assert (ts1 = []) by (inversion HF1; reflexivity). subst ts1.
      exists t1, (snd e1). rewrite app_length. cbn [length].
      replace (length tv + 1 - 1) with (length tv) by lia.
      rewrite nth_error_app2, Nat.sub_diag by lia. split; [reflexivity|].
      split; [apply Rep_app; apply Hok1|].
      rewrite (sum_tcost_perm HP1), (fcost_perm HP1), (lsw_perm HP1). unfold sum_tcost, fcost. cbn.
      rewrite app_nil_r. split; [lia|]. split; [reflexivity|]. split; [unfold ent in *; rewrite Hl1; cbn [length]; lia|].
      destruct (forest_ok_perm HP1 Hfo) as (Hs1 & Hp1' & _). inversion Hs1; subst. inversion Hp1'; subst. split; assumption.
    + assert (Hne1 : x1 :: h1' <> []) by discriminate.
      destruct (pop_aligned HF1 Hne1) as (e2 & t2 & h2 & ts2 & Hp2 & Hok2 & HF2 & HP2 & Hmin2).
      rewrite Hp2.
      assert (Hl2 : length (x1 :: h1') = S (length h2)).
      { rewrite (Forall2_length HF1), (Permutation_length HP2). cbn. f_equal. symmetry. apply (Forall2_length HF2). }
      set (tv1 := tv ++ [snd e1; snd e2]).
      set (fork := Fork (length tv) (S (length tv))).
      assert (HFn : Forall2 (ent_ok tv1) ((fst e1 + fst e2, fork)%Z :: h2) (TNode t1 t2 :: ts2)).
      { constructor; [|apply Forall2_ent_ok_app; assumption].
        destruct Hok1 as [R1 W1]. destruct Hok2 as [R2 W2]. split.
        - unfold fork, tv1. cbn [snd]. econstructor.
          + rewrite nth_error_app2, Nat.sub_diag by lia. reflexivity.
          + rewrite nth_error_app2 by lia. replace (S (length tv) - length tv) with 1 by lia. reflexivity.
          + apply Rep_app. exact R1.
          + apply Rep_app. exact R2.
        - cbn [fst snd weight]. rewrite Nat2Z.inj_add. rewrite W1, W2. ring. }
      assert (Hfuel : length ((fst e1 + fst e2, fork)%Z :: h2) <= fuel).
      { cbn [length] in Hl1, Hl2 |- *. clear - Hl1 Hl2 Hlen. unfold ent in *. lia. }
      assert (HPall0 : Permutation ts (t1 :: t2 :: ts2)) by (rewrite HP1; constructor; exact HP2).
      assert (Hfo2 : forest_ok (TNode t1 t2 :: ts2)).
      { apply forest_ok_merge; [exact (forest_ok_perm HPall0 Hfo)| |].
        - rewrite Forall_forall in *. intros u Hu. apply Hmin1. eapply Permutation_in; [symmetry; exact HPall0|]. right. exact Hu.
        - rewrite Forall_forall in *. intros u Hu. apply Hmin2. eapply Permutation_in; [symmetry; exact HP2|]. right. exact Hu. }
      destruct (IH _ tv1 _ HFn) as (t & root & Hroot & Hrep & Hcost & Hperm & Hlenf & Hsib & Hpos); [discriminate|exact Hfuel|exact Hfo2|].
      exists t, root. split; [exact Hroot|]. split; [exact Hrep|].
      assert (HPall : Permutation ts (t1 :: t2 :: ts2)) by (rewrite HP1; constructor; exact HP2).
      split; [|split; [|split; [|split; assumption]]].
      * rewrite Hcost, (sum_tcost_perm HPall), (fcost_perm HPall).
        rewrite fcost_merge.
        -- unfold sum_tcost. simpl map. simpl list_sum. rewrite tcost_node. lia.
        -- rewrite Forall_forall in *. intros u Hu. apply Hmin1.
           eapply Permutation_in; [symmetry; exact HPall|]. right. exact Hu.
        -- rewrite Forall_forall in *. intros u Hu. apply Hmin2.
           eapply Permutation_in; [symmetry; exact HP2|]. right. exact Hu.
      * rewrite Hperm, (lsw_perm HPall). cbn [map concat lsw]. rewrite !app_assoc.
        apply Permutation_app_tail. apply Permutation_app_comm.
      * rewrite Hlenf. unfold tv1. rewrite app_length. cbn [length] in *. unfold ent in *. lia.
Qed.

(** * from counts to code lengths *)
Lemma leaves_forest_ok counts : Forall (fun sc : sym * Z => (1 <= snd sc)%Z) counts -> forest_ok (map leaf_of counts).
Proof.
  intros H. split; [|split].
  - apply Forall_forall. intros t Ht. apply in_map_iff in Ht. destruct Ht as (sc & <- & _). exact I.
  - apply Forall_forall. intros t Ht. apply in_map_iff in Ht. destruct Ht as (sc & <- & Hin).
    rewrite Forall_forall in H. specialize (H sc Hin). cbn. lia.
  - intros T U HT HU. apply in_map_iff in HT. destruct HT as (sc & <- & _). cbn. lia.
Qed.

Lemma weight_lsw t : weight t = list_sum (map snd (lsw t)).
Proof. induction t as [s w|l IHl r IHr]; cbn [weight lsw map list_sum snd fold_right]; [cbn; lia|]. rewrite map_app, list_sum_app. lia. Qed.

Definition total_count (counts : list (sym * Z)) : nat := list_sum (map (fun sc : sym * Z => Z.to_nat (snd sc)) counts).

(** the levels are bounded by the height of a tree whose weight is the total count *)
Theorem levels_height counts : 2 <= length counts -> Forall (fun sc : sym * Z => (1 <= snd sc)%Z) counts ->
  exists t, Permutation (levels_of counts) (flat_rl t 0) /\ G (height t) <= total_count counts.
Proof.
  intros Hn Hpos1.
  assert (Hpos : Forall (fun sc : sym * Z => (0 <= snd sc)%Z) counts) by (eapply Forall_impl; [|exact Hpos1]; cbn; intros; lia).
  unfold levels_of. pose proof (heap_of_ok Hpos) as HF. fold (heap_of counts).
  assert (Hne : heap_of counts <> []) by (destruct counts; [cbn in Hn; lia|discriminate]).
  assert (Hfuel : length (heap_of counts) <= length counts) by (unfold heap_of; rewrite map_length; lia).
  destruct (build_spec2 HF Hne Hfuel (leaves_forest_ok Hpos1)) as (t & root & Hroot & Hrep & Hcost & Hperm & Hlen & Hsib & Hposw).
  set (tv := build (length counts) (heap_of counts) []) in *.
  assert (Hleaves : leaves t = length counts).
  { rewrite <- lsw_length, (Permutation_length Hperm), concat_map_lsw_leaves, map_length. reflexivity. }
  assert (Hdfs : dfs (2 * length tv + 1) tv [(length tv - 1, 0)] [] = flat_rl t 0).
  { rewrite (@dfs_spec tv (2 * length tv + 1) [(length tv - 1, 0)] [t] []).
    - cbn. now rewrite app_nil_r.
    - constructor; [exists root; auto|constructor].
    - pose proof (nodes_leaves t) as Hnl. rewrite Hleaves in Hnl.
      assert (Hlt : length tv = 2 * length counts - 1).
      { rewrite Hlen. unfold heap_of. rewrite map_length. cbn [length]. lia. }
      simpl map. simpl list_sum. rewrite Hlt. clear - Hnl Hn. lia. }
  rewrite Hdfs. exists t. split.
  - pose proof (sort_levels_perm (flat_rl t 0)) as HP.
    destruct (sort_levels (flat_rl t 0)) as [|[d s] [|y l]] eqn:E; try exact HP.
    apply Permutation_length in HP. rewrite flat_rl_length, Hleaves in HP. cbn in HP. lia.
  - destruct (sib_weight t Hsib Hposw) as [HW _].
    assert (Hwt : weight t = total_count counts).
    { rewrite weight_lsw. unfold total_count.
      rewrite (Permutation_list_sum_nat (Permutation_map snd Hperm)), concat_map_lsw_leaves, map_map. reflexivity. }
    lia.
Qed.

(** ** code lengths of at most 57 bits unless G(58) symbols were counted *)
Theorem small_total_short_codes counts : Forall (fun sc : sym * Z => (1 <= snd sc)%Z) counts ->
  total_count counts < G 58 -> Forall (fun ls : nat * sym => fst ls <= 57) (levels_of counts).
Proof.
  intros Hpos Htot. destruct counts as [|[s c] [|sc2 counts]].
  - (* no symbols: levels_of [] is the dummy singleton at level 1 *) vm_compute. repeat constructor.
  - rewrite single_symbol_one_bit. repeat constructor.
  - destruct (@levels_height ((s, c) :: sc2 :: counts) ltac:(cbn [length]; lia) Hpos) as (t & HP & HG).
    eapply Permutation_Forall; [symmetry; exact HP|].
    assert (Hh : height t <= 57).
    { destruct (Nat.le_gt_cases (height t) 57) as [|Hgt]; [assumption|]. pose proof (G_mono (a := 58) (b := height t) ltac:(lia)). lia. }
    eapply Forall_impl; [|apply (flat_rl_depth t 0)]. cbn. intros a Ha. lia.
Qed.
