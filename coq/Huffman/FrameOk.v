(** Append-only for the bit-packed container (C02): a push into a Huffman container -- which pops
    the shared trailing partial byte and re-emits it with new bits behind it -- leaves every bit of
    every earlier item in place, so every earlier bit range decodes to exactly what it decoded to
    before, whatever the decode table is. *)
From FC Require Import Base.Res Region.Region Huffman.Huffman Huffman.Bits Huffman.BitIter Huffman.EncoderOk.
From Coq Require Import Lia.
Set Implicit Arguments.
Local Open Scope nat_scope.

Lemma firstn_firstn_le {A} (l : list A) a b : a <= b -> firstn a (firstn b l) = firstn a l.
Proof. intros H. rewrite firstn_firstn. f_equal. lia. Qed.

Lemma skipn_firstn_comm' {A} (l : list A) a b : skipn a (firstn (a + b) l) = firstn b (skipn a l).
Proof. apply skipn_firstn_swap. Qed.

(** the bits [lo, lo+n) of two strings that agree up to [hi >= lo+n] *)
Lemma window_agree (x y : list bool) lo n hi : lo + n <= hi -> firstn hi x = firstn hi y ->
  firstn n (skipn lo x) = firstn n (skipn lo y).
Proof.
  intros Hle Hag.
  rewrite <- !skipn_firstn_swap.
  rewrite <- (firstn_firstn_le x Hle), <- (firstn_firstn_le y Hle), Hag. reflexivity.
Qed.

Lemma nth_error_bitstr_window bytes q r byte n : nth_error bytes q = Some byte -> r < 8 -> r + n <= 8 ->
  firstn n (skipn (8 * q + r) (bitstr bytes)) = firstn n (skipn r (bits_of 8 byte)).
Proof.
  intros Hq Hr Hn. rewrite (@skipn_bitstr bytes q r byte Hq Hr).
  rewrite firstn_app, skipn_length, bits_of_length. replace (n - (8 - r)) with 0 by lia.
  cbn [firstn]. now rewrite app_nil_r.
Qed.

(** the iterator yields the same chunks on two byte strings whose first [hi] bits agree *)
Theorem bit_chunks_agree b1 b2 : forall fuel lo hi, lo <= hi -> hi <= 8 * length b1 -> hi <= 8 * length b2 ->
  firstn hi (bitstr b1) = firstn hi (bitstr b2) ->
  bit_chunks fuel b1 lo hi = bit_chunks fuel b2 lo hi.
Proof.
  induction fuel as [|fuel IH]; intros lo hi Hle H1 H2 Hag; [reflexivity|].
  cbn [bit_chunks]. destruct (Nat.ltb_spec lo hi) as [Hlt|Hge]; [|reflexivity].
  set (q := lo / 8). set (r := lo mod 8).
  assert (Hlo : lo = 8 * q + r) by (unfold q, r; apply Nat.div_mod; lia).
  assert (Hr : r < 8) by (unfold r; apply Nat.mod_upper_bound; lia).
  destruct (nth_error b1 q) as [x|] eqn:E1; [|apply nth_error_None in E1; lia].
  destruct (nth_error b2 q) as [y|] eqn:E2; [|apply nth_error_None in E2; lia].
  set (n := Nat.min (hi - lo) (8 - r)).
  assert (Hn : r + n <= 8 /\ lo + n <= hi) by (unfold n; lia).
  rewrite (IH (lo + n) hi) by (assumption || lia).
  assert (Hv : ((x / 2 ^ N.of_nat (8 - r - n)) mod 2 ^ N.of_nat n = (y / 2 ^ N.of_nat (8 - r - n)) mod 2 ^ N.of_nat n)%N).
  { apply (@bits_of_inj n); try (apply N.mod_upper_bound, N.pow_nonzero; lia).
    rewrite !chunk_of_byte by lia.
    rewrite <- (@nth_error_bitstr_window b1 q r x n E1 Hr), <- (@nth_error_bitstr_window b2 q r y n E2 Hr) by lia.
    rewrite <- Hlo. apply window_agree with (hi := hi); [lia|assumption]. }
  fold r. fold n. rewrite Hv. reflexivity.
Qed.

(** C02 for the Huffman container: after a push, every earlier range decodes as before *)
Theorem huffman_frame h bytes bits syms bytes' bits' ix : wfst bytes bits -> covered (enc h) syms ->
  push_symbols h bytes bits syms = Ok (bytes', bits', ix) ->
  forall lo hi, lo <= hi -> hi <= bits ->
  decode_range h bytes' lo hi = decode_range h bytes lo hi.
Proof.
  intros Hwf Hcov Hp lo hi Hle Hhi.
  destruct (@push_symbols_spec h bytes bits syms Hwf Hcov) as (b2 & n2 & Hp2 & Hwf2 & Hvb & Hn2).
  assert (Heq : b2 = bytes' /\ n2 = bits') by (rewrite Hp in Hp2; inversion Hp2; auto).
  destruct Heq as [-> ->]. clear Hp2.
  unfold decode_range.
  destruct Hwf as (Hb1 & _ & _). destruct Hwf2 as (Hb2 & _ & _).
  rewrite (@bit_chunks_agree bytes' bytes (hi - lo + 1) lo hi); try lia; [reflexivity|].
  (* the first [hi] bits agree because the first [bits] do *)
  unfold vb in Hvb.
  assert (Hpre : firstn bits (bitstr bytes') = firstn bits (bitstr bytes)).
  { rewrite <- (firstn_firstn_le (bitstr bytes') (a := bits) (b := bits')) by lia.
    rewrite Hvb, firstn_app, firstn_length, bitstr_length.
    rewrite Nat.min_l by lia. rewrite Nat.sub_diag. cbn [firstn]. rewrite app_nil_r.
    apply firstn_firstn_le. lia. }
  rewrite <- (firstn_firstn_le (bitstr bytes') Hhi), <- (firstn_firstn_le (bitstr bytes) Hhi), Hpre. reflexivity.
Qed.

(** at the level of the region: a successful push into an encoded container keeps every earlier
    index (a bit range ending within the old bit string) reading what it read *)
Theorem huffman_region_frame h bytes bits stats v s' i : wfst bytes bits -> covered (enc h) v ->
  push huffman_region (HEnc h bytes bits, stats) v = Ok (s', i) ->
  i = (bits, bits + list_sum (map (clen (enc h)) v)) /\
  forall j : nat * nat, fst j <= snd j -> snd j <= bits ->
    read huffman_region s' j = read huffman_region (HEnc h bytes bits, stats) j.
Proof.
  intros Hwf Hcov Hp. cbn [push huffman_region fst snd] in Hp.
  destruct (@push_symbols_spec h bytes bits v Hwf Hcov) as (b2 & n2 & Hp2 & Hwf2 & Hvb & Hn2).
  rewrite Hp2 in Hp. cbn [bind] in Hp. inversion Hp; subst s' i. clear Hp. split; [rewrite Hn2; reflexivity|].
  intros [lo hi] Hle Hhi. cbn [read huffman_region fst snd] in *.
  apply (@huffman_frame h bytes bits v b2 n2 (bits, n2) Hwf Hcov Hp2 lo hi Hle Hhi).
Qed.
