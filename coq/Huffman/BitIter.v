(** [BitIterator] is exact at every alignment (C06): the chunks it yields for a bit range
    [lo, hi) of a byte string concatenate to exactly those bits, for every lo <= hi within the
    string -- whichever byte offsets the range starts and ends at. *)
From FC Require Import Base.Res Huffman.Huffman Huffman.Bits.
From Coq Require Import Lia.
Set Implicit Arguments.
Local Open Scope nat_scope.

Definition bitstr (bytes : list N) : list bool := concat (map (bits_of 8) bytes).
Definition chunk_bits (c : N * nat) : list bool := bits_of (snd c) (fst c).

Lemma bitstr_length bytes : length (bitstr bytes) = 8 * length bytes.
Proof.
  unfold bitstr. induction bytes as [|b l IH]; [reflexivity|].
  change (concat (map (bits_of 8) (b :: l))) with (bits_of 8 b ++ concat (map (bits_of 8) l)).
  rewrite app_length, bits_of_length, IH. cbn [length]. lia.
Qed.

Lemma skipn_firstn_swap {A} (l : list A) r n : skipn r (firstn (r + n) l) = firstn n (skipn r l).
Proof.
  revert l. induction r as [|r IH]; intros l; [reflexivity|].
  destruct l as [|x l]; [simpl; now rewrite firstn_nil|]. simpl. apply IH.
Qed.

Lemma skipn_add {A} (l : list A) a b : skipn (a + b) l = skipn b (skipn a l).
Proof.
  revert l. induction a as [|a IH]; intros l; [reflexivity|].
  destruct l as [|x l]; [simpl; now rewrite skipn_nil|]. simpl. apply IH.
Qed.

(** the bits a chunk extracts from one byte *)
Lemma chunk_of_byte byte r n : r + n <= 8 ->
  bits_of n (((byte / 2 ^ N.of_nat (8 - r - n)) mod 2 ^ N.of_nat n)%N) = firstn n (skipn r (bits_of 8 byte)).
Proof.
  intros H. rewrite bits_of_mod.
  replace (8 - r - n) with (8 - (r + n)) by lia.
  pose proof (@bits_of_mask (r + n) r (byte / 2 ^ N.of_nat (8 - (r + n)))%N) as Hm.
  replace (r + n - r) with n in Hm by lia. rewrite bits_of_mod in Hm. rewrite Hm by lia.
  rewrite bits_of_shiftr by lia. apply skipn_firstn_swap.
Qed.

(** skipping [8q + r] bits of a byte string lands [r] bits into byte [q] *)
Lemma skipn_bitstr bytes q r byte : nth_error bytes q = Some byte -> r < 8 ->
  skipn (8 * q + r) (bitstr bytes) = skipn r (bits_of 8 byte) ++ bitstr (skipn (S q) bytes).
Proof.
  revert q. induction bytes as [|b l IH]; intros q Hn Hr; [destruct q; discriminate|].
  destruct q as [|q].
  - inversion Hn; subst. change (bitstr (byte :: l)) with (bits_of 8 byte ++ bitstr l).
    replace (8 * 0 + r) with r by lia.
    rewrite skipn_app. rewrite bits_of_length. replace (r - 8) with 0 by lia. reflexivity.
  - change (bitstr (b :: l)) with (bits_of 8 b ++ bitstr l).
    replace (8 * S q + r) with (8 + (8 * q + r)) by lia.
    rewrite skipn_app, bits_of_length.
    rewrite (skipn_all2 (bits_of 8 b)) by (rewrite bits_of_length; lia). rewrite app_nil_l.
    replace (8 + (8 * q + r) - 8) with (8 * q + r) by lia.
    change (skipn (S (S q)) (b :: l)) with (skipn (S q) l).
    apply IH; assumption.
Qed.

Theorem bit_chunks_spec bytes : forall fuel lo hi, lo <= hi -> hi <= 8 * length bytes -> hi - lo < fuel ->
  exists cs, bit_chunks fuel bytes lo hi = Ok cs /\
    concat (map chunk_bits cs) = firstn (hi - lo) (skipn lo (bitstr bytes)) /\
    Forall (fun c : N * nat => 1 <= snd c <= 8 /\ (fst c < 2 ^ N.of_nat (snd c))%N) cs.
Proof.
  induction fuel as [|fuel IH]; intros lo hi Hle Hhi Hf; [lia|].
  cbn [bit_chunks]. destruct (Nat.ltb_spec lo hi) as [Hlt|Hge].
  - set (q := lo / 8). set (r := lo mod 8).
    assert (Hlo : lo = 8 * q + r) by (unfold q, r; apply Nat.div_mod; lia).
    assert (Hr : r < 8) by (unfold r; apply Nat.mod_upper_bound; lia).
    destruct (nth_error bytes q) as [byte|] eqn:Eb; [|apply nth_error_None in Eb; lia].
    set (n := Nat.min (hi - lo) (8 - r)).
    assert (Hn : 1 <= n <= 8 - r) by (unfold n; lia).
    destruct (IH (lo + n) hi) as (cs & Hcs & Hbits & Hall); [unfold n; lia|assumption|unfold n; lia|].
    rewrite Hcs. cbn [bind]. eexists. split; [reflexivity|]. split.
    + cbn [map concat]. unfold chunk_bits at 1. cbn [fst snd].
      fold r. fold n. rewrite chunk_of_byte by lia. rewrite Hbits.
      (* split the range after the first chunk *)
      pose proof (@skipn_bitstr bytes q r byte Eb Hr) as Hsk0. rewrite <- Hlo in Hsk0.
      assert (Hsk : skipn (lo + n) (bitstr bytes) = skipn n (skipn r (bits_of 8 byte) ++ bitstr (skipn (S q) bytes))).
      { rewrite <- Hsk0. apply skipn_add. }
      rewrite Hsk, Hsk0.
      replace (hi - lo) with (n + (hi - (lo + n))) by (unfold n; lia).
      rewrite firstn_app. rewrite skipn_length, bits_of_length.
      destruct (Nat.eq_dec n (8 - r)) as [Hfull|Hpart].
      * (* the chunk runs to the end of the byte *)
        assert (Hlen8 : length (skipn r (bits_of 8 byte)) = n) by (rewrite skipn_length, bits_of_length; lia).
        rewrite !(firstn_all2 (skipn r (bits_of 8 byte))) by lia.
        rewrite skipn_app, Hlen8.
        rewrite (skipn_all2 (skipn r (bits_of 8 byte))) by lia.
        rewrite app_nil_l. replace (n - n) with 0 by lia. cbn [skipn].
        f_equal. f_equal. lia.
      * (* the range ends inside this byte: nothing follows *)
        assert (hi - lo = n) by (unfold n in *; lia).
        replace (hi - (lo + n)) with 0 by lia. rewrite Nat.add_0_r.
        replace (n - (8 - r)) with 0 by lia. cbn [firstn]. rewrite !app_nil_r. reflexivity.
    + constructor; [|assumption]. cbn [fst snd]. fold r. fold n. split; [lia|].
      apply N.mod_upper_bound. apply N.pow_nonzero. lia.
  - exists []. split; [reflexivity|]. split; [|constructor].
    replace (hi - lo) with 0 by lia. reflexivity.
Qed.
